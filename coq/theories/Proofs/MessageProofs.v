(** Lemmas about message framing, parsing and the stream readers. *)
From RepeV Require Import Model.Message Proofs.HeaderProofs.
From Coq Require Import ZifyBool ZifyN ZifyNat.
Ltac Zify.zify_post_hook ::= Z.div_mod_to_equations.

Lemma bytes_eqb_refl a : bytes_eqb a a = true.
Proof. induction a as [|x a IH]; cbn; [reflexivity|]. now rewrite N.eqb_refl. Qed.

Lemma bytes_eqb_eq a b : bytes_eqb a b = true <-> a = b.
Proof.
  split; [|intros ->; apply bytes_eqb_refl].
  revert b; induction a as [|x a IH]; intros [|y b]; cbn; try discriminate; try reflexivity.
  intros H. apply andb_true_iff in H as [H1 H2]. apply N.eqb_eq in H1. f_equal; auto.
Qed.

Lemma header_eqb_eq a b : header_eqb a b = true <-> a = b.
Proof.
  split.
  - unfold header_eqb. intros H. destruct a, b; cbn in *. f_equal; lia.
  - intros ->. unfold header_eqb. now rewrite !N.eqb_refl.
Qed.

Lemma message_eqb_eq a b : message_eqb a b = true <-> a = b.
Proof.
  unfold message_eqb. split.
  - intros H. apply andb_true_iff in H as [H H3]. apply andb_true_iff in H as [H1 H2].
    apply header_eqb_eq in H1. apply bytes_eqb_eq in H2, H3. destruct a, b; cbn in *; now subst.
  - intros ->. now rewrite (proj2 (header_eqb_eq (m_hdr b) (m_hdr b)) eq_refl), !bytes_eqb_refl.
Qed.

(** ** emission routes *)

Lemma to_vec_length m : length (to_vec m) = (48 + length (m_query m) + length (m_body m))%nat.
Proof. unfold to_vec. rewrite !app_length, encode_length. lia. Qed.

Lemma concat_nonempty_chunk c : concat (nonempty_chunk c) = c.
Proof. destruct c; [reflexivity|]. unfold nonempty_chunk, concat. apply app_nil_r. Qed.

Lemma write_chunks_concat m : concat (write_chunks m) = to_vec m.
Proof.
  unfold write_chunks, to_vec. rewrite !concat_app, !concat_nonempty_chunk.
  cbn [concat]. now rewrite app_nil_r.
Qed.

Lemma overwrite_mid (x y z src : list byte) off :
  length x = off -> length src = length y -> overwrite (x ++ y ++ z) off src = x ++ src ++ z.
Proof.
  intros Hx Hy. unfold overwrite. subst off.
  rewrite firstn_app, firstn_all, Nat.sub_diag, firstn_O, app_nil_r.
  f_equal. f_equal.
  rewrite skipn_app. rewrite skipn_all2 by lia. cbn [app].
  replace (length x + length src - length x)%nat with (length y) by lia.
  rewrite skipn_app, skipn_all, Nat.sub_diag. reflexivity.
Qed.

Lemma into_wire_bytes_eq cap m : into_wire_bytes cap m = to_vec m.
Proof.
  unfold into_wire_bytes, to_vec.
  destruct (N.of_nat (48 + length (m_query m) + length (m_body m)) <=? cap); [|reflexivity].
  set (q := m_query m). set (b := m_body m). set (E := encode (m_hdr m)).
  set (prefix := (48 + length q)%nat).
  set (v1 := b ++ repeat 0 (prefix + length b - length b)).
  assert (Hv1 : length v1 = (prefix + length b)%nat).
  { unfold v1. rewrite app_length, repeat_length. lia. }
  set (P := firstn prefix v1).
  assert (HP : length P = prefix) by (unfold P; rewrite firstn_length; lia).
  assert (Hv2 : (if (0 <? length b)%nat then copy_within v1 0 (length b) prefix else v1) = P ++ b).
  { destruct (0 <? length b)%nat eqn:Eb.
    - unfold copy_within.
      assert (slice v1 0 (length b) = b) as ->.
      { unfold v1. rewrite slice_app_l by lia. now apply slice_all. }
      rewrite <- (firstn_skipn prefix v1) at 1. fold P.
      rewrite <- (app_nil_r (skipn prefix v1)).
      rewrite overwrite_mid; [now rewrite app_nil_r|assumption|].
      rewrite skipn_length. lia.
    - apply Nat.ltb_ge in Eb. assert (length b = 0)%nat as Hb0 by lia.
      destruct b; [|discriminate]. rewrite app_nil_r.
      unfold P. rewrite firstn_all2; [reflexivity|lia]. }
  rewrite Hv2.
  assert (HE : length E = 48%nat) by apply encode_length.
  assert (Hv3 : overwrite (P ++ b) 0 E = E ++ skipn 48 P ++ b).
  { rewrite <- (firstn_skipn 48 P) at 1. rewrite <- app_assoc.
    change (firstn 48 P ++ skipn 48 P ++ b) with ([] ++ firstn 48 P ++ skipn 48 P ++ b).
    rewrite overwrite_mid; [reflexivity|reflexivity|].
    rewrite firstn_length. lia. }
  rewrite Hv3.
  assert (Hq : length (skipn 48 P) = length q) by (rewrite skipn_length; lia).
  destruct q as [|q0 q'] eqn:Eq.
  - destruct (skipn 48 P); [reflexivity|discriminate].
  - rewrite overwrite_mid; [reflexivity|assumption|now rewrite Hq].
Qed.

Lemma streaming_concat h q body chunks :
  concat chunks = body ->
  concat (write_streaming_chunks h q (lenN body) chunks)
  = to_vec (mkMessage (patch_lengths h (lenN q) (lenN body)) q body).
Proof.
  intros Hc. unfold write_streaming_chunks, to_vec.
  rewrite !concat_app, concat_nonempty_chunk, Hc. cbn [concat]. now rewrite app_nil_r.
Qed.

(** the frame a response is sent as, on every server path *)
Definition framed (resp : message) (req_q : list byte) : message :=
  let q := echo_query (m_query resp) req_q in
  mkMessage (patch_lengths (m_hdr resp) (lenN q) (lenN (m_body resp))) q (m_body resp).

Lemma server_frame_concat resp req_q :
  concat (server_frame resp req_q) = to_vec (framed resp req_q).
Proof.
  unfold server_frame, framed. apply streaming_concat. apply concat_nonempty_chunk.
Qed.

Lemma patch_lengths_id h :
  h_length h = HEADER_SIZE + h_qlen h + h_blen h -> patch_lengths h (h_qlen h) (h_blen h) = h.
Proof. intros H. unfold patch_lengths. rewrite <- H. now destruct h. Qed.

Lemma msg_ok_parts m : msg_ok m = true ->
  hdr_ok (m_hdr m) = true /\ bytes_ok (m_query m) = true /\ bytes_ok (m_body m) = true /\
  h_spec (m_hdr m) = REPE_SPEC /\ h_qlen (m_hdr m) = lenN (m_query m) /\
  h_blen (m_hdr m) = lenN (m_body m) /\
  h_length (m_hdr m) = HEADER_SIZE + lenN (m_query m) + lenN (m_body m).
Proof.
  unfold msg_ok. intros H.
  apply andb_true_iff in H as [H H7]. apply andb_true_iff in H as [H H6].
  apply andb_true_iff in H as [H H5]. apply andb_true_iff in H as [H H4].
  apply andb_true_iff in H as [H H3]. apply andb_true_iff in H as [H1 H2].
  apply N.eqb_eq in H4, H5, H6, H7. repeat split; assumption.
Qed.

Definition lens_ok (m : message) : Prop :=
  h_qlen (m_hdr m) = lenN (m_query m) /\ h_blen (m_hdr m) = lenN (m_body m) /\
  h_length (m_hdr m) = HEADER_SIZE + lenN (m_query m) + lenN (m_body m).

(** WebSocket stamping frames the same message as the TCP echo, for any
    response whose own lengths are consistent (what [build] guarantees) *)
Lemma stamp_eq_framed resp req_q :
  lens_ok resp -> stamp resp req_q = framed resp req_q.
Proof.
  intros (Hq & Hb & Hl).
  unfold stamp, framed, echo_query.
  destruct resp as [h q b]. cbn [m_hdr m_query m_body] in *.
  destruct req_q as [|r req_q], q as [|x qq].
  - rewrite <- Hq, <- Hb, patch_lengths_id; [reflexivity|]. now rewrite Hl, Hq, Hb.
  - rewrite <- Hq, <- Hb, patch_lengths_id; [reflexivity|]. now rewrite Hl, Hq, Hb.
  - now rewrite Hb.
  - rewrite <- Hq, <- Hb, patch_lengths_id; [reflexivity|]. now rewrite Hl, Hq, Hb.
Qed.

Lemma msg_ok_lens m : msg_ok m = true -> lens_ok m.
Proof. intros H. apply msg_ok_parts in H as (_ & _ & _ & _ & Hq & Hb & Hl). now repeat split. Qed.

Lemma build_ok b :
  bytes_ok (b_query b) = true -> bytes_ok (b_body b) = true ->
  b_id b < two64 -> b_qfmt b < two16 -> b_bfmt b < two16 -> b_ec b < two32 ->
  HEADER_SIZE + lenN (b_query b) + lenN (b_body b) < two64 ->
  msg_ok (build b) = true.
Proof.
  intros Hq Hb Hid Hqf Hbf Hec Hlen. unfold msg_ok, build, hdr_ok.
  cbn [m_hdr m_query m_body h_length h_spec h_version h_notify h_reserved h_id h_qlen h_blen
       h_qfmt h_bfmt h_ec].
  rewrite Hq, Hb, !N.eqb_refl. unfold REPE_SPEC, REPE_VERSION, two8, two16, two32, lenN in *.
  destruct (b_notify b); lia.
Qed.

(** ** parsing *)

Lemma add64_ok a b : a + b < two64 -> add64 a b = Ok (a + b).
Proof. intros H. unfold add64. now replace (a + b <? two64) with true by lia. Qed.

Lemma slice_chk_ok {A} (bs : list A) a b :
  a <= b -> b <= lenN bs -> slice_chk bs a b = Ok (slice bs (N.to_nat a) (N.to_nat b)).
Proof. intros H1 H2. unfold slice_chk, lenN in *. now replace ((a <=? b) && (b <=? N.of_nat (length bs))) with true by lia. Qed.


Lemma firstn_48_encode_app h rest : firstn 48 (encode h ++ rest) = encode h.
Proof.
  rewrite firstn_app, encode_length, Nat.sub_diag, firstn_O, app_nil_r.
  apply firstn_all2. rewrite encode_length. lia.
Qed.

(** [from_slice] in closed form: no crash branch survives, and [Message::new]'s
    re-check never fails after a successful decode. *)
Definition parse_spec (bs : list byte) : outcome message :=
  if lenN bs <? HEADER_SIZE then Err EHeaderLen else
  match decode (firstn 48 bs) with
  | Ok h =>
      if lenN bs <? h_length h then Err EBufSmall
      else Ok (mkMessage h (slice bs 48 (48 + N.to_nat (h_qlen h)))
                 (slice bs (48 + N.to_nat (h_qlen h)) (48 + N.to_nat (h_qlen h) + N.to_nat (h_blen h))))
  | Err e => Err e
  | Panic => Panic
  | Abort => Abort
  end.

Lemma lenN_slice {A} (bs : list A) a b : (a <= b)%nat -> (b <= length bs)%nat ->
  lenN (slice bs a b) = N.of_nat (b - a).
Proof. intros H1 H2. unfold lenN. now rewrite slice_length. Qed.

Lemma from_slice_closed bs : from_slice bs = parse_spec bs.
Proof.
  unfold from_slice, parse_spec.
  destruct (lenN bs <? HEADER_SIZE) eqn:E0; [reflexivity|].
  destruct (decode (firstn 48 bs)) as [h|e| |] eqn:D; cbn [bind]; try reflexivity.
  apply decode_ok_spec in D as (_ & _ & _ & Hl & Hlt).
  unfold HEADER_SIZE in *.
  rewrite (add64_ok 48 (h_qlen h)) by lia. cbn [bind].
  rewrite (add64_ok (48 + h_qlen h) (h_blen h)) by lia. cbn [bind].
  rewrite <- Hl.
  destruct (lenN bs <? h_length h) eqn:E1; [reflexivity|].
  unfold lenN in *.
  rewrite slice_chk_ok by (unfold lenN; lia). cbn [bind].
  rewrite slice_chk_ok by (unfold lenN; lia). cbn [bind].
  unfold msg_new.
  replace (N.to_nat 48) with 48%nat by reflexivity.
  replace (N.to_nat (48 + h_qlen h)) with (48 + N.to_nat (h_qlen h))%nat by lia.
  replace (N.to_nat (h_length h)) with (48 + N.to_nat (h_qlen h) + N.to_nat (h_blen h))%nat by lia.
  rewrite !lenN_slice by lia.
  replace (h_qlen h =? _) with true by lia.
  replace (h_blen h =? _) with true by lia.
  cbn [negb orb].
  replace (h_length h =? _) with true by (unfold HEADER_SIZE; lia).
  cbn [negb]. reflexivity.
Qed.

Lemma view_from_slice_closed bs : view_from_slice bs = parse_spec bs.
Proof.
  unfold view_from_slice, parse_spec.
  destruct (lenN bs <? HEADER_SIZE) eqn:E0; [reflexivity|].
  destruct (decode (firstn 48 bs)) as [h|e| |] eqn:D; cbn [bind]; try reflexivity.
  apply decode_ok_spec in D as (_ & _ & _ & Hl & Hlt).
  unfold HEADER_SIZE in *.
  rewrite (add64_ok 48 (h_qlen h)) by lia. cbn [bind].
  rewrite (add64_ok (48 + h_qlen h) (h_blen h)) by lia. cbn [bind].
  rewrite <- Hl.
  destruct (lenN bs <? h_length h) eqn:E1; [reflexivity|].
  unfold lenN in *.
  rewrite slice_chk_ok by (unfold lenN; lia). cbn [bind].
  rewrite slice_chk_ok by (unfold lenN; lia). cbn [bind].
  replace (N.to_nat 48) with 48%nat by reflexivity.
  replace (N.to_nat (48 + h_qlen h)) with (48 + N.to_nat (h_qlen h))%nat by lia.
  replace (N.to_nat (h_length h)) with (48 + N.to_nat (h_qlen h) + N.to_nat (h_blen h))%nat by lia.
  reflexivity.
Qed.

(** the owned and the borrowing parser agree on every input *)
Lemma view_eq_owned bs : view_from_slice bs = from_slice bs.
Proof. now rewrite view_from_slice_closed, from_slice_closed. Qed.

Lemma parse_spec_total bs : crashes (parse_spec bs) = false.
Proof.
  unfold parse_spec. destruct (lenN bs <? HEADER_SIZE); [reflexivity|].
  pose proof (decode_total (firstn 48 bs)) as T.
  destruct (decode (firstn 48 bs)); try discriminate; try reflexivity.
  destruct (lenN bs <? h_length a); reflexivity.
Qed.

(** C02: no byte string crashes a slice parser *)
Lemma from_slice_total bs : crashes (from_slice bs) = false.
Proof. rewrite from_slice_closed. apply parse_spec_total. Qed.

Lemma view_from_slice_total bs : crashes (view_from_slice bs) = false.
Proof. rewrite view_from_slice_closed. apply parse_spec_total. Qed.

Lemma bind_crashes {A B} (x : outcome A) (f : A -> outcome B) :
  crashes x = false -> (forall a, crashes (f a) = false) -> crashes (bind x f) = false.
Proof. destruct x; cbn; intros H Hf; auto. Qed.

Lemma from_slice_exact_total bs : crashes (from_slice_exact bs) = false.
Proof.
  unfold from_slice_exact. apply bind_crashes; [apply from_slice_total|].
  intros m. destruct (negb _); reflexivity.
Qed.

Lemma view_from_slice_exact_total bs : crashes (view_from_slice_exact bs) = false.
Proof.
  unfold view_from_slice_exact. apply bind_crashes; [apply view_from_slice_total|].
  intros m. destruct (negb _); reflexivity.
Qed.

(** What a successful parse means: magic, exact sum in N, whole frame present,
    query and body are exactly the corresponding input bytes. *)
Definition parse_ok (bs : list byte) (m : message) : Prop :=
  decode_spec (firstn 48 bs) (m_hdr m) /\
  h_length (m_hdr m) <= lenN bs /\
  m_query m = slice bs 48 (48 + N.to_nat (h_qlen (m_hdr m))) /\
  m_body m = slice bs (48 + N.to_nat (h_qlen (m_hdr m)))
                      (48 + N.to_nat (h_qlen (m_hdr m)) + N.to_nat (h_blen (m_hdr m))).

Lemma from_slice_ok bs m : from_slice bs = Ok m -> parse_ok bs m.
Proof.
  rewrite from_slice_closed. unfold parse_spec, parse_ok.
  destruct (lenN bs <? HEADER_SIZE) eqn:E0; [discriminate|].
  destruct (decode (firstn 48 bs)) as [h|e| |] eqn:D; try discriminate.
  destruct (lenN bs <? h_length h) eqn:E1; [discriminate|].
  intros H. injection H as <-. cbn [m_hdr m_query m_body].
  apply decode_ok_spec in D. repeat split; try reflexivity; try apply D. lia.
Qed.

Lemma from_slice_complete bs m : bytes_ok bs = true -> parse_ok bs m -> from_slice bs = Ok m.
Proof.
  intros Hb (D & Hlen & Hq & Hbd).
  rewrite from_slice_closed. unfold parse_spec.
  pose proof D as (H48 & _ & _ & Hl & _).
  rewrite firstn_length in H48.
  replace (lenN bs <? HEADER_SIZE) with false by (unfold lenN, HEADER_SIZE; lia).
  rewrite (decode_spec_ok _ _ (bytes_ok_firstn 48 bs Hb) D).
  replace (lenN bs <? h_length (m_hdr m)) with false by lia.
  destruct m as [h q b]. cbn [m_hdr m_query m_body] in *. now subst.
Qed.

(** one encoding for whole frames: an accepted buffer starts with the
    serialization of the parsed message *)
Lemma from_slice_to_vec bs m :
  bytes_ok bs = true -> from_slice bs = Ok m ->
  firstn (N.to_nat (h_length (m_hdr m))) bs = to_vec m.
Proof.
  intros Hb H. apply from_slice_ok in H as (D & Hlen & Hq & Hbd).
  pose proof D as (H48 & _ & _ & Hl & _). rewrite firstn_length in H48.
  unfold to_vec, lenN, HEADER_SIZE in *.
  rewrite <- (encode_decode (firstn 48 bs) (m_hdr m)); [|now apply bytes_ok_firstn|now apply decode_spec_ok; [apply bytes_ok_firstn|]].
  rewrite firstn_firstn. replace (Nat.min 48 48) with 48%nat by reflexivity.
  rewrite Hq, Hbd, <- (slice_0_firstn bs 48).
  rewrite slice_cat by lia. rewrite slice_cat by lia.
  rewrite slice_0_firstn. f_equal. lia.
Qed.

(** round trip: parsing the serialization (followed by anything) returns the
    identical message *)
Lemma from_slice_round_trip m rest :
  msg_ok m = true -> bytes_ok rest = true -> from_slice (to_vec m ++ rest) = Ok m.
Proof.
  intros Hok Hrest.
  pose proof (msg_ok_parts m Hok) as (Hh & Hq & Hb & Hs & Hql & Hbl & Hl).
  apply from_slice_complete.
  - unfold to_vec. rewrite !bytes_ok_app, encode_ok, Hq, Hb, Hrest. reflexivity.
  - unfold parse_ok, to_vec.
    assert (firstn 48 ((encode (m_hdr m) ++ m_query m ++ m_body m) ++ rest) = encode (m_hdr m)) as F.
    { rewrite <- app_assoc. apply firstn_48_encode_app. }
    rewrite F. split; [|split; [|split]].
    + apply decode_ok_spec. rewrite <- (app_nil_r (encode (m_hdr m))).
      apply decode_encode; [assumption|assumption|]. now rewrite Hl, Hql, Hbl.
    + rewrite Hl. unfold lenN. rewrite !app_length, encode_length. unfold HEADER_SIZE. lia.
    + rewrite <- !app_assoc. rewrite slice_app_r by (rewrite encode_length; lia).
      rewrite encode_length. rewrite slice_app_l by (unfold lenN in Hql; lia).
      symmetry. apply slice_all. unfold lenN in Hql; lia.
    + rewrite <- !app_assoc. rewrite slice_app_r by (rewrite encode_length; lia).
      rewrite encode_length. rewrite slice_app_r by (unfold lenN in Hql; lia).
      rewrite slice_app_l by (unfold lenN in *; lia).
      symmetry. unfold lenN in *.
      replace (48 + N.to_nat (h_qlen (m_hdr m)) - 48 - length (m_query m))%nat with 0%nat by lia.
      apply slice_all. lia.
Qed.

Lemma from_slice_exact_round_trip m :
  msg_ok m = true -> from_slice_exact (to_vec m) = Ok m.
Proof.
  intros Hok. unfold from_slice_exact.
  rewrite <- (app_nil_r (to_vec m)) at 1. rewrite from_slice_round_trip by auto. cbn [bind].
  unfold lenN. rewrite to_vec_length. unfold HEADER_SIZE.
  replace (N.of_nat (48 + length (m_query m) + length (m_body m)) =? _) with true by lia.
  reflexivity.
Qed.

(** exact variants reject trailing bytes *)
Lemma from_slice_exact_trailing m rest :
  msg_ok m = true -> bytes_ok rest = true -> rest <> [] ->
  from_slice_exact (to_vec m ++ rest) = Err ELenMismatch.
Proof.
  intros Hok Hr Hne. unfold from_slice_exact.
  rewrite from_slice_round_trip by auto. cbn [bind].
  unfold lenN. rewrite app_length, to_vec_length. unfold HEADER_SIZE.
  destruct rest; [contradiction|]. cbn [length].
  replace (N.of_nat _ =? _) with false by lia. reflexivity.
Qed.

Lemma from_slice_exact_ok bs m :
  from_slice_exact bs = Ok m -> parse_ok bs m /\ lenN bs = h_length (m_hdr m).
Proof.
  unfold from_slice_exact. intros H. apply bind_ok in H as (m' & Hm & H).
  destruct (negb _) eqn:E; [discriminate|]. injection H as <-.
  pose proof (from_slice_ok _ _ Hm) as P. split; [assumption|].
  destruct P as (D & Hlen & Hq & Hb). destruct D as (H48 & _ & _ & Hl & _).
  rewrite firstn_length in H48.
  rewrite Hq, Hb in E. rewrite !lenN_slice in E by (unfold lenN, HEADER_SIZE in *; lia).
  unfold lenN, HEADER_SIZE in *. lia.
Qed.

(** every proper prefix of a valid frame is rejected (with an error) *)
Lemma from_slice_truncated m n :
  msg_ok m = true -> (n < length (to_vec m))%nat ->
  exists e, from_slice (firstn n (to_vec m)) = Err e.
Proof.
  intros Hok Hn.
  pose proof (from_slice_total (firstn n (to_vec m))) as T.
  destruct (from_slice (firstn n (to_vec m))) as [m'|e| |] eqn:F; try discriminate; [|eauto].
  exfalso.
  pose proof (msg_ok_parts m Hok) as (Hh & Hq & Hb & Hs & Hql & Hbl & Hl).
  apply from_slice_ok in F as (D & Hlen & _).
  destruct D as (H48 & Hf & _ & Hl' & _).
  rewrite firstn_length, firstn_length in H48.
  assert (48 <= n)%nat by lia.
  (* the header of the prefix is the header of the frame *)
  assert (firstn 48 (firstn n (to_vec m)) = encode (m_hdr m)) as F48.
  { rewrite firstn_firstn. replace (Nat.min 48 n) with 48%nat by lia.
    unfold to_vec. apply firstn_48_encode_app. }
  rewrite F48 in Hf.
  assert (m_hdr m' = m_hdr m) as Hm.
  { rewrite Hf. now apply fields_of_encode. }
  rewrite Hm in Hlen. unfold lenN in Hlen. rewrite firstn_length in Hlen.
  rewrite to_vec_length in *. unfold lenN, HEADER_SIZE in *. lia.
Qed.

(** ** stream readers *)
Section ReaderProofs.
  Variable can_alloc : N -> bool.

  Lemma read_exact_total src n : crashes (read_exact src n) = false.
  Proof. unfold read_exact. destruct (lenN src <? n); reflexivity. Qed.

  Lemma msg_new_total h q b : crashes (msg_new h q b) = false.
  Proof. unfold msg_new. destruct (_ || _); [reflexivity|]. destruct (negb _); reflexivity. Qed.

  (** C02 for the readers: whatever the stream and whatever the allocator
      answers, the reader returns a value or an error *)
  Lemma read_message_total src : crashes (read_message can_alloc src) = false.
  Proof.
    unfold read_message.
    apply bind_crashes; [apply read_exact_total|]. intros [hb s1].
    apply bind_crashes; [apply decode_total|]. intros h.
    apply bind_crashes; [unfold alloc; destruct (can_alloc _); reflexivity|]. intros _.
    apply bind_crashes; [destruct (h_qlen h =? 0); [reflexivity|apply read_exact_total]|]. intros [q s2].
    apply bind_crashes; [unfold alloc; destruct (can_alloc _); reflexivity|]. intros _.
    apply bind_crashes; [destruct (h_blen h =? 0); [reflexivity|apply read_exact_total]|]. intros [b s3].
    apply bind_crashes; [apply msg_new_total|]. reflexivity.
  Qed.

  Lemma read_message_into_total src : crashes (read_message_into can_alloc src) = false.
  Proof.
    unfold read_message_into.
    apply bind_crashes; [apply read_exact_total|]. intros [hb s1].
    apply bind_crashes; [apply decode_total|]. intros h.
    apply bind_crashes; [unfold alloc; destruct (can_alloc _); reflexivity|]. intros _.
    apply bind_crashes; [apply read_exact_total|]. intros [r s2]. reflexivity.
  Qed.

  Lemma read_exact_app a rest : read_exact (a ++ rest) (lenN a) = Ok (a, rest).
  Proof.
    unfold read_exact, lenN. rewrite app_length.
    replace (N.of_nat (length a + length rest) <? N.of_nat (length a)) with false by lia.
    rewrite Nat2N.id. rewrite firstn_app, Nat.sub_diag, firstn_all, firstn_O, app_nil_r.
    rewrite skipn_app, Nat.sub_diag, skipn_all. reflexivity.
  Qed.

  (** a whole frame on the stream is read back as the identical message and
      the stream is left exactly after it *)
  Lemma read_message_round_trip m rest :
    msg_ok m = true ->
    can_alloc (lenN (m_query m)) = true -> can_alloc (lenN (m_body m)) = true ->
    read_message can_alloc (to_vec m ++ rest) = Ok (m, rest).
  Proof.
    intros Hok Ha1 Ha2.
    pose proof (msg_ok_parts m Hok) as (Hh & Hq & Hb & Hs & Hql & Hbl & Hl).
    unfold read_message, to_vec. rewrite <- !app_assoc.
    replace HEADER_SIZE with (lenN (encode (m_hdr m))) by (unfold lenN; now rewrite encode_length).
    rewrite read_exact_app. cbn [bind].
    rewrite <- (app_nil_r (encode (m_hdr m))) at 1.
    rewrite decode_encode by (try assumption; now rewrite Hl, Hql, Hbl). cbn [bind].
    unfold alloc. rewrite Hql, Ha1. cbn [bind].
    assert ((if lenN (m_query m) =? 0 then Ok ([], m_query m ++ m_body m ++ rest)
             else read_exact (m_query m ++ m_body m ++ rest) (lenN (m_query m)))
            = Ok (m_query m, m_body m ++ rest)) as ->.
    { destruct (m_query m) as [|x q] eqn:Eq; [reflexivity|].
      replace (lenN (x :: q) =? 0) with false by (unfold lenN; cbn [length]; lia).
      apply read_exact_app. }
    cbn [bind]. rewrite Hbl, Ha2. cbn [bind].
    assert ((if lenN (m_body m) =? 0 then Ok ([], m_body m ++ rest)
             else read_exact (m_body m ++ rest) (lenN (m_body m)))
            = Ok (m_body m, rest)) as ->.
    { destruct (m_body m) as [|x b] eqn:Eb; [reflexivity|].
      replace (lenN (x :: b) =? 0) with false by (unfold lenN; cbn [length]; lia).
      apply read_exact_app. }
    cbn [bind]. unfold msg_new. rewrite Hql, Hbl, !N.eqb_refl. cbn [negb orb].
    rewrite Hl, N.eqb_refl. cbn [negb bind]. now destruct m.
  Qed.

  Lemma read_message_into_round_trip m rest :
    msg_ok m = true -> can_alloc (h_length (m_hdr m)) = true ->
    read_message_into can_alloc (to_vec m ++ rest) = Ok (to_vec m, rest).
  Proof.
    intros Hok Ha.
    pose proof (msg_ok_parts m Hok) as (Hh & Hq & Hb & Hs & Hql & Hbl & Hl).
    unfold read_message_into, to_vec. rewrite <- !app_assoc.
    replace HEADER_SIZE with (lenN (encode (m_hdr m))) at 1 by (unfold lenN; now rewrite encode_length).
    rewrite read_exact_app. cbn [bind].
    rewrite <- (app_nil_r (encode (m_hdr m))) at 1.
    rewrite decode_encode by (try assumption; now rewrite Hl, Hql, Hbl). cbn [bind].
    unfold alloc. rewrite Ha. cbn [bind].
    replace (h_length (m_hdr m) - HEADER_SIZE) with (lenN (m_query m ++ m_body m))
      by (rewrite Hl; unfold lenN, HEADER_SIZE; rewrite app_length; lia).
    rewrite (app_assoc (m_query m)), read_exact_app. cbn [bind]. reflexivity.
  Qed.

  Lemma read_exact_ok src n a r :
    read_exact src n = Ok (a, r) -> src = a ++ r /\ lenN a = n.
  Proof.
    unfold read_exact. destruct (lenN src <? n) eqn:E; [discriminate|].
    intros H. injection H as Ha Hr. subst a r. split; [now rewrite firstn_skipn|].
    unfold lenN in *. rewrite firstn_length. lia.
  Qed.

  Lemma read_opt_ok src n a r :
    (if n =? 0 then Ok ([], src) else read_exact src n) = Ok (a, r) -> src = a ++ r /\ lenN a = n.
  Proof.
    destruct (n =? 0) eqn:E; [|apply read_exact_ok].
    intros H. injection H as Ha Hr. subst a r. split; [reflexivity|]. unfold lenN. cbn [length]. lia.
  Qed.

  (** what a successful read means: the stream starts with exactly the
      serialization of the returned message, and the rest is untouched *)
  Lemma read_message_ok src m r :
    bytes_ok src = true -> read_message can_alloc src = Ok (m, r) ->
    src = to_vec m ++ r /\ msg_ok m = true.
  Proof.
    intros Hb F. unfold read_message in F.
    apply bind_ok in F as ([hb s1] & R0 & F).
    apply read_exact_ok in R0 as [-> Lhb].
    apply bind_ok in F as (h & D & F).
    apply bind_ok in F as (_ & _ & F).
    apply bind_ok in F as ([q s2] & R1 & F).
    apply read_opt_ok in R1 as [-> Lq].
    apply bind_ok in F as (_ & _ & F).
    apply bind_ok in F as ([b s3] & R2 & F).
    apply read_opt_ok in R2 as [-> Lb].
    apply bind_ok in F as (m0 & M & F). injection F as <- <-.
    unfold msg_new in M.
    replace (h_qlen h =? lenN q) with true in M by lia.
    replace (h_blen h =? lenN b) with true in M by lia.
    cbn [negb orb] in M.
    destruct (h_length h =? HEADER_SIZE + lenN q + lenN b) eqn:E2; cbn [negb] in M; [|discriminate].
    injection M as <-.
    rewrite !bytes_ok_app in Hb.
    apply andb_true_iff in Hb as [Hb1 Hb]. apply andb_true_iff in Hb as [Hb2 Hb].
    apply andb_true_iff in Hb as [Hb3 Hb4].
    assert (length hb = 48%nat) as L48 by (unfold lenN, HEADER_SIZE in Lhb; lia).
    pose proof (encode_decode hb h Hb1 D) as Henc. rewrite firstn_all2 in Henc by lia.
    split.
    - unfold to_vec. cbn [m_hdr m_query m_body]. rewrite Henc, <- !app_assoc. reflexivity.
    - unfold msg_ok. cbn [m_hdr m_query m_body].
      rewrite (decode_hdr_ok hb h Hb1 D), Hb2, Hb3.
      apply decode_ok_spec in D as (_ & _ & Hs & _). rewrite Hs.
      unfold REPE_SPEC in *. lia.
  Qed.

  (** a stream that ends before the frame does yields an error *)
  Lemma read_message_truncated m n :
    msg_ok m = true -> (n < length (to_vec m))%nat ->
    exists e, read_message can_alloc (firstn n (to_vec m)) = Err e.
  Proof.
    intros Hok Hn.
    pose proof (read_message_total (firstn n (to_vec m))) as T.
    destruct (read_message can_alloc (firstn n (to_vec m))) as [[m' r]|e| |] eqn:F;
      try discriminate; [|eauto].
    exfalso.
    pose proof (msg_ok_parts m Hok) as (Hh & Hq & Hb & Hs & Hql & Hbl & Hl).
    assert (bytes_ok (to_vec m) = true) as Hbv.
    { unfold to_vec. now rewrite !bytes_ok_app, encode_ok, Hq, Hb. }
    apply read_message_ok in F as [E Hok']; [|now apply bytes_ok_firstn].
    pose proof (msg_ok_parts m' Hok') as (Hh' & _ & _ & _ & Hql' & Hbl' & Hl').
    assert (length (firstn n (to_vec m)) = n) as Ln by (rewrite firstn_length; lia).
    assert (48 <= n)%nat as H48.
    { rewrite <- Ln, E, app_length, to_vec_length. lia. }
    assert (encode (m_hdr m') = encode (m_hdr m)) as EE.
    { rewrite <- (firstn_48_encode_app (m_hdr m') (m_query m' ++ m_body m' ++ r)).
      rewrite <- (firstn_48_encode_app (m_hdr m) (m_query m ++ m_body m)).
      change (encode (m_hdr m) ++ m_query m ++ m_body m) with (to_vec m).
      replace (encode (m_hdr m') ++ m_query m' ++ m_body m' ++ r) with (to_vec m' ++ r)
        by (unfold to_vec; now rewrite <- !app_assoc).
      rewrite <- E, firstn_firstn. now replace (Nat.min 48 n) with 48%nat by lia. }
    assert (m_hdr m' = m_hdr m) as Hm.
    { rewrite <- (fields_of_encode _ Hh'), <- (fields_of_encode _ Hh). now rewrite EE. }
    assert (length (to_vec m') = length (to_vec m)) as LL.
    { rewrite !to_vec_length. rewrite Hm in *. unfold lenN in *. lia. }
    rewrite <- Ln, E, app_length in Hn. lia.
  Qed.
End ReaderProofs.
