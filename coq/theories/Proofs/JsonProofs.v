(** Lemmas on byte strings, object maps, N-indexed lists and JSON values. *)
From RepeV Require Import Model.Json.
From Coq Require Import ZifyBool ZifyN ZifyNat.
Ltac Zify.zify_post_hook ::= Z.div_mod_to_equations.

(** ** byte strings *)
Lemma str_eqb_refl a : str_eqb a a = true.
Proof. induction a as [|x a IH]; cbn [str_eqb]; [reflexivity|]. rewrite IH, N.eqb_refl. reflexivity. Qed.

Lemma str_eqb_eq a b : str_eqb a b = true <-> a = b.
Proof.
  split; [|intros ->; apply str_eqb_refl].
  revert b; induction a as [|x a IH]; intros [|y b] H; cbn [str_eqb] in H; try discriminate; [reflexivity|].
  apply andb_true_iff in H as [H1 H2]. apply N.eqb_eq in H1. subst. f_equal. now apply IH.
Qed.

Lemma str_eqb_neq a b : str_eqb a b = false <-> a <> b.
Proof.
  split.
  - intros H E. subst. rewrite str_eqb_refl in H. discriminate.
  - intros H. destruct (str_eqb a b) eqn:E; [|reflexivity]. apply str_eqb_eq in E. contradiction.
Qed.

Lemma str_eqb_sym a b : str_eqb a b = str_eqb b a.
Proof.
  destruct (str_eqb a b) eqn:E.
  - apply str_eqb_eq in E. subst. symmetry. apply str_eqb_refl.
  - symmetry. apply str_eqb_neq. apply str_eqb_neq in E. congruence.
Qed.

Lemma str_ltb_irrefl a : str_ltb a a = false.
Proof.
  induction a as [|x a IH]; cbn [str_ltb]; [reflexivity|].
  rewrite IH, N.ltb_irrefl, andb_false_r. reflexivity.
Qed.

(** ** objects *)
Lemma oget_oset_same m k v : oget (oset m k v) k = Some v.
Proof.
  induction m as [|[k' v'] m IH]; cbn [oset oget].
  - now rewrite str_eqb_refl.
  - destruct (str_eqb k' k) eqn:E.
    + cbn [oget]. now rewrite str_eqb_refl.
    + destruct (str_ltb k k'); cbn [oget].
      * now rewrite str_eqb_refl.
      * now rewrite E.
Qed.

Lemma oget_oset_other m k k' v : k <> k' -> oget (oset m k v) k' = oget m k'.
Proof.
  intros Hne. assert (Hf : str_eqb k k' = false) by now apply str_eqb_neq.
  induction m as [|[k0 v0] m IH]; cbn [oset oget].
  - now rewrite Hf.
  - destruct (str_eqb k0 k) eqn:E.
    + apply str_eqb_eq in E. subst k0. cbn [oget]. now rewrite Hf.
    + destruct (str_ltb k k0); cbn [oget].
      * now rewrite Hf.
      * now rewrite IH.
Qed.

Lemma oget_app m1 m2 k :
  oget (m1 ++ m2) k = match oget m1 k with Some v => Some v | None => oget m2 k end.
Proof.
  induction m1 as [|[k' v'] m1 IH]; cbn [app oget]; [reflexivity|].
  destruct (str_eqb k' k); [reflexivity|exact IH].
Qed.

(** merging: the last binding of a key in the merged object wins, other keys stay *)
Lemma oget_omerge o : forall m k,
  oget (omerge m o) k = match oget (rev o) k with Some v => Some v | None => oget m k end.
Proof.
  unfold omerge. induction o as [|[k0 v0] o IH]; intros m k; cbn [fold_left rev fst snd].
  - reflexivity.
  - rewrite IH, oget_app. destruct (oget (rev o) k); [reflexivity|].
    cbn [oget]. destruct (str_eqb k0 k) eqn:E.
    + apply str_eqb_eq in E. subst. apply oget_oset_same.
    + apply oget_oset_other. now apply str_eqb_neq.
Qed.

(** ** N-indexed lists *)
Lemma nthN_setN_same {A} (l : list A) : forall i v x, nthN l i = Some x -> nthN (setN l i v) i = Some v.
Proof.
  induction l as [|y l IH]; intros i v x H; cbn [nthN setN] in *; [discriminate|].
  destruct (i =? 0) eqn:E; cbn [nthN]; rewrite E; [reflexivity|]. eapply IH; eauto.
Qed.

Lemma nthN_setN_other {A} (l : list A) : forall i j v, i <> j -> nthN (setN l i v) j = nthN l j.
Proof.
  induction l as [|y l IH]; intros i j v H; cbn [nthN setN]; [reflexivity|].
  destruct (i =? 0) eqn:E; cbn [nthN]; destruct (j =? 0) eqn:F; try reflexivity.
  - lia.
  - apply IH. lia.
Qed.

(** ** splitting and joining *)
Fixpoint join (c : byte) (l : list str) : str :=
  match l with
  | [] => []
  | t :: l' => match l' with [] => t | _ => t ++ c :: join c l' end
  end.

Lemma split_on_nonempty c s : split_on c s <> [].
Proof.
  destruct s as [|b s]; cbn [split_on]; [discriminate|].
  destruct (b =? c); [discriminate|]. destruct (split_on c s); discriminate.
Qed.

Lemma join_split c s : join c (split_on c s) = s.
Proof.
  induction s as [|b s IH]; cbn [split_on]; [reflexivity|].
  destruct (b =? c) eqn:E.
  - apply N.eqb_eq in E. subst. cbn [join].
    destruct (split_on c s) eqn:S; [now apply split_on_nonempty in S|]. cbn [app]. now rewrite IH.
  - destruct (split_on c s) as [|t ts] eqn:S; [now apply split_on_nonempty in S|].
    cbn [join] in *. destruct ts; cbn [app]; now rewrite <- IH.
Qed.

Lemma contains_cons c b s : contains c (b :: s) = (b =? c) || contains c s.
Proof. reflexivity. Qed.

Lemma contains_app c a b : contains c (a ++ b) = contains c a || contains c b.
Proof. unfold contains. apply existsb_app. Qed.

Lemma split_on_free c s : contains c s = false -> split_on c s = [s].
Proof.
  induction s as [|b s IH]; intros H; cbn [split_on]; [reflexivity|].
  rewrite contains_cons in H. apply orb_false_iff in H as [H1 H2]. rewrite H1, (IH H2). reflexivity.
Qed.

Lemma split_pieces_free c s : Forall (fun t => contains c t = false) (split_on c s).
Proof.
  induction s as [|b s IH]; cbn [split_on]; [repeat constructor|].
  destruct (b =? c) eqn:E.
  - constructor; [reflexivity|exact IH].
  - destruct (split_on c s) as [|t ts]; [repeat constructor; cbn; now rewrite E|].
    inversion IH; subst. constructor; [|assumption]. rewrite contains_cons, E. assumption.
Qed.

Lemma split_on_app_free c t s :
  contains c t = false -> split_on c (t ++ c :: s) = t :: split_on c s.
Proof.
  induction t as [|b t IH]; intros H; cbn [app split_on].
  - now rewrite N.eqb_refl.
  - rewrite contains_cons in H. apply orb_false_iff in H as [H1 H2]. rewrite H1, (IH H2). reflexivity.
Qed.

Lemma split_join c l :
  l <> [] -> Forall (fun t => contains c t = false) l -> split_on c (join c l) = l.
Proof.
  induction l as [|t l IH]; intros Hne HF; [contradiction|].
  inversion HF as [|? ? Ht Hl]; subst. cbn [join].
  destruct l as [|t' l'].
  - now apply split_on_free.
  - rewrite split_on_app_free by assumption. f_equal. apply IH; [discriminate|assumption].
Qed.

Lemma contains_split_piece c s t : In t (split_on c s) -> forall d, contains d t = true -> contains d s = true.
Proof.
  revert t; induction s as [|b s IH]; intros t Hin d Hd; cbn [split_on] in Hin.
  - destruct Hin as [<-|[]]. discriminate.
  - destruct (b =? c) eqn:E.
    + destruct Hin as [<-|Hin]; [discriminate|]. rewrite contains_cons. rewrite (IH _ Hin _ Hd). apply orb_true_r.
    + destruct (split_on c s) as [|t0 ts] eqn:S.
      * destruct Hin as [<-|[]]. rewrite contains_cons in *. cbn in Hd. rewrite orb_false_r in Hd. now rewrite Hd.
      * destruct Hin as [<-|Hin].
        -- rewrite contains_cons in *. apply orb_true_iff in Hd as [Hd|Hd]; [now rewrite Hd|].
           rewrite (IH t0 (or_introl eq_refl) d Hd). apply orb_true_r.
        -- rewrite contains_cons. rewrite (IH t (or_intror Hin) d Hd). apply orb_true_r.
Qed.

(** ** replace *)
Lemma replace1_free c r s : contains c s = false -> replace1 c r s = s.
Proof.
  induction s as [|b s IH]; intros H; cbn [replace1]; [reflexivity|].
  rewrite contains_cons in H. apply orb_false_iff in H as [H1 H2]. rewrite H1, (IH H2). reflexivity.
Qed.

Lemma replace2_cons_other a b r x s : x <> a -> replace2 a b r (x :: s) = x :: replace2 a b r s.
Proof.
  intros H. cbn [replace2]. destruct s as [|y s]; [reflexivity|].
  replace (x =? a) with false by (symmetry; now apply N.eqb_neq). reflexivity.
Qed.

Lemma replace2_hit a b r s : replace2 a b r (a :: b :: s) = r :: replace2 a b r s.
Proof. cbn [replace2]. now rewrite !N.eqb_refl. Qed.

Lemma replace2_cons_other2 a b r y s : y <> b -> replace2 a b r (a :: y :: s) = a :: replace2 a b r (y :: s).
Proof.
  intros H. cbn [replace2]. replace (y =? b) with false by (symmetry; now apply N.eqb_neq).
  rewrite andb_false_r. reflexivity.
Qed.

(** ** a nested induction principle for JSON values *)
Section JsonInd.
  Variable P : json -> Prop.
  Hypothesis Hnull : P JNull.
  Hypothesis Hbool : forall b, P (JBool b).
  Hypothesis Hnum : forall n, P (JNum n).
  Hypothesis Hstr : forall s, P (JStr s).
  Hypothesis Harr : forall l, Forall P l -> P (JArr l).
  Hypothesis Hobj : forall m, Forall (fun kv => P (snd kv)) m -> P (JObj m).

  Fixpoint json_ind' (j : json) : P j :=
    match j with
    | JNull => Hnull
    | JBool b => Hbool b
    | JNum n => Hnum n
    | JStr s => Hstr s
    | JArr l => Harr l ((fix go (l : list json) : Forall P l :=
                           match l with [] => Forall_nil _ | x :: l' => Forall_cons _ (json_ind' x) (go l') end) l)
    | JObj m => Hobj m ((fix go (m : omap) : Forall (fun kv => P (snd kv)) m :=
                           match m with
                           | [] => Forall_nil _
                           | (k, x) :: m' => Forall_cons (k, x) (json_ind' x) (go m')
                           end) m)
    end.
End JsonInd.

Lemma json_eqb_eq : forall a b, json_eqb a b = true <-> a = b.
Proof.
  induction a as [| | | |l IH|m IH] using json_ind'; intros b0; destruct b0; cbn [json_eqb];
    try (split; [discriminate|discriminate]); try (split; [reflexivity|reflexivity]).
  - rewrite Bool.eqb_true_iff. split; congruence.
  - rewrite N.eqb_eq. split; congruence.
  - rewrite str_eqb_eq. split; congruence.
  - revert l0. induction l as [|x l IHl]; intros [|y l0]; try (split; [discriminate|discriminate]).
    + split; reflexivity.
    + inversion IH as [|? ? Hx Hl]; subst. rewrite andb_true_iff, (Hx y), (IHl Hl l0).
      split; [intros [-> E]; congruence|intros E; inversion E; subst; split; reflexivity].
  - revert l. induction m as [|[k x] m IHm]; intros [|[k' y] l]; try (split; [discriminate|discriminate]).
    + split; reflexivity.
    + inversion IH as [|? ? Hx Hm]; subst. cbn [snd] in Hx.
      rewrite !andb_true_iff, str_eqb_eq, (Hx y), (IHm Hm l).
      split; [intros [[-> ->] E]; congruence|intros E; inversion E; subst; repeat split; reflexivity].
Qed.

Lemma json_eqb_refl a : json_eqb a a = true.
Proof. now apply json_eqb_eq. Qed.

Lemma leqb_eq {A} (eqb : A -> A -> bool) :
  (forall x y, eqb x y = true <-> x = y) -> forall a b, leqb eqb a b = true <-> a = b.
Proof.
  intros H. induction a as [|x a IH]; intros [|y b]; cbn [leqb]; try (split; [discriminate|discriminate]).
  - split; reflexivity.
  - rewrite andb_true_iff, H, IH. split; [intros [-> ->]; reflexivity|intros E; inversion E; auto].
Qed.
