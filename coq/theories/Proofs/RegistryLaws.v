(** The readable laws, stated on the model of the code ([dispatch], [route],
    [register_function]): read-your-write, frame, root merge, empty bodies
    never mutate, calls happen exactly once at the escape-normalised pointer,
    malformed pointers, the mount, the public pointer functions. *)
From RepeV Require Import Model.Json Model.Registry Proofs.JsonProofs Proofs.PointerProofs Proofs.RegistryProofs.
From Coq Require Import ZifyBool ZifyN ZifyNat.
Ltac Zify.zify_post_hook ::= Z.div_mod_to_equations.

Lemma parse_pointer_nil_root p : parse_pointer p = Ok [] -> is_root_ptr p = true.
Proof.
  intros H. destruct (is_root_ptr p) eqn:R; [reflexivity|]. exfalso.
  unfold parse_pointer in H. rewrite R in H.
  destruct p as [|c rest]; [discriminate|]. destruct (c =? SLASH); [|discriminate].
  destruct (collect_opt _) as [l|] eqn:C; [|discriminate]. injection H as ->.
  apply collect_opt_length in C. rewrite map_length in C.
  pose proof (split_on_nonempty SLASH rest). destruct (split_on SLASH rest); [contradiction|discriminate].
Qed.

Lemma parse_pointer_root p : is_root_ptr p = true -> parse_pointer p = Ok [].
Proof. unfold parse_pointer. now intros ->. Qed.

Lemma resolve_of_get d segs v : sp_get d segs = Some v -> resolve d segs = Ok v.
Proof.
  intros H. pose proof (resolve_spec segs d) as S. destruct (resolve d segs) as [x|e].
  - congruence.
  - destruct S as [S _]. congruence.
Qed.

(** ** read-your-write *)
Lemma dispatch_read_your_write st p v st' j :
  is_root_ptr p = false ->
  dispatch st p (Some v) = (st', ROk j, []) ->
  dispatch st' p None = (st', ROk v, []).
Proof.
  intros Hr H. unfold dispatch in *. rewrite canonical_key_agrees in *.
  destruct (parse_pointer p) as [segs|e] eqn:P; [|discriminate].
  unfold dispatch_decided in H. destruct (fget (r_funs st) (canonical_pointer segs)) as [fid|] eqn:F; [discriminate|].
  unfold dispatch_write in H. rewrite P in H.
  destruct segs as [|s segs'].
  { apply parse_pointer_nil_root in P. congruence. }
  pose proof (set_ptr_spec (s :: segs') (r_root st) v) as S.
  destruct (set_ptr (r_root st) (s :: segs') v) as [r'|e]; [|discriminate].
  injection H as <- _. cbn [r_funs r_root]. rewrite F.
  rewrite (resolve_of_get r' (s :: segs') v); [reflexivity|].
  apply (sp_get_put_same (s :: segs') (r_root st) v r'); [discriminate|exact S].
Qed.

(** ** frame *)
Lemma dispatch_write_frame st p v st' j q pt qt :
  dispatch st p (Some v) = (st', ROk j, []) ->
  parse_pointer p = Ok pt -> parse_pointer q = Ok qt ->
  diverge (r_root st) pt qt ->
  obs_out (snd (fst (dispatch st' q None))) = obs_out (snd (fst (dispatch st q None))).
Proof.
  intros H Pp Pq D. unfold dispatch in *. rewrite canonical_key_agrees in *. rewrite Pp in H. rewrite Pq.
  unfold dispatch_decided in H. destruct (fget (r_funs st) (canonical_pointer pt)) as [fid|]; [discriminate|].
  unfold dispatch_write in H. rewrite Pp in H.
  destruct pt as [|t pt']; [destruct D|].
  pose proof (set_ptr_spec (t :: pt') (r_root st) v) as S.
  destruct (set_ptr (r_root st) (t :: pt') v) as [r'|e]; [|discriminate].
  injection H as <- _. cbn [r_funs r_root].
  destruct (fget (r_funs st) (canonical_pointer qt)); [reflexivity|]. cbn [fst snd].
  rewrite (obs_of_res_get _ _ (resolve_spec qt r')), (obs_of_res_get _ _ (resolve_spec qt (r_root st))).
  now rewrite (sp_get_put_frame (t :: pt') (r_root st) qt v r' S D).
Qed.

(** ** the root: no callable can be registered there, a write merges *)
Definition no_root_fun (st : rstate) : Prop := fget (r_funs st) [SLASH] = None.

Lemma fget_fset_same f k v : fget (fset f k v) k = Some v.
Proof.
  induction f as [|[k' v'] f IH]; cbn [fset fget]; [now rewrite str_eqb_refl|].
  destruct (str_eqb k' k) eqn:E; cbn [fget]; [now rewrite str_eqb_refl|now rewrite E].
Qed.

Lemma fget_fset_other f k k' v : k <> k' -> fget (fset f k v) k' = fget f k'.
Proof.
  intros Hne. assert (Hf : str_eqb k k' = false) by now apply str_eqb_neq.
  induction f as [|[k0 v0] f IH]; cbn [fset fget]; [now rewrite Hf|].
  destruct (str_eqb k0 k) eqn:E; cbn [fget].
  - apply str_eqb_eq in E. subst. now rewrite Hf.
  - now rewrite IH.
Qed.

Lemma parse_registration_not_single_empty path segs : parse_registration_path path = Ok segs -> segs <> [[]].
Proof.
  unfold parse_registration_path. destruct path; [intros [= <-]; discriminate|].
  apply parse_pointer_not_single_empty.
Qed.

Lemma dispatch_funs st p b : r_funs (fst (fst (dispatch st p b))) = r_funs st.
Proof.
  unfold dispatch. destruct (canonical_key p); [|reflexivity]. destruct b as [payload|].
  - unfold dispatch_decided. destruct (fget _ _); [reflexivity|]. unfold dispatch_write.
    destruct (parse_pointer p) as [[|s segs]|]; try reflexivity.
    + destruct payload; reflexivity.
    + destruct (set_ptr _ _ _); reflexivity.
  - destruct (fget _ _); [reflexivity|]. destruct (parse_pointer p); reflexivity.
Qed.

Lemma rstep_no_root_fun prefix st o : no_root_fun st -> no_root_fun (fst (fst (rstep prefix st o))).
Proof.
  unfold no_root_fun. intros H.
  destruct o as [p v|p fid|v|ob|p ob|p|p b|path b]; cbn [rstep nolog fst snd].
  - unfold register_value. destruct (parse_registration_path p) as [[|s segs]|]; exact H.
  - unfold register_function. destruct (parse_registration_path p) as [[|s segs]|] eqn:P; cbn [fst r_funs]; try exact H.
    rewrite fget_fset_other; [exact H|]. intros E.
    change [SLASH] with (canonical_pointer []) in E.
    apply canonical_pointer_inj in E; [discriminate| |discriminate].
    now apply (parse_registration_not_single_empty p).
  - exact H.
  - exact H.
  - unfold merge_at. destruct (parse_registration_path p) as [[|s segs]|]; cbn [fst]; try exact H.
    destruct (merge_ptr _ _ _); exact H.
  - exact H.
  - now rewrite dispatch_funs.
  - unfold route. destruct prefix as [pre|]; [|exact H].
    destruct (negb _); [exact H|]. destruct (pointer_for _ _); [|exact H].
    destruct (decode_body b); [|exact H]. now rewrite dispatch_funs.
Qed.

Lemma reachable_no_root_fun prefix ops : forall st,
  no_root_fun st -> no_root_fun (fold_left (fun s o => fst (fst (rstep prefix s o))) ops st).
Proof.
  induction ops as [|o ops IH]; intros st H; [exact H|]. cbn [fold_left]. apply IH. now apply rstep_no_root_fun.
Qed.

Lemma dispatch_root_write st p v :
  no_root_fun st -> is_root_ptr p = true ->
  dispatch st p (Some v) =
  match v with
  | JObj o => (mkR (JObj (omerge (obj_of (r_root st)) o)) (r_funs st), ROk (write_ok [SLASH]), [])
  | _ => (st, RErr ERootNotObject, [])
  end.
Proof.
  intros Hn Hr. unfold dispatch, canonical_key. rewrite Hr. unfold dispatch_decided. rewrite Hn.
  unfold dispatch_write. rewrite (parse_pointer_root p Hr). reflexivity.
Qed.

(** ** a request with an empty body never mutates and never calls *)
Lemma dispatch_read_pure st p : fst (fst (dispatch st p None)) = st /\ snd (dispatch st p None) = [].
Proof.
  unfold dispatch. destruct (canonical_key p); [|split; reflexivity].
  destruct (fget _ _); [split; reflexivity|]. destruct (parse_pointer p); split; reflexivity.
Qed.

Lemma route_read_pure pre st path b :
  decode_body b = Ok None ->
  fst (fst (route pre st path b)) = st /\ snd (route pre st path b) = [].
Proof.
  intros Hb. unfold route. destruct pre as [pre|]; [|split; reflexivity].
  destruct (negb _); [split; reflexivity|]. destruct (pointer_for _ _); [|split; reflexivity].
  rewrite Hb. apply dispatch_read_pure.
Qed.

(** ** calls *)
Definition callable_at (st : rstate) (p : str) : option N :=
  match parse_pointer p with
  | Ok segs => fget (r_funs st) (canonical_pointer segs)
  | Err _ => None
  end.

Lemma dispatch_calls st p body :
  match body, callable_at st p with
  | Some arg, Some fid => dispatch st p body = (st, fun_out fid arg, [(fid, arg)])
  | _, _ => snd (dispatch st p body) = []
  end.
Proof.
  unfold callable_at, dispatch. rewrite canonical_key_agrees.
  destruct (parse_pointer p) as [segs|e] eqn:P.
  - destruct body as [arg|].
    + unfold dispatch_decided. destruct (fget _ _); [reflexivity|].
      unfold dispatch_write. rewrite P. destruct segs.
      * destruct arg; reflexivity.
      * destruct (set_ptr _ _ _); reflexivity.
    + destruct (fget _ _); reflexivity.
  - destruct body; reflexivity.
Qed.

(** registration makes exactly the pointers with the same tokens callable *)
Lemma register_function_callable st path fid st' segs :
  register_function st path fid = (st', RUnit) -> parse_registration_path path = Ok segs ->
  forall p segs', parse_pointer p = Ok segs' ->
  callable_at st' p = if path_eqb segs segs' then Some fid else callable_at st p.
Proof.
  intros H P p segs' Pp. unfold register_function in H. rewrite P in H.
  destruct segs as [|s segs0]; [discriminate|]. injection H as <-.
  unfold callable_at. rewrite Pp. cbn [r_funs].
  pose proof (parse_registration_not_single_empty _ _ P) as N1.
  pose proof (parse_pointer_not_single_empty _ _ Pp) as N2.
  destruct (path_eqb (s :: segs0) segs') eqn:E.
  - apply path_eqb_eq in E. subst. apply fget_fset_same.
  - apply fget_fset_other. intros C.
    change (canonical_pointer (s :: segs0) = canonical_pointer segs') in C.
    apply canonical_pointer_inj in C; try assumption.
    rewrite C in E. assert (T : path_eqb segs' segs' = true) by now apply path_eqb_eq. congruence.
Qed.

(** ** malformed pointers *)
Definition malformed (p : str) : Prop :=
  p <> [] /\ (starts_with SLASH p = false \/ exists t, In t (split_on SLASH (tl p)) /\ esc_wf t = false).

Lemma collect_opt_none {A B} (f : A -> option B) l :
  collect_opt (map f l) = None <-> exists x, In x l /\ f x = None.
Proof.
  induction l as [|x l IH]; cbn [map collect_opt].
  - split; [discriminate|intros [x [[] _]]].
  - destruct (f x) as [y|] eqn:F.
    + split.
      * intros H. destruct (collect_opt (map f l)); [discriminate|].
        destruct IH as [IH _]. destruct (IH eq_refl) as [z [Hz Fz]].
        exists z. split; [now right|exact Fz].
      * intros [z [[E|Hz] Fz]]; [congruence|].
        destruct IH as [_ IH]. rewrite IH; [reflexivity|]. now exists z.
    + split; [|reflexivity]. intros _. exists x. split; [now left|exact F].
Qed.

Lemma sp_decode_none_iff p : sp_decode p = None <-> malformed p.
Proof.
  unfold sp_decode, malformed. destruct p as [|c rest].
  - split; [discriminate|intros [H _]; contradiction].
  - cbn [starts_with tl]. destruct (c =? SLASH) eqn:E.
    + destruct rest as [|x rest'].
      * split; [discriminate|]. intros [_ [H|[t [[<-|[]] H]]]]; discriminate.
      * rewrite collect_opt_none. unfold sp_untoken. split.
        -- intros [t [Ht F]]. split; [discriminate|]. right. exists t. split; [exact Ht|].
           destruct (esc_wf t); [discriminate|reflexivity].
        -- intros [_ [H|[t [Ht F]]]]; [discriminate|]. exists t. split; [exact Ht|]. now rewrite F.
    + split; [|reflexivity]. intros _. split; [discriminate|]. now left.
Qed.

Lemma malformed_rejected st p :
  malformed p ->
  (forall body, dispatch st p body = (st, RErr EInvalidPointer, [])) /\
  read_value st p = RErr EInvalidPointer /\
  err_code EInvalidPointer = METHOD_NOT_FOUND.
Proof.
  intros M. apply sp_decode_none_iff in M.
  assert (P : parse_pointer p = Err EInvalidPointer) by (rewrite parse_pointer_spec, M; reflexivity).
  repeat split.
  - intros body. unfold dispatch. rewrite canonical_key_agrees, P. reflexivity.
  - unfold read_value. now rewrite P.
Qed.

(** every failed lookup is of the not-found class *)
Lemma dispatch_read_error_class st p st' e lg :
  dispatch st p None = (st', RErr e, lg) -> err_code e = METHOD_NOT_FOUND.
Proof.
  unfold dispatch. rewrite canonical_key_agrees, parse_pointer_spec.
  destruct (sp_decode p) as [path|]; [|intros H; injection H as _ <- _; reflexivity].
  destruct (fget _ _); [discriminate|]. pose proof (resolve_spec path (r_root st)) as S.
  destruct (resolve (r_root st) path); [discriminate|]. intros H. injection H as _ <- _. apply S.
Qed.

(** ** the mount *)
Lemma sp_mount_rest_app np path rest : sp_mount_rest np path = Some rest -> path = np ++ rest.
Proof.
  unfold sp_mount_rest. destruct np as [|a np]; [intros [= ->]; reflexivity|].
  destruct (strip_pre (a :: np) path) as [r|] eqn:S; [|discriminate].
  destruct (_ || _); [|discriminate]. intros [= ->]. now apply strip_pre_app.
Qed.

Lemma sp_mount_rest_below np rest :
  np <> [] -> rest = [] \/ starts_with SLASH rest = true -> sp_mount_rest np (np ++ rest) = Some rest.
Proof.
  intros Hn Hr. unfold sp_mount_rest. destruct np as [|a np]; [contradiction|].
  assert (S : strip_pre (a :: np) ((a :: np) ++ rest) = Some rest) by now apply strip_pre_app.
  rewrite S. destruct Hr as [E | E]; rewrite E; [reflexivity|now rewrite orb_true_r].
Qed.

Lemma sp_mount_rest_not_below np path :
  np <> [] -> (forall rest, path = np ++ rest -> rest <> [] /\ starts_with SLASH rest = false) ->
  sp_mount_rest np path = None.
Proof.
  intros Hn H. unfold sp_mount_rest. destruct np as [|a np]; [contradiction|].
  destruct (strip_pre (a :: np) path) as [r|] eqn:S; [|reflexivity].
  apply strip_pre_app in S. destruct (H r S) as [H1 H2]. rewrite H2.
  destruct r as [|x [|y r]]; [contradiction| |reflexivity].
  cbn [is_root_ptr]. cbn [starts_with] in H2. now rewrite H2.
Qed.

(** ** the public pointer functions of json_pointer.rs agree with the
    registry's on every well-formed pointer other than "/" *)
Lemma collect_opt_map_if {A B} (w : A -> bool) (g : A -> B) l r :
  collect_opt (map (fun t => if w t then Some (g t) else None) l) = Some r -> r = map g l.
Proof.
  revert r; induction l as [|x l IH]; intros r H; cbn [map collect_opt] in H.
  - now injection H as <-.
  - destruct (w x); [|discriminate]. destruct (collect_opt _) as [r'|]; [|discriminate].
    cbn in H. injection H as <-. cbn [map]. f_equal. now apply IH.
Qed.

Lemma jp_parse_agrees p path :
  sp_decode p = Some path -> is_root_ptr p = false -> jp_parse p = path.
Proof.
  unfold sp_decode, jp_parse. destruct p as [|c rest]; [discriminate|].
  destruct (c =? SLASH) eqn:E; [|discriminate].
  destruct rest as [|x rest']; [intros _ H; cbn [is_root_ptr] in H; congruence|].
  intros H _. unfold sp_untoken in H. symmetry. now apply (collect_opt_map_if esc_wf _ _ _ H).
Qed.

Lemma jp_eval_agrees st p path :
  sp_decode p = Some path -> is_root_ptr p = false ->
  obs_out (read_value st p) = match jp_eval (r_root st) p with Some v => OOk v | None => OErr METHOD_NOT_FOUND end.
Proof.
  intros D Hr. unfold read_value, jp_eval. rewrite parse_pointer_spec, D, (jp_parse_agrees p path D Hr).
  apply (obs_of_res_get _ _ (resolve_spec path (r_root st))).
Qed.

(** the RFC 6901 oracle for the two public functions accepts what they do *)
Lemma opt_json_eqb_refl o : opt_json_eqb o o = true.
Proof. destruct o as [j|]; cbn [opt_json_eqb]; [apply json_eqb_refl|reflexivity]. Qed.

Lemma jp_ok d p : ok_jp d p (jp_parse p) (jp_eval d p) = true.
Proof.
  unfold ok_jp. destruct (rfc_decode p) as [path|] eqn:D; [|reflexivity].
  assert (E : jp_parse p = path).
  { unfold rfc_decode in D. unfold jp_parse. destruct p as [|c rest]; [now injection D as <-|].
    destruct (c =? SLASH) eqn:Ec; [|discriminate].
    unfold sp_untoken in D. symmetry. now apply (collect_opt_map_if esc_wf _ _ _ D). }
  unfold jp_eval. rewrite E. apply andb_true_iff. split.
  - apply (leqb_eq str_eqb str_eqb_eq). reflexivity.
  - apply opt_json_eqb_refl.
Qed.

(** ... and pins the tokens: whatever it accepts on an RFC pointer is the
    RFC tokenisation, and "/" is the single empty token *)
Lemma jp_ok_pins d p toks ev path :
  rfc_decode p = Some path -> ok_jp d p toks ev = true -> toks = path /\ ev = sp_get d path.
Proof.
  intros D H. unfold ok_jp in H. rewrite D in H. apply andb_true_iff in H. destruct H as [H1 H2].
  split; [now apply (leqb_eq str_eqb str_eqb_eq)|].
  destruct ev as [a|], (sp_get d path) as [b|]; cbn [opt_json_eqb] in H2; try discriminate; try reflexivity.
  f_equal. now apply json_eqb_eq.
Qed.
