(** Lemmas about the header codec model. *)
From RepeV Require Import Model.Header.
From Coq Require Import ZifyBool ZifyN ZifyNat.
Ltac Zify.zify_post_hook ::= Z.div_mod_to_equations.

(** ** slices of appended lists *)
Lemma slice_app_l {A} (x y : list A) a b :
  (b <= length x)%nat -> slice (x ++ y) a b = slice x a b.
Proof.
  intros H. unfold slice. rewrite skipn_app.
  rewrite firstn_app. rewrite skipn_length.
  replace (b - a - (length x - a))%nat with 0%nat by lia.
  cbn [firstn]. now rewrite app_nil_r.
Qed.

Lemma slice_app_r {A} (x y : list A) a b :
  (length x <= a)%nat -> slice (x ++ y) a b = slice y (a - length x) (b - length x).
Proof.
  intros H. unfold slice. rewrite skipn_app.
  rewrite (skipn_all2 x) by lia. cbn [app].
  f_equal. lia.
Qed.

Lemma slice_all {A} (x : list A) n : n = length x -> slice x 0 n = x.
Proof. intros ->. unfold slice. cbn [skipn]. rewrite Nat.sub_0_r. apply firstn_all. Qed.

Lemma firstn_plus {A} n m (l : list A) : firstn (n + m) l = firstn n l ++ firstn m (skipn n l).
Proof.
  revert l; induction n as [|n IH]; intros l; cbn [Nat.add firstn skipn app]; [reflexivity|].
  destruct l as [|x l]; cbn [firstn skipn app].
  - now destruct m.
  - now rewrite IH.
Qed.

Lemma skipn_plus {A} n m (l : list A) : skipn (n + m) l = skipn m (skipn n l).
Proof.
  revert l; induction n as [|n IH]; intros l; cbn [Nat.add skipn]; [reflexivity|].
  destruct l as [|x l]; [now destruct m|apply IH].
Qed.

Lemma slice_cat {A} (bs : list A) a b c :
  (a <= b)%nat -> (b <= c)%nat -> slice bs a b ++ slice bs b c = slice bs a c.
Proof.
  intros H1 H2. unfold slice.
  replace (c - a)%nat with ((b - a) + (c - b))%nat by lia.
  rewrite firstn_plus. f_equal. rewrite <- skipn_plus.
  now replace (a + (b - a))%nat with b by lia.
Qed.

Lemma slice_0_firstn {A} (bs : list A) n : slice bs 0 n = firstn n bs.
Proof. unfold slice. cbn [skipn]. now rewrite Nat.sub_0_r. Qed.

Lemma slice_firstn {A} (bs : list A) n a b : (b <= n)%nat -> slice (firstn n bs) a b = slice bs a b.
Proof.
  intros H. unfold slice. rewrite skipn_firstn_comm. rewrite firstn_firstn.
  f_equal. lia.
Qed.

Lemma field_firstn bs n off w : (off + w <= n)%nat -> field (firstn n bs) off w = field bs off w.
Proof. intros H. unfold field. now rewrite slice_firstn. Qed.

Lemma field_app_l x y off w : (off + w <= length x)%nat -> field (x ++ y) off w = field x off w.
Proof. intros H. unfold field. now rewrite slice_app_l. Qed.

(** ** encode *)
Lemma encode_length h : length (encode h) = 48%nat.
Proof. unfold encode. repeat rewrite app_length. repeat rewrite le_enc_length. reflexivity. Qed.

Lemma encode_ok h : bytes_ok (encode h) = true.
Proof. unfold encode. repeat rewrite bytes_ok_app. repeat rewrite le_enc_ok. reflexivity. Qed.

Ltac field_enc :=
  unfold field, encode;
  repeat (rewrite slice_app_r by (rewrite le_enc_length; cbn; lia);
          rewrite le_enc_length; cbn [Nat.sub Nat.add]);
  try (rewrite slice_app_l by (rewrite le_enc_length; cbn; lia));
  rewrite slice_all by (rewrite le_enc_length; reflexivity);
  apply le_dec_enc_small.

Section Fields.
  Variable h : header.
  Hypothesis Hok : hdr_ok h = true.

  Lemma hok_parts :
    h_length h < two64 /\ h_spec h < two16 /\ h_version h < two8 /\ h_notify h < two8 /\
    h_reserved h < two32 /\ h_id h < two64 /\ h_qlen h < two64 /\ h_blen h < two64 /\
    h_qfmt h < two16 /\ h_bfmt h < two16 /\ h_ec h < two32.
  Proof. unfold hdr_ok in Hok. lia. Qed.

  Lemma f_length : field (encode h) 0 8 = h_length h.
  Proof. field_enc. rewrite pow256_8. apply hok_parts. Qed.
  Lemma f_spec : field (encode h) 8 2 = h_spec h.
  Proof. field_enc. rewrite pow256_2. apply hok_parts. Qed.
  Lemma f_version : field (encode h) 10 1 = h_version h.
  Proof. field_enc. rewrite pow256_1. apply hok_parts. Qed.
  Lemma f_notify : field (encode h) 11 1 = h_notify h.
  Proof. field_enc. rewrite pow256_1. apply hok_parts. Qed.
  Lemma f_reserved : field (encode h) 12 4 = h_reserved h.
  Proof. field_enc. rewrite pow256_4. apply hok_parts. Qed.
  Lemma f_id : field (encode h) 16 8 = h_id h.
  Proof. field_enc. rewrite pow256_8. apply hok_parts. Qed.
  Lemma f_qlen : field (encode h) 24 8 = h_qlen h.
  Proof. field_enc. rewrite pow256_8. apply hok_parts. Qed.
  Lemma f_blen : field (encode h) 32 8 = h_blen h.
  Proof. field_enc. rewrite pow256_8. apply hok_parts. Qed.
  Lemma f_qfmt : field (encode h) 40 2 = h_qfmt h.
  Proof. field_enc. rewrite pow256_2. apply hok_parts. Qed.
  Lemma f_bfmt : field (encode h) 42 2 = h_bfmt h.
  Proof. field_enc. rewrite pow256_2. apply hok_parts. Qed.
  Lemma f_ec : field (encode h) 44 4 = h_ec h.
  Proof. field_enc. rewrite pow256_4. apply hok_parts. Qed.

  Lemma fields_of_encode :
    mkHeader (field (encode h) 0 8) (field (encode h) 8 2) (field (encode h) 10 1)
      (field (encode h) 11 1) (field (encode h) 12 4) (field (encode h) 16 8)
      (field (encode h) 24 8) (field (encode h) 32 8) (field (encode h) 40 2)
      (field (encode h) 42 2) (field (encode h) 44 4) = h.
  Proof.
    rewrite f_length, f_spec, f_version, f_notify, f_reserved, f_id, f_qlen, f_blen, f_qfmt,
      f_bfmt, f_ec. now destruct h.
  Qed.

  (** the layout oracle accepts the model's own encoding *)
  Lemma encode_layout rest : layout_ok h (encode h ++ rest) = true.
  Proof.
    unfold layout_ok. apply andb_true_iff. split.
    - rewrite app_length, encode_length. lia.
    - cbn [layout forallb].
      repeat rewrite field_app_l by (rewrite encode_length; cbn; lia).
      rewrite f_length, f_spec, f_version, f_notify, f_reserved, f_id, f_qlen, f_blen,
        f_qfmt, f_bfmt, f_ec.
      repeat rewrite N.eqb_refl. reflexivity.
  Qed.

  (** round trip: every field, including reserved bits and unknown format
      codes, survives *)
  Lemma decode_encode rest :
    h_spec h = REPE_SPEC ->
    h_length h = HEADER_SIZE + h_qlen h + h_blen h ->
    decode (encode h ++ rest) = Ok h.
  Proof.
    intros Hs Hl. unfold decode.
    rewrite app_length, encode_length.
    replace (N.of_nat (48 + length rest) <? HEADER_SIZE) with false by (unfold HEADER_SIZE; lia).
    repeat rewrite field_app_l by (rewrite encode_length; cbn; lia).
    rewrite f_length, f_spec, f_version, f_notify, f_reserved, f_id, f_qlen, f_blen,
      f_qfmt, f_bfmt, f_ec.
    rewrite Hs, N.eqb_refl. cbn [negb].
    pose proof hok_parts as P.
    unfold checked_add64.
    replace (HEADER_SIZE + h_qlen h <? two64) with true by lia.
    replace (HEADER_SIZE + h_qlen h + h_blen h <? two64) with true by lia.
    rewrite <- Hl, N.eqb_refl. destruct h; cbn in *. now subst.
  Qed.
End Fields.

(** ** decode *)

Lemma field_bound bs off w :
  bytes_ok bs = true -> (off + w <= length bs)%nat -> field bs off w < pow256 w.
Proof.
  intros Hb Hl. unfold field.
  pose proof (le_dec_bound (slice bs off (off + w)) (bytes_ok_slice _ _ _ Hb)) as H.
  rewrite slice_length in H by lia. now replace (off + w - off)%nat with w in H by lia.
Qed.

Lemma enc_field bs off w :
  bytes_ok bs = true -> (off + w <= length bs)%nat ->
  le_enc w (field bs off w) = slice bs off (off + w).
Proof.
  intros Hb Hl. unfold field.
  pose proof (le_enc_dec (slice bs off (off + w)) (bytes_ok_slice _ _ _ Hb)) as H.
  rewrite slice_length in H by lia. now replace (off + w - off)%nat with w in H by lia.
Qed.

(** What a successful decode means, with the sum taken in N (no wrap). *)
Definition decode_spec (bs : list byte) (h : header) : Prop :=
  (48 <= length bs)%nat /\
  h = mkHeader (field bs 0 8) (field bs 8 2) (field bs 10 1) (field bs 11 1) (field bs 12 4)
        (field bs 16 8) (field bs 24 8) (field bs 32 8) (field bs 40 2) (field bs 42 2)
        (field bs 44 4) /\
  h_spec h = REPE_SPEC /\
  h_length h = HEADER_SIZE + h_qlen h + h_blen h /\
  h_length h < two64.

Lemma decode_ok_spec bs h : decode bs = Ok h -> decode_spec bs h.
Proof.
  unfold decode, decode_spec, checked_add64.
  destruct (N.of_nat (length bs) <? HEADER_SIZE) eqn:E1; [discriminate|].
  destruct (field bs 8 2 =? REPE_SPEC) eqn:E2; cbn [negb]; [|discriminate].
  destruct (HEADER_SIZE + field bs 24 8 <? two64) eqn:E3; [|discriminate].
  destruct (HEADER_SIZE + field bs 24 8 + field bs 32 8 <? two64) eqn:E4; [|discriminate].
  destruct (HEADER_SIZE + field bs 24 8 + field bs 32 8 =? field bs 0 8) eqn:E5; [|discriminate].
  intros H. injection H as <-. unfold HEADER_SIZE in *.
  split; [lia|]. split; [reflexivity|].
  cbn [h_spec h_length h_qlen h_blen]. repeat split; lia.
Qed.

Lemma decode_spec_ok bs h : bytes_ok bs = true -> decode_spec bs h -> decode bs = Ok h.
Proof.
  intros Hb (Hlen & -> & Hs & Hl & _). cbn [h_spec h_length h_qlen h_blen] in Hs, Hl.
  unfold decode, checked_add64.
  replace (N.of_nat (length bs) <? HEADER_SIZE) with false by (unfold HEADER_SIZE; lia).
  rewrite Hs, N.eqb_refl. cbn [negb].
  pose proof (field_bound bs 0 8 Hb ltac:(lia)) as B. rewrite pow256_8 in B.
  replace (HEADER_SIZE + field bs 24 8 <? two64) with true by lia.
  replace (HEADER_SIZE + field bs 24 8 + field bs 32 8 <? two64) with true by lia.
  rewrite <- Hl, N.eqb_refl. reflexivity.
Qed.

(** decode never crashes, whatever the bytes *)
Lemma decode_total bs : crashes (decode bs) = false.
Proof.
  unfold decode.
  destruct (N.of_nat (length bs) <? HEADER_SIZE); [reflexivity|].
  destruct (negb _); [reflexivity|].
  destruct (checked_add64 HEADER_SIZE _); [|reflexivity].
  destruct (checked_add64 _ _); [|reflexivity].
  destruct (_ =? _); reflexivity.
Qed.

Lemma decode_hdr_ok bs h : bytes_ok bs = true -> decode bs = Ok h -> hdr_ok h = true.
Proof.
  intros Hb H. apply decode_ok_spec in H as (Hlen & -> & _).
  unfold hdr_ok. cbn.
  pose proof (field_bound bs 0 8 Hb ltac:(lia)).
  pose proof (field_bound bs 8 2 Hb ltac:(lia)).
  pose proof (field_bound bs 10 1 Hb ltac:(lia)).
  pose proof (field_bound bs 11 1 Hb ltac:(lia)).
  pose proof (field_bound bs 12 4 Hb ltac:(lia)).
  pose proof (field_bound bs 16 8 Hb ltac:(lia)).
  pose proof (field_bound bs 24 8 Hb ltac:(lia)).
  pose proof (field_bound bs 32 8 Hb ltac:(lia)).
  pose proof (field_bound bs 40 2 Hb ltac:(lia)).
  pose proof (field_bound bs 42 2 Hb ltac:(lia)).
  pose proof (field_bound bs 44 4 Hb ltac:(lia)).
  rewrite ?pow256_8, ?pow256_4, ?pow256_2, ?pow256_1 in *. unfold two8. lia.
Qed.

(** one encoding: the accepted bytes are exactly the encoding of the result *)
Lemma encode_decode bs h : bytes_ok bs = true -> decode bs = Ok h -> firstn 48 bs = encode h.
Proof.
  intros Hb H. apply decode_ok_spec in H as (Hlen & -> & _).
  unfold encode. cbn [h_length h_spec h_version h_notify h_reserved h_id h_qlen h_blen h_qfmt h_bfmt h_ec].
  rewrite !enc_field by (assumption || lia).
  cbn [Nat.add].
  repeat (rewrite slice_cat by lia).
  now rewrite slice_0_firstn.
Qed.

(** the layout oracle pins the bytes: anything it accepts for [h] starts with
    [encode h] (so the oracle is as strong as byte equality on the header) *)
Lemma layout_ok_encode h bs :
  bytes_ok bs = true -> layout_ok h bs = true -> firstn 48 bs = encode h.
Proof.
  intros Hb H. unfold layout_ok in H. apply andb_true_iff in H as [Hl H].
  cbn [layout forallb] in H.
  repeat (apply andb_true_iff in H as [?E H]). clear H.
  apply N.eqb_eq in E, E0, E1, E2, E3, E4, E5, E6, E7, E8, E9.
  assert (48 <= length bs)%nat as Hlen by lia.
  unfold encode. rewrite <- E, <- E0, <- E1, <- E2, <- E3, <- E4, <- E5, <- E6, <- E7, <- E8, <- E9.
  rewrite !enc_field by (assumption || lia).
  cbn [Nat.add].
  repeat (rewrite slice_cat by lia).
  now rewrite slice_0_firstn.
Qed.
