(** Agreement of the model of the outbound size guard's caller (Model/Limits.v: property C17)
    with the Gallina renderings of WebSocketLimits::check_outbound (its error payload kept) and of
    frame_outbound that bin/rs2v regenerates from /repo/src/websocket_limits.rs and
    /repo/src/websocket_server.rs on every run (Gen/OutboundGen.v).  A function that could not be
    translated is [None] and its lemma degrades to [True].

    frame_outbound's rendering threads [reports], the list of what was handed to the error hooks
    (one entry per [report_error] call); the replacement is built by the rendering of
    create_error_message (Gen/ErrMsgGen.v); its two oracles are [fmt_text] (what [format!] makes of
    its numeric arguments -- the statement assumes it is the model's [replacement_text]) and
    [cap_of] (the capacity of a message's body vector: the result does not depend on it). *)
From RepeV Require Import Model.Limits Base.GenOutboundPrelude Gen.BuildGen Gen.ErrMsgGen Gen.OutboundGen.
From RepeV Require Import Proofs.MessageProofs Proofs.LimitsProofs Proofs.BuildGenAgree.
From RepeV Require Export Proofs.ErrMsgGenAgree.
From RepeV Require Export Proofs.GenAgreeBase.
From Coq Require Import ZifyBool ZifyN ZifyNat Lia.
Ltac Zify.zify_post_hook ::= Z.div_mod_to_equations.

Local Open Scope N_scope.

(** the length the guard is asked about: what [into_wire_bytes] emits *)
Definition frame_len (m : message) : N := HEADER_SIZE + lenN (m_query m) + lenN (m_body m).
(** what reaches the error hooks for message [m] under limit [lim]: ONE report carrying the
    framed length and the limit when the message is refused, nothing otherwise *)
Definition reports_of (lim : option N) (m : message) : list report :=
  match lim with
  | Some l => if l <? frame_len m then [R_OutboundTooLarge (frame_len m) l] else []
  | None => []
  end.

(** [check_outbound]: [Ok(())] exactly when the model's [check_outbound] lets the message pass,
    else [Err(MessageTooLarge { size, limit })] with the size asked about and the limit *)
Lemma check_outbound_r_agrees :
  match gen_check_outbound_r with
  | Some f => forall l size,
      f l size = Ok (match l_peer l with
                     | Some lim => if check_outbound (Some lim) size then ROk tt else RErr (E_MessageTooLarge size lim)
                     | None => ROk tt
                     end, l)
  | None => True
  end.
Proof.
  gen_start. all: intros l size; unfold check_outbound; destruct (l_peer l) as [lim|]; [|reflexivity].
  all: repeat match goal with |- context [if ?b then _ else _] => destruct b eqn:? end.
  all: try reflexivity; try discriminate; exfalso; lia.
Qed.

Lemma error_message_replacement id size limit :
  set_m_hdr (error_message ERRC_InternalError (replacement_text size limit))
            (set_h_id (m_hdr (error_message ERRC_InternalError (replacement_text size limit))) id) =
  replacement id size limit.
Proof. reflexivity. Qed.

(** [frame_outbound]: the bytes put on the wire are the model's, and the error hooks are told
    exactly once per refused message (never for one that passes), with the framed length and
    the limit *)
Lemma frame_outbound_agrees :
  match gen_frame_outbound with
  | Some f => forall fmt cap_of reports m l,
      (forall s li, fmt [s; li] = replacement_text s li) ->
      h_version (m_hdr m) < 256 -> h_notify (m_hdr m) < 256 -> frame_len m < two64 ->
      f fmt cap_of reports m l =
      Ok (fst (frame_outbound (l_peer l) m), reports ++ reports_of (l_peer l) m)
  | None => True
  end.
Proof.
  pose proof check_outbound_r_agrees as Hc. pose proof into_wire_bytes_agrees as Hw. pose proof create_error_message_agrees as Hm. gen_start.
  all: intros fmt cap_of reports m l Hfmt Hv Hn Hlen; callee Hc; callee Hw; callee Hm; unfold frame_len in *.
  all: change (@len_n byte) with (@lenN byte) in *; unfold add64.
  all: replace (HEADER_SIZE + lenN (m_query m) <? two64) with true by lia; cbn [bind].
  all: replace (HEADER_SIZE + lenN (m_query m) + lenN (m_body m) <? two64) with true by lia; cbn [bind].
  all: rewrite Hc; cbn [bind]; unfold frame_outbound, reports_of, frame_len, check_outbound; cbv zeta.
  all: destruct (l_peer l) as [lim|]; [destruct (lim <? HEADER_SIZE + lenN (m_query m) + lenN (m_body m)) eqn:E; cbn [negb]|].
  all: try (rewrite Hw by assumption; replace (HEADER_SIZE + lenN (m_query m) + lenN (m_body m) <? two64) with true by lia;
            cbn [bind fst]; rewrite app_nil_r, !into_wire_bytes_eq; reflexivity).
  all: rewrite ?(N.eqb_sym 0 (h_notify (m_hdr m))); destruct (negb (h_notify (m_hdr m) =? 0)); [reflexivity|].
  all: pose proof (replacement_text_bounds (HEADER_SIZE + lenN (m_query m) + lenN (m_body m)) lim) as Hb.
  all: rewrite Hfmt, Hm by (unfold lenN, HEADER_SIZE, two64 in *; lia); cbn [bind].
  all: rewrite error_message_replacement; rewrite Hw by (cbn [replacement m_hdr h_version h_notify]; unfold REPE_VERSION; lia).
  all: replace (HEADER_SIZE + lenN (m_query (replacement (h_id (m_hdr m)) (HEADER_SIZE + lenN (m_query m) + lenN (m_body m)) lim)) +
                lenN (m_body (replacement (h_id (m_hdr m)) (HEADER_SIZE + lenN (m_query m) + lenN (m_body m)) lim)) <? two64) with true
         by (cbn [replacement m_query m_body]; unfold lenN, HEADER_SIZE, two64 in *; cbn [length]; lia).
  all: cbn [bind fst]; rewrite !into_wire_bytes_eq; reflexivity.
Qed.

(** ** the bundle quoted by Props/C17.v *)
Lemma c17_source_translation_outbound :
  match gen_check_outbound_r with
  | Some f => forall l size,
      f l size = Ok (match l_peer l with
                     | Some lim => if check_outbound (Some lim) size then ROk tt else RErr (E_MessageTooLarge size lim)
                     | None => ROk tt
                     end, l)
  | None => True
  end /\
  match gen_frame_outbound with
  | Some f => forall fmt cap_of reports m l,
      (forall s li, fmt [s; li] = replacement_text s li) ->
      h_version (m_hdr m) < 256 -> h_notify (m_hdr m) < 256 -> frame_len m < two64 ->
      f fmt cap_of reports m l =
      Ok (fst (frame_outbound (l_peer l) m), reports ++ reports_of (l_peer l) m)
  | None => True
  end.
Proof. exact (conj check_outbound_r_agrees frame_outbound_agrees). Qed.

(** the report list says what the model's flag says: one report iff the model reports *)
Lemma c17_reports_of_model lim m :
  length (reports_of lim m) = if snd (frame_outbound lim m) then 1%nat else 0%nat.
Proof.
  unfold reports_of, frame_outbound, frame_len. cbv zeta. destruct lim as [l|]; [|reflexivity].
  destruct (l <? HEADER_SIZE + lenN (m_query m) + lenN (m_body m)); [|reflexivity]. destruct (negb _); reflexivity.
Qed.
