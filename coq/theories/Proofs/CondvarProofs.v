(** Proofs about the mutex / condition-variable protocol of TransferControl
    (Model/Condvar.v): no lost wake-up over all interleavings, right return
    value, Timeout neither early nor never, and the C12 oracle on the model. *)
From RepeV Require Import Model.Condvar Proofs.StreamProofs.
From Coq Require Import ZifyBool ZifyN ZifyNat.
Ltac Zify.zify_post_hook ::= Z.div_mod_to_equations.

Ltac yproj :=
  cbn [fst snd y_tc y_w y_now y_deadline y_kind
       t_window t_sent t_acked t_file t_cancelled t_ring t_held t_cap t_peer t_pending].

Ltac yproj_in H :=
  cbn [fst snd y_tc y_w y_now y_deadline y_kind
       t_window t_sent t_acked t_file t_cancelled t_ring t_held t_cap t_peer t_pending] in H.

(** * 1. Every method that can make the awaited condition true notifies *)

Lemma ready_credit_needs_notify len s o :
  ready (WCredit len) s = false -> ready (WCredit len) (fst (step s o)) = true ->
  notifies s o = true.
Proof.
  unfold ready, credit_ok, notifies.
  destruct (t_cancelled s) as [r|] eqn:Hc; [discriminate|].
  destruct o; cbn [step]; try rewrite ring_push_eq; rewrite ?Hc; proj; rewrite ?Hc.
  - (* Sent *) destruct (t_sent s <? o) eqn:E; intros H1 H2; lia.
  - (* Ack *)
    destruct (f =? t_file s) eqn:Ef; proj; rewrite ?Hc; cbn [andb].
    + destruct (t_acked s <? N.min o (t_sent s)) eqn:E; [reflexivity|].
      intros H1 H2. rewrite H1 in H2. discriminate.
    + intros H1 H2. rewrite H1 in H2. discriminate.
  - (* Advance *) reflexivity.
  - (* Resume *)
    destruct (f =? t_file s) eqn:Ef; cbn [negb andb]; proj; rewrite ?Hc.
    + destruct (covers (t_ring s) o) eqn:Ecv; cbn [negb]; proj; rewrite ?Hc; [reflexivity|].
      intros H1 H2. rewrite H1 in H2. discriminate.
    + intros H1 H2. rewrite H1 in H2. discriminate.
  - (* Cancel *) reflexivity.
  - (* Push *) intros H1 H2. rewrite H1 in H2. discriminate.
  - (* SetPeer *) intros H1 H2. rewrite H1 in H2. discriminate.
  - (* TryCredit *) intros H1 H2. rewrite ?Hc in H2. rewrite H1 in H2. discriminate.
  - (* TryReconnect *)
    destruct (t_pending s); proj; rewrite ?Hc; intros H1 H2; rewrite H1 in H2; discriminate.
  - (* Replay *) intros H1 H2. rewrite ?Hc in H2. rewrite H1 in H2. discriminate.
Qed.

Lemma ready_reconnect_needs_notify s o :
  ready WReconnect s = false -> ready WReconnect (fst (step s o)) = true ->
  notifies s o = true.
Proof.
  unfold ready, notifies.
  destruct (t_cancelled s) as [r|] eqn:Hc; [discriminate|].
  destruct (t_pending s) as [p|] eqn:Hp; [discriminate|]. intros _.
  destruct o; cbn [step]; try rewrite ring_push_eq; rewrite ?Hc; proj; rewrite ?Hc, ?Hp;
    try discriminate; try reflexivity.
  - (* Ack *)
    destruct (f =? t_file s) eqn:Ef; proj; rewrite ?Hc, ?Hp; discriminate.
  - (* Resume *)
    destruct (f =? t_file s) eqn:Ef; cbn [negb andb]; proj; rewrite ?Hc, ?Hp; [|discriminate].
    destruct (covers (t_ring s) o) eqn:Ecv; cbn [negb]; proj; rewrite ?Hc, ?Hp;
      [reflexivity|discriminate].
  - (* TryReconnect *) proj. rewrite Hc, Hp. discriminate.
Qed.

Lemma ready_needs_notify k s o :
  ready k s = false -> ready k (fst (step s o)) = true -> notifies s o = true.
Proof.
  destruct k; [apply ready_credit_needs_notify|apply ready_reconnect_needs_notify].
Qed.

(** contrapositive: an operation that does not notify leaves a false
    condition false *)
Lemma quiet_keeps_unready k s o :
  ready k s = false -> notifies s o = false -> ready k (fst (step s o)) = false.
Proof.
  intros H1 H2. destruct (ready k (fst (step s o))) eqn:E; [|reflexivity].
  rewrite (ready_needs_notify k s o H1 E) in H2. discriminate.
Qed.

(** * 2. The system: constants and the parked invariant *)

Lemma sys_step_kind y e : y_kind (sys_step y e) = y_kind y.
Proof.
  destruct e; cbn [sys_step]; yproj; try reflexivity.
  - destruct (y_w y); try reflexivity.
    destruct (ready _ _); [destruct (waiter_return _ _); reflexivity|].
    destruct (_ <=? _); reflexivity.
  - destruct (y_w y); reflexivity.
Qed.

Lemma sys_step_deadline y e : y_deadline (sys_step y e) = y_deadline y.
Proof.
  destruct e; cbn [sys_step]; yproj; try reflexivity.
  - destruct (y_w y); try reflexivity.
    destruct (ready _ _); [destruct (waiter_return _ _); reflexivity|].
    destruct (_ <=? _); reflexivity.
  - destruct (y_w y); reflexivity.
Qed.

Lemma sys_run_app y a b : sys_run y (a ++ b) = sys_run (sys_run y a) b.
Proof. apply fold_left_app. Qed.

Lemma sys_run_cons y e es : sys_run y (e :: es) = sys_run (sys_step y e) es.
Proof. reflexivity. Qed.

Lemma sys_run_kind es : forall y, y_kind (sys_run y es) = y_kind y.
Proof.
  induction es as [|e es IH]; intros y; [reflexivity|].
  rewrite sys_run_cons, IH. apply sys_step_kind.
Qed.

Lemma sys_run_deadline es : forall y, y_deadline (sys_run y es) = y_deadline y.
Proof.
  induction es as [|e es IH]; intros y; [reflexivity|].
  rewrite sys_run_cons, IH. apply sys_step_deadline.
Qed.

(** the clock never runs backwards *)
Lemma sys_step_now y e : y_now y <= y_now (sys_step y e).
Proof.
  destruct e; cbn [sys_step]; yproj; try lia.
  - destruct (y_w y); try lia.
    destruct (ready _ _); [destruct (waiter_return _ _); yproj; lia|].
    destruct (_ <=? _); yproj; lia.
  - destruct (y_w y); yproj; lia.
Qed.

Definition parked_inv (y : sys) : Prop :=
  y_w y = Parked -> ready (y_kind y) (y_tc y) = false.

Lemma parked_inv_step y e : parked_inv y -> parked_inv (sys_step y e).
Proof.
  unfold parked_inv. intros I. destruct e; cbn [sys_step].
  - (* signal *) yproj. destruct (y_w y) eqn:W; try discriminate.
    destruct (notifies (y_tc y) o) eqn:Nf; [discriminate|]. intros _.
    apply quiet_keeps_unready; [now apply I|exact Nf].
  - (* waiter *) destruct (y_w y) eqn:W.
    + destruct (ready (y_kind y) (y_tc y)) eqn:R.
      * destruct (waiter_return _ _); yproj; discriminate.
      * destruct (_ <=? _); yproj; [discriminate|]. intros _. exact R.
    + rewrite W. exact I.
    + rewrite W. discriminate.
  - (* spurious *) destruct (y_w y) eqn:W; yproj; try discriminate; rewrite W; discriminate.
  - (* tick *) yproj. destruct (y_w y) eqn:W; try discriminate.
    destruct (_ <=? _); [discriminate|]. intros _. now apply I.
Qed.

Lemma parked_inv_run es : forall y, parked_inv y -> parked_inv (sys_run y es).
Proof.
  induction es as [|e es IH]; intros y I; [exact I|].
  rewrite sys_run_cons. apply IH, parked_inv_step, I.
Qed.

Lemma parked_inv_init w c k d : parked_inv (sys_init w c k d).
Proof. unfold parked_inv, sys_init; yproj. discriminate. Qed.

Lemma no_lost_wakeup w c k d es :
  let y := sys_run (sys_init w c k d) es in
  y_w y = Parked -> ready (y_kind y) (y_tc y) = false.
Proof. exact (parked_inv_run es _ (parked_inv_init w c k d)). Qed.

(** * 3. What one waiter step does *)

(** when its condition holds the waiter never reports a timeout *)
Lemma ready_return_not_timeout k s : ready k s = true -> snd (waiter_return k s) <> WTimeout.
Proof.
  unfold ready, waiter_return. destruct (t_cancelled s); [cbn [snd]; discriminate|].
  destruct k; [cbn [snd]; discriminate|].
  destruct (t_pending s); [cbn [snd]; discriminate|discriminate].
Qed.

Definition waiter_step_spec (y : sys) : Prop :=
  let k := y_kind y in
  let s := y_tc y in
  let y' := sys_step y EWaiter in
  (ready k s = true /\ y_w y' = Done (snd (waiter_return k s)) /\
   y_tc y' = fst (waiter_return k s) /\ snd (waiter_return k s) <> WTimeout)
  \/ (ready k s = false /\ y_deadline y <= y_now y /\ y_w y' = Done WTimeout /\ y_tc y' = s)
  \/ (ready k s = false /\ y_now y < y_deadline y /\ y_w y' = Parked /\ y_tc y' = s).

Lemma waiter_step y : y_w y = Runnable -> waiter_step_spec y.
Proof.
  intros W. unfold waiter_step_spec. cbn [sys_step]. rewrite W.
  destruct (ready (y_kind y) (y_tc y)) eqn:R.
  - left. pose proof (ready_return_not_timeout _ _ R) as NT.
    destruct (waiter_return (y_kind y) (y_tc y)) as [s' r]; yproj. yproj_in NT. auto.
  - right. destruct (y_deadline y <=? y_now y) eqn:D; yproj; [left|right]; repeat split; auto; lia.
Qed.

Lemma timeout_not_early y :
  y_w y = Runnable -> y_w (sys_step y EWaiter) = Done WTimeout ->
  ready (y_kind y) (y_tc y) = false /\ y_deadline y <= y_now y.
Proof.
  intros W H. destruct (waiter_step y W) as [(R & E & _ & NT)|[(R & D & _)|(_ & _ & E & _)]].
  - rewrite E in H. injection H as H. contradiction.
  - split; assumption.
  - rewrite E in H. discriminate.
Qed.

(** a waiter that is not runnable does nothing at its own event *)
Lemma waiter_idle y : y_w y <> Runnable -> sys_step y EWaiter = y.
Proof. intros W. cbn [sys_step]. destruct (y_w y); [contradiction| |]; reflexivity. Qed.

(** a returned waiter stays returned with its value *)
Lemma done_step y e r : y_w y = Done r -> y_w (sys_step y e) = Done r.
Proof.
  intros W. destruct e; cbn [sys_step]; rewrite W; yproj; try reflexivity; exact W.
Qed.

Lemma done_run es : forall y r, y_w y = Done r -> y_w (sys_run y es) = Done r.
Proof.
  induction es as [|e es IH]; intros y r W; [exact W|].
  rewrite sys_run_cons. apply IH, done_step, W.
Qed.

(** only the waiter's own step from [Runnable] produces [Done] *)
Lemma becomes_done y e r :
  (forall r', y_w y <> Done r') -> y_w (sys_step y e) = Done r -> e = EWaiter /\ y_w y = Runnable.
Proof.
  intros ND H. destruct e; cbn [sys_step] in H.
  - yproj_in H. destruct (y_w y) eqn:W; try discriminate.
    + destruct (notifies _ _); discriminate.
    + exfalso. exact (ND _ eq_refl).
  - destruct (y_w y) eqn:W; [auto| |].
    + rewrite W in H. discriminate.
    + exfalso. exact (ND _ eq_refl).
  - destruct (y_w y) eqn:W; yproj_in H; try discriminate.
    + rewrite W in H. discriminate.
    + exfalso. exact (ND _ eq_refl).
  - yproj_in H. destruct (y_w y) eqn:W; try discriminate.
    + destruct (_ <=? _); discriminate.
    + exfalso. exact (ND _ eq_refl).
Qed.

(** whenever the waiter has returned [r], there was one moment (its own step
    from [Runnable], after a prefix [es1] of the schedule) at which either its
    condition held and [r] is the value for the state at that moment, or the
    condition was false, the deadline had been reached and [r] is Timeout *)
Lemma returns_right_value w c k d es r :
  y_w (sys_run (sys_init w c k d) es) = Done r ->
  exists es1 es2, es = es1 ++ EWaiter :: es2 /\
    let y := sys_run (sys_init w c k d) es1 in
    y_w y = Runnable /\
    ((ready k (y_tc y) = true /\ r = snd (waiter_return k (y_tc y)) /\ r <> WTimeout) \/
     (ready k (y_tc y) = false /\ r = WTimeout /\ d <= y_now y)).
Proof.
  revert r. induction es as [|e es IH] using rev_ind; intros r H.
  - cbn in H. discriminate.
  - rewrite sys_run_app in H. cbn [sys_run fold_left] in H.
    set (y := sys_run (sys_init w c k d) es) in *.
    destruct (y_w y) as [| |r0] eqn:W.
    + (* runnable: this is the step *)
      destruct (becomes_done y e r) as [-> _]; [intros r'; rewrite W; discriminate|exact H|].
      exists es, []. split; [reflexivity|]. cbv zeta. fold y. split; [exact W|].
      assert (K : y_kind y = k) by (unfold y; now rewrite sys_run_kind).
      assert (D : y_deadline y = d) by (unfold y; now rewrite sys_run_deadline).
      destruct (waiter_step y W) as [(R & E & _ & NT)|[(R & Dl & E & _)|(_ & _ & E & _)]];
        rewrite E in H; [| |discriminate]; injection H as <-.
      * left. rewrite K in R, NT |- *. auto.
      * right. rewrite K in R. rewrite D in Dl. auto.
    + exfalso. destruct (becomes_done y e r) as [_ W']; [intros r'; rewrite W; discriminate|exact H|].
      rewrite W in W'. discriminate.
    + (* already done *)
      rewrite (done_step y e r0 W) in H. injection H as <-.
      destruct (IH r0 eq_refl) as (es1 & es2 & -> & P).
      exists es1, (es2 ++ [e]). split; [|exact P].
      now rewrite <- app_assoc.
Qed.

(** * 4. Timeout is enabled once the deadline passes *)

Lemma timeout_wakes y :
  y_w y = Parked -> y_deadline y <= y_now y + 1 -> y_w (sys_step y ETick) = Runnable.
Proof.
  intros W D. cbn [sys_step]; yproj. rewrite W.
  destruct (y_deadline y <=? y_now y + 1) eqn:E; [reflexivity|lia].
Qed.

Lemma timeout_returns y :
  y_w y = Runnable -> ready (y_kind y) (y_tc y) = false -> y_deadline y <= y_now y ->
  y_w (sys_step y EWaiter) = Done WTimeout.
Proof.
  intros W R D. cbn [sys_step]. rewrite W, R.
  destruct (y_deadline y <=? y_now y) eqn:E; [reflexivity|lia].
Qed.

(** the two together: from a parked state whose deadline is due, the clock
    tick followed by the waiter's step returns Timeout unless the condition
    became true meanwhile (nothing else is needed: enabledness, not fairness) *)
Lemma timeout_parked_then_returns y :
  y_w y = Parked -> ready (y_kind y) (y_tc y) = false -> y_deadline y <= y_now y + 1 ->
  y_w (sys_step (sys_step y ETick) EWaiter) = Done WTimeout.
Proof.
  intros W R D. apply timeout_returns.
  - now apply timeout_wakes.
  - rewrite sys_step_kind. cbn [sys_step]; yproj. exact R.
  - rewrite sys_step_deadline. cbn [sys_step]; yproj. exact D.
Qed.

(** * 5. A parked waiter whose condition is made true returns *)

Lemma woken_then_returns y o :
  y_w y = Parked -> ready (y_kind y) (y_tc y) = false ->
  ready (y_kind y) (fst (step (y_tc y) o)) = true ->
  exists r, y_w (sys_step (sys_step y (ESignal o)) EWaiter) = Done r /\ r <> WTimeout /\
            r = snd (waiter_return (y_kind y) (fst (step (y_tc y) o))).
Proof.
  intros W R0 R1.
  pose proof (ready_needs_notify _ _ _ R0 R1) as Nf.
  set (y1 := sys_step y (ESignal o)).
  assert (W1 : y_w y1 = Runnable) by (unfold y1; cbn [sys_step]; yproj; now rewrite W, Nf).
  assert (K1 : y_kind y1 = y_kind y) by apply sys_step_kind.
  assert (S1 : y_tc y1 = fst (step (y_tc y) o)) by reflexivity.
  destruct (waiter_step y1 W1) as [(R & E & _ & NT)|[(R & _)|(R & _)]];
    rewrite K1, S1 in *; [|congruence|congruence].
  eexists. split; [exact E|]. split; [exact NT|reflexivity].
Qed.

(** the same for every reachable state (the invariant discharges [ready = false]) *)
Lemma woken_then_returns_reachable w c k d es o :
  let y := sys_run (sys_init w c k d) es in
  y_w y = Parked -> ready k (fst (step (y_tc y) o)) = true ->
  exists r, y_w (sys_step (sys_step y (ESignal o)) EWaiter) = Done r /\ r <> WTimeout.
Proof.
  cbv zeta. intros W R1.
  pose proof (no_lost_wakeup w c k d es W) as R0.
  assert (K : y_kind (sys_run (sys_init w c k d) es) = k) by now rewrite sys_run_kind.
  set (y := sys_run (sys_init w c k d) es) in *.
  assert (R1' : ready (y_kind y) (fst (step (y_tc y) o)) = true) by (rewrite K; exact R1).
  destruct (woken_then_returns y o W R0 R1') as (r & E & NT & _). eauto.
Qed.

(** * 6. The oracle accepts the model *)

Lemma wresult_eqb_refl r : wresult_eqb r r = true.
Proof. destruct r; cbn [wresult_eqb]; try reflexivity; apply N.eqb_refl. Qed.

Lemma wresult_eqb_eq a b : wresult_eqb a b = true -> a = b.
Proof.
  destruct a, b; cbn [wresult_eqb]; try discriminate; try reflexivity;
    intros H; apply N.eqb_eq in H; now subst.
Qed.

Lemma observe_cons y o ops :
  observe_history y (o :: ops) =
  (match y_w (sys_step (sys_step y (ESignal o)) EWaiter) with Done r => Returned r | _ => StillParked end)
    :: observe_history (sys_step (sys_step y (ESignal o)) EWaiter) ops.
Proof. reflexivity. Qed.

Lemma check12_returned k ops : forall s y, check12 k s true ops (observe_history y ops) = true.
Proof.
  induction ops as [|o ops IH]; intros s y; [reflexivity|].
  rewrite observe_cons. cbn [check12]. apply IH.
Qed.

Lemma check12_parked ops : forall y,
  y_w y = Parked -> ready (y_kind y) (y_tc y) = false -> y_now y < y_deadline y ->
  check12 (y_kind y) (y_tc y) false ops (observe_history y ops) = true.
Proof.
  induction ops as [|o ops IH]; intros y W R0 Dl; [reflexivity|].
  rewrite observe_cons. cbn [check12].
  set (s' := fst (step (y_tc y) o)).
  set (y1 := sys_step y (ESignal o)).
  assert (K1 : y_kind y1 = y_kind y) by apply sys_step_kind.
  assert (S1 : y_tc y1 = s') by reflexivity.
  assert (N1 : y_now y1 = y_now y) by reflexivity.
  assert (D1 : y_deadline y1 = y_deadline y) by reflexivity.
  destruct (ready (y_kind y) s') eqn:R1.
  - (* the condition became true: the signaller notified, the waiter returns *)
    destruct (woken_then_returns y o W R0 R1) as (r & E & _ & Er).
    change (sys_step y (ESignal o)) with y1 in E. rewrite E.
    change (fst (step (y_tc y) o)) with s' in Er. rewrite <- Er, wresult_eqb_refl. cbn [andb].
    apply check12_returned.
  - (* still false: parked again (or never woken) *)
    assert (E : y_w (sys_step y1 EWaiter) = Parked /\ y_tc (sys_step y1 EWaiter) = s').
    { destruct (y_w y1) eqn:W1.
      - destruct (waiter_step y1 W1) as [(R & _)|[(_ & D & _)|(_ & _ & E & T)]];
          rewrite ?K1, ?S1, ?N1, ?D1 in *; [congruence|lia|]. split; [exact E|exact T].
      - rewrite waiter_idle by (rewrite W1; discriminate). split; [exact W1|exact S1].
      - exfalso. unfold y1 in W1. cbn [sys_step] in W1. yproj_in W1. rewrite W in W1.
        destruct (notifies _ _); discriminate. }
    destruct E as [E T]. rewrite E. cbn [negb andb].
    set (y2 := sys_step y1 EWaiter) in *.
    assert (K2 : y_kind y2 = y_kind y) by (unfold y2; now rewrite sys_step_kind).
    rewrite <- K2, <- T. apply IH; [exact E|now rewrite K2, T| ].
    unfold y2. rewrite sys_step_deadline, D1.
    destruct (y_w y1) eqn:W1.
    + destruct (waiter_step y1 W1) as [(R & _)|[(_ & D & _)|(_ & _ & _ & _)]];
        rewrite ?K1, ?S1, ?N1, ?D1 in *; [congruence|lia|].
      cbn [sys_step]. rewrite W1, K1, S1, R1.
      destruct (_ <=? _); yproj; lia.
    + rewrite waiter_idle by (rewrite W1; discriminate). lia.
    + rewrite waiter_idle by (rewrite W1; discriminate). lia.
Qed.

Lemma ok_model_C12 w c k pre ops : ok_C12 w c k pre ops (model_C12 w c k pre ops) = true.
Proof.
  unfold ok_C12, model_C12. cbn [fst snd].
  set (s0 := exec (init w c) pre).
  set (y0 := mkSys s0 Runnable 0 1000000 k).
  assert (K0 : y_kind y0 = k) by reflexivity.
  assert (S0 : y_tc y0 = s0) by reflexivity.
  assert (N0 : y_now y0 = 0) by reflexivity.
  assert (D0 : y_deadline y0 = 1000000) by reflexivity.
  destruct (waiter_step y0 eq_refl) as [(R & E & _ & _)|[(_ & D & _)|(R & _ & E & T)]];
    rewrite ?K0, ?S0, ?N0, ?D0 in *.
  - rewrite E, R, wresult_eqb_refl. reflexivity.
  - lia.
  - rewrite E, R. cbn [negb andb].
    set (y1 := sys_step y0 EWaiter) in *.
    assert (K : y_kind y1 = k) by (unfold y1; now rewrite sys_step_kind).
    rewrite <- K, <- T.
    apply check12_parked; [exact E|now rewrite K, T|].
    unfold y1. rewrite sys_step_deadline, D0. cbn [sys_step]. unfold y0 at 1. yproj.
    fold y0. rewrite K0, S0, R, D0, N0.
    destruct (_ <=? _); yproj; lia.
Qed.

(** the oracle is exact about what it accepts: an accepted first observation
    [Returned r] means the condition held with that value; an accepted
    [StillParked] means it did not *)
Lemma ok_C12_first w c k pre ops o :
  ok_C12 w c k pre ops o = true ->
  match fst o with
  | Returned r => ready k (exec (init w c) pre) = true /\ r = snd (waiter_return k (exec (init w c) pre))
  | StillParked => ready k (exec (init w c) pre) = false
  end.
Proof.
  unfold ok_C12. destruct (fst o) as [|r]; intros H.
  - apply andb_prop in H. destruct H as [H _]. now apply negb_true_iff in H.
  - apply andb_prop in H. destruct H as [H1 H2]. split; [exact H1|]. now apply wresult_eqb_eq.
Qed.

(** an observation "still parked" right after an operation that made the
    condition true (a lost wake-up) is rejected by the oracle *)
Lemma check12_rejects_lost_wakeup k s o ops obs :
  ready k (fst (step s o)) = true -> check12 k s false (o :: ops) (StillParked :: obs) = false.
Proof. intros R. cbn [check12]. rewrite R. reflexivity. Qed.
