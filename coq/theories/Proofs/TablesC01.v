(** Agreement of the model's header table with the table re-read from
    /repo/src/header.rs and src/constants.rs by bin/extract-tables. *)
From RepeV Require Import Model.Header Gen.Tables.

Definition agrees {A} (src : option A) (m : A) : Prop :=
  match src with Some x => x = m | None => True end.

(** the chain-of-appends encoder of the model is the table-driven one *)
Lemma encode_is_table h : encode h = encode_tbl header_table h.
Proof. unfold encode, encode_tbl, header_table. cbn [map concat field_of]. now rewrite !app_nil_r. Qed.

(** the independent REPE v1 offset table is the running sum of the widths *)
Lemma layout_is_table :
  map (fun '(o, w, _) => (o, w)) layout = map (fun '(o, w, _) => (o, w)) (offsets_of 0 header_table).
Proof. reflexivity. Qed.

Lemma header_encode_agrees : agrees src_header_encode header_table.
Proof. vm_compute. first [reflexivity | exact I]. Qed.
Lemma header_decode_agrees : agrees src_header_decode header_table.
Proof. vm_compute. first [reflexivity | exact I]. Qed.
Lemma header_size_agrees : agrees src_HEADER_SIZE HEADER_SIZE.
Proof. vm_compute. first [reflexivity | exact I]. Qed.
Lemma repe_spec_agrees : agrees src_REPE_SPEC REPE_SPEC.
Proof. vm_compute. first [reflexivity | exact I]. Qed.
Lemma repe_version_agrees : agrees src_REPE_VERSION REPE_VERSION.
Proof. vm_compute. first [reflexivity | exact I]. Qed.
