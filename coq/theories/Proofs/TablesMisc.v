(** Agreement of model constants with the values re-read from /repo's sources by
    bin/extract-tables (each lemma degrades to True when the source could not be
    parsed; the evidence then records "not extracted"). *)
From RepeV Require Import Gen.Tables Proofs.TablesC01 Model.Route Model.JsonPtr Model.Beve Model.OffReader.

Lemma c03_error_codes_agree :
  agrees src_ErrorCode_VersionMismatch Route.EC_VERSION /\ agrees src_ErrorCode_InvalidQuery Route.EC_QUERY /\
  agrees src_ErrorCode_InvalidBody Route.EC_BODY /\ agrees src_ErrorCode_ParseError Route.EC_PARSE /\
  agrees src_ErrorCode_MethodNotFound Route.EC_NOTFOUND /\ agrees src_ErrorCode_ResourceExhausted Route.EC_EXHAUSTED /\
  agrees src_ErrorCode_InternalError Route.EC_INTERNAL.
Proof. repeat split; vm_compute; first [reflexivity | exact I]. Qed.

Lemma c16_error_codes_agree :
  agrees src_ErrorCode_Ok OffReader.EC_OK /\ agrees src_ErrorCode_ResourceExhausted OffReader.EC_RESOURCE_EXHAUSTED /\
  agrees src_ErrorCode_InternalError OffReader.EC_INTERNAL_ERROR.
Proof. repeat split; vm_compute; first [reflexivity | exact I]. Qed.

Lemma c07_stack_segs_agree : agrees src_STACK_SEGS (N.of_nat JsonPtr.STACK_SEGS).
Proof. vm_compute; first [reflexivity | exact I]. Qed.

Lemma c08_marker_agree : agrees src_ALIGNED_MARKER Beve.ALIGNED_MARKER.
Proof. vm_compute; first [reflexivity | exact I]. Qed.
