(** Agreement of the model's [build] (Model/Message.v) with the Gallina renderings of
    Message::builder, MessageBuilder::{error_code, body_bytes, body_format}, create_error_message and
    create_error_response_like that bin/rs2v regenerates from /repo/src/message.rs on every run
    (Gen/ErrMsgGen.v): the error messages that frame_outbound (C17) and spawn_off_reader (C16) queue
    are the model's [build] of the default builder with the error code, the text as a UTF-8 body
    and -- for the response form -- the request's id and query.  A function that could not be
    translated is [None] and its lemma degrades to [True]. *)
From RepeV Require Import Base.GenOutboundPrelude Gen.BuildGen Gen.ErrMsgGen Proofs.BuildGenAgree.
From RepeV Require Export Proofs.GenAgreeBase.
From Coq Require Import ZifyBool ZifyN ZifyNat Lia.
Ltac Zify.zify_post_hook ::= Z.div_mod_to_equations.

Local Open Scope N_scope.

(** [create_error_message(code, text)] *)
Definition error_message (code : N) (text : list byte) : message :=
  build (mkBuilder 0 [] text 0 BF_UTF8 false code).
(** [create_error_response_like(request, code, text)]: the same with the request's id and query,
    lengths recomputed *)
Definition error_response_like (r : message) (code : N) (text : list byte) : message :=
  let e := error_message code text in
  let h := set_h_qlen (set_h_id (m_hdr e) (h_id (m_hdr r))) (lenN (m_query r)) in
  mkMessage (set_h_length h (HEADER_SIZE + h_qlen h + h_blen h)) (m_query r) (m_body e).

Lemma msg_builder_agrees :
  match gen_msg_builder with Some f => f = Ok (mkBuilder 0 [] [] 0 0 false 0) | None => True end.
Proof. gen_start. all: reflexivity. Qed.

Lemma builder_error_code_agrees :
  match gen_builder_error_code with
  | Some f => forall b ec, f b ec = Ok (mkBuilder (b_id b) (b_query b) (b_body b) (b_qfmt b) (b_bfmt b) (b_notify b) ec)
  | None => True
  end.
Proof. gen_start. all: intros; reflexivity. Qed.

Lemma builder_body_bytes_agrees :
  match gen_builder_body_bytes with
  | Some f => forall b x, f b x = Ok (mkBuilder (b_id b) (b_query b) x (b_qfmt b) (b_bfmt b) (b_notify b) (b_ec b))
  | None => True
  end.
Proof. gen_start. all: intros; reflexivity. Qed.

Lemma builder_body_format_agrees :
  match gen_builder_body_format with
  | Some f => forall b x, f b x = Ok (mkBuilder (b_id b) (b_query b) (b_body b) (b_qfmt b) x (b_notify b) (b_ec b))
  | None => True
  end.
Proof. gen_start. all: intros; reflexivity. Qed.

(** [create_error_message]: panic-free for every text that fits a frame *)
Lemma create_error_message_agrees :
  match gen_create_error_message with
  | Some f => forall code text, HEADER_SIZE + lenN text < two64 -> f code text = Ok (error_message code text)
  | None => True
  end.
Proof.
  pose proof msg_builder_agrees as H0. pose proof builder_error_code_agrees as H1. pose proof builder_body_bytes_agrees as H2.
  pose proof builder_body_format_agrees as H3. pose proof build_agrees as H4. gen_start.
  all: intros code text Hlen; callee H0; callee H1; callee H2; callee H3; callee H4.
  all: repeat (first [rewrite H0 | rewrite H1 | rewrite H2 | rewrite H3]; cbn [bind b_id b_query b_body b_qfmt b_bfmt b_notify b_ec]).
  all: rewrite H4; cbn [b_query b_body].
  all: replace (HEADER_SIZE + lenN (@nil byte) + lenN text <? two64) with true by (unfold lenN in *; cbn [length]; lia); reflexivity.
Qed.

Lemma create_error_response_like_agrees :
  match gen_create_error_response_like with
  | Some f => forall r code text, HEADER_SIZE + lenN (m_query r) + lenN text < two64 ->
      f r code text = Ok (error_response_like r code text)
  | None => True
  end.
Proof.
  pose proof create_error_message_agrees as Hc. gen_start.
  all: intros r code text Hlen; callee Hc; rewrite Hc by lia; cbn [bind].
  all: unfold error_response_like, error_message, build; cbn [m_hdr m_query m_body set_m_hdr set_m_query set_h_id set_h_qlen set_h_length
         h_length h_spec h_version h_notify h_reserved h_id h_qlen h_blen h_qfmt h_bfmt h_ec b_id b_query b_body b_qfmt b_bfmt b_notify b_ec].
  all: change (@len_n byte) with (@lenN byte); unfold add64.
  all: replace (HEADER_SIZE + lenN (m_query r) <? two64) with true by lia; cbn [bind].
  all: replace (HEADER_SIZE + lenN (m_query r) + lenN text <? two64) with true by lia; reflexivity.
Qed.

(** ** the bundle quoted by Props/C17.v *)
Lemma c17_source_translation_messages :
  match gen_msg_builder with Some f => f = Ok (mkBuilder 0 [] [] 0 0 false 0) | None => True end /\
  match gen_builder_error_code with
  | Some f => forall b ec, f b ec = Ok (mkBuilder (b_id b) (b_query b) (b_body b) (b_qfmt b) (b_bfmt b) (b_notify b) ec)
  | None => True
  end /\
  match gen_builder_body_bytes with
  | Some f => forall b x, f b x = Ok (mkBuilder (b_id b) (b_query b) x (b_qfmt b) (b_bfmt b) (b_notify b) (b_ec b))
  | None => True
  end /\
  match gen_builder_body_format with
  | Some f => forall b x, f b x = Ok (mkBuilder (b_id b) (b_query b) (b_body b) (b_qfmt b) x (b_notify b) (b_ec b))
  | None => True
  end /\
  match gen_create_error_message with
  | Some f => forall code text, HEADER_SIZE + lenN text < two64 -> f code text = Ok (error_message code text)
  | None => True
  end /\
  match gen_create_error_response_like with
  | Some f => forall r code text, HEADER_SIZE + lenN (m_query r) + lenN text < two64 ->
      f r code text = Ok (error_response_like r code text)
  | None => True
  end.
Proof.
  exact (conj msg_builder_agrees (conj builder_error_code_agrees (conj builder_body_bytes_agrees (conj builder_body_format_agrees
        (conj create_error_message_agrees create_error_response_like_agrees))))).
Qed.
