(** C04 — Multiplexed calls each receive their own response, whatever the
    order.  Statements over every step list (= every interleaving of callers
    and reader at the register / write / receive-and-match / deliver / timeout /
    cancel granularity; a step that the per-caller program order does not allow
    at that moment is a stutter), their pins and their assumptions. *)
From RepeV Require Import Model.ClientMux Proofs.ClientMuxProofs.

(** without caller-supplied ids, every pending id was issued before: it is below the counter *)
Theorem C04_ids_fresh : forall ws l id c, N.of_nat (length l) + 2 < two64 -> existsb is_forward l = false ->
  In (id, c) (m_pending (run ws mux0 l)) -> id < m_next (run ws mux0 l).
Proof. exact ids_fresh_reach. Qed.

(** [all_fresh]: no ACCEPTED registration reuses an id -- the id of every
    Register / Forward step is either pending at that moment (then the step is
    refused) or was never registered on this connection.  Step lists without
    caller-supplied ids (the blocking and the WebSocket client have none) satisfy
    it outright.  Since the repair of the async client's cleanup guard it is
    needed only for the two statements that are about reuse itself:
    [C04_ids_distinct] and [C04_legacy_guard_same_without_reuse]. *)
Theorem C04_all_fresh_without_forward : forall ws l, N.of_nat (length l) + 2 < two64 ->
  existsb is_forward l = false -> all_fresh ws mux0 l = true.
Proof. exact nofwd_all_fresh. Qed.

(** the ids drawn from the counter strictly increase (below 2^64 - 3 steps, i.e.
    before the counter can wrap): the id a later counter call draws is greater
    than the one an earlier counter call drew, whatever happens in between,
    caller-supplied ids included *)
Theorem C04_counter_ids_increase : forall ws l1 l2 c,
  N.of_nat (length l1 + length l2) + 3 < two64 -> enabled (run ws mux0 l1) (Register c) = true ->
  m_next (run ws mux0 l1) < m_next (run ws mux0 (l1 ++ Register c :: l2)).
Proof. exact counter_ids_increase. Qed.

(** the cleanup that removes a call's entry by id alone (the blocking client's
    remove_pending, the WebSocket client's guard, the async client's guard before
    its repair) is the same function as the repaired one on every run in which
    no id is registered twice -- in particular on every run of the two clients
    that have no caller-supplied ids *)
Theorem C04_legacy_guard_same_without_reuse : forall ws l, N.of_nat (length l) + 2 < two64 ->
  all_fresh ws mux0 l = true -> run_legacy ws mux0 l = run ws mux0 l.
Proof. exact legacy_same_reach. Qed.

(** all the ids registered on one connection (counter-issued or caller-supplied),
    and those put on the wire, are pairwise distinct exactly as long as no id is
    reused *)
Theorem C04_ids_distinct : forall ws l, N.of_nat (length l) + 2 < two64 -> all_fresh ws mux0 l = true ->
  NoDup (map snd (m_issued (run ws mux0 l))) /\ NoDup (map snd (m_wire (run ws mux0 l))).
Proof. exact ids_distinct_reach. Qed.

(** the pending map is injective both ways: one entry per id, one id per caller *)
Theorem C04_pending_inj : forall ws l, N.of_nat (length l) + 2 < two64 ->
  NoDup (map fst (m_pending (run ws mux0 l))) /\
  forall id1 id2 c, In (id1, c) (m_pending (run ws mux0 l)) -> In (id2, c) (m_pending (run ws mux0 l)) -> id1 = id2.
Proof. exact pending_inj_reach. Qed.

(** without caller-supplied ids the id about to be issued is never pending: the
    duplicate-id refusal of the async and WebSocket clients cannot fire, and the
    blocking client's unchecked insert never replaces an entry *)
Theorem C04_register_never_collides : forall ws l, N.of_nat (length l) + 2 < two64 -> existsb is_forward l = false ->
  aget (m_pending (run ws mux0 l)) (m_next (run ws mux0 l)) = None.
Proof. exact register_never_collides_reach. Qed.

(** whatever is delivered to caller c carries the id issued to c *)
Theorem C04_own_response : forall ws l c f, N.of_nat (length l) + 2 < two64 ->
  In (c, OGot f) (m_out (run ws mux0 l)) -> aget (m_issued (run ws mux0 l)) c = Some (f_id f).
Proof. exact own_response_reach. Qed.

(** a call ends at most once *)
Theorem C04_at_most_one : forall ws l, N.of_nat (length l) + 2 < two64 ->
  NoDup (map fst (m_out (run ws mux0 l))).
Proof. exact at_most_one_reach. Qed.

(** a response whose id is not pending changes nothing but the drop log *)
Theorem C04_unknown_dropped : forall ws s f,
  m_matched s = None -> ws && negb (f_notify f =? 0) = false -> aget (m_pending s) (f_id f) = None ->
  mstep ws s (Recv f)
  = mkMux (m_next s) (m_pending s) (m_issued s) (m_wire s) (m_matched s) (m_out s) (m_sub s) (m_dropped s ++ [f]).
Proof. exact unknown_dropped_gen. Qed.

(** a second response with the same id is dropped, in every state *)
Theorem C04_duplicate_dropped : forall ws s f f',
  ws && negb (f_notify f =? 0) = false -> ws && negb (f_notify f' =? 0) = false -> f_id f' = f_id f ->
  let s1 := mstep ws s (Recv f) in
  let d := deliver s1 in
  mstep ws s1 (Recv f')
  = mkMux (m_next d) (m_pending d) (m_issued d) (m_wire d) (m_matched d) (m_out d) (m_sub d) (m_dropped d ++ [f']).
Proof. exact duplicate_dropped_gen. Qed.

(** WebSocket client: a frame with the notify byte set, whatever its id (in
    flight or not), leaves the pending map alone, reaches the subscriber, and
    is neither matched nor dropped *)
Theorem C04_ws_notify_to_subscriber_only : forall s f, f_notify f <> 0 ->
  let s' := mstep true s (Recv f) in
  m_pending s' = m_pending s /\ m_out s' = m_out (deliver s) /\ m_sub s' = m_sub s ++ [f] /\
  m_dropped s' = m_dropped (deliver s) /\ m_matched s' = None.
Proof. exact ws_notify_readable. Qed.

(** WebSocket client: no call ever returns a notification frame *)
Theorem C04_ws_no_notify_to_caller : forall l c f, N.of_nat (length l) + 2 < two64 ->
  In (c, OGot f) (m_out (run true mux0 l)) -> f_notify f = 0.
Proof. exact ws_no_notify_to_caller_reach. Qed.

(** a step that the program order does not enable is a stutter *)
Theorem C04_disabled_stutter : forall ws s st, enabled s st = false -> mstep ws s st = s.
Proof. exact disabled_stutter. Qed.

(** AsyncClient::forward_message with an id that is in flight: the registration
    is refused and nothing changes but the refused call's own outcome (the
    owner's pending entry survives); the next response with that id is still
    matched to the owner; and in every continuation whatever the owner is
    handed carries that id *)
Theorem C04_forward_duplicate_refused : forall ws l0 c id o,
  N.of_nat (length l0) + 2 < two64 ->
  let s := run ws mux0 l0 in
  aget (m_pending s) id = Some o -> enabled s (Forward c id) = true ->
  let s' := mstep ws s (Forward c id) in
  s' = mkMux (m_next s) (m_pending s) (m_issued s) (m_wire s) (m_matched s) (m_out s ++ [(c, ORefused)]) (m_sub s) (m_dropped s) /\
  (forall f, m_matched s = None -> ws && negb (f_notify f =? 0) = false -> f_id f = id ->
     m_matched (mstep ws s' (Recv f)) = Some (o, f)) /\
  (forall l f, N.of_nat (length l0 + length l) + 3 < two64 ->
     In (o, OGot f) (m_out (run ws s' l)) -> f_id f = id).
Proof. exact forward_duplicate_refused_reach. Qed.

(** batch: for every schedule of the workers, a stored result sits at the index
    of the request it answers; once the queue is empty and no worker holds an
    item, every request has its result *)
Theorem C04_batch_aligned : forall res_of reqs sched i r,
  nth_error (b_res (brun res_of reqs sched)) i = Some (Some r) ->
  exists q, nth_error reqs i = Some q /\ r = res_of q.
Proof. exact batch_aligned_lemma. Qed.

Theorem C04_batch_complete : forall res_of reqs sched i q,
  b_queue (brun res_of reqs sched) = [] -> b_hold (brun res_of reqs sched) = [] ->
  nth_error reqs i = Some q ->
  nth_error (b_res (brun res_of reqs sched)) i = Some (Some (res_of q)).
Proof. exact batch_complete_lemma. Qed.

(** the executable oracle accepts the model on every well-formed case *)
Theorem C04_holds : forall cs, c04_wf cs = true -> ok_C04 cs (model_C04 cs) = true.
Proof. exact C04_holds_lemma. Qed.

(** a WebSocket client without a notification subscriber: the notifications
    are dropped, no call is affected *)
Theorem C04_holds_nosub : forall cs, c04_wf cs = true -> ok_C04_nosub cs (model_C04_nosub cs) = true.
Proof. exact C04_holds_nosub_lemma. Qed.

(** ** non-vacuity *)

(** three callers on a WebSocket client; the server answers 2, 0, 1 with an
    unknown id (7), a notification reusing caller 1's id, and a second copy of
    the reply to 2 in between; caller 1's frame is matched, then the caller
    times out before the reader hands it over *)
Definition c04_ex : c04_case :=
  mkCase true 3
    [Register 1; Register 0; Write 0; Register 2; Write 2; Write 1;
     Srv (SReply 2 0); Deliver; Srv (SUnknown 7 1); Srv (SNotify 1 2);
     Srv (SReply 0 0); Srv (SReply 2 3); Srv (SReply 1 0); Timeout 1; Deliver].

Example C04_nonvacuous_wf : c04_wf c04_ex = true.
Proof. vm_compute. reflexivity. Qed.

Example C04_nonvacuous_obs :
  model_C04 c04_ex = mkObs [CGot 0; CTimeout; CGot 2] [tag_of 1 2] [1; 2; 3].
Proof. vm_compute. reflexivity. Qed.

Example C04_nonvacuous_state :
  let s := run true mux0 (c_sched c04_ex) in
  m_issued s = [(1, 1); (0, 2); (2, 3)] /\ m_pending s = [] /\ m_next s = 4 /\
  map f_tag (m_dropped s) = [tag_of unknown_k 1; tag_of 2 3; tag_of 1 0].
Proof. vm_compute. repeat split; reflexivity. Qed.

(** the oracle rejects: a swapped pair of replies, a notification returned to a
    caller, a lost reply, a notification that did not reach the subscriber, a
    repeated request id *)
Example C04_oracle_rejects :
  ok_C04 c04_ex (mkObs [CGot 2; CTimeout; CGot 0] [tag_of 1 2] [1; 2; 3]) = false /\
  ok_C04 c04_ex (mkObs [CGot 0; CGot (tag_of 1 2); CGot 2] [tag_of 1 2] [1; 2; 3]) = false /\
  ok_C04 c04_ex (mkObs [CClosed; CTimeout; CGot 2] [tag_of 1 2] [1; 2; 3]) = false /\
  ok_C04 c04_ex (mkObs [CGot 0; CTimeout; CGot 2] [] [1; 2; 3]) = false /\
  ok_C04 c04_ex (mkObs [CGot 0; CTimeout; CGot 2] [tag_of 1 2] [1; 2; 2]) = false /\
  ok_C04 c04_ex (mkObs [CGot 0; CBad 1; CGot 2] [tag_of 1 2] [1; 2; 3]) = false.
Proof. vm_compute. repeat split; reflexivity. Qed.

(** the hypotheses of the step theorems are satisfiable: in the state after the
    three registrations and writes, id 7 is unknown, id 3 is pending, and a
    notification reusing id 3 changes no pending entry *)
Example C04_nonvacuous_steps :
  let s := run true mux0 (firstn 6 (c_sched c04_ex)) in
  m_matched s = None /\ aget (m_pending s) 7 = None /\ aget (m_pending s) 3 = Some 2 /\
  m_pending (mstep true s (Recv (mkFrame 3 1 99))) = m_pending s /\
  m_sub (mstep true s (Recv (mkFrame 3 1 99))) = [mkFrame 3 1 99] /\
  (* the TCP clients do not look at the notify byte: the same frame is matched *)
  m_matched (mstep false s (Recv (mkFrame 3 1 99))) = Some (2, mkFrame 3 1 99).
Proof. vm_compute. repeat split; reflexivity. Qed.

(** forwarded ids on an AsyncClient: two counter calls in flight (ids 1, 2); a
    forward with the in-flight id 2 is refused and caller 1 (the owner) still
    gets its response; a forward with the free id 9 is answered; a forward with
    id 3, which the counter reaches next, makes the next counter call (caller 5)
    fail with the duplicate error while the call after it (caller 6, id 4) is
    fine; a forwarded notify returns Ok(None) *)
Definition c04_fwd : c04_case :=
  mkCase false 8
    [Register 0; Write 0; Register 1; Write 1; Forward 2 2; Forward 3 9; Write 3; Forward 4 3; Write 4;
     Register 5; Register 6; Write 6; FwdNotify 7;
     Srv (SReply 4 0); Srv (SReply 1 0); Srv (SReply 6 0); Srv (SReply 3 0); Srv (SReply 0 0)].

Example C04_nonvacuous_forward :
  c04_wf c04_fwd = true /\
  model_C04 c04_fwd = mkObs [CGot 0; CGot 1; CRefused; CGot 3; CGot 4; CRefused; CGot 6; CNone] [] [1; 2; 4].
Proof. vm_compute. split; reflexivity. Qed.

(** the oracle rejects the owner losing its response to a refused duplicate *)
Example C04_oracle_rejects_forward :
  ok_C04 c04_fwd (mkObs [CGot 0; CClosed; CRefused; CGot 3; CGot 4; CRefused; CGot 6; CNone] [] [1; 2; 4]) = false /\
  ok_C04 c04_fwd (mkObs [CGot 0; CGot 1; CRefused; CGot 3; CGot 4; CRefused; CGot 6; CRefused] [] [1; 2; 4]) = false.
Proof. vm_compute. split; reflexivity. Qed.

(** id reuse.  Caller 0's response (id 1) has been taken out of the pending map
    by the reader but not yet handed over; a forward with id 1 is accepted (the
    id is free again); caller 0 times out.  Before the repair the guard removed
    "its" entry by id -- which by then belonged to caller 1: the response to
    caller 1 was dropped as unknown and caller 1 never got it ([model_C04_legacy]
    violates the oracle).  The repaired guard leaves caller 1's entry alone and
    caller 1 gets its own response: the case is well-formed and the oracle holds. *)
Definition c04_reuse : c04_case :=
  mkCase false 2
    [Register 0; Write 0; Srv (SReply 0 0); Forward 1 1; Write 1; Timeout 0; Deliver; Srv (SReply 1 0)].

Example C04_id_reuse_refuted :
  all_fresh false mux0 (c_sched c04_reuse) = false /\
  model_C04_legacy c04_reuse = mkObs [CTimeout; CClosed] [] [1] /\
  ok_C04 c04_reuse (model_C04_legacy c04_reuse) = false.
Proof. vm_compute. repeat split; reflexivity. Qed.

Example C04_id_reuse_repaired :
  c04_wf c04_reuse = true /\
  model_C04 c04_reuse = mkObs [CTimeout; CGot 1] [] [1] /\
  ok_C04 c04_reuse (model_C04 c04_reuse) = true.
Proof. vm_compute. repeat split; reflexivity. Qed.

(** what remains a hypothesis ([all_srv_own] in [c04_wf]) and why: responses are
    correlated by id alone.  Caller 0 gives up, its id 1 is registered again by
    caller 1, and then the response to caller 0's request arrives after all: it
    carries id 1 and no client can tell it from the response to caller 1's
    request -- caller 1 is handed it. *)
Definition c04_late : c04_case :=
  mkCase false 2 [Register 0; Write 0; Timeout 0; Forward 1 1; Write 1; Srv (SReply 0 0)].

Example C04_late_reply_after_reuse :
  all_enabled false mux0 (c_sched c04_late) = true /\
  all_srv_own false mux0 (c_sched c04_late) = false /\
  model_C04 c04_late = mkObs [CTimeout; CGot 0] [] [1] /\
  ok_C04 c04_late (model_C04 c04_late) = false.
Proof. vm_compute. repeat split; reflexivity. Qed.

(** batch: 5 requests, 2 workers, an uneven schedule; result = request + 100 *)
Example C04_nonvacuous_batch :
  b_res (brun (fun q => q + 100) [10; 11; 12; 13; 14] [0; 1; 1; 1; 0; 1; 0; 0; 1; 1])
  = [Some 110; Some 111; Some 112; Some 113; Some 114] /\
  b_queue (brun (fun q => q + 100) [10; 11; 12; 13; 14] [0; 1; 1; 1; 0; 1; 0; 0; 1; 1]) = [] /\
  b_hold (brun (fun q => q + 100) [10; 11; 12; 13; 14] [0; 1; 1; 1; 0; 1; 0; 0; 1; 1]) = [].
Proof. vm_compute. repeat split; reflexivity. Qed.

Check C04_all_fresh_without_forward : forall ws l, N.of_nat (length l) + 2 < two64 ->
  existsb is_forward l = false -> all_fresh ws mux0 l = true.
Check C04_forward_duplicate_refused : forall ws l0 c id o,
  N.of_nat (length l0) + 2 < two64 ->
  let s := run ws mux0 l0 in
  aget (m_pending s) id = Some o -> enabled s (Forward c id) = true ->
  let s' := mstep ws s (Forward c id) in
  s' = mkMux (m_next s) (m_pending s) (m_issued s) (m_wire s) (m_matched s) (m_out s ++ [(c, ORefused)]) (m_sub s) (m_dropped s) /\
  (forall f, m_matched s = None -> ws && negb (f_notify f =? 0) = false -> f_id f = id ->
     m_matched (mstep ws s' (Recv f)) = Some (o, f)) /\
  (forall l f, N.of_nat (length l0 + length l) + 3 < two64 ->
     In (o, OGot f) (m_out (run ws s' l)) -> f_id f = id).
Check C04_counter_ids_increase : forall ws l1 l2 c,
  N.of_nat (length l1 + length l2) + 3 < two64 -> enabled (run ws mux0 l1) (Register c) = true ->
  m_next (run ws mux0 l1) < m_next (run ws mux0 (l1 ++ Register c :: l2)).
Check C04_legacy_guard_same_without_reuse : forall ws l, N.of_nat (length l) + 2 < two64 ->
  all_fresh ws mux0 l = true -> run_legacy ws mux0 l = run ws mux0 l.
Check C04_ids_fresh : forall ws l id c, N.of_nat (length l) + 2 < two64 -> existsb is_forward l = false ->
  In (id, c) (m_pending (run ws mux0 l)) -> id < m_next (run ws mux0 l).
Check C04_ids_distinct : forall ws l, N.of_nat (length l) + 2 < two64 -> all_fresh ws mux0 l = true ->
  NoDup (map snd (m_issued (run ws mux0 l))) /\ NoDup (map snd (m_wire (run ws mux0 l))).
Check C04_pending_inj : forall ws l, N.of_nat (length l) + 2 < two64 ->
  NoDup (map fst (m_pending (run ws mux0 l))) /\
  forall id1 id2 c, In (id1, c) (m_pending (run ws mux0 l)) -> In (id2, c) (m_pending (run ws mux0 l)) -> id1 = id2.
Check C04_register_never_collides : forall ws l, N.of_nat (length l) + 2 < two64 -> existsb is_forward l = false ->
  aget (m_pending (run ws mux0 l)) (m_next (run ws mux0 l)) = None.
Check C04_own_response : forall ws l c f, N.of_nat (length l) + 2 < two64 ->
  In (c, OGot f) (m_out (run ws mux0 l)) -> aget (m_issued (run ws mux0 l)) c = Some (f_id f).
Check C04_at_most_one : forall ws l, N.of_nat (length l) + 2 < two64 ->
  NoDup (map fst (m_out (run ws mux0 l))).
Check C04_unknown_dropped : forall ws s f,
  m_matched s = None -> ws && negb (f_notify f =? 0) = false -> aget (m_pending s) (f_id f) = None ->
  mstep ws s (Recv f)
  = mkMux (m_next s) (m_pending s) (m_issued s) (m_wire s) (m_matched s) (m_out s) (m_sub s) (m_dropped s ++ [f]).
Check C04_duplicate_dropped : forall ws s f f',
  ws && negb (f_notify f =? 0) = false -> ws && negb (f_notify f' =? 0) = false -> f_id f' = f_id f ->
  let s1 := mstep ws s (Recv f) in
  let d := deliver s1 in
  mstep ws s1 (Recv f')
  = mkMux (m_next d) (m_pending d) (m_issued d) (m_wire d) (m_matched d) (m_out d) (m_sub d) (m_dropped d ++ [f']).
Check C04_ws_notify_to_subscriber_only : forall s f, f_notify f <> 0 ->
  let s' := mstep true s (Recv f) in
  m_pending s' = m_pending s /\ m_out s' = m_out (deliver s) /\ m_sub s' = m_sub s ++ [f] /\
  m_dropped s' = m_dropped (deliver s) /\ m_matched s' = None.
Check C04_ws_no_notify_to_caller : forall l c f, N.of_nat (length l) + 2 < two64 ->
  In (c, OGot f) (m_out (run true mux0 l)) -> f_notify f = 0.
Check C04_disabled_stutter : forall ws s st, enabled s st = false -> mstep ws s st = s.
Check C04_batch_aligned : forall res_of reqs sched i r,
  nth_error (b_res (brun res_of reqs sched)) i = Some (Some r) ->
  exists q, nth_error reqs i = Some q /\ r = res_of q.
Check C04_batch_complete : forall res_of reqs sched i q,
  b_queue (brun res_of reqs sched) = [] -> b_hold (brun res_of reqs sched) = [] ->
  nth_error reqs i = Some q ->
  nth_error (b_res (brun res_of reqs sched)) i = Some (Some (res_of q)).
Check C04_holds : forall cs, c04_wf cs = true -> ok_C04 cs (model_C04 cs) = true.

Print Assumptions C04_all_fresh_without_forward.
Print Assumptions C04_forward_duplicate_refused.
Print Assumptions C04_counter_ids_increase.
Print Assumptions C04_legacy_guard_same_without_reuse.
Print Assumptions C04_ids_fresh.
Print Assumptions C04_ids_distinct.
Print Assumptions C04_pending_inj.
Print Assumptions C04_register_never_collides.
Print Assumptions C04_own_response.
Print Assumptions C04_at_most_one.
Print Assumptions C04_unknown_dropped.
Print Assumptions C04_duplicate_dropped.
Print Assumptions C04_ws_notify_to_subscriber_only.
Print Assumptions C04_ws_no_notify_to_caller.
Print Assumptions C04_disabled_stutter.
Print Assumptions C04_batch_aligned.
Print Assumptions C04_batch_complete.
Print Assumptions C04_holds.

Check C04_holds_nosub : forall cs, c04_wf cs = true -> ok_C04_nosub cs (model_C04_nosub cs) = true.
Print Assumptions C04_holds_nosub.
