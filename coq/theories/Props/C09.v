(** C09 *)
From RepeV Require Import Model.Svs Proofs.SvsProofs.
