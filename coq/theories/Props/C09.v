(** C09 — A pulled value stream reproduces the producer's bytes exactly and
    ends once.  The model is src/value_stream.rs: ChunkSink, produce, the
    lookahead Session behind /_svs/next, the session-table entry of a stream id
    (next / cancel), the next response, and the client-side reassembly.
    This file contains only statements (closed by [exact] or a one-line
    application), their pins and their assumptions. *)
From RepeV Require Import Model.Svs Proofs.SvsProofs.

Local Open Scope nat_scope.

(** ** the sink: chunk batching, for every chunk size and every write segmentation *)

(** [chunks_of] cuts a byte stream without loss, and all its chunks have exactly
    [n] bytes except a non-empty last one of at most [n]; it is the only such
    cutting *)
Theorem C09_chunks_of_spec : forall n l, 0 < n ->
  concat (chunks_of n l) = l /\ chunking n (chunks_of n l).
Proof. exact chunks_of_spec. Qed.

Theorem C09_chunks_of_unique : forall n cs, 0 < n -> chunking n cs -> cs = chunks_of n (concat cs).
Proof. intros n cs Hn. exact (chunking_unique n Hn cs). Qed.

(** the loop of [ChunkSink::write], over any sequence of writes: the chunks
    sent, followed by the tail [flush_remaining] sends, are [chunks_of] of the
    concatenated bytes; the tail is always shorter than a chunk *)
Theorem C09_sink_write_chunks : forall n ws, 0 < n ->
  fst (sink_writes n [] ws) ++ tailc (snd (sink_writes n [] ws)) = chunks_of n (concat ws) /\
  length (snd (sink_writes n [] ws)) < n.
Proof. exact sink_writes_chunks. Qed.

(** the same for the byte-at-a-time sink, and the two sinks agree *)
Theorem C09_sink_bytes_chunks : forall n ws, 0 < n ->
  fst (sink_bytes_writes n [] ws) ++ tailc (snd (sink_bytes_writes n [] ws)) = chunks_of n (concat ws).
Proof. exact sink_bytes_writes_chunks. Qed.

Theorem C09_sink_models_agree : forall n ws, 0 < n -> sink_writes n [] ws = sink_bytes_writes n [] ws.
Proof. exact sink_models_agree. Qed.

(** the messages of a stream depend on the bytes only, not on how they were written *)
Theorem C09_segmentation_irrelevant : forall n ws1 ws2 failed, 0 < n -> concat ws1 = concat ws2 ->
  produce n ws1 failed = produce n ws2 failed.
Proof. exact produce_segmentation_irrelevant. Qed.

(** ** the exchange seen by a consumer that pulls until the first last / error *)

(** the responses are exactly the chunks of the stream, in order, the final one
    flagged, and the session is released *)
Theorem C09_pulls_are_the_chunks : forall n ws fuel, 0 < n -> lenw ws < fuel ->
  raw_pulls fuel (open_handler n ws false) = (pulls_ok (chunks_of n (concat ws)), None).
Proof. exact raw_exchange_ok. Qed.

(** nothing lost, duplicated or reordered *)
Theorem C09_pull_concat : forall n ws fuel, 0 < n -> lenw ws < fuel ->
  bodies (fst (raw_pulls fuel (open_handler n ws false))) = concat ws.
Proof. exact pull_concat. Qed.

(** exactly one response carries [last], and it is the final one *)
Theorem C09_exactly_one_last : forall n ws fuel, 0 < n -> lenw ws < fuel ->
  exists init b, fst (raw_pulls fuel (open_handler n ws false)) = init ++ [RChunk b true] /\ Forall not_last init.
Proof. exact exactly_one_last. Qed.

(** an empty payload yields a single empty final chunk *)
Theorem C09_empty_payload_single_empty_last : forall n ws fuel, 0 < n -> 0 < fuel -> concat ws = [] ->
  raw_pulls fuel (open_handler n ws false) = ([RChunk [] true], None).
Proof. exact empty_payload_single_empty_last. Qed.

(** pulling past the end (clean or failed), or after a cancel, is an error *)
Theorem C09_pull_after_end_errors : forall n ws failed fuel, 0 < n -> lenw ws < fuel ->
  next_handler (snd (raw_pulls fuel (open_handler n ws failed))) = (RErr EC_INVALID_QUERY, None).
Proof. exact pull_after_end_errors. Qed.

Theorem C09_pull_after_cancel_errors : forall t, next_handler (cancel_handler t) = (RErr EC_INVALID_QUERY, None).
Proof. exact pull_after_cancel_errors. Qed.

(** a body writer that fails after any writes [ws]: the consumer sees chunks
    without a [last] flag, then an error; what was delivered is a prefix of the
    bytes written *)
Theorem C09_fail_never_last : forall n ws fuel, 0 < n -> lenw ws < fuel ->
  exists init, fst (raw_pulls fuel (open_handler n ws true)) = init ++ [RErr EC_INTERNAL] /\
               Forall not_last init /\ exists r, concat ws = bodies init ++ r.
Proof. exact fail_never_last. Qed.

(** a body writer that PANICS after any writes [ws] (the producer thread unwinds:
    the partial buffer is dropped, no terminal message, the channel closes): the
    consumer and the pullers see exactly what they see when it returns an error at
    that point -- never a [last] *)
Theorem C09_panic_same_as_error : forall n ws fuel, 0 < n -> lenw ws < fuel ->
  raw_pulls fuel (open_panic n ws) = raw_pulls fuel (open_handler n ws true) /\
  chunk_reader fuel (open_panic n ws) = chunk_reader fuel (open_handler n ws true).
Proof. exact panic_same_as_error. Qed.

Theorem C09_panic_never_last : forall n ws fuel, 0 < n -> lenw ws < fuel ->
  exists init, fst (raw_pulls fuel (open_panic n ws)) = init ++ [RErr EC_INTERNAL] /\
               Forall not_last init /\ exists r, concat ws = bodies init ++ r.
Proof. exact panic_never_last. Qed.

Theorem C09_reader_fails_on_panic : forall n ws fuel, chunk_reader fuel (open_panic n ws) = HErr.
Proof. exact reader_panic. Qed.

(** the same at the level of the channel: a [Fail] at any message index, or a
    channel closed without a terminal message (producer thread gone), after the
    chunks [cs] *)
Theorem C09_fail_at_any_message_index : forall tl, term_fail tl -> forall cs fuel, length cs < fuel ->
  raw_pulls fuel (st (map MChunk cs ++ tl) None) = (pulls_fail cs, None) /\
  ends_in_error (pulls_fail cs) = true /\ bodies (pulls_fail cs) = concat (removelast cs).
Proof.
  intros tl Ht cs fuel Hf.
  exact (conj (raw_pulls_fail tl Ht cs fuel Hf) (conj (ends_in_error_pulls_fail cs) (bodies_pulls_fail cs))).
Qed.

(** a consumer that stops after [j] requests has received the first [j] responses *)
Theorem C09_early_stop_prefix : forall n ws j, 0 < n ->
  fst (raw_pulls j (open_handler n ws false)) = firstn j (pulls_ok (chunks_of n (concat ws))).
Proof.
  intros n ws j Hn. unfold open_handler. rewrite (produce_ok n ws Hn).
  exact (raw_pulls_prefix [MEnd] pulls_ok (or_introl (conj (term_end []) eq_refl)) _ j).
Qed.

(** ** reassembly by the pullers *)
Theorem C09_reader_reassembles : forall n ws fuel, 0 < n -> lenw ws < fuel ->
  chunk_reader fuel (open_handler n ws false) = HBytes (concat ws).
Proof. exact reader_ok. Qed.

Theorem C09_reader_fails_on_failure : forall n ws fuel, chunk_reader fuel (open_handler n ws true) = HErr.
Proof. exact reader_fail. Qed.

(** ** the bounded channel: for every depth (0 = rendezvous) and every schedule
    of producer and consumer steps, received ++ queued ++ unsent is the list of
    messages in sending order *)
Theorem C09_channel_fifo : forall d msgs c, chan_reach d (mkChan msgs [] []) c ->
  ch_got c ++ ch_queue c ++ ch_pending c = msgs.
Proof. exact chan_fifo. Qed.

(** ** the oracle accepts the model on every well-formed case *)
Theorem C09_holds : forall c, c09_wf c = true -> ok_C09 c (model_C09 c) = true.
Proof. exact ok_model_C09. Qed.

(** the compressed path, for any compressor with a left inverse and whatever
    writes the encoder performs on the sink *)
Theorem C09_holds_compressed : forall (compress decompress : list byte -> list byte),
  (forall d, decompress (compress d) = d) ->
  forall c ws, c_zstd c = true -> c_fail c = None -> 0 < N.to_nat (c_n c) ->
    concat ws = compress (c_data c) ->
    ok_C09 c (model_C09_with c ws (decompress (concat ws))) = true.
Proof. exact ok_model_zstd. Qed.

(** ** non-vacuity *)
Local Open Scope N_scope.

(** a payload that is an exact multiple of the chunk size: the final full chunk
    carries [last], there is no trailing empty chunk; depth 0 *)
Example C09_nonvacuous_exact_multiple :
  let c := mkC09 [1; 2; 3; 4] 2 0 [1; 2] None false 4 0 1 false in
  c09_wf c = true /\
  model_C09 c = mkO09 [RChunk [1; 2] false; RChunk [3; 4] true] (RErr 3) [RChunk [1; 2] false] (RErr 3)
                      [] (HBytes [1; 2; 3; 4]) None.
Proof. vm_compute. split; reflexivity. Qed.

(** one byte more, one byte less, and the empty payload *)
Example C09_nonvacuous_residues :
  o_pulls (model_C09 (mkC09 [1; 2; 3; 4; 5] 2 1 [] None false 3 1 0 false))
    = [RChunk [1; 2] false; RChunk [3; 4] false; RChunk [5] true] /\
  o_pulls (model_C09 (mkC09 [1; 2; 3] 2 1 [0; 3; 9] None false 4 2 0 false)) = [RChunk [1; 2] false; RChunk [3] true] /\
  o_pulls (model_C09 (mkC09 [] 7 3 [] None false 4 0 0 false)) = [RChunk [] true].
Proof. vm_compute. repeat split; reflexivity. Qed.

(** a failure after 5 of 6 bytes with chunks of 2: two full chunks were sent,
    the lookahead swallows the second, the partial tail is never flushed *)
Example C09_nonvacuous_failure :
  let c := mkC09 [1; 2; 3; 4; 5; 6] 2 0 [3] (Some 5) false 4 0 3 false in
  c09_wf c = true /\
  model_C09 c = mkO09 [RChunk [1; 2] false; RErr 9] (RErr 3) [RChunk [1; 2] false; RErr 9] (RErr 3) [] HErr None /\
  ok_C09 c (model_C09 c) = true.
Proof. vm_compute. repeat split; reflexivity. Qed.

(** the same failure point as a panic: same exchange; and the oracle rejects a
    clean end over the truncated stream (what a terminal marker sent from a
    destructor during unwinding would produce), also for an empty prefix *)
Example C09_nonvacuous_panic :
  let c := mkC09 [1; 2; 3; 4; 5; 6] 2 0 [3] (Some 5) false 4 0 3 true in
  c09_wf c = true /\
  model_C09 c = mkO09 [RChunk [1; 2] false; RErr 9] (RErr 3) [RChunk [1; 2] false; RErr 9] (RErr 3) [] HErr None /\
  ok_C09 c (model_C09 c) = true /\
  ok_C09 c (mkO09 [RChunk [1; 2] false; RChunk [3; 4] true] (RErr 3) [RChunk [1; 2] false; RChunk [3; 4] true] (RErr 3)
                  [] (HBytes [1; 2; 3; 4]) None) = false /\
  let c0 := mkC09 [1; 2; 3] 2 1 [] (Some 1) false 3 1 0 true in
  model_C09 c0 = mkO09 [RErr 9] (RErr 3) [] (RErr 3) [] HErr None /\
  ok_C09 c0 (mkO09 [RChunk [] true] (RErr 3) [] (RErr 3) [] (HBytes []) None) = false.
Proof. vm_compute. repeat split; reflexivity. Qed.

(** the oracle is not trivially true: it rejects a missing end marker, a second
    end marker, a duplicated chunk, reordered chunks, a lost byte, a trailing
    empty chunk after a full final one being marked instead of it, a successful
    pull past the end, an end marker after a producer failure, and a puller
    returning short data *)
Example C09_oracle_rejects :
  let c := mkC09 [1; 2; 3; 4] 2 0 [] None false 4 0 1 false in
  let good := model_C09 c in
  let with_pulls p := mkO09 p (RErr 3) [RChunk [1; 2] false] (RErr 3) [] (HBytes [1; 2; 3; 4]) None in
  ok_C09 c good = true /\
  ok_C09 c (with_pulls [RChunk [1; 2] false; RChunk [3; 4] false]) = false /\
  ok_C09 c (with_pulls [RChunk [1; 2] true; RChunk [3; 4] true]) = false /\
  ok_C09 c (with_pulls [RChunk [1; 2] false; RChunk [1; 2] false; RChunk [3; 4] true]) = false /\
  ok_C09 c (with_pulls [RChunk [3; 4] false; RChunk [1; 2] true]) = false /\
  ok_C09 c (with_pulls [RChunk [1; 2] false; RChunk [3] true]) = false /\
  ok_C09 c (with_pulls [RChunk [1; 2] false; RChunk [3; 4] false; RChunk [] true; RChunk [] true]) = false /\
  ok_C09 c (mkO09 (o_pulls good) (RChunk [] true) (o_cancel_pulls good) (RErr 3) [] (o_vec good) None) = false /\
  ok_C09 c (mkO09 (o_pulls good) (RErr 3) (o_cancel_pulls good) (RChunk [] true) [] (o_vec good) None) = false /\
  ok_C09 c (mkO09 (o_pulls good) (RErr 3) (o_cancel_pulls good) (RErr 3) [] (HBytes [1; 2; 3]) None) = false /\
  ok_C09 c (mkO09 (o_pulls good) (RErr 3) [RChunk [3; 4] false] (RErr 3) [] (o_vec good) None) = false /\
  let cf := mkC09 [1; 2; 3; 4; 5; 6] 2 0 [] (Some 5) false 4 0 0 false in
  ok_C09 cf (mkO09 [RChunk [1; 2] false; RChunk [3; 4] true] (RErr 3) [] (RErr 3) [] HErr None) = false /\
  ok_C09 cf (mkO09 [RChunk [1; 2] false; RErr 9] (RErr 3) [] (RErr 3) [] (HBytes [1; 2]) None) = false /\
  ok_C09 cf (mkO09 [RChunk [1; 2] false; RChunk [9; 9] false; RErr 9] (RErr 3) [] (RErr 3) [] HErr None) = false.
Proof. vm_compute. repeat split; reflexivity. Qed.

(** the channel semantics has runs: depth 1, two messages, an interleaving *)
Example C09_nonvacuous_channel :
  chan_reach 1 (mkChan [MChunk [1]; MEnd] [] []) (mkChan [] [] [MChunk [1]; MEnd]).
Proof.
  eapply reach_step; [eapply reach_step; [eapply reach_step; [eapply reach_step; [apply reach_refl|]|]|]|].
  - apply (ch_send 1 (MChunk [1]) [MEnd] [] []). cbn. lia.
  - apply (ch_recv 1 (MChunk [1]) [MEnd] [] []).
  - apply (ch_send 1 MEnd [] [] [MChunk [1]]). cbn. lia.
  - apply (ch_recv 1 MEnd [] [] [MChunk [1]]).
Qed.

(** a left-invertible "compressor" exists (so [C09_holds_compressed] is not vacuous) *)
Example C09_nonvacuous_compressed :
  let c := mkC09 [7; 8; 9] 2 2 [] None true 3 1 1 false in
  ok_C09 c (model_C09_with c [[40]; 7 :: [8; 9]] (tl (concat [[40]; 7 :: [8; 9]]))) = true.
Proof.
  exact (C09_holds_compressed (fun d => 40 :: d) (@tl byte) (fun d => eq_refl)
           (mkC09 [7; 8; 9] 2 2 [] None true 3 1 1 false) [[40]; 7 :: [8; 9]] eq_refl eq_refl ltac:(cbn; lia) eq_refl).
Qed.

Local Open Scope nat_scope.

Check C09_chunks_of_spec : forall n l, 0 < n ->
  concat (chunks_of n l) = l /\ chunking n (chunks_of n l).
Check C09_chunks_of_unique : forall n cs, 0 < n -> chunking n cs -> cs = chunks_of n (concat cs).
Check C09_sink_write_chunks : forall n ws, 0 < n ->
  fst (sink_writes n [] ws) ++ tailc (snd (sink_writes n [] ws)) = chunks_of n (concat ws) /\
  length (snd (sink_writes n [] ws)) < n.
Check C09_sink_bytes_chunks : forall n ws, 0 < n ->
  fst (sink_bytes_writes n [] ws) ++ tailc (snd (sink_bytes_writes n [] ws)) = chunks_of n (concat ws).
Check C09_sink_models_agree : forall n ws, 0 < n -> sink_writes n [] ws = sink_bytes_writes n [] ws.
Check C09_segmentation_irrelevant : forall n ws1 ws2 failed, 0 < n -> concat ws1 = concat ws2 ->
  produce n ws1 failed = produce n ws2 failed.
Check C09_pulls_are_the_chunks : forall n ws fuel, 0 < n -> lenw ws < fuel ->
  raw_pulls fuel (open_handler n ws false) = (pulls_ok (chunks_of n (concat ws)), None).
Check C09_pull_concat : forall n ws fuel, 0 < n -> lenw ws < fuel ->
  bodies (fst (raw_pulls fuel (open_handler n ws false))) = concat ws.
Check C09_exactly_one_last : forall n ws fuel, 0 < n -> lenw ws < fuel ->
  exists init b, fst (raw_pulls fuel (open_handler n ws false)) = init ++ [RChunk b true] /\ Forall not_last init.
Check C09_empty_payload_single_empty_last : forall n ws fuel, 0 < n -> 0 < fuel -> concat ws = [] ->
  raw_pulls fuel (open_handler n ws false) = ([RChunk [] true], None).
Check C09_pull_after_end_errors : forall n ws failed fuel, 0 < n -> lenw ws < fuel ->
  next_handler (snd (raw_pulls fuel (open_handler n ws failed))) = (RErr EC_INVALID_QUERY, None).
Check C09_pull_after_cancel_errors : forall t, next_handler (cancel_handler t) = (RErr EC_INVALID_QUERY, None).
Check C09_fail_never_last : forall n ws fuel, 0 < n -> lenw ws < fuel ->
  exists init, fst (raw_pulls fuel (open_handler n ws true)) = init ++ [RErr EC_INTERNAL] /\
               Forall not_last init /\ exists r, concat ws = bodies init ++ r.
Check C09_panic_same_as_error : forall n ws fuel, 0 < n -> lenw ws < fuel ->
  raw_pulls fuel (open_panic n ws) = raw_pulls fuel (open_handler n ws true) /\
  chunk_reader fuel (open_panic n ws) = chunk_reader fuel (open_handler n ws true).
Check C09_panic_never_last : forall n ws fuel, 0 < n -> lenw ws < fuel ->
  exists init, fst (raw_pulls fuel (open_panic n ws)) = init ++ [RErr EC_INTERNAL] /\
               Forall not_last init /\ exists r, concat ws = bodies init ++ r.
Check C09_reader_fails_on_panic : forall n ws fuel, chunk_reader fuel (open_panic n ws) = HErr.
Check C09_fail_at_any_message_index : forall tl, term_fail tl -> forall cs fuel, length cs < fuel ->
  raw_pulls fuel (st (map MChunk cs ++ tl) None) = (pulls_fail cs, None) /\
  ends_in_error (pulls_fail cs) = true /\ bodies (pulls_fail cs) = concat (removelast cs).
Check C09_early_stop_prefix : forall n ws j, 0 < n ->
  fst (raw_pulls j (open_handler n ws false)) = firstn j (pulls_ok (chunks_of n (concat ws))).
Check C09_reader_reassembles : forall n ws fuel, 0 < n -> lenw ws < fuel ->
  chunk_reader fuel (open_handler n ws false) = HBytes (concat ws).
Check C09_reader_fails_on_failure : forall n ws fuel, chunk_reader fuel (open_handler n ws true) = HErr.
Check C09_channel_fifo : forall d msgs c, chan_reach d (mkChan msgs [] []) c ->
  ch_got c ++ ch_queue c ++ ch_pending c = msgs.
Check C09_holds : forall c, c09_wf c = true -> ok_C09 c (model_C09 c) = true.
Check C09_holds_compressed : forall (compress decompress : list byte -> list byte),
  (forall d, decompress (compress d) = d) ->
  forall c ws, c_zstd c = true -> c_fail c = None -> 0 < N.to_nat (c_n c) ->
    concat ws = compress (c_data c) ->
    ok_C09 c (model_C09_with c ws (decompress (concat ws))) = true.

(** the auxiliary notions used in the statements, spelled out *)
Check (eq_refl : tailc = fun r => match r with [] => [] | _ :: _ => [r] end).
Check (eq_refl : not_last = fun r => exists b, r = RChunk b false).
Check (eq_refl : pulls_ok [[1%N]; [2%N]; [3%N]] = [RChunk [1%N] false; RChunk [2%N] false; RChunk [3%N] true]).
Check (eq_refl : pulls_fail [[1%N]; [2%N]; [3%N]] = [RChunk [1%N] false; RChunk [2%N] false; RErr 9%N]).
Check (eq_refl : chunking 2 [[1%N; 2%N]; [3%N]] = (2 = 2 /\ 0 < 1 <= 2)).

Print Assumptions C09_chunks_of_spec.
Print Assumptions C09_chunks_of_unique.
Print Assumptions C09_sink_write_chunks.
Print Assumptions C09_sink_bytes_chunks.
Print Assumptions C09_sink_models_agree.
Print Assumptions C09_segmentation_irrelevant.
Print Assumptions C09_pulls_are_the_chunks.
Print Assumptions C09_pull_concat.
Print Assumptions C09_exactly_one_last.
Print Assumptions C09_empty_payload_single_empty_last.
Print Assumptions C09_pull_after_end_errors.
Print Assumptions C09_pull_after_cancel_errors.
Print Assumptions C09_fail_never_last.
Print Assumptions C09_panic_same_as_error.
Print Assumptions C09_panic_never_last.
Print Assumptions C09_reader_fails_on_panic.
Print Assumptions C09_fail_at_any_message_index.
Print Assumptions C09_early_stop_prefix.
Print Assumptions C09_reader_reassembles.
Print Assumptions C09_reader_fails_on_failure.
Print Assumptions C09_channel_fifo.
Print Assumptions C09_holds.
Print Assumptions C09_holds_compressed.

(** ** the functions of the model are the ones re-translated from the Rust source on this run
    (bin/rs2v, sinks-and-sessions mode: Gen/SvsGen.v, Proofs/SvsGenAgree.v).  A rendering returns
    [Ok (value, receiver afterwards, channel afterwards)]; [live ch] says that the receiver outlives
    the producer (the models have no failing send); [sent_more ch ms] is [ch] with [ms] sent; for any
    channel state [send_all ch ms] is [ch] after trying to send [ms] in order and [fits ch k] says
    that [k] more sends succeed (send_chunk, flush_remaining and write are also stated in that
    generality: the first failed send ends the call with [Err(BrokenPipe)]).  The
    body writer / compressor is the oracle [script]: [steps_run] lists the writes its steps make
    on the sink and whether one of them returned an error.  [decoded] is the oracle for the
    request body ([Ok id] / does not decode). *)
From RepeV Require Import Base.GenSvsPrelude Gen.SvsGen Proofs.SvsGenAgree Gen.Tables Proofs.TablesC01 Proofs.SvsTables.
Local Open Scope N_scope.

Theorem C09_source_translation :
  match gen_sink_new with Some f => forall ch n, f ch n = Ok (mkSink [] n, ch) | None => True end /\
  match gen_sink_send_chunk with
  | Some f => forall ch s,
      f ch s = Ok (res_map_err (fst (tx_send ch (MChunk (k_buf s)))) IoBrokenPipe, mkSink [] (k_chunk_bytes s),
                   snd (tx_send ch (MChunk (k_buf s))))
  | None => True
  end /\
  match gen_sink_flush_remaining with
  | Some f => forall ch s, live ch ->
      f ch s = Ok (ROk tt, mkSink [] (k_chunk_bytes s),
                   sent_more ch (match k_buf s with [] => [] | _ :: _ => [MChunk (k_buf s)] end))
  | None => True
  end /\
  match gen_sink_write with
  | Some f => forall ch s data n, live ch -> k_chunk_bytes s = N.of_nat n -> (0 < n)%nat -> (length (k_buf s) < n)%nat ->
      f ch s data = Ok (ROk (len_n data), mkSink (snd (sink_write (S (length data)) n (k_buf s) data)) (N.of_nat n),
                        sent_more ch (map MChunk (fst (sink_write (S (length data)) n (k_buf s) data))))
  | None => True
  end /\
  match gen_sink_flush_remaining with
  | Some f => forall ch s,
      let tail := match k_buf s with [] => [] | _ :: _ => [MChunk (k_buf s)] end in
      f ch s = Ok (if fits ch (length tail) then ROk tt else RErr IoBrokenPipe, mkSink [] (k_chunk_bytes s), send_all ch tail)
  | None => True
  end /\
  match gen_sink_write with
  | Some f => forall ch s data n, k_chunk_bytes s = N.of_nat n -> (0 < n)%nat -> (length (k_buf s) < n)%nat ->
      let cs := fst (sink_write (S (length data)) n (k_buf s) data) in
      f ch s data =
      if fits ch (length cs)
      then Ok (ROk (len_n data), mkSink (snd (sink_write (S (length data)) n (k_buf s) data)) (N.of_nat n), send_all ch (map MChunk cs))
      else Ok (RErr IoBrokenPipe, mkSink [] (N.of_nat n), send_all ch (map MChunk cs))
  | None => True
  end /\
  match gen_sink_flush with Some f => forall ch s, f ch s = Ok (ROk tt, s, ch) | None => True end /\
  match gen_produce with
  | Some f => forall ch script opts n, live ch -> o_chunk_bytes opts = N.of_nat n -> (0 < n)%nat ->
      f ch script opts =
      let '(ws, failed, rest) := steps_run (steps_of (o_compression opts)) script in
      Ok (tt, sent_more ch (produce n ws failed), rest)
  | None => True
  end /\
  match gen_session_recv with
  | Some f => forall s, f s = Ok (fst (recv (s_rx s)), mkSession (snd (recv (s_rx s))) (s_look s) (s_done s))
  | None => True
  end /\
  match gen_session_pull with
  | Some f => forall s, f s = Ok (pulled_res (fst (session_pull s)), snd (session_pull s))
  | None => True
  end /\
  match gen_table_new with Some f => f = Ok (mkTable 1 []) | None => True end /\
  match gen_table_get with Some f => forall t id, f t id = Ok (m_get (tb_sessions t) id, t) | None => True end /\
  match gen_table_remove with
  | Some f => forall t id, f t id = Ok (tt, mkTable (tb_next_id t) (m_del (tb_sessions t) id))
  | None => True
  end /\
  match gen_next_handle with
  | Some f => forall decoded h,
      f decoded h =
      match decoded with
      | RErr _ => Ok (ROk (SResp (resp_err ERRC_InvalidBody)), h)
      | ROk id =>
          let m := tb_sessions (nh_table h) in
          Ok (ROk (SResp (fst (next_handler (m_get m id)))),
              mkHandler (mkTable (tb_next_id (nh_table h)) (store_entry m id (snd (next_handler (m_get m id))))))
      end
  | None => True
  end /\
  match gen_cancel_handle with
  | Some f => forall decoded h,
      f decoded h =
      Ok (ROk SAck, match decoded with
                    | ROk id => mkHandler (mkTable (tb_next_id (nh_table h)) (m_del (tb_sessions (nh_table h)) id))
                    | RErr _ => h
                    end)
  | None => True
  end.
Proof. exact c09_source_translation. Qed.

Theorem C09_source_translation_model :
  (forall m id t, m_get (store_entry m id t) id = match m_get m id with Some _ => t | None => None end) /\
  (forall m id id' t, id' <> id -> m_get (store_entry m id t) id' = m_get m id') /\
  (forall m id, m_get (m_del m id) id = cancel_handler (m_get m id)) /\
  (forall n f data buf, (0 < n)%nat -> (length buf < n)%nat -> (length (snd (sink_write f n buf data)) < n)%nat) /\
  (forall n buf w, sink_writes n buf [w] = sink_write (S (length w)) n buf w) /\
  (forall n ws failed, open_handler n ws failed = Some (mkSession (produce n ws failed) None false)) /\
  (forall c ms, live c -> send_all c ms = sent_more c ms /\ (forall k, fits c k = true)).
Proof. exact c09_source_translation_model. Qed.

Check C09_source_translation :
  match gen_sink_new with Some f => forall ch n, f ch n = Ok (mkSink [] n, ch) | None => True end /\
  match gen_sink_send_chunk with
  | Some f => forall ch s,
      f ch s = Ok (res_map_err (fst (tx_send ch (MChunk (k_buf s)))) IoBrokenPipe, mkSink [] (k_chunk_bytes s),
                   snd (tx_send ch (MChunk (k_buf s))))
  | None => True
  end /\
  match gen_sink_flush_remaining with
  | Some f => forall ch s, live ch ->
      f ch s = Ok (ROk tt, mkSink [] (k_chunk_bytes s),
                   sent_more ch (match k_buf s with [] => [] | _ :: _ => [MChunk (k_buf s)] end))
  | None => True
  end /\
  match gen_sink_write with
  | Some f => forall ch s data n, live ch -> k_chunk_bytes s = N.of_nat n -> (0 < n)%nat -> (length (k_buf s) < n)%nat ->
      f ch s data = Ok (ROk (len_n data), mkSink (snd (sink_write (S (length data)) n (k_buf s) data)) (N.of_nat n),
                        sent_more ch (map MChunk (fst (sink_write (S (length data)) n (k_buf s) data))))
  | None => True
  end /\
  match gen_sink_flush_remaining with
  | Some f => forall ch s,
      let tail := match k_buf s with [] => [] | _ :: _ => [MChunk (k_buf s)] end in
      f ch s = Ok (if fits ch (length tail) then ROk tt else RErr IoBrokenPipe, mkSink [] (k_chunk_bytes s), send_all ch tail)
  | None => True
  end /\
  match gen_sink_write with
  | Some f => forall ch s data n, k_chunk_bytes s = N.of_nat n -> (0 < n)%nat -> (length (k_buf s) < n)%nat ->
      let cs := fst (sink_write (S (length data)) n (k_buf s) data) in
      f ch s data =
      if fits ch (length cs)
      then Ok (ROk (len_n data), mkSink (snd (sink_write (S (length data)) n (k_buf s) data)) (N.of_nat n), send_all ch (map MChunk cs))
      else Ok (RErr IoBrokenPipe, mkSink [] (N.of_nat n), send_all ch (map MChunk cs))
  | None => True
  end /\
  match gen_sink_flush with Some f => forall ch s, f ch s = Ok (ROk tt, s, ch) | None => True end /\
  match gen_produce with
  | Some f => forall ch script opts n, live ch -> o_chunk_bytes opts = N.of_nat n -> (0 < n)%nat ->
      f ch script opts =
      let '(ws, failed, rest) := steps_run (steps_of (o_compression opts)) script in
      Ok (tt, sent_more ch (produce n ws failed), rest)
  | None => True
  end /\
  match gen_session_recv with
  | Some f => forall s, f s = Ok (fst (recv (s_rx s)), mkSession (snd (recv (s_rx s))) (s_look s) (s_done s))
  | None => True
  end /\
  match gen_session_pull with
  | Some f => forall s, f s = Ok (pulled_res (fst (session_pull s)), snd (session_pull s))
  | None => True
  end /\
  match gen_table_new with Some f => f = Ok (mkTable 1 []) | None => True end /\
  match gen_table_get with Some f => forall t id, f t id = Ok (m_get (tb_sessions t) id, t) | None => True end /\
  match gen_table_remove with
  | Some f => forall t id, f t id = Ok (tt, mkTable (tb_next_id t) (m_del (tb_sessions t) id))
  | None => True
  end /\
  match gen_next_handle with
  | Some f => forall decoded h,
      f decoded h =
      match decoded with
      | RErr _ => Ok (ROk (SResp (resp_err ERRC_InvalidBody)), h)
      | ROk id =>
          let m := tb_sessions (nh_table h) in
          Ok (ROk (SResp (fst (next_handler (m_get m id)))),
              mkHandler (mkTable (tb_next_id (nh_table h)) (store_entry m id (snd (next_handler (m_get m id))))))
      end
  | None => True
  end /\
  match gen_cancel_handle with
  | Some f => forall decoded h,
      f decoded h =
      Ok (ROk SAck, match decoded with
                    | ROk id => mkHandler (mkTable (tb_next_id (nh_table h)) (m_del (tb_sessions (nh_table h)) id))
                    | RErr _ => h
                    end)
  | None => True
  end.
Check C09_source_translation_model :
  (forall m id t, m_get (store_entry m id t) id = match m_get m id with Some _ => t | None => None end) /\
  (forall m id id' t, id' <> id -> m_get (store_entry m id t) id' = m_get m id') /\
  (forall m id, m_get (m_del m id) id = cancel_handler (m_get m id)) /\
  (forall n f data buf, (0 < n)%nat -> (length buf < n)%nat -> (length (snd (sink_write f n buf data)) < n)%nat) /\
  (forall n buf w, sink_writes n buf [w] = sink_write (S (length w)) n buf w) /\
  (forall n ws failed, open_handler n ws failed = Some (mkSession (produce n ws failed) None false)) /\
  (forall c ms, live c -> send_all c ms = sent_more c ms /\ (forall k, fits c k = true)).

(** the definitions used above are the plain ones *)
Check (eq_refl : live = fun c => tx_left c = None).
Check (eq_refl : sent_more = fun c ms => mkTx (tx_sent c ++ ms) (tx_left c)).
Check (eq_refl : send_all = fun c ms =>
  match tx_left c with
  | None => mkTx (tx_sent c ++ ms) None
  | Some k => mkTx (tx_sent c ++ firstn k ms) (Some (k - length ms)%nat)
  end).
Check (eq_refl : fits = fun c k => match tx_left c with None => true | Some b => (k <=? b)%nat end).
Check (eq_refl : wwrites = fun ops => flat_map (fun o => match o with WWrite b => [b] | WFlush => [] end) ops).
Check (eq_refl : steps_of = fun c => match c with CoNone => 1%nat | CoZstd => 3%nat end).
Check (eq_refl : steps_run = fix steps_run (k : nat) (script : list wstep) : list (list byte) * bool * list wstep :=
  match k with
  | O => ([], false, script)
  | S k' =>
      match script with
      | [] => steps_run k' []
      | st :: rest =>
          match ws_res st with
          | Some _ => (wwrites (ws_ops st), true, rest)
          | None => let '(ws, f, r) := steps_run k' rest in (wwrites (ws_ops st) ++ ws, f, r)
          end
      end
  end).
Check (eq_refl : pulled_res = fun p => match p with PChunk c l => ROk (c, l) | PErr => RErr TOpaque end).
Check (eq_refl : store_entry = fun m id t => match t with Some s => m_put m id s | None => m_del m id end).
Check (eq_refl : (ERRC_InvalidQuery, ERRC_InternalError, ERRC_InvalidBody) = (EC_INVALID_QUERY, EC_INTERNAL, 4)).
Check svs_error_codes_agree :
  agrees src_ErrorCode_InvalidQuery ERRC_InvalidQuery /\ agrees src_ErrorCode_InvalidBody ERRC_InvalidBody /\
  agrees src_ErrorCode_MethodNotFound ERRC_MethodNotFound /\ agrees src_ErrorCode_ResourceExhausted ERRC_ResourceExhausted /\
  agrees src_ErrorCode_InternalError ERRC_InternalError.

Print Assumptions C09_source_translation.
Print Assumptions C09_source_translation_model.
Print Assumptions svs_error_codes_agree.
