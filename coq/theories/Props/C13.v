(** C13 — Replay ring and resume: the ring is a contiguous suffix of what was
    pushed (oldest evicted first), bounded by its byte capacity (or one chunk),
    always retains the most recent chunk; a resume is accepted exactly at a
    retained chunk boundary (or the end), and the replay that follows is the
    gapless tail from that offset.
    This file contains only statements (closed by [exact]), their pins and
    their assumptions. *)
From RepeV Require Import Model.C11 Proofs.StreamProofs.

(** evicts oldest first: the ring is always a suffix of what was pushed since
    the last advance *)
Theorem C13_ring_suffix : forall w c ops,
  hist_ok w c ops = true ->
  exists pre, pushed_since_advance ops = pre ++ t_ring (exec (init w c) ops).
Proof. exact ring_suffix. Qed.

(** bounded: at most one chunk, or within the byte capacity.  [wire_small]
    (fewer than 2^64 wire bytes pushed in total) is needed because [bytes_held]
    is a saturating u64 in the code; see [C13_saturation_breaks_bound]. *)
Theorem C13_ring_bounded : forall w c ops,
  hist_ok w c ops = true -> wire_small ops ->
  let s := exec (init w c) ops in
  (length (t_ring s) <= 1)%nat \/ sum_wire (t_ring s) <= t_cap s.
Proof. exact ring_bounded. Qed.

(** the most recent chunk is always retained *)
Theorem C13_most_recent_retained : forall s c,
  t_ring (ring_push s c) <> [] /\ last (t_ring (ring_push s c)) c = c.
Proof. exact most_recent_retained. Qed.

(** a resume is accepted exactly when not cancelled, for the current file, at a
    covered offset *)
Theorem C13_resume_accept_iff : forall s p f n,
  (exists s', step s (Resume p f n) = (s', OResumeOk n)) <->
  t_cancelled s = None /\ f = t_file s /\ covers (t_ring s) n = true.
Proof. exact resume_accept_iff. Qed.

(** covered offsets: a retained chunk's start, or the end of the newest chunk
    (offset 0 for an empty ring) *)
Theorem C13_covers_spec : forall ring n,
  covers ring n = true <->
  (ring = [] /\ n = 0) \/
  (ring <> [] /\ ((exists c, In c ring /\ ck_off c = n) \/ ck_end (last ring (mkChunk 0 0 false [])) = n)).
Proof. exact covers_spec. Qed.

(** the replay from a covered offset is a gapless tail of the ring starting
    exactly there (empty only at the very end) *)
Theorem C13_replay_gapless : forall ring n,
  contiguous ring = true -> covers ring n = true ->
  let cs := replay_from ring n in
  is_suffix cs ring = true /\ contiguous cs = true /\
  match cs with
  | [] => ring = [] /\ n = 0 \/ ring <> [] /\ ck_end (last ring (mkChunk 0 0 false [])) = n
  | c0 :: _ => ck_off c0 = n
  end.
Proof. exact replay_gapless. Qed.

(** on well-formed histories (abutting pushes) the ring is contiguous *)
Theorem C13_ring_contiguous : forall w c ops,
  hist_ok w c ops = true -> contiguous (t_ring (exec (init w c) ops)) = true.
Proof. exact ring_contiguous. Qed.

(** advancing to the next file empties the ring and drops a pending resume *)
Theorem C13_advance_empties : forall s f,
  t_ring (fst (step s (Advance f))) = [] /\ t_pending (fst (step s (Advance f))) = None /\
  t_held (fst (step s (Advance f))) = 0.
Proof. exact advance_empties. Qed.

(** the executable oracle accepts the model on every well-formed history that
    pushes fewer than 2^64 wire bytes in total.  The statement without
    [wire_small] is false ([C13_saturation_breaks_bound]), hence the name. *)
Theorem C13_holds_partial : forall w c ops,
  hist_ok w c ops = true -> wire_small ops -> ok_C13 c ops (model_trace w c ops) = true.
Proof. exact ok_model_C13. Qed.

(** [wire_small] cannot be dropped from [C13_holds_partial]: two pushes whose
    bodies have 2^63 bytes each saturate [bytes_held], nothing is evicted and
    the ring exceeds its capacity *)
Theorem C13_saturation_breaks_bound :
  exists w c ops, hist_ok w c ops = true /\ ok_C13 c ops (model_trace w c ops) = false.
Proof. exact C13_needs_wire_small. Qed.

(** non-vacuity: a well-formed history with abutting pushes that overflow the
    capacity (eviction), a zero-length chunk, an accepted resume followed by
    its replay, rejected resumes, a reconnect, an advance and a cancel *)
Example C13_nonvacuous :
  let ops := [Push 0 4 false [1; 2; 3; 4; 5]; Push 4 4 false [1; 2; 3; 4; 5]; Push 8 0 false [9];
              Push 8 4 false [1; 2; 3; 4; 5]; Resume 7 0 8; Replay 8; TryReconnect; Resume 7 0 0;
              Resume 7 1 8; Resume 7 0 12; Replay 12; Advance 1; Resume 8 1 0; Replay 0;
              Push 0 2 true [1; 2]; Cancel 5; Resume 9 1 0; TryReconnect] in
  hist_ok 16 12 ops = true /\ wire_small ops /\ ok_C13 12 ops (model_trace 16 12 ops) = true /\
  map ck_off (t_ring (exec (init 16 12) (firstn 4 ops))) = [4; 8; 8] /\
  map fst (model_trace 16 12 ops)
  = [ONone; ONone; ONone; ONone; OResumeOk 8;
     OChunks [mkChunk 8 0 false [9]; mkChunk 8 4 false [1; 2; 3; 4; 5]];
     OResumeReady 8; ORejOutOfWindow; ORejWrongFile 1 0; OResumeOk 12; OChunks []; ONone;
     OResumeOk 0; OChunks []; ONone; ONone; ORejCancelled; OReconnCancelled 5].
Proof. vm_compute. repeat split. Qed.

Check C13_ring_suffix : forall w c ops, hist_ok w c ops = true ->
  exists pre, pushed_since_advance ops = pre ++ t_ring (exec (init w c) ops).
Check C13_ring_bounded : forall w c ops, hist_ok w c ops = true -> wire_small ops ->
  let s := exec (init w c) ops in
  (length (t_ring s) <= 1)%nat \/ sum_wire (t_ring s) <= t_cap s.
Check C13_most_recent_retained : forall s c,
  t_ring (ring_push s c) <> [] /\ last (t_ring (ring_push s c)) c = c.
Check C13_resume_accept_iff : forall s p f n,
  (exists s', step s (Resume p f n) = (s', OResumeOk n)) <->
  t_cancelled s = None /\ f = t_file s /\ covers (t_ring s) n = true.
Check C13_covers_spec : forall ring n, covers ring n = true <->
  (ring = [] /\ n = 0) \/
  (ring <> [] /\ ((exists c, In c ring /\ ck_off c = n) \/ ck_end (last ring (mkChunk 0 0 false [])) = n)).
Check C13_replay_gapless : forall ring n, contiguous ring = true -> covers ring n = true ->
  let cs := replay_from ring n in
  is_suffix cs ring = true /\ contiguous cs = true /\
  match cs with
  | [] => ring = [] /\ n = 0 \/ ring <> [] /\ ck_end (last ring (mkChunk 0 0 false [])) = n
  | c0 :: _ => ck_off c0 = n
  end.
Check C13_ring_contiguous : forall w c ops,
  hist_ok w c ops = true -> contiguous (t_ring (exec (init w c) ops)) = true.
Check C13_advance_empties : forall s f,
  t_ring (fst (step s (Advance f))) = [] /\ t_pending (fst (step s (Advance f))) = None /\
  t_held (fst (step s (Advance f))) = 0.
Check C13_holds_partial : forall w c ops,
  hist_ok w c ops = true -> wire_small ops -> ok_C13 c ops (model_trace w c ops) = true.
Check C13_saturation_breaks_bound :
  exists w c ops, hist_ok w c ops = true /\ ok_C13 c ops (model_trace w c ops) = false.

Print Assumptions C13_ring_suffix.
Print Assumptions C13_ring_bounded.
Print Assumptions C13_most_recent_retained.
Print Assumptions C13_resume_accept_iff.
Print Assumptions C13_covers_spec.
Print Assumptions C13_replay_gapless.
Print Assumptions C13_ring_contiguous.
Print Assumptions C13_advance_empties.
Print Assumptions C13_holds_partial.
Print Assumptions C13_saturation_breaks_bound.

(** ** tie to the source text (see Props/C11.v): the re-translated bodies of
    request_resume, push_replay, replay_chunks_from and of the ReplayRing
    methods are the model's steps / [covers] / [ring_push] (the fuelled
    rendering of the eviction [while] is the model's [evict], and its fuel
    suffices: the loop test is false on exit) / [replay_from]. *)
From RepeV Require Import Model.Condvar Base.GenPrelude Gen.StreamGen Proofs.StreamGenAgree.

Theorem C13_source_translation :
  match gen_request_resume with
  | Some f => forall s p fi n,
      let '(s', r, nt) := f s p fi n in
      (s', out_of_resume r, nt) = (step s (Resume p fi n), notifies s (Resume p fi n))
  | None => True
  end /\
  agrees5 gen_push_replay (fun s off len lst body => (fst (step s (Push off len lst body)), false)) /\
  match gen_replay_chunks_from with
  | Some f => forall s n, let '(s', cs, nt) := f s n in (s', OChunks cs, nt) = (step s (Replay n), false)
  | None => True
  end /\
  agrees2 gen_ring_covers (fun s o => covers (t_ring s) o) /\
  agrees5 gen_ring_push (fun s off len lst body => ring_push s (mkChunk off len lst body)) /\
  match gen_ring_push with
  | Some f => forall s off len lst body,
      let s' := f s off len lst body in
      (t_cap s' <? t_held s') && (1 <? N.of_nat (length (t_ring s'))) = false
  | None => True
  end /\
  agrees2 gen_ring_replay_from (fun s o => replay_from (t_ring s) o) /\
  agrees1 gen_ring_clear (fun s => mkTc (t_window s) (t_sent s) (t_acked s) (t_file s) (t_cancelled s) [] 0
                                        (t_cap s) (t_peer s) (t_pending s)) /\
  agrees1 gen_ring_highest_end_offset
          (fun s => match t_ring s with [] => None | r => Some (ck_end (last r (mkChunk 0 0 false []))) end).
Proof. exact c13_source_translation. Qed.

Check C13_source_translation :
  match gen_request_resume with
  | Some f => forall s p fi n,
      let '(s', r, nt) := f s p fi n in
      (s', out_of_resume r, nt) = (step s (Resume p fi n), notifies s (Resume p fi n))
  | None => True
  end /\
  agrees5 gen_push_replay (fun s off len lst body => (fst (step s (Push off len lst body)), false)) /\
  match gen_replay_chunks_from with
  | Some f => forall s n, let '(s', cs, nt) := f s n in (s', OChunks cs, nt) = (step s (Replay n), false)
  | None => True
  end /\
  agrees2 gen_ring_covers (fun s o => covers (t_ring s) o) /\
  agrees5 gen_ring_push (fun s off len lst body => ring_push s (mkChunk off len lst body)) /\
  match gen_ring_push with
  | Some f => forall s off len lst body,
      let s' := f s off len lst body in
      (t_cap s' <? t_held s') && (1 <? N.of_nat (length (t_ring s'))) = false
  | None => True
  end /\
  agrees2 gen_ring_replay_from (fun s o => replay_from (t_ring s) o) /\
  agrees1 gen_ring_clear (fun s => mkTc (t_window s) (t_sent s) (t_acked s) (t_file s) (t_cancelled s) [] 0
                                        (t_cap s) (t_peer s) (t_pending s)) /\
  agrees1 gen_ring_highest_end_offset
          (fun s => match t_ring s with [] => None | r => Some (ck_end (last r (mkChunk 0 0 false []))) end).

Print Assumptions C13_source_translation.
