(** C01 — Wire frames: canonical 48-byte layout, lossless round trip, one encoding.
    This file contains only statements (closed by [exact]), their pins and
    their assumptions. *)
From RepeV Require Import Model.C01 Gen.Tables Proofs.HeaderProofs Proofs.TablesC01 Proofs.MessageProofs Proofs.C01Proofs.

(** exactly 48 header bytes *)
Theorem C01_header_48 : forall h, length (encode h) = 48%nat.
Proof. exact encode_length. Qed.

(** the REPE v1 field order and little-endian placement, as an offset table
    stated independently of [encode] *)
Theorem C01_layout : forall h rest, hdr_ok h = true -> layout_ok h (encode h ++ rest) = true.
Proof. intros h rest H. exact (encode_layout h H rest). Qed.

(** the table pins every byte: whatever it accepts is the encoding *)
Theorem C01_layout_pins_bytes : forall h bs,
  bytes_ok bs = true -> layout_ok h bs = true -> firstn 48 bs = encode h.
Proof. exact layout_ok_encode. Qed.

(** header round trip, every field (reserved bits, unknown formats) preserved *)
Theorem C01_decode_encode : forall h rest,
  hdr_ok h = true -> h_spec h = REPE_SPEC -> h_length h = HEADER_SIZE + h_qlen h + h_blen h ->
  decode (encode h ++ rest) = Ok h.
Proof. intros h rest H. exact (decode_encode h H rest). Qed.

(** one encoding: accepted bytes are the encoding of what was returned *)
Theorem C01_one_encoding : forall bs h,
  bytes_ok bs = true -> decode bs = Ok h -> firstn 48 bs = encode h.
Proof. exact encode_decode. Qed.

(** message round trip, owned and borrowed parser *)
Theorem C01_round_trip : forall m rest,
  msg_ok m = true -> bytes_ok rest = true ->
  from_slice (to_vec m ++ rest) = Ok m /\ view_from_slice (to_vec m ++ rest) = Ok m.
Proof. intros m rest H1 H2. rewrite view_eq_owned. split; exact (from_slice_round_trip m rest H1 H2). Qed.

Theorem C01_frame_one_encoding : forall bs m,
  bytes_ok bs = true -> from_slice bs = Ok m ->
  firstn (N.to_nat (h_length (m_hdr m))) bs = to_vec m.
Proof. exact from_slice_to_vec. Qed.

(** every emission route produces [to_vec]: three-write routes, in-place reuse
    for every capacity, streaming for every chunking, server echo framing and
    WebSocket stamping *)
Theorem C01_routes_write : forall m, concat (write_chunks m) = to_vec m.
Proof. exact write_chunks_concat. Qed.

Theorem C01_routes_in_place : forall cap m, into_wire_bytes cap m = to_vec m.
Proof. exact into_wire_bytes_eq. Qed.

Theorem C01_routes_streaming : forall h q body chunks,
  concat chunks = body ->
  concat (write_streaming_chunks h q (lenN body) chunks)
  = to_vec (mkMessage (patch_lengths h (lenN q) (lenN body)) q body).
Proof. exact streaming_concat. Qed.

Theorem C01_routes_servers : forall resp req_q,
  lens_ok resp ->
  concat (server_frame resp req_q) = to_vec (framed resp req_q) /\
  into_wire_bytes (lenN (m_body resp)) (stamp resp req_q) = to_vec (framed resp req_q).
Proof.
  intros resp req_q H. rewrite server_frame_concat, into_wire_bytes_eq, (stamp_eq_framed _ _ H). split; reflexivity.
Qed.

(** the builder always produces a consistent message *)
Theorem C01_build_consistent : forall b,
  bytes_ok (b_query b) = true -> bytes_ok (b_body b) = true ->
  b_id b < two64 -> b_qfmt b < two16 -> b_bfmt b < two16 -> b_ec b < two32 ->
  HEADER_SIZE + lenN (b_query b) + lenN (b_body b) < two64 ->
  msg_ok (build b) = true.
Proof. exact build_ok. Qed.

(** the model's field order, widths and constants are the ones re-read from the
    Rust source on this run (each conjunct degrades to True if the source could
    not be parsed; the evidence then says so) *)
Theorem C01_source_tables :
  agrees src_header_encode header_table /\ agrees src_header_decode header_table /\
  agrees src_HEADER_SIZE HEADER_SIZE /\ agrees src_REPE_SPEC REPE_SPEC /\
  (forall h, encode h = encode_tbl header_table h).
Proof.
  exact (conj header_encode_agrees (conj header_decode_agrees (conj header_size_agrees
          (conj repe_spec_agrees encode_is_table)))).
Qed.

(** the executable oracle (also applied to the implementation's observations)
    accepts the model on every well-formed case *)
Theorem C01_holds : forall c, c01_wf c = true -> ok_C01 c (model_C01 c) = true.
Proof. exact ok_model_C01. Qed.

(** non-vacuity: a case with all-ones header fields, a 3-byte query, unknown
    format codes and non-zero reserved bits is well-formed and consistent *)
Example C01_nonvacuous :
  let c := mkC01 (mkHeader 52 REPE_SPEC 255 255 4294967295 18446744073709551615 3 1 65535 65535 4294967295)
             [47; 97; 98] [7] 60 [1] [9; 9] true in
  c01_wf c = true /\ (exists m, o_new (model_C01 c) = Ok m) /\ ok_C01 c (model_C01 c) = true.
Proof. vm_compute. repeat split; eauto. Qed.

Check C01_header_48 : forall h, length (encode h) = 48%nat.
Check C01_layout : forall h rest, hdr_ok h = true -> layout_ok h (encode h ++ rest) = true.
Check C01_layout_pins_bytes : forall h bs, bytes_ok bs = true -> layout_ok h bs = true -> firstn 48 bs = encode h.
Check C01_decode_encode : forall h rest, hdr_ok h = true -> h_spec h = REPE_SPEC ->
  h_length h = HEADER_SIZE + h_qlen h + h_blen h -> decode (encode h ++ rest) = Ok h.
Check C01_one_encoding : forall bs h, bytes_ok bs = true -> decode bs = Ok h -> firstn 48 bs = encode h.
Check C01_round_trip : forall m rest, msg_ok m = true -> bytes_ok rest = true ->
  from_slice (to_vec m ++ rest) = Ok m /\ view_from_slice (to_vec m ++ rest) = Ok m.
Check C01_frame_one_encoding : forall bs m, bytes_ok bs = true -> from_slice bs = Ok m ->
  firstn (N.to_nat (h_length (m_hdr m))) bs = to_vec m.
Check C01_routes_write : forall m, concat (write_chunks m) = to_vec m.
Check C01_routes_in_place : forall cap m, into_wire_bytes cap m = to_vec m.
Check C01_routes_streaming : forall h q body chunks, concat chunks = body ->
  concat (write_streaming_chunks h q (lenN body) chunks)
  = to_vec (mkMessage (patch_lengths h (lenN q) (lenN body)) q body).
Check C01_routes_servers : forall resp req_q, lens_ok resp ->
  concat (server_frame resp req_q) = to_vec (framed resp req_q) /\
  into_wire_bytes (lenN (m_body resp)) (stamp resp req_q) = to_vec (framed resp req_q).
Check C01_build_consistent : forall b, bytes_ok (b_query b) = true -> bytes_ok (b_body b) = true ->
  b_id b < two64 -> b_qfmt b < two16 -> b_bfmt b < two16 -> b_ec b < two32 ->
  HEADER_SIZE + lenN (b_query b) + lenN (b_body b) < two64 -> msg_ok (build b) = true.
Check C01_source_tables :
  agrees src_header_encode header_table /\ agrees src_header_decode header_table /\
  agrees src_HEADER_SIZE HEADER_SIZE /\ agrees src_REPE_SPEC REPE_SPEC /\
  (forall h, encode h = encode_tbl header_table h).
Check C01_holds : forall c, c01_wf c = true -> ok_C01 c (model_C01 c) = true.

Print Assumptions C01_header_48.
Print Assumptions C01_layout.
Print Assumptions C01_layout_pins_bytes.
Print Assumptions C01_decode_encode.
Print Assumptions C01_one_encoding.
Print Assumptions C01_round_trip.
Print Assumptions C01_frame_one_encoding.
Print Assumptions C01_routes_write.
Print Assumptions C01_routes_in_place.
Print Assumptions C01_routes_streaming.
Print Assumptions C01_routes_servers.
Print Assumptions C01_build_consistent.
Print Assumptions C01_source_tables.
Print Assumptions C01_holds.

(** ** tie to the source text: the bodies of Header::decode, Header::encode,
    Message::new, Message::from_slice and Message::from_slice_exact (Gen/FrameGen.v)
    and of Header::new, Message::to_vec, Message::into_wire_bytes,
    MessageBuilder::build, stamp_response_query and response_echo_query
    (Gen/BuildGen.v), re-translated into Gallina by bin/rs2v on every run with every
    panicking operation kept ([add64], [slice_chk], [index_chk], [copy_chk],
    [copy_within_chk]), are the model's functions on all inputs.  encode: the code
    stores the two u8 fields as they are, the model writes [le_enc 1].  Message::new,
    to_vec, into_wire_bytes, build: the code adds [48 + |q| + |b|] with
    overflow-checked u64 [+] where the model adds in [N]; they differ exactly when
    that sum reaches 2^64, which no two Vec lengths can.  stamp_response_query adds
    the header's [body_length] field instead of [|b|]: that sum can reach 2^64 for a
    response whose header a handler filled in by hand, and exactly then the code
    panics (overflow checks on) where the model does not.  into_wire_bytes: [cap]
    is the capacity of the body vector (a parameter of the rendering and of the
    model).  Allocation ([Vec::with_capacity], growth) is assumed to succeed.  A
    function that could not be translated is [None] and its clause is [True]
    (reported by rs2v); a function whose meaning changed breaks the proof. *)
From RepeV Require Import Base.GenFramePrelude Gen.FrameGen Proofs.FrameGenAgree.
From RepeV Require Import Base.GenVecPrelude Gen.BuildGen Proofs.BuildGenAgree Proofs.BuildTables.

Theorem C01_source_translation :
  agrees1 gen_decode decode /\
  match gen_encode with
  | Some f => forall h, h_version h < 256 -> h_notify h < 256 -> f h = Ok (encode h)
  | None => True
  end /\
  match gen_msg_new with
  | Some f => forall h q b,
      f h q b = if HEADER_SIZE + lenN q + lenN b <? two64 then msg_new h q b else Panic
  | None => True
  end /\
  agrees1 gen_from_slice from_slice /\
  agrees1 gen_from_slice_exact from_slice_exact /\
  match gen_header_new with
  | Some f => f = Ok (mkHeader 0 REPE_SPEC REPE_VERSION 0 0 0 0 0 0 0 0)
  | None => True
  end /\
  match gen_to_vec with
  | Some f => forall m, h_version (m_hdr m) < 256 -> h_notify (m_hdr m) < 256 ->
      f m = if HEADER_SIZE + lenN (m_query m) + lenN (m_body m) <? two64 then Ok (to_vec m) else Panic
  | None => True
  end /\
  match gen_into_wire_bytes with
  | Some f => forall cap m, h_version (m_hdr m) < 256 -> h_notify (m_hdr m) < 256 ->
      f cap m = if HEADER_SIZE + lenN (m_query m) + lenN (m_body m) <? two64 then Ok (into_wire_bytes cap m) else Panic
  | None => True
  end /\
  match gen_build with
  | Some f => forall b,
      f b = if HEADER_SIZE + lenN (b_query b) + lenN (b_body b) <? two64 then Ok (build b) else Panic
  | None => True
  end /\
  match gen_stamp_response_query with
  | Some f => forall resp q,
      f resp q = if (lenN q =? 0) || negb (lenN (m_query resp) =? 0) || (HEADER_SIZE + lenN q + h_blen (m_hdr resp) <? two64)
                 then Ok (stamp resp q) else Panic
  | None => True
  end /\
  match gen_response_echo_query with
  | Some f => forall resp q, f resp q = Ok (echo_query (m_query resp) q)
  | None => True
  end.
Proof. exact c01_source_translation_build. Qed.

(** the format codes written by [build] ([QueryFormat::RawBinary as u16] ..) are the source's *)
Theorem C01_source_format_codes :
  agrees src_QueryFormat_RawBinary QF_RAW_BINARY /\ agrees src_QueryFormat_JsonPointer QF_JSON_POINTER /\
  agrees src_BodyFormat_RawBinary BF_RAW_BINARY /\ agrees src_BodyFormat_Beve BF_BEVE /\
  agrees src_BodyFormat_Json BF_JSON /\ agrees src_BodyFormat_Utf8 BF_UTF8.
Proof. exact c01_format_codes_agree. Qed.

Check C01_source_translation :
  agrees1 gen_decode decode /\
  match gen_encode with
  | Some f => forall h, h_version h < 256 -> h_notify h < 256 -> f h = Ok (encode h)
  | None => True
  end /\
  match gen_msg_new with
  | Some f => forall h q b,
      f h q b = if HEADER_SIZE + lenN q + lenN b <? two64 then msg_new h q b else Panic
  | None => True
  end /\
  agrees1 gen_from_slice from_slice /\
  agrees1 gen_from_slice_exact from_slice_exact /\
  match gen_header_new with
  | Some f => f = Ok (mkHeader 0 REPE_SPEC REPE_VERSION 0 0 0 0 0 0 0 0)
  | None => True
  end /\
  match gen_to_vec with
  | Some f => forall m, h_version (m_hdr m) < 256 -> h_notify (m_hdr m) < 256 ->
      f m = if HEADER_SIZE + lenN (m_query m) + lenN (m_body m) <? two64 then Ok (to_vec m) else Panic
  | None => True
  end /\
  match gen_into_wire_bytes with
  | Some f => forall cap m, h_version (m_hdr m) < 256 -> h_notify (m_hdr m) < 256 ->
      f cap m = if HEADER_SIZE + lenN (m_query m) + lenN (m_body m) <? two64 then Ok (into_wire_bytes cap m) else Panic
  | None => True
  end /\
  match gen_build with
  | Some f => forall b,
      f b = if HEADER_SIZE + lenN (b_query b) + lenN (b_body b) <? two64 then Ok (build b) else Panic
  | None => True
  end /\
  match gen_stamp_response_query with
  | Some f => forall resp q,
      f resp q = if (lenN q =? 0) || negb (lenN (m_query resp) =? 0) || (HEADER_SIZE + lenN q + h_blen (m_hdr resp) <? two64)
                 then Ok (stamp resp q) else Panic
  | None => True
  end /\
  match gen_response_echo_query with
  | Some f => forall resp q, f resp q = Ok (echo_query (m_query resp) q)
  | None => True
  end.

Check C01_source_format_codes :
  agrees src_QueryFormat_RawBinary QF_RAW_BINARY /\ agrees src_QueryFormat_JsonPointer QF_JSON_POINTER /\
  agrees src_BodyFormat_RawBinary BF_RAW_BINARY /\ agrees src_BodyFormat_Beve BF_BEVE /\
  agrees src_BodyFormat_Json BF_JSON /\ agrees src_BodyFormat_Utf8 BF_UTF8.

Print Assumptions C01_source_translation.
Print Assumptions C01_source_format_codes.
