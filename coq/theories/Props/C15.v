(** C15 — Connection lifecycle hooks fire once, in order, on every exit path.

    The model (Model/Lifecycle.v) is thin: [run] lays out the events of one
    connection for every hook configuration, exit cause and phase, and builds
    in assumption R5 — a constructed [DisconnectGuard] contributes exactly one
    drop at scope exit, whether the scope ends by return, [?], panic unwind or
    the future being dropped by an abort.  That Rust and tokio behave so is
    exercised only by the harness.  This file contains only statements (closed
    by [exact]), their pins and their assumptions. *)
From RepeV Require Import Model.Lifecycle Proofs.PeersProofs Proofs.LifecycleProofs.

(** handshake ok: every registered disconnect hook runs exactly once (and no
    other), after every connect hook that ran — for every exit cause, phase,
    serving path and hook configuration, a panicking connect hook included *)
Theorem C15_disconnect_once : forall s j, s_hs s = true ->
  length (filter (is_disc_j j) (run s)) = (if (j <? ndisc s)%nat then 1%nat else 0%nat) /\
  (forall pre post, run s = pre ++ EDisconnect j :: post -> forall e, In e post -> is_connect e = false).
Proof. exact disconnect_once. Qed.

(** a failed handshake returns before the guard is built: no callback at all *)
Theorem C15_none_on_handshake_fail : forall s, s_hs s = false -> run s = [EHandshake false].
Proof. exact none_on_handshake_fail. Qed.

(** the token is cancelled once, after everything the connection did, before
    every disconnect hook *)
Theorem C15_cancel_before_disconnect_hooks : forall s, s_hs s = true ->
  exists pre post, run s = pre ++ ECancel :: post /\
    (forall e, In e pre -> guard_side e = false) /\
    (forall e, In e post -> is_cancel e = false /\ is_connect e = false) /\
    (forall j, (j < ndisc s)%nat -> In (EDisconnect j) post).
Proof. exact cancel_before_disconnect_hooks. Qed.

(** a parked off-reader handler observes the cancellation, before any
    disconnect hook has run *)
Theorem C15_parked_handler_sees_cancel : forall s, s_hs s = true ->
  s_phase s = POffReader -> panic_idx (script s) = None ->
  exists pre post, run s = pre ++ EOffSeesCancel :: post /\
    In EOffStart pre /\ (forall e, In e pre -> is_disc e = false).
Proof. exact parked_handler_sees_cancel. Qed.

(** one FIFO: the outbound sequence is the notifies queued by the connect
    hooks, in hook order, then everything else (responses, handler pushes) *)
Theorem C15_hook_notifies_before_responses : forall s, s_hs s = true ->
  exists rest, outq (run s) = hook_notifies s ++ rest /\
    (forall m, In m (hook_notifies s) -> is_hook_notify m = true) /\
    (forall m, In m rest -> is_hook_notify m = false).
Proof. exact hook_notifies_before_responses. Qed.

(** with a registry attached the peer and its aliases are present in every
    callback from the insert hook to the remove hook, absent in the others,
    and absent after the connection *)
Theorem C15_registry_window : forall s, c15_wf s = true -> s_hs s = true ->
  forallb (sample_ok s (length (hc_indices (o_trace (model_C15 s))))) (o_trace (model_C15 s)) = true /\
  o_after (model_C15 s) = (false, 0).
Proof. exact registry_window. Qed.

(** the registry view used for those samples answers exactly like the registry
    specification of C18 (get, get_by) after any sequence of this peer's
    insert / alias / remove events, from any registry state without the peer *)
Theorem C15_registry_view_sound : forall id tr st, spec_inv st -> memN id (s_present st) = false ->
  (forall k, sp_lookup st k <> Some id) ->
  memN id (s_present (reg_after id st tr)) = rv_present (rv_after rv0 tr) /\
  (forall k, sp_lookup (reg_after id st tr) k = Some id <-> In k (rv_keys (rv_after rv0 tr))).
Proof. exact registry_view_sound. Qed.

(** the executable oracle (also applied to the implementation's observations)
    accepts the model on every well-formed case *)
Theorem C15_holds : forall s, c15_wf s = true -> ok_C15 s (model_C15 s) = true.
Proof. exact ok_model_C15. Qed.

(** connections are independent: that a sibling connection under the same
    server / shutdown trigger ended earlier changes nothing for this one *)
Theorem C15_sibling_independent : forall s b,
  run (set_sibling b s) = run s /\ model_C15 (set_sibling b s) = model_C15 s /\
  model_mid (set_sibling b s) = model_mid s.
Proof. exact sibling_independent. Qed.

(** until its own exit cause is raised a connection has seen nothing of the
    guard's drop (no cancel, no disconnect hook, no registry remove) and no
    handler of it has observed a cancellation *)
Theorem C15_survivor_untouched : forall s, c15_stag_wf s = true ->
  (exists rest, run s = before_arrive (run s) ++ EArrive (s_cause s) :: rest) /\
  (forall e, In e (before_arrive (run s)) -> guard_side e = false /\ is_offsees e = false).
Proof. exact survivor_untouched. Qed.

(** the oracle for the observation of a survivor accepts the model *)
Theorem C15_mid_holds : forall s, c15_stag_wf s = true -> ok_mid s (model_mid s) = true.
Proof. exact ok_model_mid. Qed.

(** ** non-vacuity *)

(** a panicking connect hook after the registry insert and an alias, a parked
    handler never started, two disconnect hooks around the registry's remove *)
Definition c15_ex_panic : scenario :=
  mkScenario MServeConn true true [ANotify 2] true [ACount] [AAlias 7; APanic; ACount] 1 1
             CleanClose POffReader 1 0 false.

Example C15_ex_panic_run :
  run c15_ex_panic =
  [EHandshake true; EGuardBuilt; EConnect 0; EQueue (OHookNotify 0 0); EQueue (OHookNotify 0 1); ERegInsert;
   EConnect 1; EConnect 2; ERegAlias 7; EConnect 3; EExit (XHookPanic 3);
   ECancel; EDisconnect 0; ERegRemove; EDisconnect 1].
Proof. vm_compute. reflexivity. Qed.

Example C15_ex_panic_obs :
  c15_wf c15_ex_panic = true /\
  model_C15 c15_ex_panic =
  mkObs [HC 0 false; HC 1 true; HC 2 true; HC 3 true; HD 0 true 1; HD 1 false 0] (false, 0) [WN 0 0; WN 0 1] None /\
  ok_C15 c15_ex_panic (model_C15 c15_ex_panic) = true.
Proof. vm_compute. repeat split; reflexivity. Qed.

(** the connection future dropped by an abort while an off-reader handler is parked *)
Definition c15_ex_abort : scenario :=
  mkScenario MAdopt true false [] true [ANotify 1] [AAlias 9] 0 2 DrainAbort POffReader 1 0 false.

Example C15_ex_abort_run :
  run c15_ex_abort =
  [EHandshake true; EGuardBuilt; ERegInsert; EConnect 0; EQueue (OHookNotify 0 0); EReaderStart;
   ERequest 0; EQueue (OResponse 0); ERequest 1; EOffStart; EArrive DrainAbort; EOffSeesCancel;
   EExit (XCause DrainAbort); ECancel; ERegRemove; EDisconnect 0; EDisconnect 1].
Proof. vm_compute. reflexivity. Qed.

Example C15_ex_abort_obs :
  c15_wf c15_ex_abort = true /\
  model_C15 c15_ex_abort = mkObs [HC 0 true; HK; HD 0 false 0; HD 1 false 0] (false, 0) [WN 0 0; WR] (Some true).
Proof. vm_compute. split; reflexivity. Qed.

(** socket loss while a handler is parked: it sees the cancellation only from the guard *)
Example C15_ex_loss_run :
  run (mkScenario MListener true false [] false [] [] 1 0 SocketLoss POffReader 1 0 false) =
  [EHandshake true; EGuardBuilt; EReaderStart; ERequest 0; EQueue (OResponse 0); ERequest 1; EOffStart;
   EArrive SocketLoss; EExit (XCause SocketLoss); ECancel; EOffSeesCancel; EDisconnect 0].
Proof. vm_compute. reflexivity. Qed.

(** the oracle is not trivially true *)
Example C15_oracle_rejects :
  let s := c15_ex_abort in
  (* a disconnect hook twice *)
  ok_C15 s (mkObs [HC 0 true; HK; HD 0 false 0; HD 1 false 0; HD 1 false 0] (false, 0) [WN 0 0; WR] (Some true)) = false /\
  (* a disconnect hook never *)
  ok_C15 s (mkObs [HC 0 true; HK; HD 0 false 0] (false, 0) [WN 0 0; WR] (Some true)) = false /\
  (* a disconnect hook before the cancellation became observable *)
  ok_C15 s (mkObs [HC 0 true; HD 0 false 0; HK; HD 1 false 0] (false, 0) [WN 0 0; WR] (Some true)) = false /\
  (* the parked handler never saw the cancellation *)
  ok_C15 s (mkObs [HC 0 true; HD 0 false 0; HD 1 false 0] (false, 0) [WN 0 0; WR] (Some false)) = false /\
  (* the response overtook a connect-hook notify *)
  ok_C15 s (mkObs [HC 0 true; HK; HD 0 false 0; HD 1 false 0] (false, 0) [WR] (Some true)) = false /\
  (* the peer still registered afterwards / an alias still resolving *)
  ok_C15 s (mkObs [HC 0 true; HK; HD 0 false 0; HD 1 false 0] (true, 0) [WN 0 0; WR] (Some true)) = false /\
  ok_C15 s (mkObs [HC 0 true; HK; HD 0 false 0; HD 1 false 0] (false, 1) [WN 0 0; WR] (Some true)) = false /\
  (* the peer absent inside a connect hook registered after the registry *)
  ok_C15 s (mkObs [HC 0 false; HK; HD 0 false 0; HD 1 false 0] (false, 0) [WN 0 0; WR] (Some true)) = false /\
  (* any callback for a failed handshake *)
  ok_C15 (mkScenario MListener false false [] false [] [] 1 0 CleanClose PIdle 1 0 false)
         (mkObs [HD 0 false 0] (false, 0) [] None) = false /\
  ok_C15 (mkScenario MListener false false [] false [] [] 1 0 CleanClose PIdle 1 0 false)
         (mkObs [] (false, 0) [] None) = true.
Proof. vm_compute. repeat split; reflexivity. Qed.

(** the registry view against the C18 specification on a concrete history *)
Example C15_view_example :
  let tr := [ERegAlias 3; ERegInsert; ERegAlias 4; ERegAlias 5; ERegAlias 4] in
  rv_after rv0 tr = mkRv true [4; 5] /\
  sp_lookup (reg_after 1 (mkPspec [2] [(4, 2)]) tr) 4 = Some 1 /\
  sp_lookup (reg_after 1 (mkPspec [2] [(4, 2)]) tr) 3 = None /\
  rv_after rv0 (tr ++ [ERegRemove]) = mkRv false [] /\
  sp_lookup (reg_after 1 (mkPspec [2] [(4, 2)]) (tr ++ [ERegRemove])) 4 = None.
Proof. vm_compute. repeat split; reflexivity. Qed.

(** a survivor with a parked handler, observed before its own cause: present
    with its alias, nothing seen, still serving; the oracle rejects an early
    disconnect, an early absence, a spurious cancellation, a dead connection, a
    cancelled trigger and a broken new connection *)
Example C15_mid_example :
  let s := set_sibling true c15_ex_abort in
  c15_stag_wf s = true /\
  model_mid s = mkMobs 0 true 0 (Some false) true false true /\
  model_mid (mkScenario MServeConn true true [] true [AAlias 3] [AAlias 4] 1 1 EmbedderCancel PIdle 2 0 true)
    = mkMobs 0 true 2 None true false true /\
  ok_mid s (mkMobs 1 true 0 (Some false) true false true) = false /\
  ok_mid s (mkMobs 0 false 0 (Some false) true false true) = false /\
  ok_mid s (mkMobs 0 true 0 (Some true) true false true) = false /\
  ok_mid s (mkMobs 0 true 0 (Some false) false false true) = false /\
  ok_mid s (mkMobs 0 true 0 (Some false) true true true) = false /\
  ok_mid s (mkMobs 0 true 0 (Some false) true false false) = false.
Proof. vm_compute. repeat split; reflexivity. Qed.

Check C15_disconnect_once : forall s j, s_hs s = true ->
  length (filter (is_disc_j j) (run s)) = (if (j <? ndisc s)%nat then 1%nat else 0%nat) /\
  (forall pre post, run s = pre ++ EDisconnect j :: post -> forall e, In e post -> is_connect e = false).
Check C15_none_on_handshake_fail : forall s, s_hs s = false -> run s = [EHandshake false].
Check C15_cancel_before_disconnect_hooks : forall s, s_hs s = true ->
  exists pre post, run s = pre ++ ECancel :: post /\
    (forall e, In e pre -> guard_side e = false) /\
    (forall e, In e post -> is_cancel e = false /\ is_connect e = false) /\
    (forall j, (j < ndisc s)%nat -> In (EDisconnect j) post).
Check C15_parked_handler_sees_cancel : forall s, s_hs s = true ->
  s_phase s = POffReader -> panic_idx (script s) = None ->
  exists pre post, run s = pre ++ EOffSeesCancel :: post /\
    In EOffStart pre /\ (forall e, In e pre -> is_disc e = false).
Check C15_hook_notifies_before_responses : forall s, s_hs s = true ->
  exists rest, outq (run s) = hook_notifies s ++ rest /\
    (forall m, In m (hook_notifies s) -> is_hook_notify m = true) /\
    (forall m, In m rest -> is_hook_notify m = false).
Check C15_registry_window : forall s, c15_wf s = true -> s_hs s = true ->
  forallb (sample_ok s (length (hc_indices (o_trace (model_C15 s))))) (o_trace (model_C15 s)) = true /\
  o_after (model_C15 s) = (false, 0).
Check C15_registry_view_sound : forall id tr st, spec_inv st -> memN id (s_present st) = false ->
  (forall k, sp_lookup st k <> Some id) ->
  memN id (s_present (reg_after id st tr)) = rv_present (rv_after rv0 tr) /\
  (forall k, sp_lookup (reg_after id st tr) k = Some id <-> In k (rv_keys (rv_after rv0 tr))).
Check C15_holds : forall s, c15_wf s = true -> ok_C15 s (model_C15 s) = true.

Check C15_sibling_independent : forall s b,
  run (set_sibling b s) = run s /\ model_C15 (set_sibling b s) = model_C15 s /\
  model_mid (set_sibling b s) = model_mid s.
Check C15_survivor_untouched : forall s, c15_stag_wf s = true ->
  (exists rest, run s = before_arrive (run s) ++ EArrive (s_cause s) :: rest) /\
  (forall e, In e (before_arrive (run s)) -> guard_side e = false /\ is_offsees e = false).
Check C15_mid_holds : forall s, c15_stag_wf s = true -> ok_mid s (model_mid s) = true.

(** the predicates used above are the plain ones *)
Check (eq_refl : is_disc_j = fun j e => match e with EDisconnect j' => (j =? j')%nat | _ => false end).
Check (eq_refl : is_disc = fun e => match e with EDisconnect _ => true | _ => false end).
Check (eq_refl : is_connect = fun e => match e with EConnect _ => true | _ => false end).
Check (eq_refl : is_cancel = fun e => match e with ECancel => true | _ => false end).
Check (eq_refl : guard_side = fun e => is_disc e || is_cancel e || match e with ERegRemove => true | _ => false end).
Check (eq_refl : is_hook_notify = fun m => match m with OHookNotify _ _ => true | _ => false end).
Check (eq_refl : hook_notifies = fun s =>
  flat_map (fun c => match c with CHook i (ANotify k) => map (OHookNotify i) (nseq k) | _ => [] end) (upto_panic (script s))).
Check (eq_refl : spec_inv = fun s => NoDup (map fst (s_assign s))).

Print Assumptions C15_disconnect_once.
Print Assumptions C15_none_on_handshake_fail.
Print Assumptions C15_cancel_before_disconnect_hooks.
Print Assumptions C15_parked_handler_sees_cancel.
Print Assumptions C15_hook_notifies_before_responses.
Print Assumptions C15_registry_window.
Print Assumptions C15_registry_view_sound.
Print Assumptions C15_holds.
Print Assumptions C15_sibling_independent.
Print Assumptions C15_survivor_untouched.
Print Assumptions C15_mid_holds.
