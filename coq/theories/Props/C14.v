(** C14 — The registry behaves as a JSON tree addressed by RFC 6901 pointers.
    Model: [Model/Json.v], [Model/Registry.v] (src/registry.rs, the mount of
    src/server.rs, src/json_pointer.rs).  This file contains only statements
    (closed by [exact]), their pins, their assumptions and examples. *)
From RepeV Require Import Model.Json Model.Registry Proofs.JsonProofs Proofs.PointerProofs
  Proofs.RegistryProofs Proofs.RegistryLaws Proofs.RegistryConc.

(** ** the code answers as "a plain JSON document plus a set of callables" *)

(** for every sequence of registrations, merges, reads, writes, calls and
    mounted requests: the same answers (by value or error class), the same
    document after every operation, the same calls *)
Theorem C14_refines : forall c, model_C14 c = spec_C14 c.
Proof. exact model_refines_spec. Qed.

Theorem C14_holds : forall c, ok_C14 c (model_C14 c) = true.
Proof. exact ok_model_C14. Qed.

(** the oracle accepts exactly the specification's trace *)
Theorem C14_oracle_exact : forall c tr, ok_C14 c tr = true <-> tr = spec_C14 c.
Proof. exact ok_C14_iff. Qed.

(** ** the document laws, on the model of [dispatch] *)

(** a successful write (answer Ok, no call made) to a non-root pointer is
    returned by the next read of that pointer *)
Theorem C14_read_your_write : forall st p v st' j,
  is_root_ptr p = false ->
  dispatch st p (Some v) = (st', ROk j, []) ->
  dispatch st' p None = (st', ROk v, []).
Proof. exact dispatch_read_your_write. Qed.

(** ... and changes the answer at no pointer whose resolved path diverges from
    the written one (value or error class unchanged) *)
Theorem C14_write_frame : forall st p v st' j q pt qt,
  dispatch st p (Some v) = (st', ROk j, []) ->
  parse_pointer p = Ok pt -> parse_pointer q = Ok qt ->
  diverge (r_root st) pt qt ->
  obs_out (snd (fst (dispatch st' q None))) = obs_out (snd (fst (dispatch st q None))).
Proof. exact dispatch_write_frame. Qed.

(** the same two laws on the document itself *)
Theorem C14_doc_read_your_write : forall path d v d',
  path <> [] -> sp_put d path v = Some d' -> sp_get d' path = Some v.
Proof. exact sp_get_put_same. Qed.

Theorem C14_doc_write_frame : forall p d q v d',
  sp_put d p v = Some d' -> diverge d p q -> sp_get d' q = sp_get d q.
Proof. exact sp_get_put_frame. Qed.

(** a root write ("" or "/") in any reachable state merges the keys of an
    object body and refuses anything else with the invalid-body class *)
Theorem C14_root_write_merges : forall prefix ops p v,
  let st := fold_left (fun s o => fst (fst (rstep prefix s o))) ops rstate0 in
  is_root_ptr p = true ->
  dispatch st p (Some v) =
    match v with
    | JObj o => (mkR (JObj (omerge (obj_of (r_root st)) o)) (r_funs st), ROk (write_ok [SLASH]), [])
    | _ => (st, RErr ERootNotObject, [])
    end.
Proof.
  intros prefix ops p v st. apply dispatch_root_write.
  apply (reachable_no_root_fun prefix ops rstate0). reflexivity.
Qed.

(** merging: a key of the body gets the body's (last) value, every other key stays *)
Theorem C14_merge_keys : forall o m k,
  oget (omerge m o) k = match oget (rev o) k with Some v => Some v | None => oget m k end.
Proof. exact oget_omerge. Qed.

(** a request with an empty body never mutates and never calls, directly or through a mount *)
Theorem C14_read_never_mutates : forall st p,
  fst (fst (dispatch st p None)) = st /\ snd (dispatch st p None) = [].
Proof. exact dispatch_read_pure. Qed.

Theorem C14_mounted_read_never_mutates : forall pre st path b,
  decode_body b = Ok None ->
  fst (fst (route pre st path b)) = st /\ snd (route pre st path b) = [].
Proof. exact route_read_pure. Qed.

(** a callable is invoked exactly once, with the supplied body, state
    untouched, when the body is non-empty and the escape-normalised pointer is
    registered; otherwise nothing is invoked *)
Theorem C14_call_exactly_once_iff : forall st p body,
  match body, callable_at st p with
  | Some arg, Some fid => dispatch st p body = (st, fun_out fid arg, [(fid, arg)])
  | _, _ => snd (dispatch st p body) = []
  end.
Proof. exact dispatch_calls. Qed.

(** registering makes callable exactly the pointers that decode to the same tokens *)
Theorem C14_callable_exactly_at_normalised_pointer : forall st path fid st' segs,
  register_function st path fid = (st', RUnit) -> parse_registration_path path = Ok segs ->
  forall p segs', parse_pointer p = Ok segs' ->
  callable_at st' p = if path_eqb segs segs' then Some fid else callable_at st p.
Proof. exact register_function_callable. Qed.

(** ** pointer tokens *)
Theorem C14_escape_unescape : forall t, unescape_token (escape_token t) = Some t.
Proof. exact escape_unescape. Qed.

Theorem C14_unescape_escape : forall e t,
  contains SLASH e = false -> unescape_token e = Some t -> escape_token t = e.
Proof. exact unescape_escape. Qed.

(** the one-pass unescape of the code is RFC 6901 decoding: defined when every
    '~' is followed by '0' or '1', replacing "~1" by "/" and then "~0" by "~" *)
Theorem C14_unescape_is_rfc6901 : forall t, unescape_token t = sp_untoken t.
Proof. exact unescape_token_rfc. Qed.

(** the borrowed fast path = parse and re-escape, error cases included *)
Theorem C14_canonical_key_agrees : forall p,
  canonical_key p = match parse_pointer p with Ok segs => Ok (canonical_pointer segs) | Err e => Err e end.
Proof. exact canonical_key_agrees. Qed.

Theorem C14_parse_canonical : forall segs, segs <> [[]] -> parse_pointer (canonical_pointer segs) = Ok segs.
Proof. exact parse_canonical. Qed.

Theorem C14_parse_never_single_empty : forall p segs, parse_pointer p = Ok segs -> segs <> [[]].
Proof. exact parse_pointer_not_single_empty. Qed.

(** ** malformed pointers: rejected, not-found class, nothing touched *)
Theorem C14_malformed_is_not_found_class : forall st p,
  malformed p ->
  (forall body, dispatch st p body = (st, RErr EInvalidPointer, [])) /\
  read_value st p = RErr EInvalidPointer /\
  err_code EInvalidPointer = METHOD_NOT_FOUND.
Proof. exact malformed_rejected. Qed.

Theorem C14_malformed_iff_undecodable : forall p, sp_decode p = None <-> malformed p.
Proof. exact sp_decode_none_iff. Qed.

Theorem C14_lookup_errors_not_found_class : forall st p st' e lg,
  dispatch st p None = (st', RErr e, lg) -> err_code e = METHOD_NOT_FOUND.
Proof. exact dispatch_read_error_class. Qed.

(** ** mounting under a prefix only strips that prefix *)
Theorem C14_mount_strips_only_prefix : forall pre st path b,
  route (Some pre) st path b =
  match sp_mount_rest (normalize_prefix pre) path with
  | None => (st, RNoRoute, [])
  | Some rest => match decode_body b with
                 | Err e => (st, RErr e, [])
                 | Ok body => dispatch st rest body
                 end
  end.
Proof. exact route_mount. Qed.

Theorem C14_mount_rest_is_suffix : forall np path rest,
  sp_mount_rest np path = Some rest -> path = np ++ rest.
Proof. exact sp_mount_rest_app. Qed.

Theorem C14_mount_serves_below : forall np rest,
  np <> [] -> rest = [] \/ starts_with SLASH rest = true -> sp_mount_rest np (np ++ rest) = Some rest.
Proof. exact sp_mount_rest_below. Qed.

Theorem C14_mount_serves_only_below : forall np path,
  np <> [] -> (forall rest, path = np ++ rest -> rest <> [] /\ starts_with SLASH rest = false) ->
  sp_mount_rest np path = None.
Proof. exact sp_mount_rest_not_below. Qed.

(** ** the public pointer functions (src/json_pointer.rs) agree with the
    registry on every well-formed pointer except "/" *)
Theorem C14_public_eval_agrees : forall st p path,
  sp_decode p = Some path -> is_root_ptr p = false ->
  obs_out (read_value st p) = match jp_eval (r_root st) p with Some v => OOk v | None => OErr METHOD_NOT_FOUND end.
Proof. exact jp_eval_agrees. Qed.

(** the RFC 6901 oracle applied to the implementation's [parse_json_pointer] /
    [eval_json_pointer] observations accepts the model of those functions, and
    whatever it accepts on an RFC pointer is the RFC tokenisation and lookup *)
Theorem C14_public_pointer_ok : forall d p, ok_jp d p (jp_parse p) (jp_eval d p) = true.
Proof. exact jp_ok. Qed.

Theorem C14_public_pointer_pins : forall d p toks ev path,
  rfc_decode p = Some path -> ok_jp d p toks ev = true -> toks = path /\ ev = sp_get d path.
Proof. exact jp_ok_pins. Qed.

Example C14_public_pointer_slash :
  rfc_decode [SLASH] = Some [[]] /\ ok_jp JNull [SLASH] [] (Some JNull) = false /\ rfc_decode [97] = None.
Proof. vm_compute. repeat split. Qed.

(** ** concurrent requests are serialised: whatever the interleaving of the
    lock sections, the completed requests with their answers and calls, in
    completion order, are a sequential execution ending in the same state, and
    that order extends every thread's program order *)
Theorem C14_requests_linearizable : forall st ths sched st' ths' evs,
  fresh_requests ths ->
  crun st ths sched = (st', ths', evs) ->
  seq_run st (map ev_op evs) = (st', map ev_out evs) /\
  (forall k t, nth_error ths k = Some t ->
     exists t', nth_error ths' k = Some t' /\
                ct_todo t = map ev_op (filter (fun e => Nat.eqb (ev_tid e) k) evs) ++ ct_todo t').
Proof. exact requests_linearizable_proof. Qed.

(** ** examples (non-vacuity) *)
Definition b_a : str := [97].          (* "a" *)
Definition b_b : str := [98].
Definition b_k : str := [107].
Definition p_a : str := [47; 97].                  (* "/a" *)
Definition p_ab : str := [47; 97; 47; 98].         (* "/a/b" *)
Definition p_a1 : str := [47; 97; 47; 49].         (* "/a/1" *)
Definition p_a01 : str := [47; 97; 47; 48; 49].    (* "/a/01" *)
Definition p_a2 : str := [47; 97; 47; 50].         (* "/a/2" *)
Definition p_ak : str := [47; 97; 47; 107].        (* "/a/k" *)
Definition p_esc : str := [47; 97; 126; 49; 98; 47; 109; 126; 48; 110].   (* "/a~1b/m~0n" *)

Definition c14_ops : list rop :=
  [RegValue p_a (JObj [(b_b, JNum 1)]);               (* /a = {"b":1} *)
   Dispatch p_ab (Some (JNum 2));                     (* write *)
   Dispatch p_ab None;                                (* read back *)
   RegFun p_ak 0;                                     (* callable at /a/k *)
   Dispatch p_ak (Some (JStr b_k));                   (* call *)
   Dispatch p_ak None;                                (* metadata, no call *)
   Dispatch [] (Some (JObj [(b_k, JBool true)]));     (* root merge *)
   Dispatch [47; 126] (Some JNull);                   (* malformed "/~" *)
   Route [47; 109; 47; 97; 47; 98] MNone;             (* through mount "/m": /m/a/b *)
   Route [47; 109; 120] MNone].                       (* "/mx": not below the prefix *)

Example C14_nonvacuous_trace :
  map o_out (model_C14 (mkCase (Some [47; 109]) c14_ops))
  = [OUnit; OOk (write_ok p_ab); OOk (JNum 2); OUnit; OOk (JArr [JNum 0; JStr b_k]);
     OOk (fn_meta p_ak); OOk (write_ok [SLASH]); OErr METHOD_NOT_FOUND; OOk (JNum 2); ONoRoute] /\
  map o_log (model_C14 (mkCase (Some [47; 109]) c14_ops))
  = [[]; []; []; []; [(0, JStr b_k)]; []; []; []; []; []] /\
  o_root (last (model_C14 (mkCase (Some [47; 109]) c14_ops)) (mkO OUnit JNull []))
  = JObj [(b_a, JObj [(b_b, JNum 2)]); (b_k, JBool true)].
Proof. vm_compute. repeat split; reflexivity. Qed.

(** the oracle rejects a trace in which the read after the write returns the old value *)
Example C14_oracle_rejects :
  let c := mkCase None [RegValue p_a (JObj [(b_b, JNum 1)]); Dispatch p_ab (Some (JNum 2)); Dispatch p_ab None] in
  let tr := model_C14 c in
  ok_C14 c tr = true /\
  ok_C14 c (firstn 2 tr ++ [mkO (OOk (JNum 1)) (JObj [(b_a, JObj [(b_b, JNum 2)])]) []]) = false /\
  ok_C14 c (firstn 2 tr ++ [mkO (OOk (JNum 2)) (JObj [(b_a, JObj [(b_b, JNum 2)])]) [(0, JNull)]]) = false.
Proof. vm_compute. repeat split; reflexivity. Qed.

(** "1" and "01" select the same array slot (no divergence, the write is seen
    through the alias); "1" and "2" diverge *)
Example C14_index_alias :
  let d := JObj [(b_a, JArr [JNum 10; JNum 11; JNum 12])] in
  let st := fst (fst (rstep None rstate0 (RegValue p_a (JArr [JNum 10; JNum 11; JNum 12])))) in
  let st' := fst (fst (dispatch st p_a1 (Some (JNum 99)))) in
  r_root st = d /\
  snd (fst (dispatch st' p_a01 None)) = ROk (JNum 99) /\
  snd (fst (dispatch st' p_a2 None)) = ROk (JNum 12) /\
  diverge d [b_a; [49]] [b_a; [50]] /\
  ~ diverge d [b_a; [49]] [b_a; [48; 49]].
Proof.
  split; [vm_compute; reflexivity|]. split; [vm_compute; reflexivity|]. split; [vm_compute; reflexivity|]. split.
  - cbn [diverge]. right. split; [reflexivity|]. eexists. split; [vm_compute; reflexivity|].
    cbn [diverge]. exists 1, 2. split; [vm_compute; reflexivity|]. split; [vm_compute; reflexivity|]. left. discriminate.
  - cbn [diverge]. intros [H|[_ [c [E H]]]]; [now apply H|].
    vm_compute in E. injection E as <-. cbn [diverge] in H.
    destruct H as [i [j [Pi [Pj [H|[_ [c' [_ H]]]]]]]]; [|destruct c'; exact H].
    vm_compute in Pi. vm_compute in Pj. injection Pi as <-. injection Pj as <-. now apply H.
Qed.

(** escaped pointers: "/a~1b/m~0n" has the tokens "a/b" and "m~n" and is its own canonical key *)
Example C14_escaped_pointer :
  parse_pointer p_esc = Ok [[97; 47; 98]; [109; 126; 110]] /\ canonical_key p_esc = Ok p_esc /\
  jp_parse p_esc = [[97; 47; 98]; [109; 126; 110]] /\ malformed [47; 97; 126; 50] /\ malformed [97].
Proof.
  repeat split; try (vm_compute; reflexivity); try discriminate.
  - right. exists [97; 126; 50]. split; [left; reflexivity|reflexivity].
  - left. reflexivity.
Qed.

(** two writers and a reader interleaved section by section: the events in
    completion order are the sequential execution *)
Example C14_linearizable_nonvacuous :
  let st := fst (fst (rstep None rstate0 (RegValue p_a (JObj [(b_b, JNum 1)])))) in
  let ths := [mkT None [Dispatch p_ab (Some (JNum 2)); Dispatch p_ab None];
              mkT None [Dispatch p_ab (Some (JNum 3))]] in
  fresh_requests ths /\
  map (fun e => (ev_tid e, snd (fst e))) (snd (crun st ths [0; 1; 1; 0; 0]%nat))
  = [(1%nat, ROk (write_ok p_ab)); (0%nat, ROk (write_ok p_ab)); (0%nat, ROk (JNum 2))].
Proof. split; [repeat constructor|vm_compute; reflexivity]. Qed.

(** observation outside the statement (which speaks of concurrent requests):
    a [register_function] landing between a write request's callable lookup and
    its write section, followed by an overwrite of the parent, gives the request
    an answer (path not found, no call) that no sequential order gives *)
Definition race_w : rop := Dispatch p_ak (Some (JNum 1)).
Definition race_r1 : rop := RegFun p_ak 0.
Definition race_r2 : rop := RegValue p_a (JNum 5).

Example C14_registration_race_example :
  let st := fst (fst (rstep None rstate0 (RegValue p_a (JObj [])))) in
  In (0%nat, race_w, RErr EPathNotFound, [])
     (snd (crun st [mkT None [race_w]; mkT None [race_r1; race_r2]] [0; 1; 1; 0]%nat)) /\
  nth 0 (snd (seq_run st [race_w; race_r1; race_r2])) (RUnit, []) = (ROk (write_ok p_ak), []) /\
  nth 1 (snd (seq_run st [race_r1; race_w; race_r2])) (RUnit, []) = (ROk (JArr [JNum 0; JNum 1]), [(0, JNum 1)]) /\
  nth 2 (snd (seq_run st [race_r1; race_r2; race_w])) (RUnit, []) = (ROk (JArr [JNum 0; JNum 1]), [(0, JNum 1)]).
Proof. vm_compute. repeat split; try reflexivity. right. right. left. reflexivity. Qed.

(** ** pins *)
Check C14_refines : forall c, model_C14 c = spec_C14 c.
Check C14_holds : forall c, ok_C14 c (model_C14 c) = true.
Check C14_oracle_exact : forall c tr, ok_C14 c tr = true <-> tr = spec_C14 c.
Check C14_read_your_write : forall st p v st' j,
  is_root_ptr p = false ->
  dispatch st p (Some v) = (st', ROk j, []) ->
  dispatch st' p None = (st', ROk v, []).
Check C14_write_frame : forall st p v st' j q pt qt,
  dispatch st p (Some v) = (st', ROk j, []) ->
  parse_pointer p = Ok pt -> parse_pointer q = Ok qt ->
  diverge (r_root st) pt qt ->
  obs_out (snd (fst (dispatch st' q None))) = obs_out (snd (fst (dispatch st q None))).
Check C14_doc_read_your_write : forall path d v d',
  path <> [] -> sp_put d path v = Some d' -> sp_get d' path = Some v.
Check C14_doc_write_frame : forall p d q v d',
  sp_put d p v = Some d' -> diverge d p q -> sp_get d' q = sp_get d q.
Check C14_root_write_merges : forall prefix ops p v,
  let st := fold_left (fun s o => fst (fst (rstep prefix s o))) ops rstate0 in
  is_root_ptr p = true ->
  dispatch st p (Some v) =
    match v with
    | JObj o => (mkR (JObj (omerge (obj_of (r_root st)) o)) (r_funs st), ROk (write_ok [SLASH]), [])
    | _ => (st, RErr ERootNotObject, [])
    end.
Check C14_merge_keys : forall o m k,
  oget (omerge m o) k = match oget (rev o) k with Some v => Some v | None => oget m k end.
Check C14_read_never_mutates : forall st p,
  fst (fst (dispatch st p None)) = st /\ snd (dispatch st p None) = [].
Check C14_mounted_read_never_mutates : forall pre st path b,
  decode_body b = Ok None ->
  fst (fst (route pre st path b)) = st /\ snd (route pre st path b) = [].
Check C14_call_exactly_once_iff : forall st p body,
  match body, callable_at st p with
  | Some arg, Some fid => dispatch st p body = (st, fun_out fid arg, [(fid, arg)])
  | _, _ => snd (dispatch st p body) = []
  end.
Check C14_callable_exactly_at_normalised_pointer : forall st path fid st' segs,
  register_function st path fid = (st', RUnit) -> parse_registration_path path = Ok segs ->
  forall p segs', parse_pointer p = Ok segs' ->
  callable_at st' p = if path_eqb segs segs' then Some fid else callable_at st p.
Check C14_escape_unescape : forall t, unescape_token (escape_token t) = Some t.
Check C14_unescape_escape : forall e t,
  contains SLASH e = false -> unescape_token e = Some t -> escape_token t = e.
Check C14_unescape_is_rfc6901 : forall t, unescape_token t = sp_untoken t.
Check C14_canonical_key_agrees : forall p,
  canonical_key p = match parse_pointer p with Ok segs => Ok (canonical_pointer segs) | Err e => Err e end.
Check C14_parse_canonical : forall segs, segs <> [[]] -> parse_pointer (canonical_pointer segs) = Ok segs.
Check C14_parse_never_single_empty : forall p segs, parse_pointer p = Ok segs -> segs <> [[]].
Check C14_malformed_is_not_found_class : forall st p,
  malformed p ->
  (forall body, dispatch st p body = (st, RErr EInvalidPointer, [])) /\
  read_value st p = RErr EInvalidPointer /\
  err_code EInvalidPointer = METHOD_NOT_FOUND.
Check C14_malformed_iff_undecodable : forall p, sp_decode p = None <-> malformed p.
Check C14_lookup_errors_not_found_class : forall st p st' e lg,
  dispatch st p None = (st', RErr e, lg) -> err_code e = METHOD_NOT_FOUND.
Check C14_mount_strips_only_prefix : forall pre st path b,
  route (Some pre) st path b =
  match sp_mount_rest (normalize_prefix pre) path with
  | None => (st, RNoRoute, [])
  | Some rest => match decode_body b with
                 | Err e => (st, RErr e, [])
                 | Ok body => dispatch st rest body
                 end
  end.
Check C14_mount_rest_is_suffix : forall np path rest,
  sp_mount_rest np path = Some rest -> path = np ++ rest.
Check C14_mount_serves_below : forall np rest,
  np <> [] -> rest = [] \/ starts_with SLASH rest = true -> sp_mount_rest np (np ++ rest) = Some rest.
Check C14_mount_serves_only_below : forall np path,
  np <> [] -> (forall rest, path = np ++ rest -> rest <> [] /\ starts_with SLASH rest = false) ->
  sp_mount_rest np path = None.
Check C14_public_eval_agrees : forall st p path,
  sp_decode p = Some path -> is_root_ptr p = false ->
  obs_out (read_value st p) = match jp_eval (r_root st) p with Some v => OOk v | None => OErr METHOD_NOT_FOUND end.
Check C14_requests_linearizable : forall st ths sched st' ths' evs,
  fresh_requests ths ->
  crun st ths sched = (st', ths', evs) ->
  seq_run st (map ev_op evs) = (st', map ev_out evs) /\
  (forall k t, nth_error ths k = Some t ->
     exists t', nth_error ths' k = Some t' /\
                ct_todo t = map ev_op (filter (fun e => Nat.eqb (ev_tid e) k) evs) ++ ct_todo t').

(** the auxiliary notions used above are the plain ones *)
Check (eq_refl : malformed = fun p =>
  p <> [] /\ (starts_with SLASH p = false \/ exists t, In t (split_on SLASH (tl p)) /\ esc_wf t = false)).
Check (eq_refl : callable_at = fun st p =>
  match parse_pointer p with Ok segs => fget (r_funs st) (canonical_pointer segs) | Err _ => None end).
Check (eq_refl : fresh_requests = fun ths =>
  Forall (fun t => ct_dec t = None /\ forallb is_request (ct_todo t) = true) ths).
Check (eq_refl : diverge = fix diverge (d : json) (p q : list str) : Prop :=
  match p, q with
  | t :: p', u :: q' =>
      match d with
      | JObj m => t <> u \/ (t = u /\ exists c, oget m t = Some c /\ diverge c p' q')
      | JArr a => exists i j, parse_usize t = Some i /\ parse_usize u = Some j /\
                              (i <> j \/ (i = j /\ exists c, nthN a i = Some c /\ diverge c p' q'))
      | _ => False
      end
  | _, _ => False
  end).

Print Assumptions C14_refines.
Print Assumptions C14_holds.
Print Assumptions C14_oracle_exact.
Print Assumptions C14_read_your_write.
Print Assumptions C14_write_frame.
Print Assumptions C14_doc_read_your_write.
Print Assumptions C14_doc_write_frame.
Print Assumptions C14_root_write_merges.
Print Assumptions C14_merge_keys.
Print Assumptions C14_read_never_mutates.
Print Assumptions C14_mounted_read_never_mutates.
Print Assumptions C14_call_exactly_once_iff.
Print Assumptions C14_callable_exactly_at_normalised_pointer.
Print Assumptions C14_escape_unescape.
Print Assumptions C14_unescape_escape.
Print Assumptions C14_unescape_is_rfc6901.
Print Assumptions C14_canonical_key_agrees.
Print Assumptions C14_parse_canonical.
Print Assumptions C14_parse_never_single_empty.
Print Assumptions C14_malformed_is_not_found_class.
Print Assumptions C14_malformed_iff_undecodable.
Print Assumptions C14_lookup_errors_not_found_class.
Print Assumptions C14_mount_strips_only_prefix.
Print Assumptions C14_mount_rest_is_suffix.
Print Assumptions C14_mount_serves_below.
Print Assumptions C14_mount_serves_only_below.
Print Assumptions C14_public_eval_agrees.
Print Assumptions C14_requests_linearizable.

Check C14_public_pointer_ok : forall d p, ok_jp d p (jp_parse p) (jp_eval d p) = true.
Check C14_public_pointer_pins : forall d p toks ev path,
  rfc_decode p = Some path -> ok_jp d p toks ev = true -> toks = path /\ ev = sp_get d path.
Print Assumptions C14_public_pointer_ok.
Print Assumptions C14_public_pointer_pins.

(** ** the pointer functions of the model are the ones re-translated from the Rust source on this run
    (bin/rs2v, string mode: Gen/PointerGen.v, Proofs/PointerGenAgree.v).  Each rendering returns [Ok]
    of the model's value on every byte string: no panic, same result.  [utf8_cont_ok] is a necessary
    condition of UTF-8 validity (true of every [&str]); it is what [&pointer[1..]] needs in order not
    to hit Rust's char-boundary panic.  [register_spec]: the callable is stored under
    [canonical_pointer] of the parsed registration path (not under the raw path). *)
From RepeV Require Import Base.GenStrPrelude Gen.PointerGen Proofs.PointerGenAgree.

Theorem C14_source_translation :
  agrees1 gen_jp_parse (fun p => Ok (Registry.jp_parse p)) /\
  agrees2 gen_jp_evaluate (fun d p => Ok (Registry.jp_eval d p)) /\
  agrees1 gen_unescape_token (fun t => Ok (opt_res (Registry.unescape_token t))) /\
  agrees1 gen_escape_token (fun t => Ok (Registry.escape_token t)) /\
  agrees1 gen_canonical_pointer (fun segs => Ok (Registry.canonical_pointer segs)) /\
  match gen_parse_pointer with
  | Some f => forall p, utf8_cont_ok p = true -> f p = Ok (gen_res (Registry.parse_pointer p))
  | None => True
  end /\
  match gen_canonical_key with
  | Some f => forall p, utf8_cont_ok p = true -> f p = Ok (gen_res (Registry.canonical_key p))
  | None => True
  end /\
  match gen_parse_registration_path with
  | Some f => forall p, utf8_cont_ok p = true -> f p = Ok (gen_res (Registry.parse_registration_path p))
  | None => True
  end /\
  match gen_register_function_key with
  | Some f => forall ens p, utf8_cont_ok p = true -> f ens p = Ok (register_spec ens p)
  | None => True
  end /\
  agrees2 gen_registry_matches (fun pre path => Ok (Registry.mount_matches pre path)) /\
  agrees2 gen_pointer_for (fun pre path => Ok (Registry.pointer_for pre path)) /\
  agrees1 gen_registry_prefix (fun prefix => Ok (Registry.normalize_prefix prefix)).
Proof. exact c14_source_translation. Qed.

Theorem C14_source_translation_errors :
  (forall p e, Registry.parse_pointer p = Registry.Err e -> e = Registry.EInvalidPointer) /\
  (forall p e, Registry.canonical_key p = Registry.Err e -> e = Registry.EInvalidPointer) /\
  (forall p e, Registry.parse_registration_path p = Registry.Err e -> e = Registry.EInvalidPointer).
Proof. exact c14_source_translation_errors. Qed.

Check C14_source_translation :
  agrees1 gen_jp_parse (fun p => Ok (Registry.jp_parse p)) /\
  agrees2 gen_jp_evaluate (fun d p => Ok (Registry.jp_eval d p)) /\
  agrees1 gen_unescape_token (fun t => Ok (opt_res (Registry.unescape_token t))) /\
  agrees1 gen_escape_token (fun t => Ok (Registry.escape_token t)) /\
  agrees1 gen_canonical_pointer (fun segs => Ok (Registry.canonical_pointer segs)) /\
  match gen_parse_pointer with
  | Some f => forall p, utf8_cont_ok p = true -> f p = Ok (gen_res (Registry.parse_pointer p))
  | None => True
  end /\
  match gen_canonical_key with
  | Some f => forall p, utf8_cont_ok p = true -> f p = Ok (gen_res (Registry.canonical_key p))
  | None => True
  end /\
  match gen_parse_registration_path with
  | Some f => forall p, utf8_cont_ok p = true -> f p = Ok (gen_res (Registry.parse_registration_path p))
  | None => True
  end /\
  match gen_register_function_key with
  | Some f => forall ens p, utf8_cont_ok p = true -> f ens p = Ok (register_spec ens p)
  | None => True
  end /\
  agrees2 gen_registry_matches (fun pre path => Ok (Registry.mount_matches pre path)) /\
  agrees2 gen_pointer_for (fun pre path => Ok (Registry.pointer_for pre path)) /\
  agrees1 gen_registry_prefix (fun prefix => Ok (Registry.normalize_prefix prefix)).
Check C14_source_translation_errors :
  (forall p e, Registry.parse_pointer p = Registry.Err e -> e = Registry.EInvalidPointer) /\
  (forall p e, Registry.canonical_key p = Registry.Err e -> e = Registry.EInvalidPointer) /\
  (forall p e, Registry.parse_registration_path p = Registry.Err e -> e = Registry.EInvalidPointer).

(** the definitions used above are the plain ones *)
Check (eq_refl : utf8_cont_ok = fun s => cont_ok_after 0 s).
Check (eq_refl : cont_ok_after = fix cont_ok_after (prev : byte) (s : str) : bool :=
  match s with
  | [] => true
  | b :: s' => negb ((prev <? 128) && (128 <=? b) && (b <? 192)) && cont_ok_after b s'
  end).
Check (eq_refl : @gen_res = fun A r =>
  match r with Registry.Ok a => ROk a | Registry.Err _ => RErr GE_InvalidPointer end).
Check (eq_refl : @opt_res = fun A o => match o with Some a => ROk a | None => RErr tt end).
Check (eq_refl : register_spec = fun ens path =>
  match Registry.parse_registration_path path with
  | Registry.Err _ => RErr GE_InvalidPointer
  | Registry.Ok [] => RErr GE_InvalidPointer
  | Registry.Ok segs =>
      match ens segs with
      | RErr e => RErr e
      | ROk _ => ROk (RegFn (Some segs) (Some (Registry.canonical_pointer segs)))
      end
  end).

Print Assumptions C14_source_translation.
Print Assumptions C14_source_translation_errors.

(** ** the lock structure of the registry is the one re-translated from the Rust source on this run
    (bin/rs2v, lock-structure mode: Gen/RegLocksGen.v, Proofs/RegLocksGenAgree.v).  Each method of
    src/registry.rs is rendered as a plan of lock acquisitions ([TAcq LRd] = [self.read_state()], [TAcq LWr]
    = [self.write_state()]), releases ([TRel]) and invocations of the user callable ([TCall]); [exec] runs
    it while OTHER threads change the shared state wherever this thread holds no guard ([env n]: what they
    do before this thread's [n]-th acquisition).  Every mutator is ONE write section whose effect and
    answer are the model's [rstep] on the state found when the lock is granted; a read is ONE read
    section; [dispatch_with_ctx] with a body is the model's pair: the decision [fget] under the read lock,
    the guard released, then either the callable invoked with NO guard held and nothing locked after it, or
    (no lock held while the pointer is parsed) ONE write section that is the model's [dispatch_decided] on
    the state found THEN -- the two sections of [csection] ([C14_requests_linearizable] is about those).
    Not translated (the model's function is the fixed meaning): the tree walks [resolve_ref] -> [resolve],
    [set_pointer] -> [set_ptr], [ensure_object_parent] -> [reg_at .. None]; the pointer functions are tied
    by [C14_source_translation] above. *)
From RepeV Require Import Base.GenRegLocksPrelude Gen.RegLocksGen Proofs.RegLocksGenAgree.

Theorem C14_source_translation_locks :
  match gen_reg_set_root with Some f => forall env busy s v, exec env busy (f v) s = section_of LWr (SetRoot v) env s | None => True end /\
  match gen_reg_register_value with Some f => forall env busy s p v, exec env busy (f p v) s = section_of LWr (RegValue p v) env s | None => True end /\
  match gen_reg_merge_root with Some f => forall env busy s o, exec env busy (f o) s = section_of LWr (MergeRoot o) env s | None => True end /\
  match gen_reg_merge_at with Some f => forall env busy s p o, exec env busy (f p o) s = section_of LWr (MergeAt p o) env s | None => True end /\
  match gen_reg_register_function_arc with
  | Some f => forall env busy s p fid, exec env busy (f p fid) s = section_of LWr (RegFun p fid) env s
  | None => True
  end /\
  match gen_reg_read_value with Some f => forall env busy s p, exec env busy (f p) s = section_of LRd (ReadValue p) env s | None => True end /\
  match gen_reg_dispatch_with_ctx with
  | Some f => forall env busy s p,
      exec env busy (f p None) s =
      match Registry.canonical_key p with
      | Registry.Err e => (s, [], Registry.RErr e)
      | Registry.Ok _ => section_of LRd (Dispatch p None) env s
      end
  | None => True
  end /\
  match gen_reg_dispatch_with_ctx with
  | Some f => forall env busy s p payload, exec env busy (f p (Some payload)) s = dispatch_pair p payload env s
  | None => True
  end.
Proof. exact c14_source_translation_locks. Qed.

(** [dispatch_pair] is the thread model's two sections, and its trace carries the model's call log *)
Theorem C14_source_translation_locks_model :
  (forall p payload rest key, Registry.canonical_key p = Registry.Ok key ->
     (forall s1, csection s1 (mkT None (Dispatch p (Some payload) :: rest)) =
                 (s1, mkT (Some (fget (r_funs s1) key)) (Dispatch p (Some payload) :: rest), None)) /\
     (forall s2 d, csection s2 (mkT (Some d) (Dispatch p (Some payload) :: rest)) =
                   let '(s3, r, lg) := dispatch_decided s2 p payload d in (s3, mkT None rest, Some (Dispatch p (Some payload), r, lg)))) /\
  (forall p payload env s,
     calls_of (snd (fst (dispatch_pair p payload env s))) =
     match Registry.canonical_key p with
     | Registry.Err _ => []
     | Registry.Ok key => match fget (r_funs (env 0%nat s)) key with Some fid => [(fid, payload)] | None => [] end
     end) /\
  (forall fid arg, of_cres (model_user fid arg) = fun_out fid arg).
Proof. exact (conj dispatch_pair_csection (conj dispatch_pair_calls of_cres_model)). Qed.

Check C14_source_translation_locks :
  match gen_reg_set_root with Some f => forall env busy s v, exec env busy (f v) s = section_of LWr (SetRoot v) env s | None => True end /\
  match gen_reg_register_value with Some f => forall env busy s p v, exec env busy (f p v) s = section_of LWr (RegValue p v) env s | None => True end /\
  match gen_reg_merge_root with Some f => forall env busy s o, exec env busy (f o) s = section_of LWr (MergeRoot o) env s | None => True end /\
  match gen_reg_merge_at with Some f => forall env busy s p o, exec env busy (f p o) s = section_of LWr (MergeAt p o) env s | None => True end /\
  match gen_reg_register_function_arc with
  | Some f => forall env busy s p fid, exec env busy (f p fid) s = section_of LWr (RegFun p fid) env s
  | None => True
  end /\
  match gen_reg_read_value with Some f => forall env busy s p, exec env busy (f p) s = section_of LRd (ReadValue p) env s | None => True end /\
  match gen_reg_dispatch_with_ctx with
  | Some f => forall env busy s p,
      exec env busy (f p None) s =
      match Registry.canonical_key p with
      | Registry.Err e => (s, [], Registry.RErr e)
      | Registry.Ok _ => section_of LRd (Dispatch p None) env s
      end
  | None => True
  end /\
  match gen_reg_dispatch_with_ctx with
  | Some f => forall env busy s p payload, exec env busy (f p (Some payload)) s = dispatch_pair p payload env s
  | None => True
  end.
Check C14_source_translation_locks_model :
  (forall p payload rest key, Registry.canonical_key p = Registry.Ok key ->
     (forall s1, csection s1 (mkT None (Dispatch p (Some payload) :: rest)) =
                 (s1, mkT (Some (fget (r_funs s1) key)) (Dispatch p (Some payload) :: rest), None)) /\
     (forall s2 d, csection s2 (mkT (Some d) (Dispatch p (Some payload) :: rest)) =
                   let '(s3, r, lg) := dispatch_decided s2 p payload d in (s3, mkT None rest, Some (Dispatch p (Some payload), r, lg)))) /\
  (forall p payload env s,
     calls_of (snd (fst (dispatch_pair p payload env s))) =
     match Registry.canonical_key p with
     | Registry.Err _ => []
     | Registry.Ok key => match fget (r_funs (env 0%nat s)) key with Some fid => [(fid, payload)] | None => [] end
     end) /\
  (forall fid arg, of_cres (model_user fid arg) = fun_out fid arg).

(** the definitions used above are the plain ones *)
Check (eq_refl : exec = fun env busy p s => run model_user env busy 0 false p s).
Check (eq_refl : section_of = fun m op env s =>
  let s1 := env 0%nat s in
  let '(s2, r, _) := rstep None s1 op in (s2, [TAcq m; TRel], r)).
Check (eq_refl : dispatch_pair = fun p payload env s =>
  match Registry.canonical_key p with
  | Registry.Err e => (s, [], Registry.RErr e)
  | Registry.Ok key =>
      let s1 := env 0%nat s in
      let d := fget (r_funs s1) key in
      match d with
      | Some fid =>
          let '(s3, r, _) := dispatch_decided s1 p payload d in (s3, [TAcq LRd; TRel; TCall fid payload], r)
      | None =>
          match Registry.parse_pointer p with
          | Registry.Err e => (s1, [TAcq LRd; TRel], Registry.RErr e)
          | Registry.Ok _ =>
              let s2 := env 1%nat s1 in
              let '(s3, r, _) := dispatch_decided s2 p payload d in (s3, [TAcq LRd; TRel; TAcq LWr; TRel], r)
          end
      end
  end).
Check (eq_refl : run = fix run (user : N -> json -> cres) (env : nat -> rstate -> rstate) (busy : nat -> bool)
             (n : nat) (held : bool) (p : lplan) (s : rstate) {struct p} : rstate * list tev * rout :=
  match p with
  | LDone r => (s, [], r)
  | LPanic => (s, [TPanic], RNoRoute)
  | LAcq m k =>
      if held then (s, [TDeadlock], RNoRoute)
      else let s1 := env n s in
           let '(s', tr, r) := run user env busy (S n) true (k s1) s1 in (s', TAcq m :: tr, r)
  | LTry m k b =>
      if held || busy n then
        let '(s', tr, r) := run user env busy (S n) held b s in (s', TBusy :: tr, r)
      else let s1 := env n s in
           let '(s', tr, r) := run user env busy (S n) true (k s1) s1 in (s', TAcq m :: tr, r)
  | LRel w k =>
      let '(s', tr, r) := run user env busy n false k (match w with Some s1 => s1 | None => s end) in
      (s', TRel :: tr, r)
  | LCall fid arg k =>
      let '(s', tr, r) := run user env busy n held (k (user fid arg)) s in (s', TCall fid arg :: tr, r)
  | LAtomic k =>
      let '(s', tr, r) := run user env busy n held k s in (s', TAtomic :: tr, r)
  end).
Check (eq_refl : model_user = fun fid arg => if (fid mod 4 =? 3)%N then CRErr APP_ERROR else CROk (JArr [JNum fid; arg])).
Check (eq_refl : of_cres = fun r => match r with CROk j => Registry.ROk j | CRErr c => Registry.RErr (EExec c) end).

Print Assumptions C14_source_translation_locks.
Print Assumptions C14_source_translation_locks_model.
