(** C11 — Credit accounting of TransferControl: acknowledged <= sent, stale or
    foreign acks release nothing, credit is granted exactly when the window
    has room (or nothing is in flight), cancellation is permanent and its
    first reason wins.
    This file contains only statements (closed by [exact]), their pins and
    their assumptions. *)
From RepeV Require Import Model.C11 Proofs.StreamProofs.

(** the acknowledged offset never exceeds the sent offset, on every history *)
Theorem C11_acked_le_sent : forall w c ops,
  t_acked (exec (init w c) ops) <= t_sent (exec (init w c) ops).
Proof. exact acked_le_sent. Qed.

(** an ack for another file, or at or below the acknowledged offset, changes nothing *)
Theorem C11_stale_ack_no_credit : forall s f n,
  t_acked s <= t_sent s -> (f <> t_file s \/ n <= t_acked s) -> fst (step s (Ack f n)) = s.
Proof. exact stale_ack_no_credit. Qed.

(** acks are monotone and capped at what was sent *)
Theorem C11_ack_monotone_capped : forall s f n,
  t_acked s <= t_sent s ->
  let s' := fst (step s (Ack f n)) in
  t_acked s <= t_acked s' /\ t_acked s' <= t_sent s' /\ t_sent s' = t_sent s.
Proof. exact ack_monotone_capped. Qed.

(** credit is granted exactly when not cancelled and nothing is in flight or
    the chunk fits the window (unbounded addition: no wrap) *)
Theorem C11_grant_iff : forall s len,
  t_window s < two64 ->
  (step s (TryCredit len) = (s, OGranted) <->
   t_cancelled s = None /\ (in_flight s = 0 \/ in_flight s + len <= t_window s)).
Proof. exact grant_iff. Qed.

(** a producer that sends only after being granted credit, interleaved with
    arbitrary acks / resumes / cancels / advances, never has more than one
    window or one oversized chunk unacknowledged *)
Theorem C11_producer_bound : forall w c evs M,
  (forall e, In e evs -> ev_len e <= M) ->
  in_flight (fold_left run_ev evs (init w c)) <= N.max w M.
Proof. exact producer_bound. Qed.

(** cancellation is permanent *)
Theorem C11_cancel_sticky : forall s r ops,
  t_cancelled s = Some r -> t_cancelled (exec s ops) = Some r.
Proof. intros s r ops. exact (cancel_sticky ops s r). Qed.

(** ... and is reported by every waiting entry point *)
Theorem C11_cancelled_reports : forall s r,
  t_cancelled s = Some r ->
  (forall len, step s (TryCredit len) = (s, OCreditCancelled r)) /\
  step s TryReconnect = (s, OReconnCancelled r) /\
  (forall p f n, step s (Resume p f n) = (s, ORejCancelled)).
Proof. exact cancelled_reports. Qed.

(** the first reason wins (with [C11_cancel_sticky]) *)
Theorem C11_first_reason_wins : forall s r,
  t_cancelled s = None -> t_cancelled (fst (step s (Cancel r))) = Some r.
Proof. exact first_reason_wins. Qed.

(** the executable oracle (also applied to the implementation's observations)
    accepts the model on every well-formed history *)
Theorem C11_holds : forall w c ops,
  hist_ok w c ops = true -> ok_C11 w ops (model_trace w c ops) = true.
Proof. exact ok_model_C11. Qed.

(** non-vacuity: a well-formed history with sends, a foreign ack, a stale ack,
    a capped ack, a resume, two cancels and credit requests; the oracle accepts
    it, the second cancel reason is ignored *)
Example C11_nonvacuous :
  let ops := [TryCredit 10; Sent 10; TryCredit 10; Ack 1 5; Ack 0 4; Ack 0 2; Ack 0 99;
              Push 0 10 false [1; 2; 3]; Resume 7 0 0; TryCredit 20; Cancel 3; Cancel 4;
              TryCredit 1; TryReconnect; Advance 1; Sent 5] in
  hist_ok 16 64 ops = true /\ ok_C11 16 ops (model_trace 16 64 ops) = true /\
  t_cancelled (exec (init 16 64) ops) = Some 3 /\
  map fst (model_trace 16 64 [TryCredit 10; Sent 10; TryCredit 10; TryCredit 6; Ack 0 10; TryCredit 99])
  = [OGranted; ONone; OCreditTimeout; OGranted; ONone; OGranted].
Proof. vm_compute. repeat split. Qed.

(** non-vacuity of the producer bound: the bound is reached *)
Example C11_producer_nonvacuous :
  let evs := [Produce 4; Produce 4; Produce 1; Env (Sent 1000); Env (Ack 1 8); Produce 40] in
  forallb (fun e => ev_len e <=? 40) evs = true /\
  in_flight (fold_left run_ev evs (init 8 0)) = 8 /\
  in_flight (fold_left run_ev [Produce 40] (init 8 0)) = 40.
Proof. vm_compute. repeat split. Qed.

Check C11_acked_le_sent : forall w c ops, t_acked (exec (init w c) ops) <= t_sent (exec (init w c) ops).
Check C11_stale_ack_no_credit : forall s f n,
  t_acked s <= t_sent s -> (f <> t_file s \/ n <= t_acked s) -> fst (step s (Ack f n)) = s.
Check C11_ack_monotone_capped : forall s f n, t_acked s <= t_sent s ->
  let s' := fst (step s (Ack f n)) in
  t_acked s <= t_acked s' /\ t_acked s' <= t_sent s' /\ t_sent s' = t_sent s.
Check C11_grant_iff : forall s len, t_window s < two64 ->
  (step s (TryCredit len) = (s, OGranted) <->
   t_cancelled s = None /\ (in_flight s = 0 \/ in_flight s + len <= t_window s)).
Check C11_producer_bound : forall w c evs M, (forall e, In e evs -> ev_len e <= M) ->
  in_flight (fold_left run_ev evs (init w c)) <= N.max w M.
Check C11_cancel_sticky : forall s r ops, t_cancelled s = Some r -> t_cancelled (exec s ops) = Some r.
Check C11_cancelled_reports : forall s r, t_cancelled s = Some r ->
  (forall len, step s (TryCredit len) = (s, OCreditCancelled r)) /\
  step s TryReconnect = (s, OReconnCancelled r) /\
  (forall p f n, step s (Resume p f n) = (s, ORejCancelled)).
Check C11_first_reason_wins : forall s r,
  t_cancelled s = None -> t_cancelled (fst (step s (Cancel r))) = Some r.
Check C11_holds : forall w c ops, hist_ok w c ops = true -> ok_C11 w ops (model_trace w c ops) = true.

Print Assumptions C11_acked_le_sent.
Print Assumptions C11_stale_ack_no_credit.
Print Assumptions C11_ack_monotone_capped.
Print Assumptions C11_grant_iff.
Print Assumptions C11_producer_bound.
Print Assumptions C11_cancel_sticky.
Print Assumptions C11_cancelled_reports.
Print Assumptions C11_first_reason_wins.
Print Assumptions C11_holds.

(** ** tie to the source text: the method bodies of src/stream.rs, re-translated
    into Gallina by bin/rs2v on every run (Gen/StreamGen.v), are the model's
    steps.  A method that could not be translated is [None] and its clause is
    [True] (reported by rs2v); a method whose meaning changed breaks the proof. *)
From RepeV Require Import Model.Condvar Base.GenPrelude Gen.StreamGen Proofs.StreamGenAgree.

Theorem C11_source_translation :
  agrees2 gen_record_sent (fun s n => (fst (step s (Sent n)), false)) /\
  agrees3 gen_record_ack (fun s f n => (fst (step s (Ack f n)), notifies s (Ack f n))) /\
  agrees2 gen_cancel (fun s r => (fst (step s (Cancel r)), notifies s (Cancel r))) /\
  agrees2 gen_advance_to_file (fun s f => (fst (step s (Advance f)), true)) /\
  agrees2 gen_set_peer (fun s p => (fst (step s (SetPeer p)), false)) /\
  match gen_wait_for_credit with
  | Some f => forall s len, t_window s < two64 ->
      let '(s', i, nt) := f s len true in
      (s', iter_map out_of_credit i, nt) = (fst (step s (TryCredit len)), Some (snd (step s (TryCredit len))), false)
  | None => True
  end.
Proof. exact c11_source_translation. Qed.

Check C11_source_translation :
  agrees2 gen_record_sent (fun s n => (fst (step s (Sent n)), false)) /\
  agrees3 gen_record_ack (fun s f n => (fst (step s (Ack f n)), notifies s (Ack f n))) /\
  agrees2 gen_cancel (fun s r => (fst (step s (Cancel r)), notifies s (Cancel r))) /\
  agrees2 gen_advance_to_file (fun s f => (fst (step s (Advance f)), true)) /\
  agrees2 gen_set_peer (fun s p => (fst (step s (SetPeer p)), false)) /\
  match gen_wait_for_credit with
  | Some f => forall s len, t_window s < two64 ->
      let '(s', i, nt) := f s len true in
      (s', iter_map out_of_credit i, nt) = (fst (step s (TryCredit len)), Some (snd (step s (TryCredit len))), false)
  | None => True
  end.

Print Assumptions C11_source_translation.
