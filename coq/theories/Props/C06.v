(** C06 — A dead or misbehaving connection fails calls promptly: no hang, no
    residue.  Statements (closed by [exact]), their pins and assumptions.

    The model ([Model/ClientFail.v]) interleaves callers, the response loop and
    the subscriber at the granularity of one critical section per step; a step
    that is not enabled leaves the state unchanged, so the theorems below
    quantify over ALL lists of steps: every interleaving that respects each
    thread's program order. *)
From RepeV Require Import Model.ClientFail Proofs.ClientFailProofs.

(** the invariant holds in every reachable state, for the three clients *)
Theorem C06_invariant_reachable : forall k l, inv (run (init k) l).
Proof. exact reachable_inv. Qed.

(** no hang: a caller waiting for its response either has the response in the
    reader's hand (about to be delivered), or still has its entry in the
    pending map of a response loop that has neither drained nor been told to
    stop — whose failure sequence will therefore still reach it *)
Theorem C06_no_hang : forall k l c id,
  let s := run (init k) l in
  stof s c = CWait id ->
  s_rd s = RHold (Some c) \/ (In (id, c) (s_pending s) /\ dead s = false).
Proof. intros k l c id. exact (no_hang_inv _ c id (reachable_inv k l)). Qed.

(** ... so once the response loop has drained, nobody waits *)
Theorem C06_drained_reader_no_waiter : forall k l c id,
  let s := run (init k) l in
  s_rd s = RDead \/ s_rd s = RDrained -> stof s c <> CWait id.
Proof. intros k l c id. exact (dead_no_waiter _ c id (reachable_inv k l)). Qed.

(** ... and a response loop that met a read error always gets there by its own
    steps and the end of a stalled write (which the shutdown forces): it never
    needs the peer, whoever holds the writer lock *)
Theorem C06_reader_finishes : forall k l,
  let s := run (init k) l in
  s_rd s = RErr -> s_rd (run s (fail_seq s)) = RDead.
Proof. intros k l. exact (reader_finishes _ (reachable_inv k l)). Qed.

(** later calls: once the response loop made writes fail, the socket is marked
    shut, and a call that starts then returns an error at its write *)
Theorem C06_later_calls_error : forall k l c,
  let s := run (init k) l in
  past_fail (s_rd s) = true -> lock_free s = true -> stof s c = CNone ->
  s_shut s = true /\ stof (run s [Register c; Write c]) c = CDone (s_next s) RConn.
Proof.
  intros k l c s P L E. pose proof (shut_after_fail s (reachable_inv k l) P) as Sh.
  split; [exact Sh | exact (later_call_errors s c Sh L E)].
Qed.

(** a writer stalled on a peer that does not read is released by the shutdown *)
Theorem C06_stalled_writer_released : forall k l c,
  let s := run (init k) l in
  s_shut s = true -> s_lock s = Some c ->
  lock_free (do_step s (WStallEnd c)) = true /\ exists id, stof (do_step s (WStallEnd c)) c = CDone id RConn.
Proof. intros k l c. exact (stalled_writer_released _ c (reachable_inv k l)). Qed.

(** subscriber: from the moment the notify sender is dropped — before writes
    are made to fail, before any waiter is failed — no subscription made while
    the connection lived is still open *)
Theorem C06_subscriber_eos : forall l,
  let s := run (init KWs) l in
  before_subend (s_rd s) = false -> s_sub s <> SSub.
Proof. intros l s B. exact (subscriber_ended s (reachable_inv KWs l) (kind_run (init KWs) l) B). Qed.

Theorem C06_subscriber_ended_by_step : forall s,
  s_rd s = RErr -> s_kind s = KWs -> s_sub s = SSub -> s_sub (do_step s SubEnd) = SEnded.
Proof. exact subend_ends. Qed.

(** no residue: a call that returned (result, timeout, cancellation, write
    error, drained) has left no entry in the pending map *)
Theorem C06_no_residue : forall k l c id r,
  let s := run (init k) l in
  stof s c = CDone id r -> pfind (s_pending s) id = None.
Proof. intros k l c id r. exact (no_residue_inv _ c id r (reachable_inv k l)). Qed.

(** a late response (for a call that already returned) and a response with an
    id that is not pending change nothing at all *)
Theorem C06_late_response_harmless : forall k l c id r,
  let s := run (init k) l in
  s_rd s = RAlive -> stof s c = CDone id r -> run s [RTake id; RDeliver] = s.
Proof. intros k l c id r. exact (late_response_noop _ c id r (reachable_inv k l)). Qed.

Theorem C06_unknown_response_harmless : forall s id,
  s_rd s = RAlive -> pfind (s_pending s) id = None -> run s [RTake id; RDeliver] = s.
Proof. exact unknown_response_noop. Qed.

(** a response is handed to the caller that registered its id *)
Theorem C06_response_goes_to_owner : forall k l id c,
  let s := run (init k) l in
  pfind (s_pending s) id = Some c -> id_of (stof s c) = id.
Proof. intros k l id c. exact (response_goes_to_owner _ id c (reachable_inv k l)). Qed.

(** the scenarios the harness runs: the model refines the specification of
    the property (every event of every valid scenario) *)
Theorem C06_refines : forall k p,
  (k_sub k = true -> k_kind k = KWs) ->
  spec_run k sp0 (k_script k) = Some p ->
  sim k p (fold_left exec_event (k_script k) (x0 k)).
Proof. intros k p Hk H. exact (sim_run k sp0 (x0 k) (k_script k) p Hk (sim_init k Hk) H). Qed.

(** the executable oracle (also applied to the implementation's observations)
    accepts the model on every scenario *)
Theorem C06_holds : forall k, c06_wf k = true -> ok_C06 k (model_C06 k) = true.
Proof. exact ok_model_C06. Qed.

(** ** negative examples: the two orders the code must not have *)

(** drain first, make writes fail afterwards: a caller that registers between
    the two writes successfully and waits on a response loop that has ended *)
Definition c06_between : list step :=
  [Register 0; Write 0; ReadErr; SubEnd; Drain; Register 1; Write 1; OwnShut].

Example C06_swapped_order_hangs :
  let s := run_swapped (init KAsync) c06_between in
  s_rd s = RDead /\ stof s 0 = CDone 1 RConn /\ stof s 1 = CWait 2 /\ s_pending s = [(2, 1)] /\ someone_waits s = true.
Proof. vm_compute. repeat split; reflexivity. Qed.

(** the same callers against the real order: the second call fails at its write *)
Example C06_real_order_same_callers :
  let s := run (init KAsync) [Register 0; Write 0; ReadErr; SubEnd; OwnShut; Register 1; Write 1; Drain; LockShut] in
  s_rd s = RDead /\ stof s 0 = CDone 1 RConn /\ stof s 1 = CDone 2 RConn /\ s_pending s = [] /\ someone_waits s = false.
Proof. vm_compute. repeat split; reflexivity. Qed.

(** writes made to fail only under the writer lock (the three clients before
    the repairs): with a writer stalled on a peer that does not read, the
    failing response loop cannot move and the call in flight keeps waiting *)
Definition c06_stalled : list step :=
  [Register 0; Write 0; Register 1; WStall 1; ReadErr; SubEnd; OwnShut].

Example C06_shutdown_behind_writer_lock_hangs :
  let s := run_locked (init KTcp) c06_stalled in
  s_rd s = ROwnShut /\ s_shut s = false /\ s_lock s = Some 1 /\ stof s 0 = CWait 1 /\
  s_rd (run_locked s [LockShut; Drain; LockShut; Drain]) = ROwnShut /\
  stof (run_locked s [LockShut; Drain; LockShut; Drain]) 0 = CWait 1.
Proof. vm_compute. repeat split; reflexivity. Qed.

(** the real order on the same steps, for the three clients: the stalled write
    is failed, both calls return errors, the loop ends *)
Example C06_stalled_writer_real_order :
  forallb (fun k =>
    let s := run (init k) c06_stalled in
    let s' := run s (fail_seq (run (init k) [Register 0; Write 0; Register 1; WStall 1; ReadErr])) in
    match s_rd s', stof s' 0, stof s' 1 with
    | RDead, CDone 1 RConn, CDone 2 RConn => negb (someone_waits s')
    | _, _, _ => false
    end) [KTcp; KAsync; KWs] = true.
Proof. vm_compute. reflexivity. Qed.

(** the async client's second failure path: the stalled write itself fails
    (peer gone), its FrameWriteGuard marks the connection broken, fails every
    pending call and tells the response loop to stop, which then ends without
    draining — nobody is left waiting *)
Example C06_async_guard_path :
  let s := run (init KAsync) [Register 0; Write 0; Register 1; WStall 1; WStallEnvFail 1; RStop; Register 2; Write 2] in
  s_rd s = RDead /\ s_gstop s = true /\ stof s 0 = CDone 1 RConn /\ stof s 1 = CDone 2 RConn /\
  stof s 2 = CDone 3 RConn /\ s_pending s = [] /\ someone_waits s = false.
Proof. vm_compute. repeat split; reflexivity. Qed.

(** ** non-vacuity *)

(** a WebSocket scenario with a subscriber: a notification, a call answered,
    a call timed out whose late response is discarded, a call cancelled while
    the reader holds its response, two calls in flight when a malformed frame
    arrives, the reader held before the drain while a later call fails at its
    write, the drain, one more later call *)
Definition c06_case : case :=
  mkCase KWs true 7
    [ENotify; EQuery; EStart 0 false; ERespond 0; EExpire 1; ERespond 1; EStart 2 false; ECancelB 2;
     EStart 3 true; EStart 4 false; EFaultPark; EQuery; EStart 5 false; ERelease; EStart 6 true; EQuery].

Example C06_nonvacuous_wf : c06_wf c06_case = true.
Proof. vm_compute. reflexivity. Qed.

Example C06_nonvacuous_model :
  model_C06 c06_case =
  mkObs [OOk; OTimeout; OCancelled; OConn; OConn; OConn; OConn] UEos [UOpen; UEos; UEos] 1 true [].
Proof. vm_compute. reflexivity. Qed.

(** the stalled-writer scenario on the three clients *)
Example C06_nonvacuous_stalled :
  map (fun k => o_res (model_C06 (mkCase k false 3 [EStart 0 false; EStallStart 1; EFault; EStart 2 false])))
      [KTcp; KAsync; KWs]
  = [[OConn; OConn; OConn]; [OConn; OConn; OConn]; [OConn; OConn; OConn]].
Proof. vm_compute. reflexivity. Qed.

(** the oracle is not trivially true: it rejects a call left hanging after the
    fault, a later call that got a value, a late response delivered to the
    wrong call, a subscriber that did not see end-of-stream, and residue *)
Example C06_oracle_rejects :
  let good := model_C06 c06_case in
  ok_C06 c06_case good = true /\
  ok_C06 c06_case (mkObs [OOk; OTimeout; OCancelled; OHang; OConn; OConn; OConn] UEos [UOpen; UEos; UEos] 1 true []) = false /\
  ok_C06 c06_case (mkObs [OOk; OTimeout; OCancelled; OConn; OConn; OOk; OConn] UEos [UOpen; UEos; UEos] 1 true []) = false /\
  ok_C06 c06_case (mkObs [OOk; OWrong; OCancelled; OConn; OConn; OConn; OConn] UEos [UOpen; UEos; UEos] 1 true []) = false /\
  ok_C06 c06_case (mkObs [OOk; OTimeout; OCancelled; OConn; OConn; OConn; OConn] UOpen [UOpen; UEos; UEos] 1 true []) = false /\
  ok_C06 c06_case (mkObs [OOk; OTimeout; OCancelled; OConn; OConn; OConn; OConn] UEos [UOpen; UOpen; UEos] 1 true []) = false /\
  ok_C06 (mkCase KAsync false 1 [EExpire 0; EProbe 0]) (mkObs [OTimeout] UNone [] 0 false [true]) = false /\
  ok_C06 (mkCase KAsync false 1 [EExpire 0; EProbe 0]) (model_C06 (mkCase KAsync false 1 [EExpire 0; EProbe 0])) = true.
Proof. vm_compute. repeat split; reflexivity. Qed.

(** the hypotheses of the general theorems are satisfiable: a reachable state
    with a waiting caller, a returned one, a stalled writer and a failing loop *)
Example C06_nonvacuous_states :
  let s := run (init KTcp) [Register 0; Write 0; Register 1; Write 1; TFire 1; TRemove 1; Register 2; WStall 2; ReadErr] in
  stof s 0 = CWait 1 /\ stof s 1 = CDone 2 RTimeout /\ s_lock s = Some 2 /\ s_rd s = RErr /\
  s_pending s = [(1, 0); (3, 2)] /\
  fail_seq s = [SubEnd; OwnShut; WStallEnd 2; LockShut; Drain; LockShut].
Proof. vm_compute. repeat split; reflexivity. Qed.

Check C06_invariant_reachable : forall k l, inv (run (init k) l).
Check C06_no_hang : forall k l c id,
  let s := run (init k) l in
  stof s c = CWait id ->
  s_rd s = RHold (Some c) \/ (In (id, c) (s_pending s) /\ dead s = false).
Check C06_drained_reader_no_waiter : forall k l c id,
  let s := run (init k) l in
  s_rd s = RDead \/ s_rd s = RDrained -> stof s c <> CWait id.
Check C06_reader_finishes : forall k l,
  let s := run (init k) l in
  s_rd s = RErr -> s_rd (run s (fail_seq s)) = RDead.
Check C06_later_calls_error : forall k l c,
  let s := run (init k) l in
  past_fail (s_rd s) = true -> lock_free s = true -> stof s c = CNone ->
  s_shut s = true /\ stof (run s [Register c; Write c]) c = CDone (s_next s) RConn.
Check C06_stalled_writer_released : forall k l c,
  let s := run (init k) l in
  s_shut s = true -> s_lock s = Some c ->
  lock_free (do_step s (WStallEnd c)) = true /\ exists id, stof (do_step s (WStallEnd c)) c = CDone id RConn.
Check C06_subscriber_eos : forall l,
  let s := run (init KWs) l in
  before_subend (s_rd s) = false -> s_sub s <> SSub.
Check C06_subscriber_ended_by_step : forall s,
  s_rd s = RErr -> s_kind s = KWs -> s_sub s = SSub -> s_sub (do_step s SubEnd) = SEnded.
Check C06_no_residue : forall k l c id r,
  let s := run (init k) l in
  stof s c = CDone id r -> pfind (s_pending s) id = None.
Check C06_late_response_harmless : forall k l c id r,
  let s := run (init k) l in
  s_rd s = RAlive -> stof s c = CDone id r -> run s [RTake id; RDeliver] = s.
Check C06_unknown_response_harmless : forall s id,
  s_rd s = RAlive -> pfind (s_pending s) id = None -> run s [RTake id; RDeliver] = s.
Check C06_response_goes_to_owner : forall k l id c,
  let s := run (init k) l in
  pfind (s_pending s) id = Some c -> id_of (stof s c) = id.
Check C06_refines : forall k p,
  (k_sub k = true -> k_kind k = KWs) ->
  spec_run k sp0 (k_script k) = Some p ->
  sim k p (fold_left exec_event (k_script k) (x0 k)).
Check C06_holds : forall k, c06_wf k = true -> ok_C06 k (model_C06 k) = true.

(** the auxiliary predicates are the plain statements *)
Check (eq_refl : past_fail = fun r => match r with ROwnShut | RShutDone | RDrained | RDead => true | _ => false end).
Check (eq_refl : before_subend = fun r => match r with RAlive | RHold _ | RErr => true | _ => false end).
Check (eq_refl : dead = fun s => match s_rd s with RDrained | RDead => true | _ => s_gstop s end).
Check (eq_refl : fail_seq = fun s =>
  [SubEnd; OwnShut] ++ (match s_lock s with Some c => [WStallEnd c] | None => [] end) ++ [LockShut; Drain; LockShut]).

Print Assumptions C06_invariant_reachable.
Print Assumptions C06_no_hang.
Print Assumptions C06_drained_reader_no_waiter.
Print Assumptions C06_reader_finishes.
Print Assumptions C06_later_calls_error.
Print Assumptions C06_stalled_writer_released.
Print Assumptions C06_subscriber_eos.
Print Assumptions C06_subscriber_ended_by_step.
Print Assumptions C06_no_residue.
Print Assumptions C06_late_response_harmless.
Print Assumptions C06_unknown_response_harmless.
Print Assumptions C06_response_goes_to_owner.
Print Assumptions C06_refines.
Print Assumptions C06_holds.
