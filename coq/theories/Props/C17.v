(** C17 — Outbound size guard: nothing above the configured peer frame limit is
    put on the wire; within the limit a message is sent unchanged; an oversized
    response is replaced by a small internal-error reply with the same id; an
    oversized notify (server) or request (client) is not sent and is reported.
    This file contains only statements (closed by [exact]), their pins and
    their assumptions. *)
From RepeV Require Import Model.Limits Proofs.HeaderProofs Proofs.MessageProofs Proofs.LimitsProofs.

(** ** the decimal rendering used in the replacement text *)
Theorem C17_dec_at_most_20 : forall n, (length (dec n) <= 20)%nat.
Proof. exact dec_length_le. Qed.

Theorem C17_dec_nonempty : forall n, dec n <> [].
Proof. exact dec_nonempty. Qed.

Theorem C17_dec_bytes : forall n, bytes_ok (dec n) = true.
Proof. exact dec_ok. Qed.

(** every replacement frame fits [replacement_bound] bytes, whatever the sizes
    it mentions: a limit of at least that many bytes can carry the error reply *)
Theorem C17_replacement_fits : forall size limit, replacement_len size limit <= replacement_bound.
Proof. exact replacement_len_le_bound. Qed.

Example C17_replacement_bound_value : replacement_bound = 202.
Proof. vm_compute. reflexivity. Qed.

(** ** the server-side writer ([frame_outbound]) *)
Theorem C17_within_limit_unchanged : forall lim m,
  check_outbound lim (HEADER_SIZE + lenN (m_query m) + lenN (m_body m)) = true ->
  frame_outbound lim m = (Some (to_vec m), false).
Proof. exact frame_outbound_within. Qed.

Theorem C17_no_limit_passthrough : forall m, frame_outbound None m = (Some (to_vec m), false).
Proof. exact frame_outbound_none. Qed.

Theorem C17_oversized_notify_dropped : forall l m,
  l < HEADER_SIZE + lenN (m_query m) + lenN (m_body m) -> h_notify (m_hdr m) <> 0 ->
  frame_outbound (Some l) m = (None, true).
Proof. exact frame_outbound_notify. Qed.

Theorem C17_oversized_response_replaced : forall l m,
  l < HEADER_SIZE + lenN (m_query m) + lenN (m_body m) -> h_notify (m_hdr m) = 0 ->
  h_id (m_hdr m) < two64 ->
  exists r, frame_outbound (Some l) m = (Some (to_vec r), true) /\ msg_ok r = true /\
    h_id (m_hdr r) = h_id (m_hdr m) /\ h_ec (m_hdr r) = 9 /\ m_query r = [] /\
    lenN (to_vec r) <= replacement_bound /\ from_slice_exact (to_vec r) = Ok r.
Proof. exact frame_outbound_replaced. Qed.

Theorem C17_outbound_never_exceeds_limit : forall l m bs rep,
  replacement_bound <= l -> frame_outbound (Some l) m = (Some bs, rep) -> lenN bs <= l.
Proof. exact frame_outbound_le_limit. Qed.

(** ** the client's pre-send check *)
Theorem C17_client_refuses_locally : forall l m,
  l < lenN (to_vec m) -> client_send (Some l) m = None.
Proof. exact client_send_refused. Qed.

Theorem C17_client_sends_within_limit : forall lim m,
  check_outbound lim (lenN (to_vec m)) = true -> client_send lim m = Some (to_vec m).
Proof. exact client_send_within. Qed.

(** ** the sizes-only model the driver runs computes the byte-level observation.
    The hypothesis [h_ec <> 9] cannot be dropped: a response that is itself the
    replacement that would be produced for it is "replaced" by identical bytes
    (see [C17_self_replacement_*] below). *)
Theorem C17_abs_agrees : forall c,
  c17_wf c = true -> h_notify (m_hdr (v_msg c)) <= 1 -> h_ec (m_hdr (v_msg c)) <> 9 ->
  model_C17 c = model_C17_abs (h_ec (m_hdr (v_msg c))) (abs_of c).
Proof. exact model_C17_abs_agrees. Qed.

(** the same with the weakest side condition: the offered message is not
    byte-for-byte its own replacement *)
Theorem C17_abs_agrees_general : forall c,
  c17_wf c = true ->
  (forall l, v_limit c = Some l ->
     to_vec (replacement (h_id (m_hdr (v_msg c)))
               (HEADER_SIZE + lenN (m_query (v_msg c)) + lenN (m_body (v_msg c))) l)
     <> to_vec (v_msg c)) ->
  model_C17 c = model_C17_abs (h_ec (m_hdr (v_msg c))) (abs_of c).
Proof. exact model_C17_abs_agrees_gen. Qed.

(** ** the executable oracle (also applied to the implementation's
    observations) accepts the model *)
Theorem C17_holds : forall c,
  c17_wf c = true -> h_ec (m_hdr (v_msg c)) <> 9 -> ok_C17 c (model_C17 c) = true.
Proof. exact ok_model_C17. Qed.

Theorem C17_holds_general : forall c,
  c17_wf c = true ->
  (forall l, v_limit c = Some l ->
     to_vec (replacement (h_id (m_hdr (v_msg c)))
               (HEADER_SIZE + lenN (m_query (v_msg c)) + lenN (m_body (v_msg c))) l)
     <> to_vec (v_msg c)) ->
  ok_C17 c (model_C17 c) = true.
Proof. exact ok_model_C17_gen. Qed.

Theorem C17_holds_abs : forall ec a,
  (match a_limit a with Some l => l < two64 | None => True end) ->
  ok_C17_abs a (model_C17_abs ec a) = true.
Proof. exact ok_model_C17_abs_wf. Qed.

(** the two oracles are the same function of the case's sizes *)
Theorem C17_oracle_abs : forall c o, ok_C17_abs (abs_of c) o = ok_C17 c o.
Proof. exact ok_C17_abs_of. Qed.

(** ** why the side condition is there: the 168-byte replacement for
    (size 168, limit 100), offered under the limit 100, is replaced by itself;
    the oracle's "the frame differs from the offered message" conjunct then
    fails and the sizes-only model (which reports [same = false]) disagrees *)
Example C17_self_replacement_wf : c17_wf c17_self_replacement = true.
Proof. exact c17_self_replacement_wf. Qed.

Example C17_self_replacement_rejected :
  ok_C17 c17_self_replacement (model_C17 c17_self_replacement) = false.
Proof. exact c17_self_replacement_rejected. Qed.

Example C17_self_replacement_abs_differs :
  c17_obs_eqb (model_C17 c17_self_replacement)
    (model_C17_abs (h_ec (m_hdr (v_msg c17_self_replacement))) (abs_of c17_self_replacement))
  = false.
Proof. exact c17_self_replacement_abs_differs. Qed.

(** ** non-vacuity: a 350-byte message (2-byte query, 300-byte body, id 7)
    offered under a 250-byte limit on each kind of path, and under no limit *)
Definition c17_msg (notify : bool) : message :=
  build (mkBuilder 7 [47; 97] (repeat 65 300) 0 0 notify 0).

Example C17_nonvacuous_replaced :
  let c := mkC17 PInlineResponse (Some 250) (c17_msg false) in
  c17_wf c = true /\ h_ec (m_hdr (v_msg c)) <> 9 /\
  model_C17 c = mkC17Obs (SFrame 168 7 9 false) true true /\
  model_C17_abs 0 (abs_of c) = model_C17 c /\ ok_C17 c (model_C17 c) = true.
Proof. vm_compute. repeat split; try reflexivity; discriminate. Qed.

Example C17_nonvacuous_proxy_unreported :
  let c := mkC17 PProxyResponse (Some 250) (c17_msg false) in
  c17_wf c = true /\ model_C17 c = mkC17Obs (SFrame 168 7 9 false) false true /\
  ok_C17 c (model_C17 c) = true.
Proof. vm_compute. repeat split; reflexivity. Qed.

Example C17_nonvacuous_notify_dropped :
  let c := mkC17 PBroadcastNotify (Some 250) (c17_msg true) in
  c17_wf c = true /\ model_C17 c = mkC17Obs SNothing true true /\
  model_C17_abs 0 (abs_of c) = model_C17 c /\ ok_C17 c (model_C17 c) = true.
Proof. vm_compute. repeat split; reflexivity. Qed.

Example C17_nonvacuous_client_refused :
  let c := mkC17 PClientRequest (Some 250) (c17_msg false) in
  c17_wf c = true /\ model_C17 c = mkC17Obs SNothing true true /\
  model_C17_abs 0 (abs_of c) = model_C17 c /\ ok_C17 c (model_C17 c) = true.
Proof. vm_compute. repeat split; reflexivity. Qed.

Example C17_nonvacuous_at_limit_unchanged :
  let c := mkC17 POffReaderResponse (Some 350) (c17_msg false) in
  c17_wf c = true /\ model_C17 c = mkC17Obs (SFrame 350 7 0 true) false true /\
  model_C17_abs 0 (abs_of c) = model_C17 c /\ ok_C17 c (model_C17 c) = true.
Proof. vm_compute. repeat split; reflexivity. Qed.

Example C17_nonvacuous_no_limit :
  let c := mkC17 PClientNotify None (c17_msg true) in
  c17_wf c = true /\ model_C17 c = mkC17Obs (SFrame 350 7 0 true) false true /\
  ok_C17 c (model_C17 c) = true.
Proof. vm_compute. repeat split; reflexivity. Qed.

(** the oracle is not trivially true: it rejects an oversized frame put on the
    wire unchanged, and a silently dropped oversized response *)
Example C17_oracle_rejects_oversized :
  let c := mkC17 PInlineResponse (Some 250) (c17_msg false) in
  ok_C17 c (mkC17Obs (SFrame 350 7 0 true) false true) = false /\
  ok_C17 c (mkC17Obs SNothing true true) = false.
Proof. vm_compute. split; reflexivity. Qed.

Check C17_dec_at_most_20 : forall n, (length (dec n) <= 20)%nat.
Check C17_dec_nonempty : forall n, dec n <> [].
Check C17_dec_bytes : forall n, bytes_ok (dec n) = true.
Check C17_replacement_fits : forall size limit, replacement_len size limit <= replacement_bound.
Check C17_within_limit_unchanged : forall lim m,
  check_outbound lim (HEADER_SIZE + lenN (m_query m) + lenN (m_body m)) = true ->
  frame_outbound lim m = (Some (to_vec m), false).
Check C17_no_limit_passthrough : forall m, frame_outbound None m = (Some (to_vec m), false).
Check C17_oversized_notify_dropped : forall l m,
  l < HEADER_SIZE + lenN (m_query m) + lenN (m_body m) -> h_notify (m_hdr m) <> 0 ->
  frame_outbound (Some l) m = (None, true).
Check C17_oversized_response_replaced : forall l m,
  l < HEADER_SIZE + lenN (m_query m) + lenN (m_body m) -> h_notify (m_hdr m) = 0 ->
  h_id (m_hdr m) < two64 ->
  exists r, frame_outbound (Some l) m = (Some (to_vec r), true) /\ msg_ok r = true /\
    h_id (m_hdr r) = h_id (m_hdr m) /\ h_ec (m_hdr r) = 9 /\ m_query r = [] /\
    lenN (to_vec r) <= replacement_bound /\ from_slice_exact (to_vec r) = Ok r.
Check C17_outbound_never_exceeds_limit : forall l m bs rep,
  replacement_bound <= l -> frame_outbound (Some l) m = (Some bs, rep) -> lenN bs <= l.
Check C17_client_refuses_locally : forall l m,
  l < lenN (to_vec m) -> client_send (Some l) m = None.
Check C17_client_sends_within_limit : forall lim m,
  check_outbound lim (lenN (to_vec m)) = true -> client_send lim m = Some (to_vec m).
Check C17_abs_agrees : forall c,
  c17_wf c = true -> h_notify (m_hdr (v_msg c)) <= 1 -> h_ec (m_hdr (v_msg c)) <> 9 ->
  model_C17 c = model_C17_abs (h_ec (m_hdr (v_msg c))) (abs_of c).
Check C17_abs_agrees_general : forall c,
  c17_wf c = true ->
  (forall l, v_limit c = Some l ->
     to_vec (replacement (h_id (m_hdr (v_msg c)))
               (HEADER_SIZE + lenN (m_query (v_msg c)) + lenN (m_body (v_msg c))) l)
     <> to_vec (v_msg c)) ->
  model_C17 c = model_C17_abs (h_ec (m_hdr (v_msg c))) (abs_of c).
Check C17_holds : forall c,
  c17_wf c = true -> h_ec (m_hdr (v_msg c)) <> 9 -> ok_C17 c (model_C17 c) = true.
Check C17_holds_general : forall c,
  c17_wf c = true ->
  (forall l, v_limit c = Some l ->
     to_vec (replacement (h_id (m_hdr (v_msg c)))
               (HEADER_SIZE + lenN (m_query (v_msg c)) + lenN (m_body (v_msg c))) l)
     <> to_vec (v_msg c)) ->
  ok_C17 c (model_C17 c) = true.
Check C17_holds_abs : forall ec a,
  (match a_limit a with Some l => l < two64 | None => True end) ->
  ok_C17_abs a (model_C17_abs ec a) = true.
Check C17_oracle_abs : forall c o, ok_C17_abs (abs_of c) o = ok_C17 c o.

Print Assumptions C17_dec_at_most_20.
Print Assumptions C17_dec_nonempty.
Print Assumptions C17_dec_bytes.
Print Assumptions C17_replacement_fits.
Print Assumptions C17_within_limit_unchanged.
Print Assumptions C17_no_limit_passthrough.
Print Assumptions C17_oversized_notify_dropped.
Print Assumptions C17_oversized_response_replaced.
Print Assumptions C17_outbound_never_exceeds_limit.
Print Assumptions C17_client_refuses_locally.
Print Assumptions C17_client_sends_within_limit.
Print Assumptions C17_abs_agrees.
Print Assumptions C17_abs_agrees_general.
Print Assumptions C17_holds.
Print Assumptions C17_holds_general.
Print Assumptions C17_holds_abs.
Print Assumptions C17_oracle_abs.
Print Assumptions C17_self_replacement_wf.
Print Assumptions C17_self_replacement_rejected.
Print Assumptions C17_self_replacement_abs_differs.

(** ** tie to the source text: the body of WebSocketLimits::check_outbound,
    re-translated into Gallina by bin/rs2v on every run (Gen/LimitsGen.v), returns
    [Ok(())] exactly when the model's [check_outbound] allows the message and
    [Err(MessageTooLarge)] otherwise; its second rendering (Gen/OutboundGen.v) keeps the payload
    of that error (the size asked about and the limit); and the body of frame_outbound
    (src/websocket_server.rs), re-translated on every run (Gen/OutboundGen.v), puts on the wire
    what the model's [frame_outbound] says -- the message unchanged, nothing for a refused notify,
    the internal-error replacement with the same id for a refused response -- and calls the
    error-hook oracle exactly once per refused message and never otherwise ([reports] is the list
    of those calls; [fmt] is the oracle for the [format!] text, [cap_of] the one for the capacity
    of a body vector).  The replacement is built by create_error_message, itself re-translated
    (Gen/ErrMsgGen.v: the builder chain of src/message.rs) and equal to the model's [build] of the
    default builder with the error code and the text as a UTF-8 body.  [None] (not translated,
    reported by rs2v) degrades to [True]. *)
From RepeV Require Import Base.GenLimitsPrelude Gen.LimitsGen Proofs.LimitsGenAgree.
From RepeV Require Import Base.GenOutboundPrelude Gen.ErrMsgGen Gen.OutboundGen Proofs.ErrMsgGenAgree Proofs.OutboundGenAgree.

Theorem C17_source_translation :
  match gen_check_outbound with
  | Some f => forall l size, f l size = if check_outbound (l_peer l) size then Ok tt else Err EOther
  | None => True
  end /\
  match gen_check_outbound_r with
  | Some f => forall l size,
      f l size = Ok (match l_peer l with
                     | Some lim => if check_outbound (Some lim) size then ROk tt else RErr (E_MessageTooLarge size lim)
                     | None => ROk tt
                     end, l)
  | None => True
  end /\
  match gen_frame_outbound with
  | Some f => forall fmt cap_of reports m l,
      (forall s li, fmt [s; li] = replacement_text s li) ->
      h_version (m_hdr m) < 256 -> h_notify (m_hdr m) < 256 -> frame_len m < two64 ->
      f fmt cap_of reports m l =
      Ok (fst (frame_outbound (l_peer l) m), reports ++ reports_of (l_peer l) m)
  | None => True
  end.
Proof. exact (conj check_outbound_agrees c17_source_translation_outbound). Qed.

Theorem C17_source_translation_messages :
  match gen_msg_builder with Some f => f = Ok (mkBuilder 0 [] [] 0 0 false 0) | None => True end /\
  match gen_builder_error_code with
  | Some f => forall b ec, f b ec = Ok (mkBuilder (b_id b) (b_query b) (b_body b) (b_qfmt b) (b_bfmt b) (b_notify b) ec)
  | None => True
  end /\
  match gen_builder_body_bytes with
  | Some f => forall b x, f b x = Ok (mkBuilder (b_id b) (b_query b) x (b_qfmt b) (b_bfmt b) (b_notify b) (b_ec b))
  | None => True
  end /\
  match gen_builder_body_format with
  | Some f => forall b x, f b x = Ok (mkBuilder (b_id b) (b_query b) (b_body b) (b_qfmt b) x (b_notify b) (b_ec b))
  | None => True
  end /\
  match gen_create_error_message with
  | Some f => forall code text, HEADER_SIZE + lenN text < two64 -> f code text = Ok (error_message code text)
  | None => True
  end /\
  match gen_create_error_response_like with
  | Some f => forall r code text, HEADER_SIZE + lenN (m_query r) + lenN text < two64 ->
      f r code text = Ok (error_response_like r code text)
  | None => True
  end.
Proof. exact c17_source_translation_messages. Qed.

Theorem C17_source_translation_reports : forall lim m,
  length (reports_of lim m) = if snd (frame_outbound lim m) then 1%nat else 0%nat.
Proof. exact c17_reports_of_model. Qed.

Check C17_source_translation :
  match gen_check_outbound with
  | Some f => forall l size, f l size = if check_outbound (l_peer l) size then Ok tt else Err EOther
  | None => True
  end /\
  match gen_check_outbound_r with
  | Some f => forall l size,
      f l size = Ok (match l_peer l with
                     | Some lim => if check_outbound (Some lim) size then ROk tt else RErr (E_MessageTooLarge size lim)
                     | None => ROk tt
                     end, l)
  | None => True
  end /\
  match gen_frame_outbound with
  | Some f => forall fmt cap_of reports m l,
      (forall s li, fmt [s; li] = replacement_text s li) ->
      h_version (m_hdr m) < 256 -> h_notify (m_hdr m) < 256 -> frame_len m < two64 ->
      f fmt cap_of reports m l =
      Ok (fst (frame_outbound (l_peer l) m), reports ++ reports_of (l_peer l) m)
  | None => True
  end.
Check C17_source_translation_messages :
  match gen_msg_builder with Some f => f = Ok (mkBuilder 0 [] [] 0 0 false 0) | None => True end /\
  match gen_builder_error_code with
  | Some f => forall b ec, f b ec = Ok (mkBuilder (b_id b) (b_query b) (b_body b) (b_qfmt b) (b_bfmt b) (b_notify b) ec)
  | None => True
  end /\
  match gen_builder_body_bytes with
  | Some f => forall b x, f b x = Ok (mkBuilder (b_id b) (b_query b) x (b_qfmt b) (b_bfmt b) (b_notify b) (b_ec b))
  | None => True
  end /\
  match gen_builder_body_format with
  | Some f => forall b x, f b x = Ok (mkBuilder (b_id b) (b_query b) (b_body b) (b_qfmt b) x (b_notify b) (b_ec b))
  | None => True
  end /\
  match gen_create_error_message with
  | Some f => forall code text, HEADER_SIZE + lenN text < two64 -> f code text = Ok (error_message code text)
  | None => True
  end /\
  match gen_create_error_response_like with
  | Some f => forall r code text, HEADER_SIZE + lenN (m_query r) + lenN text < two64 ->
      f r code text = Ok (error_response_like r code text)
  | None => True
  end.
Check C17_source_translation_reports : forall lim m,
  length (reports_of lim m) = if snd (frame_outbound lim m) then 1%nat else 0%nat.

(** the definitions used above are the plain ones *)
Check (eq_refl : frame_len = fun m => HEADER_SIZE + lenN (m_query m) + lenN (m_body m)).
Check (eq_refl : reports_of = fun lim m =>
  match lim with
  | Some l => if l <? frame_len m then [R_OutboundTooLarge (frame_len m) l] else []
  | None => []
  end).
Check (eq_refl : error_message = fun code text => build (mkBuilder 0 [] text 0 BF_UTF8 false code)).
Check (eq_refl : error_response_like = fun r code text =>
  let e := error_message code text in
  let h := set_h_qlen (set_h_id (m_hdr e) (h_id (m_hdr r))) (lenN (m_query r)) in
  mkMessage (set_h_length h (HEADER_SIZE + h_qlen h + h_blen h)) (m_query r) (m_body e)).
Check (eq_refl : (ERRC_InternalError, BF_UTF8) = (9, 3)).

Print Assumptions C17_source_translation.
Print Assumptions C17_source_translation_messages.
Print Assumptions C17_source_translation_reports.
