(** C03 — every request gets exactly one matching response, notifies get none;
    the handler runs once iff the request is dispatched; the error-code table;
    inline paths answer in arrival order; the four dispatch paths (blocking
    TCP, async TCP, WebSocket inline, WebSocket off-reader) write the same
    frame for the same request.  Statements only (closed by [exact]), their
    pins and their assumptions. *)
From RepeV Require Import Model.Route Proofs.RouteProofs.
From RepeV Require Import Gen.Tables Proofs.TablesC01 Proofs.TablesMisc.

(** on each of the four paths a request whose notify byte is not 1 is answered
    by exactly one frame (the step yields one), carrying its id and its query
    unless the handler chose its own; on the inline paths this presumes that
    the user function returns *)
Theorem C03_one_response : forall p rt r,
  is_notify r = false -> (panics r = false \/ p = PWsOff) ->
  exists resp, s_resp (step_of p rt r) = Some resp /\ p_id resp = q_id r /\ query_rule r resp.
Proof. exact one_response. Qed.

(** for a pipeline of any length: the frames written are in one-to-one, order
    preserving correspondence with the non-notify requests *)
Theorem C03_one_response_each : forall p rt rs,
  (forall r, In r rs -> panics r = false \/ p = PWsOff) ->
  Forall2 (fun r resp => p_id resp = q_id r /\ query_rule r resp)
          (filter non_notify rs) (run_resps (step_of p) rt rs).
Proof. exact one_response_each. Qed.

(** a request whose notify byte is 1 is never answered, whatever else it is *)
Theorem C03_notify_silent : forall p rt r, q_notify r = 1 -> s_resp (step_of p rt r) = None.
Proof. exact notify_silent. Qed.

(** the user function runs at most once, and exactly once iff the request
    passes the version / query-format / UTF-8 / lookup checks, the middleware
    lets it through and its body is acceptable and decodable (for a registry
    mount: it is a call of a registered function) *)
Theorem C03_invoked_once_iff_dispatched : forall p rt r,
  (p = PWsOff -> o_sat r = false) ->
  (s_inv (step_of p rt r) = [] \/ exists rid, s_inv (step_of p rt r) = [rid]) /\
  ((exists rid, s_inv (step_of p rt r) = [rid]) <-> reaches_user rt r).
Proof. exact invoked_once_iff. Qed.

Theorem C03_invocation_table : forall p rt r,
  (p = PWsOff -> o_sat r = false) ->
  s_inv (step_of p rt r) = match spec_invoked false rt r with Some x => [x] | None => [] end.
Proof. exact invoked_spec. Qed.

(** the frame written meets the decision table of the property *)
Theorem C03_response_meets_table : forall p rt r resp,
  is_notify r = false -> (p = PWsOff -> o_sat r = false) ->
  s_resp (step_of p rt r) = Some resp -> resp_meets (spec_expect false rt r) resp = true.
Proof. exact step_meets. Qed.

(** row by row *)
Theorem C03_error_code_table : forall p rt r resp,
  is_notify r = false -> (p = PWsOff -> o_sat r = false) -> s_resp (step_of p rt r) = Some resp ->
  (q_version r <> 1 -> p_ec resp = EC_VERSION /\ p_qfmt resp = 0) /\
  (q_version r = 1 -> q_qfmt r <> 1 \/ o_utf8 r = false -> p_ec resp = EC_QUERY /\ p_qfmt resp = 0) /\
  (q_version r = 1 -> q_qfmt r = 1 -> o_utf8 r = true -> router_get rt (q_query r) = None ->
     p_ec resp = EC_NOTFOUND /\ p_qfmt resp = 0) /\
  (forall m h, dispatched rt r = Some (m, h) ->
     (forall c msg, mw_refusal rt r = Some (c, msg) -> p_ec resp = c /\ p_qfmt resp = 0) /\
     (mw_refusal rt r = None ->
        (body_class h r = BBadFormat -> p_ec resp = EC_BODY /\ p_qfmt resp = 0) /\
        (body_class h r = BUndecodable -> p_ec resp = undecodable_code (h_kind h) /\ p_qfmt resp = 0) /\
        (body_class h r = BOk ->
           (forall c msg, o_user r = UErr c msg -> p_ec resp = c /\ p_qfmt resp = 0) /\
           (forall bf b, o_user r = UVal bf b ->
              p_ec resp = 0 /\ p_qfmt resp = q_qfmt r /\ p_bfmt resp = bf /\ p_body resp = b) /\
           (o_user r = UPanic -> p_ec resp = EC_INTERNAL)))).
Proof. exact error_code_table. Qed.

(** for a handler that returns and a request that is not shed, any two of the
    four paths write the same frame and run the same functions *)
Theorem C03_transports_agree : forall rt r p1 p2,
  panics r = false -> o_sat r = false ->
  s_resp (step_of p1 rt r) = s_resp (step_of p2 rt r) /\
  s_inv (step_of p1 rt r) = s_inv (step_of p2 rt r) /\
  s_mw (step_of p1 rt r) = s_mw (step_of p2 rt r).
Proof. exact transports_agree. Qed.

(** the WebSocket reader as it is (arm chosen by the handler) writes what the TCP loop writes *)
Theorem C03_ws_reader_agrees : forall rt r,
  panics r = false -> o_sat r = false -> s_resp (ws_step rt r) = s_resp (tcp_step rt r).
Proof. exact ws_agrees. Qed.

(** the owned stamp and the borrowed echo of the request query are the same function *)
Theorem C03_stamp_is_echo : forall r p, finish_stamp r p = finish_echo r p.
Proof. exact finish_stamp_echo. Qed.

(** inline paths, pipelines of any length: the list of frames is, position by
    position, what the table says of the non-notify requests in arrival order *)
Theorem C03_inline_order : forall p rt rs,
  p <> PWsOff -> (forall r, In r rs -> panics r = false) ->
  Forall2 (fun r resp => resp_meets (spec_expect false rt r) resp = true)
          (filter non_notify rs) (run_resps (step_of p) rt rs).
Proof. exact inline_order. Qed.

Theorem C03_inline_lists_equal : forall rt rs, tcp rt rs = async_tcp rt rs /\ tcp rt rs = ws_inline rt rs.
Proof. exact inline_lists_equal. Qed.

Theorem C03_offreader_list_equal : forall rt rs,
  (forall r, In r rs -> panics r = false /\ o_sat r = false) -> ws_offreader rt rs = tcp rt rs.
Proof. exact offreader_list_equal. Qed.

(** off-reader arm only: a request that finds no free permit is answered
    ResourceExhausted (a notify dropped) and nothing runs; a panicking user
    function is answered InternalError with the request's id and query *)
Theorem C03_saturation_sheds : forall rt r m h,
  dispatched rt r = Some (m, h) -> o_sat r = true ->
  s_resp (wso_step rt r) = (if is_notify r then None else Some (mkResp (q_id r) EC_EXHAUSTED 0 3 (q_query r) msg_saturated)) /\
  s_inv (wso_step rt r) = [] /\ s_mw (wso_step rt r) = O.
Proof. exact saturation_sheds. Qed.

Theorem C03_offreader_panic_contained : forall rt r m h,
  dispatched rt r = Some (m, h) -> o_sat r = false -> mw_refusal rt r = None -> body_class h r = BOk ->
  o_user r = UPanic -> is_notify r = false ->
  s_resp (wso_step rt r) = Some (mkResp (q_id r) EC_INTERNAL 0 3 (q_query r) msg_panicked).
Proof. exact offreader_panic_contained. Qed.

(** the executable oracle (also applied to the implementation's observations)
    accepts the model on every well-formed case *)
Theorem C03_holds : forall c, c03_wf c = true -> ok_C03 c (model_C03 c) = true.
Proof. exact ok_model_C03. Qed.

(** ** non-vacuity *)
(** routes: "/a" JSON inline (counter 0), "/b" JSON off-reader (1), a registry
    at "/reg" with a function at "/fn" (2), a struct at "/st" (3) *)
Definition ex_rt (mw : bool) : router :=
  mkRouter [([47; 97], mkHandler 0 KJson false []); ([47; 98], mkHandler 1 KJson true [])]
           [([47; 114; 101; 103], mkHandler 2 KRegistry false [[47; 102; 110]])]
           [([47; 115; 116], mkHandler 3 KStruct false [])] mw.

Definition rq (id ntf ver qf bf : N) (q b : list byte) (dec : option (list byte)) (u : uout) : request :=
  mkReq id ntf ver qf bf 0 q b true dec u None false.

(** ok on /a; a notify; ok on the off-reader /b; wrong version; unknown path;
    raw body on /a; undecodable body on /a; handler error 4100 on /b; a read of
    the registry function; raw-format query; notify byte 2 is not a notify *)
Definition ex_reqs : list request :=
  [ rq 1 0 1 1 2 [47; 97] [49] None (UVal 2 [50]);
    rq 2 1 1 1 2 [47; 97] [49] None (UVal 2 [50]);
    rq 3 0 1 1 2 [47; 98] [49] None (UVal 2 [51]);
    rq 4 0 2 1 2 [47; 97] [49] None (UVal 2 [50]);
    rq 5 0 1 1 2 [47; 122] [49] None (UVal 2 [50]);
    rq 6 0 1 1 0 [47; 97] [49] None (UVal 2 [50]);
    rq 7 0 1 1 2 [47; 97] [123] (Some [66; 65; 68]) (UVal 2 [50]);
    rq 8 0 1 1 2 [47; 98] [49] None (UErr 4100 [69]);
    rq 9 0 1 1 0 [47; 114; 101; 103; 47; 102; 110] [] None (UVal 2 [70]);
    rq 10 0 1 0 2 [47; 97] [49] None (UVal 2 [50]);
    rq 11 2 1 1 2 [47; 115; 116] [] None (UVal 2 [82]) ].

Definition ex_case : case := mkCase (ex_rt false) true true true ex_reqs.

Example C03_nonvacuous_wf : c03_wf ex_case = true.
Proof. vm_compute. reflexivity. Qed.

Example C03_nonvacuous_codes :
  map (fun p => (p_id p, p_ec p, p_qfmt p, p_bfmt p)) (tcp (ex_rt false) ex_reqs)
  = [(1, 0, 1, 2); (3, 0, 1, 2); (4, 1, 0, 3); (5, 6, 0, 3); (6, 4, 0, 3); (7, 5, 0, 3); (8, 4100, 0, 3);
     (9, 0, 1, 2); (10, 3, 0, 3); (11, 0, 1, 2)].
Proof. vm_compute. reflexivity. Qed.

Example C03_nonvacuous_counts :
  b_ws (model_C03 ex_case) = b_tcp (model_C03 ex_case) /\
  option_map t_counts (b_tcp (model_C03 ex_case)) = Some [2; 2; 0; 1] /\
  option_map t_counts (b_tcp (model_C03 (mkCase (ex_rt true) true true true ex_reqs))) = Some [2; 2; 0; 1] /\
  option_map t_mw (b_tcp (model_C03 (mkCase (ex_rt true) true true true ex_reqs))) = Some 8.
Proof. vm_compute. repeat split; reflexivity. Qed.

(** the text of an error answer: "Unsupported REPE version 2" *)
Example C03_nonvacuous_text :
  option_map p_body (s_resp (tcp_step (ex_rt false) (rq 4 0 2 1 2 [47; 97] [49] None (UVal 2 [50]))))
  = Some [85; 110; 115; 117; 112; 112; 111; 114; 116; 101; 100; 32; 82; 69; 80; 69; 32; 118; 101; 114; 115; 105; 111; 110; 32; 50].
Proof. vm_compute. reflexivity. Qed.

(** a handler-set response query is kept; an empty one is replaced by the request's *)
Example C03_nonvacuous_own_query :
  let e := mkRouter [([47; 101], mkHandler 0 KErased false [])] [] [] false in
  option_map p_query (s_resp (tcp_step e (rq 1 0 1 1 9 [47; 101] [1] None (UMsg 0 1 7 [47; 111] [5])))) = Some [47; 111] /\
  option_map p_query (s_resp (wso_step e (rq 1 0 1 1 9 [47; 101] [1] None (UMsg 0 1 7 [47; 111] [5])))) = Some [47; 111] /\
  option_map p_query (s_resp (wso_step e (rq 1 0 1 1 9 [47; 101] [1] None (UMsg 0 1 7 [] [5])))) = Some [47; 101].
Proof. vm_compute. repeat split; reflexivity. Qed.

(** the oracle accepts the model and is not trivially true *)
Definition ex_obs := model_C03 ex_case.
Definition with_tcp (o : obs) (f : tobs -> tobs) : obs :=
  mkObs (option_map f (b_tcp o)) (b_async o) (b_ws o).
Definition with_ws (o : obs) (f : tobs -> tobs) : obs :=
  mkObs (b_tcp o) (b_async o) (option_map f (b_ws o)).
Definition set_resps (l : list resp -> list resp) (t : tobs) : tobs :=
  mkTobs (l (t_resps t)) (t_counts t) (t_mw t) (t_alive t).
Definition swap2 {A} (l : list A) : list A := match l with a :: b :: t => b :: a :: t | _ => l end.

Example C03_oracle_accepts : ok_C03 ex_case ex_obs = true.
Proof. vm_compute. reflexivity. Qed.

(** a missing frame, a duplicated frame, two inline answers swapped, a wrong
    error code, a handler run twice, a dead connection: all rejected *)
Example C03_oracle_rejects :
  ok_C03 ex_case (with_tcp ex_obs (set_resps (@tl resp))) = false /\
  ok_C03 ex_case (with_tcp ex_obs (set_resps (fun l => match l with a :: t => a :: a :: t | [] => [] end))) = false /\
  ok_C03 ex_case (with_tcp ex_obs (set_resps swap2)) = false /\
  ok_C03 ex_case (with_tcp ex_obs (set_resps (fun l => match l with a :: t => mkResp (p_id a) 5 (p_qfmt a) (p_bfmt a) (p_query a) (p_body a) :: t | [] => [] end))) = false /\
  ok_C03 ex_case (with_tcp ex_obs (fun t => mkTobs (t_resps t) [3; 2; 0; 1] (t_mw t) (t_alive t))) = false /\
  ok_C03 ex_case (with_tcp ex_obs (fun t => mkTobs (t_resps t) (t_counts t) (t_mw t) false)) = false.
Proof. vm_compute. repeat split; reflexivity. Qed.

(** on the WebSocket an off-reader answer (ids 3 and 8 here) may arrive anywhere ... *)
Definition move_to_end (id : N) (l : list resp) : list resp :=
  filter (fun p => negb (p_id p =? id)) l ++ filter (fun p => p_id p =? id) l.
Example C03_oracle_offreader_order_free :
  ok_C03 ex_case (with_ws ex_obs (set_resps (move_to_end 3))) = true /\
  ok_C03 ex_case (with_ws ex_obs (set_resps (fun l => move_to_end 3 (move_to_end 8 l)))) = true.
Proof. vm_compute. split; reflexivity. Qed.

(** ... but the answers given by the reader task itself (1, 4, 5, ...) keep their order *)
Example C03_oracle_reader_order_kept :
  ok_C03 ex_case (with_ws ex_obs (set_resps (move_to_end 1))) = false /\
  ok_C03 ex_case (with_ws ex_obs (set_resps (move_to_end 4))) = false.
Proof. vm_compute. split; reflexivity. Qed.

(** the hypotheses of the shedding / panic statements are satisfiable *)
Example C03_nonvacuous_shed_panic :
  let shed := mkReq 3 0 1 1 2 0 [47; 98] [49] true None (UVal 2 [51]) None true in
  let boom := rq 3 0 1 1 2 [47; 98] [49] None UPanic in
  (exists m h, dispatched (ex_rt false) shed = Some (m, h)) /\
  option_map p_ec (s_resp (ws_step (ex_rt false) shed)) = Some 8 /\ s_inv (ws_step (ex_rt false) shed) = [] /\
  option_map p_ec (s_resp (ws_step (ex_rt false) boom)) = Some 9 /\ s_inv (ws_step (ex_rt false) boom) = [1] /\
  c03_wf (mkCase (ex_rt false) false false true [shed]) = true /\
  c03_wf (mkCase (ex_rt false) false false true [boom]) = true /\
  c03_wf (mkCase (ex_rt false) true false true [boom]) = false.
Proof. vm_compute. repeat split; try reflexivity. eexists. eexists. reflexivity. Qed.

Check C03_one_response : forall p rt r,
  is_notify r = false -> (panics r = false \/ p = PWsOff) ->
  exists resp, s_resp (step_of p rt r) = Some resp /\ p_id resp = q_id r /\ query_rule r resp.
Check C03_one_response_each : forall p rt rs,
  (forall r, In r rs -> panics r = false \/ p = PWsOff) ->
  Forall2 (fun r resp => p_id resp = q_id r /\ query_rule r resp)
          (filter non_notify rs) (run_resps (step_of p) rt rs).
Check C03_notify_silent : forall p rt r, q_notify r = 1 -> s_resp (step_of p rt r) = None.
Check C03_invoked_once_iff_dispatched : forall p rt r,
  (p = PWsOff -> o_sat r = false) ->
  (s_inv (step_of p rt r) = [] \/ exists rid, s_inv (step_of p rt r) = [rid]) /\
  ((exists rid, s_inv (step_of p rt r) = [rid]) <-> reaches_user rt r).
Check C03_invocation_table : forall p rt r,
  (p = PWsOff -> o_sat r = false) ->
  s_inv (step_of p rt r) = match spec_invoked false rt r with Some x => [x] | None => [] end.
Check C03_response_meets_table : forall p rt r resp,
  is_notify r = false -> (p = PWsOff -> o_sat r = false) ->
  s_resp (step_of p rt r) = Some resp -> resp_meets (spec_expect false rt r) resp = true.
Check C03_error_code_table : forall p rt r resp,
  is_notify r = false -> (p = PWsOff -> o_sat r = false) -> s_resp (step_of p rt r) = Some resp ->
  (q_version r <> 1 -> p_ec resp = EC_VERSION /\ p_qfmt resp = 0) /\
  (q_version r = 1 -> q_qfmt r <> 1 \/ o_utf8 r = false -> p_ec resp = EC_QUERY /\ p_qfmt resp = 0) /\
  (q_version r = 1 -> q_qfmt r = 1 -> o_utf8 r = true -> router_get rt (q_query r) = None ->
     p_ec resp = EC_NOTFOUND /\ p_qfmt resp = 0) /\
  (forall m h, dispatched rt r = Some (m, h) ->
     (forall c msg, mw_refusal rt r = Some (c, msg) -> p_ec resp = c /\ p_qfmt resp = 0) /\
     (mw_refusal rt r = None ->
        (body_class h r = BBadFormat -> p_ec resp = EC_BODY /\ p_qfmt resp = 0) /\
        (body_class h r = BUndecodable -> p_ec resp = undecodable_code (h_kind h) /\ p_qfmt resp = 0) /\
        (body_class h r = BOk ->
           (forall c msg, o_user r = UErr c msg -> p_ec resp = c /\ p_qfmt resp = 0) /\
           (forall bf b, o_user r = UVal bf b ->
              p_ec resp = 0 /\ p_qfmt resp = q_qfmt r /\ p_bfmt resp = bf /\ p_body resp = b) /\
           (o_user r = UPanic -> p_ec resp = EC_INTERNAL)))).
Check C03_transports_agree : forall rt r p1 p2,
  panics r = false -> o_sat r = false ->
  s_resp (step_of p1 rt r) = s_resp (step_of p2 rt r) /\
  s_inv (step_of p1 rt r) = s_inv (step_of p2 rt r) /\
  s_mw (step_of p1 rt r) = s_mw (step_of p2 rt r).
Check C03_ws_reader_agrees : forall rt r,
  panics r = false -> o_sat r = false -> s_resp (ws_step rt r) = s_resp (tcp_step rt r).
Check C03_stamp_is_echo : forall r p, finish_stamp r p = finish_echo r p.
Check C03_inline_order : forall p rt rs,
  p <> PWsOff -> (forall r, In r rs -> panics r = false) ->
  Forall2 (fun r resp => resp_meets (spec_expect false rt r) resp = true)
          (filter non_notify rs) (run_resps (step_of p) rt rs).
Check C03_inline_lists_equal : forall rt rs, tcp rt rs = async_tcp rt rs /\ tcp rt rs = ws_inline rt rs.
Check C03_offreader_list_equal : forall rt rs,
  (forall r, In r rs -> panics r = false /\ o_sat r = false) -> ws_offreader rt rs = tcp rt rs.
Check C03_saturation_sheds : forall rt r m h,
  dispatched rt r = Some (m, h) -> o_sat r = true ->
  s_resp (wso_step rt r) = (if is_notify r then None else Some (mkResp (q_id r) EC_EXHAUSTED 0 3 (q_query r) msg_saturated)) /\
  s_inv (wso_step rt r) = [] /\ s_mw (wso_step rt r) = O.
Check C03_offreader_panic_contained : forall rt r m h,
  dispatched rt r = Some (m, h) -> o_sat r = false -> mw_refusal rt r = None -> body_class h r = BOk ->
  o_user r = UPanic -> is_notify r = false ->
  s_resp (wso_step rt r) = Some (mkResp (q_id r) EC_INTERNAL 0 3 (q_query r) msg_panicked).
Check C03_holds : forall c, c03_wf c = true -> ok_C03 c (model_C03 c) = true.

(** the auxiliary predicates used above are the plain ones *)
Check (eq_refl : query_rule = fun r p =>
  p_query p = q_query r \/ exists ec qf bf q b, o_user r = UMsg ec qf bf q b /\ q <> [] /\ p_query p = q).
Check (eq_refl : reaches_user = fun rt r =>
  exists m h, dispatched rt r = Some (m, h) /\ mw_refusal rt r = None /\ body_class h r = BOk /\
              (h_kind h = KRegistry -> q_body r <> [] /\ bmem (reg_pointer m (q_query r)) (h_fns h) = true)).
Check (eq_refl : non_notify = fun r => negb (is_notify r)).
Check (eq_refl : is_notify = fun r => q_notify r =? 1).

Print Assumptions C03_one_response.
Print Assumptions C03_one_response_each.
Print Assumptions C03_notify_silent.
Print Assumptions C03_invoked_once_iff_dispatched.
Print Assumptions C03_invocation_table.
Print Assumptions C03_response_meets_table.
Print Assumptions C03_error_code_table.
Print Assumptions C03_transports_agree.
Print Assumptions C03_ws_reader_agrees.
Print Assumptions C03_stamp_is_echo.
Print Assumptions C03_inline_order.
Print Assumptions C03_inline_lists_equal.
Print Assumptions C03_offreader_list_equal.
Print Assumptions C03_saturation_sheds.
Print Assumptions C03_offreader_panic_contained.
Print Assumptions C03_holds.

(** constants of the model are the ones re-read from the Rust source on this run *)
Theorem C03_source_tables :
  agrees src_ErrorCode_VersionMismatch Route.EC_VERSION /\ agrees src_ErrorCode_InvalidQuery Route.EC_QUERY /\
  agrees src_ErrorCode_InvalidBody Route.EC_BODY /\ agrees src_ErrorCode_ParseError Route.EC_PARSE /\
  agrees src_ErrorCode_MethodNotFound Route.EC_NOTFOUND /\ agrees src_ErrorCode_ResourceExhausted Route.EC_EXHAUSTED /\
  agrees src_ErrorCode_InternalError Route.EC_INTERNAL.
Proof. exact c03_error_codes_agree. Qed.
Check C03_source_tables :
  agrees src_ErrorCode_VersionMismatch Route.EC_VERSION /\ agrees src_ErrorCode_InvalidQuery Route.EC_QUERY /\
  agrees src_ErrorCode_InvalidBody Route.EC_BODY /\ agrees src_ErrorCode_ParseError Route.EC_PARSE /\
  agrees src_ErrorCode_MethodNotFound Route.EC_NOTFOUND /\ agrees src_ErrorCode_ResourceExhausted Route.EC_EXHAUSTED /\
  agrees src_ErrorCode_InternalError Route.EC_INTERNAL.
Print Assumptions C03_source_tables.

(** ** tie to the source text: the bodies of route, dispatch_view, dispatch and
    route_request_view of src/server_request.rs, re-translated into Gallina by
    bin/rs2v on every run (Gen/RouteGen.v) in its effect / oracle mode, are the
    model's functions: the decision chain (version, query format, UTF-8, lookup)
    with the error code of each rejection and the notify flag; "a notify gets no
    response, whatever else it is"; the handler is called exactly once iff the
    request is dispatched ([e_calls]); a handler's error becomes the error
    response with its code and text; QueryFormat::try_from (src/constants.rs, also
    re-translated) yields the variant with that discriminant.  Oracles: [utf8] for std::str::from_utf8
    (any predicate that says of this request's query what the request's oracle
    input [o_utf8] says), [call_handler] (= ONE step of the model's
    [run_handler]) for handler.handle_view / handle_with_ctx.  NOT tied: the
    *texts* of the rejection responses ([format!] and string literals are
    [TOpaque]); the second theorem instantiates them with the model's texts.  A
    function that could not be translated is [None] and its clause is [True]
    (reported by rs2v); a function whose meaning changed breaks the proof. *)
From RepeV Require Import Base.GenRoutePrelude Gen.RouteGen Proofs.RouteGenAgree Proofs.RouteTables.

Theorem C03_source_translation :
  match gen_qf_try_from with
  | Some f => forall x, f x = match qf_try_from x with Some q => ROk q | None => RErr x end
  | None => True
  end /\
  match gen_route with
  | Some f => forall utf8 rt r, utf8 (q_query r) = o_utf8 r -> f utf8 rt r (q_query r) = route_spec rt r
  | None => True
  end /\
  agrees4 gen_dispatch_view (dispatch_spec View) /\
  agrees4 gen_dispatch (dispatch_spec Owned) /\
  match gen_route_request_view with
  | Some f => forall utf8 rt r e, utf8 (q_query r) = o_utf8 r -> f utf8 rt r e = route_request_view_spec rt r e
  | None => True
  end.
Proof. exact c03_source_translation. Qed.

(** what the right-hand sides above are, in terms of the steps the theorems of
    this file are about: the inline paths are [route_request_view] followed by the
    writer's [finish]; the off-reader arm is [dispatch] with the caller's stamp and
    panic guard; the handler is called once iff the request is dispatched *)
Theorem C03_source_translation_steps :
  (forall finish rt r,
     let '(d, e) := route_request_view_spec rt r eff0 in
     inline_step finish rt r =
       mkStep (match d with
               | DRet o => option_map (fun g => finish r (resp_of (reject_text rt r) g)) o
               | DUnwind => None
               end) (e_inv e) (e_mw e)
     /\ e_calls e = match Route.route rt r with RDispatch _ _ => 1%nat | RReject _ _ => O end) /\
  (forall rt mount h r, o_sat r = false ->
     let '(d, e) := dispatch_spec Owned (rt, (mount, h)) r (is_notify r) eff0 in
     offreader_dispatch rt mount h r =
       mkStep (match d with
               | DRet o => option_map (fun g => finish_stamp r (resp_of [] g)) o
               | DUnwind => if is_notify r then None
                            else Some (finish_stamp r (err_like r EC_INTERNAL msg_panicked))
               end) (e_inv e) (e_mw e)
     /\ e_calls e = 1%nat) /\
  agrees src_QueryFormat_RawBinary QF_RAW_BINARY /\ agrees src_QueryFormat_JsonPointer QF_JSON_POINTER.
Proof.
  exact (conj inline_step_is_route_request_view (conj offreader_dispatch_is_dispatch c03_query_formats_agree)).
Qed.

Check C03_source_translation :
  match gen_qf_try_from with
  | Some f => forall x, f x = match qf_try_from x with Some q => ROk q | None => RErr x end
  | None => True
  end /\
  match gen_route with
  | Some f => forall utf8 rt r, utf8 (q_query r) = o_utf8 r -> f utf8 rt r (q_query r) = route_spec rt r
  | None => True
  end /\
  agrees4 gen_dispatch_view (dispatch_spec View) /\
  agrees4 gen_dispatch (dispatch_spec Owned) /\
  match gen_route_request_view with
  | Some f => forall utf8 rt r e, utf8 (q_query r) = o_utf8 r -> f utf8 rt r e = route_request_view_spec rt r e
  | None => True
  end.
Check C03_source_translation_steps :
  (forall finish rt r,
     let '(d, e) := route_request_view_spec rt r eff0 in
     inline_step finish rt r =
       mkStep (match d with
               | DRet o => option_map (fun g => finish r (resp_of (reject_text rt r) g)) o
               | DUnwind => None
               end) (e_inv e) (e_mw e)
     /\ e_calls e = match Route.route rt r with RDispatch _ _ => 1%nat | RReject _ _ => O end) /\
  (forall rt mount h r, o_sat r = false ->
     let '(d, e) := dispatch_spec Owned (rt, (mount, h)) r (is_notify r) eff0 in
     offreader_dispatch rt mount h r =
       mkStep (match d with
               | DRet o => option_map (fun g => finish_stamp r (resp_of [] g)) o
               | DUnwind => if is_notify r then None
                            else Some (finish_stamp r (err_like r EC_INTERNAL msg_panicked))
               end) (e_inv e) (e_mw e)
     /\ e_calls e = 1%nat) /\
  agrees src_QueryFormat_RawBinary QF_RAW_BINARY /\ agrees src_QueryFormat_JsonPointer QF_JSON_POINTER.

(** the specifications are the plain ones *)
Check (eq_refl : route_spec = fun rt r =>
  match Route.route rt r with
  | RReject c _ => ROReject (is_notify r) c TOpaque
  | RDispatch m h => RODispatch (rt, (m, h)) (is_notify r) (q_query r)
  end).
Check (eq_refl : dispatch_spec = fun m bh r notify e =>
  let '(c, e') := call_handler m bh r e in
  match c with
  | HPanicked => (DUnwind, e')
  | HReturned v =>
      (DRet (if notify then None
             else Some (match v with
                        | ROk p => p
                        | RErr x => GError m r (re_code x) (TText (re_text x))
                        end)), e')
  end).
Check (eq_refl : route_request_view_spec = fun rt r e =>
  match Route.route rt r with
  | RReject c _ => (DRet (if is_notify r then None else Some (GError View r c TOpaque)), e)
  | RDispatch m h => dispatch_spec View (rt, (m, h)) r (is_notify r) e
  end).
Check (eq_refl : resp_of = fun txt g =>
  match g with
  | GHandler p => p
  | GError m r c t => err_resp m r c (match t with TOpaque => txt | TText s => s end)
  end).
Check (eq_refl : qf_try_from = fun x =>
  if x =? QF_RAW_BINARY then Some QFRawBinary else if x =? QF_JSON_POINTER then Some QFJsonPointer else None).
Check (eq_refl : reject_text = fun rt r =>
  match Route.route rt r with RReject _ msg => msg | RDispatch _ _ => [] end).

Print Assumptions C03_source_translation.
Print Assumptions C03_source_translation_steps.
