(** C12 — A parked producer is always woken by the event it waits for.
    The system of Model/Condvar.v: one waiter (wait_for_credit(len) or
    wait_for_reconnect) and any number of signalling threads over the single
    mutex and condition variable of TransferControl; an event list is one
    interleaving (signaller method bodies, the waiter's lock-check-return-or-
    park step, spurious wake-ups, clock ticks).  Every theorem quantifies over
    ALL event lists: no bound on threads, operations or schedule length.
    This file contains only statements (closed by [exact]), their pins and
    their assumptions. *)
From RepeV Require Import Model.CondvarSplit.
From RepeV Require Import Model.Condvar Proofs.CondvarProofs.

(** every method that can turn the awaited condition from false to true calls
    notify_all (record_sent, push_replay, set_peer, the queries, a stale or
    foreign ack, a rejected resume, a second cancel cannot make it true) *)
Theorem C12_ready_needs_notify : forall k s o,
  ready k s = false -> ready k (fst (step s o)) = true -> notifies s o = true.
Proof. exact ready_needs_notify. Qed.

(** under every interleaving, a waiter in the wait set has a false condition:
    it never sleeps on while its condition holds *)
Theorem C12_no_lost_wakeup : forall w c k d es,
  let y := sys_run (sys_init w c k d) es in
  y_w y = Parked -> ready (y_kind y) (y_tc y) = false.
Proof. exact no_lost_wakeup. Qed.

(** the three things the waiter's step can do *)
Theorem C12_waiter_step_spec : forall y, y_w y = Runnable ->
  let k := y_kind y in
  let s := y_tc y in
  let y' := sys_step y EWaiter in
  (ready k s = true /\ y_w y' = Done (snd (waiter_return k s)) /\
   y_tc y' = fst (waiter_return k s) /\ snd (waiter_return k s) <> WTimeout)
  \/ (ready k s = false /\ y_deadline y <= y_now y /\ y_w y' = Done WTimeout /\ y_tc y' = s)
  \/ (ready k s = false /\ y_now y < y_deadline y /\ y_w y' = Parked /\ y_tc y' = s).
Proof. exact waiter_step. Qed.

(** under every interleaving, a returned value [r] was produced at one moment
    (after a prefix [es1] of the schedule) at which either the condition held
    and [r] is the value for the state at that moment (never Timeout), or the
    condition was false, the clock had reached the deadline and [r] is Timeout *)
Theorem C12_returns_right_value : forall w c k d es r,
  y_w (sys_run (sys_init w c k d) es) = Done r ->
  exists es1 es2, es = es1 ++ EWaiter :: es2 /\
    let y := sys_run (sys_init w c k d) es1 in
    y_w y = Runnable /\
    ((ready k (y_tc y) = true /\ r = snd (waiter_return k (y_tc y)) /\ r <> WTimeout) \/
     (ready k (y_tc y) = false /\ r = WTimeout /\ d <= y_now y)).
Proof. exact returns_right_value. Qed.

(** Timeout is returned only with a false condition, at or after the deadline *)
Theorem C12_timeout_not_early : forall y,
  y_w y = Runnable -> y_w (sys_step y EWaiter) = Done WTimeout ->
  ready (y_kind y) (y_tc y) = false /\ y_deadline y <= y_now y.
Proof. exact timeout_not_early. Qed.

(** not never: when the deadline is due the clock wakes the parked waiter, and
    a runnable waiter with a false condition past its deadline returns Timeout
    (progress as enabledness, not fairness) *)
Theorem C12_timeout_enabled : forall y,
  y_w y = Parked -> y_deadline y <= y_now y + 1 -> y_w (sys_step y ETick) = Runnable.
Proof. exact timeout_wakes. Qed.

Theorem C12_timeout_enabled_return : forall y,
  y_w y = Runnable -> ready (y_kind y) (y_tc y) = false -> y_deadline y <= y_now y ->
  y_w (sys_step y EWaiter) = Done WTimeout.
Proof. exact timeout_returns. Qed.

Theorem C12_timeout_parked_then_returns : forall y,
  y_w y = Parked -> ready (y_kind y) (y_tc y) = false -> y_deadline y <= y_now y + 1 ->
  y_w (sys_step (sys_step y ETick) EWaiter) = Done WTimeout.
Proof. exact timeout_parked_then_returns. Qed.

(** a parked waiter whose condition a signaller makes true is woken by that
    signaller and returns the value for the new state at its next step *)
Theorem C12_woken_then_returns : forall y o,
  y_w y = Parked -> ready (y_kind y) (y_tc y) = false ->
  ready (y_kind y) (fst (step (y_tc y) o)) = true ->
  exists r, y_w (sys_step (sys_step y (ESignal o)) EWaiter) = Done r /\ r <> WTimeout /\
            r = snd (waiter_return (y_kind y) (fst (step (y_tc y) o))).
Proof. exact woken_then_returns. Qed.

(** the same in every reachable state, without the extra hypothesis *)
Theorem C12_woken_then_returns_reachable : forall w c k d es o,
  let y := sys_run (sys_init w c k d) es in
  y_w y = Parked -> ready k (fst (step (y_tc y) o)) = true ->
  exists r, y_w (sys_step (sys_step y (ESignal o)) EWaiter) = Done r /\ r <> WTimeout.
Proof. exact woken_then_returns_reachable. Qed.

(** a returned waiter keeps its value *)
Theorem C12_done_stable : forall es y r, y_w y = Done r -> y_w (sys_run y es) = Done r.
Proof. exact done_run. Qed.

(** the executable oracle (also applied to the implementation's observations)
    accepts the model on every case; no side condition was needed *)
Theorem C12_holds : forall w c k pre ops, ok_C12 w c k pre ops (model_C12 w c k pre ops) = true.
Proof. exact ok_model_C12. Qed.

(** the oracle rejects a lost wake-up: "still parked" after an operation that
    made the condition true *)
Theorem C12_oracle_rejects_lost_wakeup : forall k s o ops obs,
  ready k (fst (step s o)) = true -> check12 k s false (o :: ops) (StillParked :: obs) = false.
Proof. exact check12_rejects_lost_wakeup. Qed.

(** ** non-vacuity *)

(** window 2, two bytes in flight, a credit wait for 1 byte parks; a stale ack,
    a foreign-file ack, a send and an insufficient ack (which does notify: the
    waiter re-checks and parks again) leave it parked; the cancel returns it *)
Example C12_nonvacuous_credit :
  model_C12 2 8 (WCredit 1) [Sent 2] [Ack 0 0; Ack 1 2; Sent 3; Ack 0 1; Cancel 7; Ack 0 3]
  = (StillParked, [StillParked; StillParked; StillParked; StillParked;
                   Returned (WCancelled 7); Returned (WCancelled 7)]).
Proof. vm_compute. reflexivity. Qed.

Example C12_nonvacuous_credit_ack :
  model_C12 2 8 (WCredit 1) [Sent 2] [Ack 0 1; Advance 1]
  = (StillParked, [Returned WGranted; Returned WGranted]) /\
  model_C12 2 8 (WCredit 1) [Sent 2] [Advance 1]
  = (StillParked, [Returned WGranted]) /\
  model_C12 2 8 (WCredit 1) [Sent 2; Push 0 1 false [5]; Push 1 1 false [6]] [Resume 9 0 2; Resume 9 0 1]
  = (StillParked, [Returned WGranted; Returned WGranted]) /\
  model_C12 2 8 (WCredit 1) [Sent 1] [Sent 2] = (Returned WGranted, [Returned WGranted]).
Proof. vm_compute. repeat split; reflexivity. Qed.

(** reconnect wait: a wrong-file and an out-of-window resume are rejected and
    do not wake it; the accepted one returns its offset *)
Example C12_nonvacuous_reconnect :
  model_C12 2 8 WReconnect [Push 0 2 false [1; 2]]
            [Resume 9 1 0; Resume 9 0 1; Ack 0 1; SetPeer 3; Resume 9 0 2; Cancel 1]
  = (StillParked, [StillParked; StillParked; StillParked; StillParked;
                   Returned (WResumeReady 2); Returned (WResumeReady 2)]).
Proof. vm_compute. reflexivity. Qed.

(** the oracle rejects: a lost wake-up (parked after the sufficient ack), an
    early return (returned after a stale ack), and a wrong value *)
Example C12_oracle_rejects :
  ok_C12 2 8 (WCredit 1) [Sent 2] [Ack 0 1] (StillParked, [Returned WGranted]) = true /\
  ok_C12 2 8 (WCredit 1) [Sent 2] [Ack 0 1] (StillParked, [StillParked]) = false /\
  ok_C12 2 8 (WCredit 1) [Sent 2] [Ack 0 0] (StillParked, [Returned WGranted]) = false /\
  ok_C12 2 8 (WCredit 1) [Sent 2] [Cancel 3] (StillParked, [Returned WGranted]) = false /\
  ok_C12 2 8 (WCredit 1) [Sent 2] [Cancel 3] (StillParked, [Returned (WCancelled 4)]) = false /\
  ok_C12 2 8 (WCredit 1) [Sent 2] [Ack 0 1] (Returned WGranted, [Returned WGranted]) = false /\
  ok_C12 2 8 WReconnect [] [Advance 1] (StillParked, [Returned WTimeout]) = false.
Proof. vm_compute. repeat split; reflexivity. Qed.

(** a schedule with a spurious wake-up in which the condition never becomes
    true: the waiter returns Timeout exactly when the clock reaches the
    deadline 2, not at time 1 *)
Example C12_nonvacuous_timeout :
  let y0 := sys_run (sys_init 2 8 (WCredit 1) 2) [ESignal (Sent 2); EWaiter] in
  y_w y0 = Parked /\
  y_w (sys_run y0 [ETick; ESpurious; EWaiter]) = Parked /\
  y_w (sys_run y0 [ETick; ESpurious; EWaiter; ETick]) = Runnable /\
  y_w (sys_run y0 [ETick; ESpurious; EWaiter; ETick; EWaiter]) = Done WTimeout.
Proof. vm_compute. repeat split; reflexivity. Qed.

(** the hypotheses of [C12_woken_then_returns] are satisfiable, and a racing
    signaller between the wake-up and the waiter's step changes the value, not
    the fact of returning *)
Example C12_nonvacuous_woken :
  let y0 := sys_run (sys_init 2 8 (WCredit 1) 9) [ESignal (Sent 2); EWaiter] in
  y_w y0 = Parked /\ ready (y_kind y0) (y_tc y0) = false /\
  ready (y_kind y0) (fst (step (y_tc y0) (Ack 0 1))) = true /\
  y_w (sys_run y0 [ESignal (Ack 0 1); EWaiter]) = Done WGranted /\
  y_w (sys_run y0 [ESignal (Ack 0 1); ESignal (Cancel 5); EWaiter]) = Done (WCancelled 5) /\
  y_w (sys_run y0 [ESignal (Ack 0 1); ESignal (Sent 3); EWaiter]) = Parked.
Proof. vm_compute. repeat split; reflexivity. Qed.

Check C12_ready_needs_notify : forall k s o,
  ready k s = false -> ready k (fst (step s o)) = true -> notifies s o = true.
Check C12_no_lost_wakeup : forall w c k d es,
  let y := sys_run (sys_init w c k d) es in
  y_w y = Parked -> ready (y_kind y) (y_tc y) = false.
Check C12_waiter_step_spec : forall y, y_w y = Runnable ->
  let k := y_kind y in
  let s := y_tc y in
  let y' := sys_step y EWaiter in
  (ready k s = true /\ y_w y' = Done (snd (waiter_return k s)) /\
   y_tc y' = fst (waiter_return k s) /\ snd (waiter_return k s) <> WTimeout)
  \/ (ready k s = false /\ y_deadline y <= y_now y /\ y_w y' = Done WTimeout /\ y_tc y' = s)
  \/ (ready k s = false /\ y_now y < y_deadline y /\ y_w y' = Parked /\ y_tc y' = s).
Check C12_returns_right_value : forall w c k d es r,
  y_w (sys_run (sys_init w c k d) es) = Done r ->
  exists es1 es2, es = es1 ++ EWaiter :: es2 /\
    let y := sys_run (sys_init w c k d) es1 in
    y_w y = Runnable /\
    ((ready k (y_tc y) = true /\ r = snd (waiter_return k (y_tc y)) /\ r <> WTimeout) \/
     (ready k (y_tc y) = false /\ r = WTimeout /\ d <= y_now y)).
Check C12_timeout_not_early : forall y,
  y_w y = Runnable -> y_w (sys_step y EWaiter) = Done WTimeout ->
  ready (y_kind y) (y_tc y) = false /\ y_deadline y <= y_now y.
Check C12_timeout_enabled : forall y,
  y_w y = Parked -> y_deadline y <= y_now y + 1 -> y_w (sys_step y ETick) = Runnable.
Check C12_timeout_enabled_return : forall y,
  y_w y = Runnable -> ready (y_kind y) (y_tc y) = false -> y_deadline y <= y_now y ->
  y_w (sys_step y EWaiter) = Done WTimeout.
Check C12_timeout_parked_then_returns : forall y,
  y_w y = Parked -> ready (y_kind y) (y_tc y) = false -> y_deadline y <= y_now y + 1 ->
  y_w (sys_step (sys_step y ETick) EWaiter) = Done WTimeout.
Check C12_woken_then_returns : forall y o,
  y_w y = Parked -> ready (y_kind y) (y_tc y) = false ->
  ready (y_kind y) (fst (step (y_tc y) o)) = true ->
  exists r, y_w (sys_step (sys_step y (ESignal o)) EWaiter) = Done r /\ r <> WTimeout /\
            r = snd (waiter_return (y_kind y) (fst (step (y_tc y) o))).
Check C12_woken_then_returns_reachable : forall w c k d es o,
  let y := sys_run (sys_init w c k d) es in
  y_w y = Parked -> ready k (fst (step (y_tc y) o)) = true ->
  exists r, y_w (sys_step (sys_step y (ESignal o)) EWaiter) = Done r /\ r <> WTimeout.
Check C12_done_stable : forall es y r, y_w y = Done r -> y_w (sys_run y es) = Done r.
Check C12_holds : forall w c k pre ops, ok_C12 w c k pre ops (model_C12 w c k pre ops) = true.
Check C12_oracle_rejects_lost_wakeup : forall k s o ops obs,
  ready k (fst (step s o)) = true -> check12 k s false (o :: ops) (StillParked :: obs) = false.

Print Assumptions C12_ready_needs_notify.
Print Assumptions C12_no_lost_wakeup.
Print Assumptions C12_waiter_step_spec.
Print Assumptions C12_returns_right_value.
Print Assumptions C12_timeout_not_early.
Print Assumptions C12_timeout_enabled.
Print Assumptions C12_timeout_enabled_return.
Print Assumptions C12_timeout_parked_then_returns.
Print Assumptions C12_woken_then_returns.
Print Assumptions C12_woken_then_returns_reachable.
Print Assumptions C12_done_stable.
Print Assumptions C12_holds.
Print Assumptions C12_oracle_rejects_lost_wakeup.

(** the atomicity of check-and-park is what the theorems above rest on: if the predicate is
    evaluated under one hold of the mutex and the park happens under another
    (Model/CondvarSplit.v), there is a schedule after which the waiter is parked although its
    condition holds and the notifying operation has already run *)
Theorem C12_split_check_loses_wakeup :
  let z := sys2_run (sys2_init 4 8 (WCredit 2)) lost_wakeup_schedule in
  z_w z = Parked2 /\ ready (z_kind z) (z_tc z) = true /\
  notifies (z_tc (sys2_run (sys2_init 4 8 (WCredit 2)) [ESignal2 (Sent 10); EWaiter2])) (Ack 0 10) = true.
Proof. vm_compute. repeat split. Qed.
Check C12_split_check_loses_wakeup :
  let z := sys2_run (sys2_init 4 8 (WCredit 2)) lost_wakeup_schedule in
  z_w z = Parked2 /\ ready (z_kind z) (z_tc z) = true /\
  notifies (z_tc (sys2_run (sys2_init 4 8 (WCredit 2)) [ESignal2 (Sent 10); EWaiter2])) (Ack 0 10) = true.
Print Assumptions C12_split_check_loses_wakeup.

(** ** tie to the source text (see Props/C11.v): the [notified] flag of the
    re-translated body of every signalling method is the model's [notifies], and
    one iteration of the re-translated loop of each waiting method returns
    exactly when [ready] holds or the deadline has passed, with the value of
    [waiter_return], and otherwise parks with the state unchanged. *)
From RepeV Require Import Base.GenPrelude Gen.StreamGen Proofs.StreamGenAgree.

Theorem C12_source_translation :
  (match gen_record_sent with Some f => forall s n, snd (f s n) = notifies s (Sent n) | None => True end /\
   match gen_record_ack with Some f => forall s fi n, snd (f s fi n) = notifies s (Ack fi n) | None => True end /\
   match gen_cancel with Some f => forall s r, snd (f s r) = notifies s (Cancel r) | None => True end /\
   match gen_advance_to_file with Some f => forall s fi, snd (f s fi) = notifies s (Advance fi) | None => True end /\
   match gen_request_resume with Some f => forall s p fi n, snd (f s p fi n) = notifies s (Resume p fi n) | None => True end /\
   match gen_push_replay with Some f => forall s off len lst body, snd (f s off len lst body) = notifies s (Push off len lst body) | None => True end /\
   match gen_set_peer with Some f => forall s p, snd (f s p) = notifies s (SetPeer p) | None => True end /\
   match gen_replay_chunks_from with Some f => forall s n, snd (f s n) = notifies s (Replay n) | None => True end) /\
  match gen_wait_for_credit with
  | Some f => forall s len expired, t_window s < two64 ->
      let '(s', i, nt) := f s len expired in
      s' = s /\ nt = false /\ returned i = ready (WCredit len) s || expired /\
      (ready (WCredit len) s = true -> iter_map wres_of_credit i = Some (snd (waiter_return (WCredit len) s))) /\
      (ready (WCredit len) s = false -> i = if expired then Ret (RErr CE_Timeout) else Park)
  | None => True
  end /\
  match gen_wait_for_reconnect with
  | Some f => forall s expired,
      let '(s', i, nt) := f s expired in
      nt = false /\ returned i = ready WReconnect s || expired /\
      (ready WReconnect s = true ->
       exists v, i = Ret v /\ (s', wres_of_reconnect v) = waiter_return WReconnect s) /\
      (ready WReconnect s = false -> s' = s /\ i = if expired then Ret RO_Timeout else Park)
  | None => True
  end /\
  match gen_wait_for_reconnect with
  | Some f => forall s,
      let '(s', i, nt) := f s true in
      (s', iter_map out_of_reconnect i, nt) = (fst (step s TryReconnect), Some (snd (step s TryReconnect)), false)
  | None => True
  end.
Proof.
  exact (conj notified_agrees (conj wait_for_credit_iteration (conj wait_for_reconnect_iteration wait_for_reconnect_expired))).
Qed.

Check C12_source_translation :
  (match gen_record_sent with Some f => forall s n, snd (f s n) = notifies s (Sent n) | None => True end /\
   match gen_record_ack with Some f => forall s fi n, snd (f s fi n) = notifies s (Ack fi n) | None => True end /\
   match gen_cancel with Some f => forall s r, snd (f s r) = notifies s (Cancel r) | None => True end /\
   match gen_advance_to_file with Some f => forall s fi, snd (f s fi) = notifies s (Advance fi) | None => True end /\
   match gen_request_resume with Some f => forall s p fi n, snd (f s p fi n) = notifies s (Resume p fi n) | None => True end /\
   match gen_push_replay with Some f => forall s off len lst body, snd (f s off len lst body) = notifies s (Push off len lst body) | None => True end /\
   match gen_set_peer with Some f => forall s p, snd (f s p) = notifies s (SetPeer p) | None => True end /\
   match gen_replay_chunks_from with Some f => forall s n, snd (f s n) = notifies s (Replay n) | None => True end) /\
  match gen_wait_for_credit with
  | Some f => forall s len expired, t_window s < two64 ->
      let '(s', i, nt) := f s len expired in
      s' = s /\ nt = false /\ returned i = ready (WCredit len) s || expired /\
      (ready (WCredit len) s = true -> iter_map wres_of_credit i = Some (snd (waiter_return (WCredit len) s))) /\
      (ready (WCredit len) s = false -> i = if expired then Ret (RErr CE_Timeout) else Park)
  | None => True
  end /\
  match gen_wait_for_reconnect with
  | Some f => forall s expired,
      let '(s', i, nt) := f s expired in
      nt = false /\ returned i = ready WReconnect s || expired /\
      (ready WReconnect s = true ->
       exists v, i = Ret v /\ (s', wres_of_reconnect v) = waiter_return WReconnect s) /\
      (ready WReconnect s = false -> s' = s /\ i = if expired then Ret RO_Timeout else Park)
  | None => True
  end /\
  match gen_wait_for_reconnect with
  | Some f => forall s,
      let '(s', i, nt) := f s true in
      (s', iter_map out_of_reconnect i, nt) = (fst (step s TryReconnect), Some (snd (step s TryReconnect)), false)
  | None => True
  end.

Print Assumptions C12_source_translation.
