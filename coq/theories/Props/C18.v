(** C18 — Peer registry: the peer map, the forward alias map and the reverse
    alias index (one mutex) refine the specification "present peers + one list
    of (key, id) assignments in assignment order, each key at most once".
    This file contains only statements (closed by [exact]), their pins and
    their assumptions. *)
From RepeV Require Import Model.Peers Proofs.PeersProofs.

(** the concrete registry and the specification produce the same observations
    (results, len, get, get_by, aliases_for, key_for) after every operation of
    every history, over every universe of ids and keys *)
Theorem C18_refines : forall ids keys ops, model_C18 ids keys ops = spec_C18 ids keys ops.
Proof. exact model_refines_spec. Qed.

(** the executable oracle (also applied to the implementation's observations)
    accepts the model on every history *)
Theorem C18_holds : forall ids keys ops, ok_C18 ids keys ops (model_C18 ids keys ops) = true.
Proof. exact ok_model_C18. Qed.

(** ** readable consequences, on the specification side *)

(** attaching a key to a present peer makes the key resolve to it and changes
    no other key *)
Theorem C18_lookup_after_alias : forall s id k,
  spec_inv s -> memN id (s_present s) = true ->
  let s' := fst (sstep s (PAlias id k)) in
  sp_lookup s' k = Some id /\ (forall k', k' <> k -> sp_lookup s' k' = sp_lookup s k').
Proof. intros s id k _ Hp. exact (spec_lookup_after_alias s id k Hp). Qed.

(** an alias for an absent peer is refused and changes nothing *)
Theorem C18_alias_absent_peer_refused : forall s id k,
  memN id (s_present s) = false -> sstep s (PAlias id k) = (s, PBool false).
Proof. exact spec_alias_absent. Qed.

(** a peer's alias list is exactly the set of keys that resolve to it *)
Theorem C18_alias_list_exact : forall s id k,
  spec_inv s -> (In k (sp_aliases_for s id) <-> sp_lookup s k = Some id).
Proof. exact spec_alias_list_exact. Qed.

(** removing a peer drops exactly the keys it owns *)
Theorem C18_remove_only_own_keys : forall s id k,
  spec_inv s ->
  let s' := fst (sstep s (PRemove id)) in
  sp_lookup s' k = (match sp_lookup s k with
                    | Some owner => if owner =? id then None else Some owner
                    | None => None
                    end).
Proof. intros s id k I. exact (spec_remove_lookup s id k I). Qed.

(** re-pointing a key takes it off the previous owner's list and appends it
    to the new owner's list *)
Theorem C18_repoint_moves_key : forall s id id' k,
  spec_inv s -> sp_lookup s k = Some id -> id' <> id -> memN id' (s_present s) = true ->
  let s' := fst (sstep s (PAlias id' k)) in
  ~ In k (sp_aliases_for s' id) /\ sp_aliases_for s' id' = sp_aliases_for s id' ++ [k].
Proof. intros s id id' k I L Hne Hp. exact (spec_repoint s id id' k I L Hne Hp). Qed.

(** a broadcast reaches exactly the present peers and changes nothing *)
Theorem C18_broadcast_exactly_present : forall s, sstep s PBroadcast = (s, PIds (s_present s)).
Proof. reflexivity. Qed.

(** the invariant assumed above holds in every reachable specification state *)
Theorem C18_spec_inv_reachable : forall ops,
  spec_inv (fold_left (fun s o => fst (sstep s o)) ops pspec_empty).
Proof. intros ops. exact (spec_inv_reachable ops pspec_empty spec_inv_empty). Qed.

(** non-vacuity: a history with two attachments, a re-pointing (key 10 moves
    from peer 1 to peer 2), a refused alias for the absent peer 3, a broadcast,
    the removal of peer 1 (its remaining key 11 stops resolving, key 10 now
    owned by peer 2 survives), a re-attachment and the removal of an absent
    peer; observed over ids 1,2,3 and keys 10,11,12 *)
Definition c18_ops : list pop :=
  [PInsert 2; PInsert 1; PAlias 1 10; PAlias 1 11; PAlias 2 10; PAlias 3 12; PBroadcast;
   PRemove 1; PAlias 2 11; PRemove 3].

Example C18_nonvacuous_results :
  map b_out (model_C18 [1; 2; 3] [10; 11; 12] c18_ops)
  = [PUnit; PUnit; PBool true; PBool true; PBool true; PBool false; PIds [1; 2]; PBool true;
     PBool true; PBool false].
Proof. vm_compute. reflexivity. Qed.

Example C18_nonvacuous_by_key :
  map b_by_key (model_C18 [1; 2; 3] [10; 11; 12] c18_ops)
  = [[None; None; None]; [None; None; None]; [Some 1; None; None]; [Some 1; Some 1; None];
     [Some 2; Some 1; None]; [Some 2; Some 1; None]; [Some 2; Some 1; None]; [Some 2; None; None];
     [Some 2; Some 2; None]; [Some 2; Some 2; None]].
Proof. vm_compute. reflexivity. Qed.

Example C18_nonvacuous_aliases :
  map b_aliases (model_C18 [1; 2; 3] [10; 11; 12] c18_ops)
  = [[[]; []; []]; [[]; []; []]; [[10]; []; []]; [[10; 11]; []; []]; [[11]; [10]; []];
     [[11]; [10]; []]; [[11]; [10]; []]; [[]; [10]; []]; [[]; [10; 11]; []]; [[]; [10; 11]; []]].
Proof. vm_compute. reflexivity. Qed.

Example C18_nonvacuous_key_for_len :
  map (fun b => (b_key_for b, b_len b)) (model_C18 [1; 2; 3] [10; 11; 12] c18_ops)
  = [([None; None; None], 1); ([None; None; None], 2); ([Some 10; None; None], 2);
     ([Some 10; None; None], 2); ([Some 11; Some 10; None], 2); ([Some 11; Some 10; None], 2);
     ([Some 11; Some 10; None], 2); ([None; Some 10; None], 1); ([None; Some 10; None], 1);
     ([None; Some 10; None], 1)].
Proof. vm_compute. reflexivity. Qed.

(** the concrete registry after the re-pointing: both index entries live, and
    after re-pointing peer 1's last key away its index entry stays, empty *)
Example C18_nonvacuous_state :
  fold_left (fun c o => fst (pstep c o)) (firstn 5 c18_ops) preg_empty
  = mkPreg [1; 2] [(10, 2); (11, 1)] [(1, [11]); (2, [10])] /\
  fold_left (fun c o => fst (pstep c o)) [PInsert 1; PInsert 2; PAlias 1 10; PAlias 2 10] preg_empty
  = mkPreg [1; 2] [(10, 2)] [(1, []); (2, [10])].
Proof. vm_compute. split; reflexivity. Qed.

(** the oracle is not trivially true: it rejects a trace in which the removal
    of peer 1 also dropped key 10, which peer 2 owns by then *)
Example C18_oracle_rejects :
  let ops := [PInsert 1; PInsert 2; PAlias 1 10; PAlias 2 10; PRemove 1] in
  let tr := model_C18 [1; 2] [10] ops in
  ok_C18 [1; 2] [10] ops tr = true /\
  ok_C18 [1; 2] [10] ops
    (firstn 4 tr ++ [mkPobs (PBool true) 1 [false; true] [None] [[]; []] [None; None]]) = false.
Proof. vm_compute. split; reflexivity. Qed.

(** the hypotheses of the readable consequences are satisfiable together *)
Example C18_nonvacuous_repoint :
  let s := fold_left (fun s o => fst (sstep s o)) [PInsert 1; PInsert 2; PAlias 1 10; PAlias 1 11] pspec_empty in
  sp_lookup s 10 = Some 1 /\ memN 2 (s_present s) = true /\
  sp_aliases_for (fst (sstep s (PAlias 2 10))) 1 = [11] /\
  sp_aliases_for (fst (sstep s (PAlias 2 10))) 2 = [10] /\
  sp_lookup (fst (sstep (fst (sstep s (PAlias 2 10))) (PRemove 1))) 10 = Some 2 /\
  sp_lookup (fst (sstep (fst (sstep s (PAlias 2 10))) (PRemove 1))) 11 = None.
Proof. vm_compute. repeat split; reflexivity. Qed.

Check C18_refines : forall ids keys ops, model_C18 ids keys ops = spec_C18 ids keys ops.
Check C18_holds : forall ids keys ops, ok_C18 ids keys ops (model_C18 ids keys ops) = true.
Check C18_lookup_after_alias : forall s id k,
  spec_inv s -> memN id (s_present s) = true ->
  let s' := fst (sstep s (PAlias id k)) in
  sp_lookup s' k = Some id /\ (forall k', k' <> k -> sp_lookup s' k' = sp_lookup s k').
Check C18_alias_absent_peer_refused : forall s id k,
  memN id (s_present s) = false -> sstep s (PAlias id k) = (s, PBool false).
Check C18_alias_list_exact : forall s id k,
  spec_inv s -> (In k (sp_aliases_for s id) <-> sp_lookup s k = Some id).
Check C18_remove_only_own_keys : forall s id k,
  spec_inv s ->
  let s' := fst (sstep s (PRemove id)) in
  sp_lookup s' k = (match sp_lookup s k with
                    | Some owner => if owner =? id then None else Some owner
                    | None => None
                    end).
Check C18_repoint_moves_key : forall s id id' k,
  spec_inv s -> sp_lookup s k = Some id -> id' <> id -> memN id' (s_present s) = true ->
  let s' := fst (sstep s (PAlias id' k)) in
  ~ In k (sp_aliases_for s' id) /\ sp_aliases_for s' id' = sp_aliases_for s id' ++ [k].
Check C18_broadcast_exactly_present : forall s, sstep s PBroadcast = (s, PIds (s_present s)).
Check C18_spec_inv_reachable : forall ops,
  spec_inv (fold_left (fun s o => fst (sstep s o)) ops pspec_empty).

(** [spec_inv] is the plain statement "each key is assigned at most once" *)
Check (eq_refl : spec_inv = fun s => NoDup (map fst (s_assign s))).

Print Assumptions C18_refines.
Print Assumptions C18_holds.
Print Assumptions C18_lookup_after_alias.
Print Assumptions C18_alias_absent_peer_refused.
Print Assumptions C18_alias_list_exact.
Print Assumptions C18_remove_only_own_keys.
Print Assumptions C18_repoint_moves_key.
Print Assumptions C18_broadcast_exactly_present.
Print Assumptions C18_spec_inv_reachable.

(** ** the methods of the model are the ones re-translated from the Rust source on this run
    (bin/rs2v, critical-section mode: Gen/PeersGen.v, Proofs/PeersGenAgree.v).  A rendered method is a
    [plan]; [run p s] gives the final state, the peers [send_notify] was called on (in order), the
    number of critical sections and the value.  Every method is ONE critical section -- the model's
    step or query --, and the broadcast snapshots the handles in that one section and then sends to
    exactly the snapshotted peers, once each, outside the lock. *)
From RepeV Require Import Base.GenPeersPrelude Gen.PeersGen Proofs.PeersGenAgree.

Theorem C18_source_translation :
  match gen_peer_insert with Some f => forall s id, run (f id) s = (fst (pstep s (PInsert id)), [], 1%nat, tt) | None => True end /\
  match gen_peer_remove with Some f => forall s id, run (f id) s = (fst (pstep s (PRemove id)), [], 1%nat, found s id) | None => True end /\
  match gen_peer_alias with
  | Some f => forall s id key, run (f id key) s = (fst (pstep s (PAlias id key)), [], 1%nat, pbool (snd (pstep s (PAlias id key))))
  | None => True
  end /\
  match gen_peer_get with Some f => forall s id, run (f id) s = (s, [], 1%nat, found s id) | None => True end /\
  match gen_peer_get_by with Some f => forall s key, run (f key) s = (s, [], 1%nat, q_get_by s key) | None => True end /\
  match gen_peer_key_for with Some f => forall s id, run (f id) s = (s, [], 1%nat, q_key_for s id) | None => True end /\
  match gen_peer_aliases_for with Some f => forall s id, run (f id) s = (s, [], 1%nat, q_aliases_for s id) | None => True end /\
  match gen_peer_len with Some f => forall s, run f s = (s, [], 1%nat, q_len s) | None => True end /\
  match gen_peer_peers with Some f => forall s, run f s = (s, [], 1%nat, p_peers s) | None => True end /\
  match gen_peer_broadcast_each with
  | Some f => forall s, ssorted (p_peers s) = true -> run f s = (s, p_peers s, 1%nat, p_peers s)
  | None => True
  end.
Proof. exact c18_source_translation. Qed.

Theorem C18_source_translation_model :
  (forall s id, snd (pstep s (PRemove id)) = PBool (opt_is_some (found s id))) /\
  (forall s id key, exists b, snd (pstep s (PAlias id key)) = PBool b) /\
  (forall s, pstep s PBroadcast = (s, PIds (p_peers s))) /\
  (forall ops, ssorted (p_peers (fold_left (fun c o => fst (pstep c o)) ops preg_empty)) = true).
Proof. exact c18_source_translation_model. Qed.

Check C18_source_translation :
  match gen_peer_insert with Some f => forall s id, run (f id) s = (fst (pstep s (PInsert id)), [], 1%nat, tt) | None => True end /\
  match gen_peer_remove with Some f => forall s id, run (f id) s = (fst (pstep s (PRemove id)), [], 1%nat, found s id) | None => True end /\
  match gen_peer_alias with
  | Some f => forall s id key, run (f id key) s = (fst (pstep s (PAlias id key)), [], 1%nat, pbool (snd (pstep s (PAlias id key))))
  | None => True
  end /\
  match gen_peer_get with Some f => forall s id, run (f id) s = (s, [], 1%nat, found s id) | None => True end /\
  match gen_peer_get_by with Some f => forall s key, run (f key) s = (s, [], 1%nat, q_get_by s key) | None => True end /\
  match gen_peer_key_for with Some f => forall s id, run (f id) s = (s, [], 1%nat, q_key_for s id) | None => True end /\
  match gen_peer_aliases_for with Some f => forall s id, run (f id) s = (s, [], 1%nat, q_aliases_for s id) | None => True end /\
  match gen_peer_len with Some f => forall s, run f s = (s, [], 1%nat, q_len s) | None => True end /\
  match gen_peer_peers with Some f => forall s, run f s = (s, [], 1%nat, p_peers s) | None => True end /\
  match gen_peer_broadcast_each with
  | Some f => forall s, ssorted (p_peers s) = true -> run f s = (s, p_peers s, 1%nat, p_peers s)
  | None => True
  end.
Check C18_source_translation_model :
  (forall s id, snd (pstep s (PRemove id)) = PBool (opt_is_some (found s id))) /\
  (forall s id key, exists b, snd (pstep s (PAlias id key)) = PBool b) /\
  (forall s, pstep s PBroadcast = (s, PIds (p_peers s))) /\
  (forall ops, ssorted (p_peers (fold_left (fun c o => fst (pstep c o)) ops preg_empty)) = true).

(** the definitions used above are the plain ones *)
Check (eq_refl : found = fun s id => if q_get s id then Some id else None).
Check (eq_refl : pbool = fun o => match o with PBool b => b | _ => false end).
Check (eq_refl : ssorted = fix ssorted (l : list N) : bool :=
  match l with
  | x :: ((y :: _) as l') => (x <? y) && ssorted l'
  | _ => true
  end).
Check (eq_refl : @run = fix run (R : Type) (p : plan R) (s : preg) {struct p} : preg * list N * nat * R :=
  match p with
  | PDone r => (s, [], O, r)
  | PStep f => let '(s', p') := f s in let '(s'', sends, n, r) := run R p' s' in (s'', sends, S n, r)
  | PSend id p' => let '(s', sends, n, r) := run R p' s in (s', id :: sends, n, r)
  end).

Print Assumptions C18_source_translation.
Print Assumptions C18_source_translation_model.
