(** C10 — A failed or interrupted pull never publishes a file, and never a
    partial one.  Statements about the model of the pull-to-file commit path
    (Model/SvsCommit.v): [write_file] / [TempFile], the trailer-verified and the
    async consumers, [TrailerHold], [run_pull].  This file contains only
    statements (closed by [exact] or a one-line application), their pins, their
    assumptions and non-vacuity examples.

    Not claimed: durability after power loss (the reason for [sync_all]) — the
    model gives [SSync] no observable effect and nothing here depends on it. *)
From RepeV Require Import Model.SvsCommit Proofs.SvsCommitProofs.

(** crash anywhere.  For every pull (every segmentation of the received content,
    every ending, every verifier verdict, blocking or async), every split of its
    step list into an executed prefix and a never-executed rest, and every
    initial file system: if the rename is not in the prefix the destination is
    what it was; if it is, the destination is the complete content (trailer
    stripped) and the pull is one that reports success. *)
Theorem C10_dst_old_or_complete : forall p pre suf s0,
  fst (protocol p) = pre ++ suf ->
  (~ In SRename pre -> f_dst (apply_steps pre s0) = f_dst s0) /\
  (In SRename pre ->
     f_dst (apply_steps pre s0) = Some (stripped (pr_trailer p) (content p)) /\
     snd (protocol p) = ROk).
Proof. exact protocol_crash_safe. Qed.

(** a kill at the n-th hit of any probe point other than [svs.after_rename]
    executes a prefix without the rename: the destination is what it was *)
Theorem C10_kill_before_rename_keeps_dst : forall p q n pre s0,
  cut_at q n (fst (protocol p)) = Some pre -> q <> PAfterRename ->
  f_dst (apply_steps pre s0) = f_dst s0.
Proof. intros p q n pre s0 C Hq. apply dst_preserved. exact (kill_before_rename p q n pre C Hq). Qed.

(** every in-process failure (producer failure or lost connection after any
    number of responses, rejecting verifier, stream shorter than the trailer):
    destination unchanged, temp file absent *)
Theorem C10_failure_leaves_dst_and_no_temp : forall p s0,
  snd (protocol p) = RErr -> apply_steps (fst (protocol p)) s0 = mkFs (f_dst s0) None.
Proof. exact protocol_failure. Qed.

(** success publishes exactly the complete content, trailer stripped, leaves no
    temp file, and is reported only for a stream that ended with [last], is at
    least as long as the trailer and was not rejected *)
Theorem C10_success_publishes_exact_content : forall p s0,
  snd (protocol p) = ROk ->
  apply_steps (fst (protocol p)) s0 = mkFs (Some (stripped (pr_trailer p) (content p))) None /\
  pr_clean p = true /\ pr_reject p = false /\ short_for (pr_trailer p) (content p) = false.
Proof. exact protocol_success. Qed.

(** a pull only ever reports ok or error *)
Theorem C10_result_ok_or_err : forall p, snd (protocol p) = ROk \/ snd (protocol p) = RErr.
Proof. exact protocol_result. Qed.

(** TrailerHold over any sequence of writes: forwarded ++ held is everything
    written and exactly min(n, total) bytes are held *)
Theorem C10_trailer_hold_split : forall n writes,
  concat (fst (hold_run n [] writes)) ++ snd (hold_run n [] writes) = concat writes /\
  length (snd (hold_run n [] writes)) = Nat.min n (length (concat writes)).
Proof. exact trailer_hold_split. Qed.

(** hence, for a stream at least as long as the trailer, the file receives the
    payload without its last n bytes and the trailer is those n bytes, for every
    segmentation *)
Theorem C10_trailer_hold_committed : forall n writes, (n <= length (concat writes))%nat ->
  concat (fst (hold_run n [] writes)) = firstn (length (concat writes) - n) (concat writes) /\
  snd (hold_run n [] writes) = skipn (length (concat writes) - n) (concat writes).
Proof. exact trailer_hold_committed. Qed.

(** [into_trailer] errors iff the stream is shorter than the trailer *)
Theorem C10_short_stream_errors : forall n writes,
  into_trailer_errors n (snd (hold_run n [] writes)) = (length (concat writes) <? n)%nat.
Proof. exact short_stream_errors. Qed.

(** the protocol model's fill phase is TrailerHold run over the received pieces *)
Theorem C10_fill_is_trailer_hold : forall n ps,
  writes_of (fst (fill (Some n) [] ps)) = concat (fst (hold_run n [] ps)) /\
  snd (fill (Some n) [] ps) = snd (hold_run n [] ps).
Proof. intros n ps. exact (fill_hold_run n ps [] (Nat.le_0_l n)). Qed.

(** [run_pull]: when the pull failed the result is the error, whatever the
    consumer returned *)
Theorem C10_run_pull_error_first : forall (V : Type) (v : option V), run_pull false v = None.
Proof. exact @run_pull_truncated. Qed.

(** a value pull whose stream did not end with [last] is an error and yields no value *)
Theorem C10_value_pull_errors_on_truncation : forall c,
  is_value (c_puller c) = true -> snd (recv c) = false ->
  o_res (model_C10 c) = RErr /\ o_dst (model_C10 c) = None.
Proof. exact value_truncated_errors. Qed.

(** result and final file system of an in-process pull depend on the received
    content, not on how it was cut into pieces *)
Theorem C10_obs_segmentation_independent : forall p p' s0,
  concat (pr_pieces p) = concat (pr_pieces p') ->
  pr_clean p = pr_clean p' -> pr_trailer p = pr_trailer p' -> pr_reject p = pr_reject p' ->
  snd (protocol p) = snd (protocol p') /\
  apply_steps (fst (protocol p)) s0 = apply_steps (fst (protocol p')) s0.
Proof. exact protocol_segmentation_independent. Qed.

(** on cases: whatever must fail (producer failure, connection cut before the
    last response, rejecting verifier, trailer longer than the stream) does not
    report success *)
Theorem C10_must_fail_fails : forall c,
  c10_wf c = true -> must_fail c = true -> o_res (model_C10 c) <> ROk.
Proof. exact case_must_fail. Qed.

(** on cases: a failed file pull leaves the destination as it was (absent stays
    absent) and no temp file *)
Theorem C10_case_failure : forall c,
  is_value (c_puller c) = false -> o_res (model_C10 c) = RErr ->
  o_dst (model_C10 c) = c_dst c /\ o_tmp (model_C10 c) = false.
Proof. exact case_failure. Qed.

(** on cases: a successful file pull published the expected content *)
Theorem C10_case_success : forall c,
  c10_wf c = true -> is_value (c_puller c) = false -> o_res (model_C10 c) = ROk ->
  o_dst (model_C10 c) = Some (expected c) /\ o_tmp (model_C10 c) = false /\ must_fail c = false.
Proof. exact case_success. Qed.

(** the executable oracle (also applied to the implementation's observations)
    accepts the model on every well-formed case *)
Theorem C10_holds : forall c, c10_wf c = true -> ok_C10 c (model_C10 c) = true.
Proof. exact ok_model_C10. Qed.

(** ** non-vacuity *)

Definition ex_stream : bytes := [1; 2; 3; 4; 5; 6; 7; 8; 9; 10].
Definition ex_case (pu : puller) (tr : N) (dst : option bytes) (f : fault) : case :=
  mkCase pu ex_stream ex_stream false 4 tr dst (Some [99]) f.

(** the step list of a clean trailer pull: chunks 4,4,2, trailer 3 *)
Example C10_ex_steps :
  protocol (proto_of (ex_case PuTrailer 3 None FNone)) =
  ([SCreate; SProbe PAfterCreate;
    SProbe PFetch; SWrite [1]; SProbe PFetch; SWrite [2; 3; 4]; SWrite [5];
    SProbe PFetch; SWrite [6; 7];
    SProbe PBeforeFlush; SFlush; SProbe PBeforeSync; SSync;
    SProbe PBeforeRename; SRename; SProbe PAfterRename], ROk).
Proof. vm_compute. reflexivity. Qed.

(** success over an existing destination and a stale temp file: payload without
    the 3-byte trailer, temp gone *)
Example C10_ex_success :
  c10_wf (ex_case PuTrailer 3 (Some [7; 7]) FNone) = true /\
  model_C10 (ex_case PuTrailer 3 (Some [7; 7]) FNone) = mkObs ROk (Some [1; 2; 3; 4; 5; 6; 7]) false.
Proof. vm_compute. split; reflexivity. Qed.

(** every kind of failure leaves the old content and removes the temp file *)
Example C10_ex_failures :
  map (fun f => model_C10 (ex_case PuATrailer 3 (Some [7; 7]) f))
      [FProducer 9; FCut 0; FCut 2; FReject]
  = repeat (mkObs RErr (Some [7; 7]) false) 4 /\
  model_C10 (ex_case PuTrailer 11 None FNone) = mkObs RErr None false /\
  model_C10 (ex_case PuFile 0 None (FCut 3)) = mkObs ROk (Some ex_stream) false.
Proof. vm_compute. repeat split; reflexivity. Qed.

(** kills: before the rename the destination is old and the temp file is left
    behind; after it the destination is complete; a hit count that is never
    reached lets the pull finish *)
Example C10_ex_kills :
  map (fun pn => model_C10 (ex_case PuFile 0 (Some [7; 7]) (FKill (fst pn) (snd pn))))
      [(PAfterCreate, 1); (PFetch, 1); (PFetch, 3); (PFetch, 4); (PBeforeFlush, 1); (PBeforeSync, 1);
       (PBeforeRename, 1); (PAfterRename, 1); (PBeforeRename, 2)]
  = [mkObs RKilled (Some [7; 7]) true; mkObs RKilled (Some [7; 7]) true; mkObs RKilled (Some [7; 7]) true;
     mkObs ROk (Some ex_stream) false; mkObs RKilled (Some [7; 7]) true; mkObs RKilled (Some [7; 7]) true;
     mkObs RKilled (Some [7; 7]) true; mkObs RKilled (Some ex_stream) false; mkObs ROk (Some ex_stream) false].
Proof. vm_compute. reflexivity. Qed.

(** the hypotheses of the crash theorem are satisfiable on both sides: a prefix
    without and a prefix with the rename *)
Example C10_ex_prefixes :
  let p := proto_of (ex_case PuFile 0 (Some [7; 7]) FNone) in
  let s0 := mkFs (Some [7; 7]) None in
  apply_steps (firstn 6 (fst (protocol p))) s0 = mkFs (Some [7; 7]) (Some [1; 2; 3; 4; 5; 6; 7; 8]) /\
  ~ In SRename (firstn 6 (fst (protocol p))) /\
  In SRename (firstn 14 (fst (protocol p))) /\
  apply_steps (firstn 14 (fst (protocol p))) s0 = mkFs (Some ex_stream) None.
Proof.
  vm_compute. repeat split; try reflexivity.
  - intros H. repeat (destruct H as [H|H]; [discriminate|]). exact H.
  - do 13 right. left. reflexivity.
Qed.

(** TrailerHold across three segmentations of the same 10 bytes, n = 3, and a short stream *)
Example C10_ex_hold :
  map (fun ws => let r := hold_run 3 [] ws in (concat (fst r), snd r))
      [[ex_stream]; [[1]; [2]; [3]; [4]; [5]; [6]; [7]; [8]; [9]; [10]]; [[1; 2]; [3; 4; 5; 6; 7]; [8]; [9; 10]]]
  = repeat ([1; 2; 3; 4; 5; 6; 7], [8; 9; 10]) 3 /\
  into_trailer_errors 3 (snd (hold_run 3 [] [[1]; [2]])) = true.
Proof. vm_compute. split; reflexivity. Qed.

(** value pulls: complete -> the value; truncated -> an error, although the
    async consumer of the model did build a value from the truncated input *)
Example C10_ex_value :
  let c f := mkCase PuAValue ex_stream ex_stream false 4 0 None None f in
  model_C10 (c FNone) = mkObs ROk (Some ex_stream) false /\
  model_C10 (c (FCut 2)) = mkObs RErr None false /\
  snd (recv (c (FCut 2))) = false /\
  concat (firstn (fst (recv (c (FCut 2)))) (pieces (c (FCut 2)))) = [1; 2; 3; 4; 5; 6; 7; 8].
Proof. vm_compute. repeat split; reflexivity. Qed.

(** the oracle is not trivially true: it rejects a partial file published under
    "ok", a published file after a cut stream, a destination touched by a
    failure, a temp file left by a failure, a partial destination after a kill,
    a complete destination after a kill before the rename, and a value returned
    from a truncated stream *)
Example C10_oracle_rejects :
  let c f := ex_case PuFile 0 (Some [7; 7]) f in
  ok_C10 (c FNone) (mkObs ROk (Some ex_stream) false) = true /\
  ok_C10 (c FNone) (mkObs ROk (Some [1; 2; 3; 4]) false) = false /\
  ok_C10 (c (FCut 1)) (mkObs ROk (Some ex_stream) false) = false /\
  ok_C10 (c (FCut 1)) (mkObs RErr (Some [1; 2; 3; 4]) false) = false /\
  ok_C10 (c (FCut 1)) (mkObs RErr None false) = false /\
  ok_C10 (c (FCut 1)) (mkObs RErr (Some [7; 7]) true) = false /\
  ok_C10 (c (FKill PFetch 2)) (mkObs RKilled (Some [1; 2; 3; 4]) true) = false /\
  ok_C10 (c (FKill PBeforeRename 1)) (mkObs RKilled (Some ex_stream) false) = false /\
  ok_C10 (c (FKill PBeforeRename 1)) (mkObs RKilled (Some [7; 7]) true) = true /\
  ok_C10 (mkCase PuValue ex_stream ex_stream false 4 0 None None (FCut 2)) (mkObs ROk (Some [1; 2; 3; 4; 5; 6; 7; 8]) false) = false.
Proof. vm_compute. repeat split; reflexivity. Qed.

Check C10_dst_old_or_complete : forall p pre suf s0,
  fst (protocol p) = pre ++ suf ->
  (~ In SRename pre -> f_dst (apply_steps pre s0) = f_dst s0) /\
  (In SRename pre ->
     f_dst (apply_steps pre s0) = Some (stripped (pr_trailer p) (content p)) /\
     snd (protocol p) = ROk).
Check C10_kill_before_rename_keeps_dst : forall p q n pre s0,
  cut_at q n (fst (protocol p)) = Some pre -> q <> PAfterRename ->
  f_dst (apply_steps pre s0) = f_dst s0.
Check C10_failure_leaves_dst_and_no_temp : forall p s0,
  snd (protocol p) = RErr -> apply_steps (fst (protocol p)) s0 = mkFs (f_dst s0) None.
Check C10_success_publishes_exact_content : forall p s0,
  snd (protocol p) = ROk ->
  apply_steps (fst (protocol p)) s0 = mkFs (Some (stripped (pr_trailer p) (content p))) None /\
  pr_clean p = true /\ pr_reject p = false /\ short_for (pr_trailer p) (content p) = false.
Check C10_result_ok_or_err : forall p, snd (protocol p) = ROk \/ snd (protocol p) = RErr.
Check C10_trailer_hold_split : forall n writes,
  concat (fst (hold_run n [] writes)) ++ snd (hold_run n [] writes) = concat writes /\
  length (snd (hold_run n [] writes)) = Nat.min n (length (concat writes)).
Check C10_trailer_hold_committed : forall n writes, (n <= length (concat writes))%nat ->
  concat (fst (hold_run n [] writes)) = firstn (length (concat writes) - n) (concat writes) /\
  snd (hold_run n [] writes) = skipn (length (concat writes) - n) (concat writes).
Check C10_short_stream_errors : forall n writes,
  into_trailer_errors n (snd (hold_run n [] writes)) = (length (concat writes) <? n)%nat.
Check C10_fill_is_trailer_hold : forall n ps,
  writes_of (fst (fill (Some n) [] ps)) = concat (fst (hold_run n [] ps)) /\
  snd (fill (Some n) [] ps) = snd (hold_run n [] ps).
Check C10_run_pull_error_first : forall (V : Type) (v : option V), run_pull false v = None.
Check C10_value_pull_errors_on_truncation : forall c,
  is_value (c_puller c) = true -> snd (recv c) = false ->
  o_res (model_C10 c) = RErr /\ o_dst (model_C10 c) = None.
Check C10_obs_segmentation_independent : forall p p' s0,
  concat (pr_pieces p) = concat (pr_pieces p') ->
  pr_clean p = pr_clean p' -> pr_trailer p = pr_trailer p' -> pr_reject p = pr_reject p' ->
  snd (protocol p) = snd (protocol p') /\
  apply_steps (fst (protocol p)) s0 = apply_steps (fst (protocol p')) s0.
Check C10_must_fail_fails : forall c,
  c10_wf c = true -> must_fail c = true -> o_res (model_C10 c) <> ROk.
Check C10_case_failure : forall c,
  is_value (c_puller c) = false -> o_res (model_C10 c) = RErr ->
  o_dst (model_C10 c) = c_dst c /\ o_tmp (model_C10 c) = false.
Check C10_case_success : forall c,
  c10_wf c = true -> is_value (c_puller c) = false -> o_res (model_C10 c) = ROk ->
  o_dst (model_C10 c) = Some (expected c) /\ o_tmp (model_C10 c) = false /\ must_fail c = false.
Check C10_holds : forall c, c10_wf c = true -> ok_C10 c (model_C10 c) = true.

(** the auxiliary notions of the statements are the plain ones *)
Check (eq_refl : stripped = fun tr l => match tr with Some n => firstn (length l - n) l | None => l end).
Check (eq_refl : short_for = fun tr l => match tr with Some n => (length l <? n)%nat | None => false end).
Check (eq_refl : content = fun p => concat (pr_pieces p)).
Check (eq_refl : writes_of = fix writes_of (l : list step) : bytes :=
  match l with [] => [] | SWrite b :: r => b ++ writes_of r | _ :: r => writes_of r end).

Print Assumptions C10_dst_old_or_complete.
Print Assumptions C10_kill_before_rename_keeps_dst.
Print Assumptions C10_failure_leaves_dst_and_no_temp.
Print Assumptions C10_success_publishes_exact_content.
Print Assumptions C10_result_ok_or_err.
Print Assumptions C10_trailer_hold_split.
Print Assumptions C10_trailer_hold_committed.
Print Assumptions C10_short_stream_errors.
Print Assumptions C10_fill_is_trailer_hold.
Print Assumptions C10_run_pull_error_first.
Print Assumptions C10_value_pull_errors_on_truncation.
Print Assumptions C10_obs_segmentation_independent.
Print Assumptions C10_must_fail_fails.
Print Assumptions C10_case_failure.
Print Assumptions C10_case_success.
Print Assumptions C10_holds.

(** ** TrailerHold is the one re-translated from the Rust source on this run (bin/rs2v,
    sinks-and-sessions mode: Gen/SvsGen.v, Proofs/SvsGenAgree.v).  The inner writer is the list of
    the [write_all] calls made on it ([iw_done]) with a budget of calls that succeed ([iw_left];
    [None]: it never fails -- the model has no failing write; [Some k]: the k+1-th call fails, and
    then [write] returns that error having made exactly the first k of the model's calls). *)
From RepeV Require Import Base.GenSvsPrelude Gen.SvsGen Proofs.SvsGenAgree.

Theorem C10_source_translation :
  match gen_hold_new with Some f => forall inner n, f inner n = Ok (mkHold inner [] n) | None => True end /\
  match gen_hold_into_trailer with
  | Some f => forall h n, th_trailer_len h = N.of_nat n ->
      f h = Ok (if into_trailer_errors n (th_hold h) then RErr IoUnexpectedEof else ROk (th_hold h))
  | None => True
  end /\
  match gen_hold_write with
  | Some f => forall h buf n, iw_left (th_inner h) = None -> th_trailer_len h = N.of_nat n ->
      f h buf = Ok (ROk (len_n buf),
                    mkHold (mkInner (iw_done (th_inner h) ++ fst (hold_write n (th_hold h) buf)) None)
                           (snd (hold_write n (th_hold h) buf)) (N.of_nat n))
  | None => True
  end /\
  match gen_hold_write with
  | Some f => forall h buf n k, iw_left (th_inner h) = Some k -> th_trailer_len h = N.of_nat n ->
      let ws := fst (hold_write n (th_hold h) buf) in
      if (length ws <=? k)%nat then
        f h buf = Ok (ROk (len_n buf),
                      mkHold (mkInner (iw_done (th_inner h) ++ ws) (Some (k - length ws)%nat)) (snd (hold_write n (th_hold h) buf)) (N.of_nat n))
      else exists hd, f h buf = Ok (RErr IoOther, mkHold (mkInner (iw_done (th_inner h) ++ firstn k ws) (Some O)) hd (N.of_nat n))
  | None => True
  end.
Proof. exact c10_source_translation. Qed.

Check C10_source_translation :
  match gen_hold_new with Some f => forall inner n, f inner n = Ok (mkHold inner [] n) | None => True end /\
  match gen_hold_into_trailer with
  | Some f => forall h n, th_trailer_len h = N.of_nat n ->
      f h = Ok (if into_trailer_errors n (th_hold h) then RErr IoUnexpectedEof else ROk (th_hold h))
  | None => True
  end /\
  match gen_hold_write with
  | Some f => forall h buf n, iw_left (th_inner h) = None -> th_trailer_len h = N.of_nat n ->
      f h buf = Ok (ROk (len_n buf),
                    mkHold (mkInner (iw_done (th_inner h) ++ fst (hold_write n (th_hold h) buf)) None)
                           (snd (hold_write n (th_hold h) buf)) (N.of_nat n))
  | None => True
  end /\
  match gen_hold_write with
  | Some f => forall h buf n k, iw_left (th_inner h) = Some k -> th_trailer_len h = N.of_nat n ->
      let ws := fst (hold_write n (th_hold h) buf) in
      if (length ws <=? k)%nat then
        f h buf = Ok (ROk (len_n buf),
                      mkHold (mkInner (iw_done (th_inner h) ++ ws) (Some (k - length ws)%nat)) (snd (hold_write n (th_hold h) buf)) (N.of_nat n))
      else exists hd, f h buf = Ok (RErr IoOther, mkHold (mkInner (iw_done (th_inner h) ++ firstn k ws) (Some O)) hd (N.of_nat n))
  | None => True
  end.

Print Assumptions C10_source_translation.
