(** C10 (in progress). *)
From RepeV Require Import Model.SvsCommit Proofs.SvsCommitProofs.
