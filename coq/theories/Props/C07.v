(** C07 — All dispatch paths and route shapes give the same answer for the same
    request: struct segments are the RFC 6901 reference tokens at every depth,
    mounts receive exactly the covered paths, an exact route wins, middleware
    wraps every entry whatever the registration order.
    This file contains only statements (closed by [exact]), their pins and
    their assumptions. Strings are byte lists: '/' = 47, '~' = 126, '0' = 48, '1' = 49. *)
From RepeV Require Import Model.JsonPtr Model.Router Proofs.JsonPtrProofs Proofs.RouterProofs.
From RepeV Require Import Gen.Tables Proofs.TablesC01 Proofs.TablesMisc.

(** ** struct segments vs RFC 6901 *)

(** a pointer has at most one token list *)
Theorem C07_render_inj : forall ts ts', render ts = render ts' -> ts = ts'.
Proof. exact render_inj. Qed.

(** for every well-escaped relative path that is empty or starts with '/', of
    any depth, the segments handed to the struct render back to the path: they
    are its RFC 6901 reference tokens *)
Theorem C07_segments_are_rfc6901_tokens : forall rel,
  well_escaped rel = true -> pointer_shaped rel = true -> render (struct_segments rel) = rel.
Proof. exact render_struct_segments. Qed.

Theorem C07_segments_unique : forall rel ts,
  well_escaped rel = true -> pointer_shaped rel = true -> render ts = rel -> struct_segments rel = ts.
Proof. exact struct_segments_unique. Qed.

(** every token list, of any length, with arbitrary bytes, is recovered *)
Theorem C07_segments_of_render : forall ts, struct_segments (render ts) = ts.
Proof. exact struct_segments_render. Qed.

(** the 16-slot stack array with its overflow vector hands over exactly the
    segments pushed, for every number of segments *)
Theorem C07_stack_buffer_transparent : forall segs,
  ss_result (fold_left ss_push segs ss_init) = segs.
Proof. exact stack_buffer_transparent. Qed.

Theorem C07_overflow_iff : forall segs,
  ss_overflow (fold_left ss_push segs ss_init) <> None <-> (STACK_SEGS < length segs)%nat.
Proof. exact ss_overflow_iff. Qed.

(** the escape-free fast path and [json_pointer::parse] agree *)
Theorem C07_fast_path_is_parse : forall rel, contains_tilde rel = false -> fast_segments rel = parse rel.
Proof. exact fast_segments_parse. Qed.

Theorem C07_struct_segments_is_parse : forall rel, struct_segments rel = parse rel.
Proof. exact struct_segments_parse. Qed.

(** ** mount matching *)

Theorem C07_matches_iff : forall pre p,
  matches pre p = true <-> pre = [] \/ p = pre \/ exists r, p = pre ++ 47 :: r.
Proof. exact matches_iff. Qed.

Theorem C07_no_boundary_no_match : forall pre c r,
  pre <> [] -> c <> 47 -> matches pre (pre ++ c :: r) = false.
Proof. exact matches_no_boundary. Qed.

(** a covered path reaches the mount with the prefix stripped and nothing else
    (a registry names its root "/") *)
Theorem C07_struct_relative_strips_only_prefix : forall pre p,
  matches pre p = true -> struct_relative pre p = Some (skipn (length pre) p).
Proof. exact struct_relative_covered. Qed.

Theorem C07_registry_pointer_strips_only_prefix : forall pre p,
  matches pre p = true ->
  registry_pointer pre p = Some (match skipn (length pre) p with [] => [47] | rel => rel end).
Proof. exact registry_pointer_covered. Qed.

Theorem C07_remaining_app : forall pre r : str, skipn (length pre) (pre ++ r) = r.
Proof. exact remaining_app. Qed.

(** registration normalises a registry prefix to one without trailing '/' *)
Theorem C07_registry_prefix_no_trailing_slash : forall p x, norm_prefix p <> x ++ [47].
Proof. exact norm_prefix_no_trailing_slash. Qed.

(** ** middleware uniformity *)

(** after any sequence of registrations every entry's dispatched slot is its
    raw handler wrapped by all middlewares registered so far, in registration
    order — whether the entry was registered before or after them *)
Theorem C07_mw_uniform : forall ops e,
  In e (r_map (run_ops ops) ++ r_regs (run_ops ops) ++ r_structs (run_ops ops)) ->
  e_disp e = (e_raw e, mws_of ops).
Proof. exact mw_uniform. Qed.

Theorem C07_mws_in_registration_order : forall ops, r_mws (run_ops ops) = mws_of ops.
Proof. exact mws_registered. Qed.

(** ** lookup precedence *)

(** [Router::get] as a function of the registration history: the latest exact
    route for the path, else the first registry in registration order that
    covers it, else the first struct; always behind all middlewares *)
Theorem C07_lookup_precedence : forall ops p, lookup (run_ops ops) p = spec_lookup ops p.
Proof. exact lookup_spec. Qed.

Theorem C07_exact_wins : forall ops1 p h ops2,
  (forall h', ~ In (AddRoute p h') ops2) ->
  lookup (run_ops (ops1 ++ AddRoute p h :: ops2)) p = ARoute h (mws_of (ops1 ++ AddRoute p h :: ops2)).
Proof. exact exact_wins. Qed.

Theorem C07_exact_route_shadows_mounts : forall ops p h,
  In (AddRoute p h) ops -> exists h', lookup (run_ops ops) p = ARoute h' (mws_of ops).
Proof. exact exact_route_shadows_mounts. Qed.

(** with distinct handler identities: a mounted registry answers a path iff no
    exact route exists for it, no earlier registry covers it, and its own
    (normalised) prefix covers it *)
Theorem C07_registry_receives_iff : forall ops1 raw h ops2 p,
  let ops := ops1 ++ AddRegistry raw h :: ops2 in
  NoDup (hids ops) ->
  (answered_by (lookup (run_ops ops) p) = Some h
   <-> last_route ops p = None /\ no_cover (regs_of ops1) p /\ covers_prop (norm_prefix raw) p).
Proof. exact registry_receives_iff. Qed.

Theorem C07_struct_receives_iff : forall ops1 raw h ops2 p,
  let ops := ops1 ++ AddStruct raw h :: ops2 in
  NoDup (hids ops) ->
  (answered_by (lookup (run_ops ops) p) = Some h
   <-> last_route ops p = None /\ no_cover (regs_of ops) p /\ no_cover (structs_of ops1) p /\
       covers_prop (norm_root raw) p).
Proof. exact struct_receives_iff. Qed.

(** what it then receives *)
Theorem C07_registry_receives : forall ops1 raw h ops2 p,
  let ops := ops1 ++ AddRegistry raw h :: ops2 in
  let pre := norm_prefix raw in
  last_route ops p = None -> no_cover (regs_of ops1) p -> covers_prop pre p ->
  lookup (run_ops ops) p
  = AReg h (mws_of ops) (Some (match skipn (length pre) p with [] => [47] | rel => rel end)).
Proof. exact registry_receives. Qed.

Theorem C07_struct_receives : forall ops1 raw h ops2 p,
  let ops := ops1 ++ AddStruct raw h :: ops2 in
  let root := norm_root raw in
  last_route ops p = None -> no_cover (regs_of ops) p -> no_cover (structs_of ops1) p ->
  covers_prop root p ->
  lookup (run_ops ops) p = AStruct h (mws_of ops) (Some (struct_segments (skipn (length root) p))).
Proof. exact struct_receives. Qed.

(** a mount that does not cover a path has no influence on its answer *)
Theorem C07_registry_ignores : forall ops1 raw h ops2 p,
  ~ covers_prop (norm_prefix raw) p ->
  lookup (run_ops (ops1 ++ AddRegistry raw h :: ops2)) p = lookup (run_ops (ops1 ++ ops2)) p.
Proof. exact registry_ignores. Qed.

Theorem C07_struct_ignores : forall ops1 raw h ops2 p,
  ~ covers_prop (norm_root raw) p ->
  lookup (run_ops (ops1 ++ AddStruct raw h :: ops2)) p = lookup (run_ops (ops1 ++ ops2)) p.
Proof. exact struct_ignores. Qed.

(** ** the oracle *)

(** the executable oracle (also applied to the implementation's observations)
    accepts the model for every registration history and every list of paths *)
Theorem C07_holds : forall ops paths, ok_C07 ops paths (model_C07 ops paths) = true.
Proof. exact ok_model_C07. Qed.

(** what the oracle demands of a struct answer, in plain terms *)
Theorem C07_oracle_struct_sound : forall ops p h m segs,
  ok_answer ops p (AStruct h m (Some segs)) = true ->
  exists pre, In (pre, h) (structs_of ops) /\ covers_prop pre p /\ m = mws_of ops /\
    (well_escaped (skipn (length pre) p) = true -> pointer_shaped (skipn (length pre) p) = true ->
     render segs = skipn (length pre) p).
Proof. exact ok_answer_struct_sound. Qed.

(** the owned/borrowed/behind-middleware oracle: all variants gave one response *)
Theorem C07_pair_oracle_iff : forall rs,
  ok_C07_pair rs = true <-> exists r, rs <> [] /\ forall x, In x rs -> x = r.
Proof. exact ok_C07_pair_iff. Qed.

(** ** non-vacuity *)

(** "/a" repeated [n] times *)
Definition deep (n : nat) : str := concat (repeat [47; 97] n).

(** 16 segments stay in the stack array, 17 spill into the overflow vector;
    both are handed over completely *)
Example C07_boundary_16_17 :
  struct_segments (deep 16) = repeat [97] 16 /\
  struct_segments (deep 17) = repeat [97] 17 /\
  ss_overflow (fold_left ss_push (split_slash (strip_slash (deep 16))) ss_init) = None /\
  ss_overflow (fold_left ss_push (split_slash (strip_slash (deep 17))) ss_init) = Some (repeat [97] 17) /\
  well_escaped (deep 17) = true /\ pointer_shaped (deep 17) = true.
Proof. vm_compute. repeat split; reflexivity. Qed.

(** escapes, empty segments, "" and "/": "/a~1b/~0//~01" *)
Example C07_escapes :
  struct_segments [47; 97; 126; 49; 98; 47; 126; 48; 47; 47; 126; 48; 49]
  = [[97; 47; 98]; [126]; []; [126; 49]] /\
  struct_segments [] = [] /\ struct_segments [47] = [[]] /\
  render [[97; 47; 98]; [126]; []; [126; 49]] = [47; 97; 126; 49; 98; 47; 126; 48; 47; 47; 126; 48; 49].
Proof. vm_compute. repeat split; reflexivity. Qed.

(** malformed escapes are outside the quantifier: "/a~2", "/a~" *)
Example C07_malformed_outside :
  well_escaped [47; 97; 126; 50] = false /\ well_escaped [47; 97; 126] = false.
Proof. vm_compute. split; reflexivity. Qed.

(** "/ab" does not match prefix "/a"; "/a/b" and "/a" do; "" covers everything *)
Example C07_boundary_matching :
  matches [47; 97] [47; 97; 98] = false /\ matches [47; 97] [47; 97; 47; 98] = true /\
  matches [47; 97] [47; 97] = true /\ matches [] [47; 120] = true /\ matches [47; 97] [47] = false.
Proof. vm_compute. repeat split; reflexivity. Qed.

(** normalisation: a registry prefix loses trailing slashes ("//" becomes the
    root mount), a struct root does not *)
Example C07_normalisation :
  norm_prefix [97; 47; 47] = [47; 97] /\ norm_prefix [47; 47] = [] /\ norm_root [47; 47] = [47; 47] /\
  norm_root [97] = [47; 97] /\ norm_root [47] = [] /\ norm_prefix [47] = [].
Proof. vm_compute. repeat split; reflexivity. Qed.

(** a history with a middleware before and after the entries, an exact route,
    a registry and a root struct: "/a" -> route 1; "/a/b" -> registry 2 with
    pointer "/b"; "/a" again after re-registration -> route 4; "/ab" -> struct
    3 with segments ["ab"]; all behind middlewares 9 then 8 *)
Definition c07_ops : list rop :=
  [AddMw 9; AddRoute [47; 97] 1; AddRegistry [47; 97; 47] 2; AddStruct [] 3; AddMw 8].

Example C07_nonvacuous_model :
  model_C07 c07_ops [[47; 97]; [47; 97; 47; 98]; [47; 97; 98]; []]
  = [ARoute 1 [9; 8]; AReg 2 [9; 8] (Some [47; 98]); AStruct 3 [9; 8] (Some [[97; 98]]);
     AStruct 3 [9; 8] (Some [])] /\
  model_C07 (c07_ops ++ [AddRoute [47; 97] 4]) [[47; 97]] = [ARoute 4 [9; 8]] /\
  model_C07 [AddRegistry [47; 97] 2] [[47; 97]; [47; 97; 98]] = [AReg 2 [] (Some [47]); ANone] /\
  NoDup (hids c07_ops).
Proof. vm_compute. repeat split; try reflexivity. repeat constructor; cbn; intuition discriminate. Qed.

(** the oracle is not trivially true: it rejects the registry answering a path
    that only shares a string prefix with its mount point, a route answered
    without the middleware registered after it, a struct answer that lost the
    17th segment, and a mount answering a path an exact route is registered for *)
Example C07_oracle_rejects :
  ok_C07 c07_ops [[47; 97; 98]] [AReg 2 [9; 8] (Some [98])] = false /\
  ok_C07 c07_ops [[47; 97]] [ARoute 1 [9]] = false /\
  ok_C07 c07_ops [[47; 97]] [AReg 2 [9; 8] (Some [47])] = false /\
  ok_C07 [AddStruct [] 3] [deep 17] [AStruct 3 [] (Some (repeat [97] 16))] = false /\
  ok_C07 [AddStruct [] 3] [deep 17] [AStruct 3 [] (Some (repeat [97] 17))] = true /\
  ok_C07 [AddStruct [] 3] [[47; 97; 126; 49; 98]] [AStruct 3 [] (Some [[97]; [98]])] = false /\
  ok_C07 [AddStruct [] 3] [[47; 97; 126; 49; 98]] [AStruct 3 [] (Some [[97; 47; 98]])] = true.
Proof. vm_compute. repeat split; reflexivity. Qed.

Example C07_pair_oracle_rejects :
  ok_C07_pair [[1; 2]; [1; 2]; [1; 2]] = true /\ ok_C07_pair [[1; 2]; [1; 3]] = false /\ ok_C07_pair [] = false.
Proof. vm_compute. repeat split; reflexivity. Qed.

Check C07_render_inj : forall ts ts', render ts = render ts' -> ts = ts'.
Check C07_segments_are_rfc6901_tokens : forall rel,
  well_escaped rel = true -> pointer_shaped rel = true -> render (struct_segments rel) = rel.
Check C07_segments_unique : forall rel ts,
  well_escaped rel = true -> pointer_shaped rel = true -> render ts = rel -> struct_segments rel = ts.
Check C07_segments_of_render : forall ts, struct_segments (render ts) = ts.
Check C07_stack_buffer_transparent : forall segs,
  ss_result (fold_left ss_push segs ss_init) = segs.
Check C07_overflow_iff : forall segs,
  ss_overflow (fold_left ss_push segs ss_init) <> None <-> (STACK_SEGS < length segs)%nat.
Check C07_fast_path_is_parse : forall rel, contains_tilde rel = false -> fast_segments rel = parse rel.
Check C07_struct_segments_is_parse : forall rel, struct_segments rel = parse rel.
Check C07_matches_iff : forall pre p,
  matches pre p = true <-> pre = [] \/ p = pre \/ exists r, p = pre ++ 47 :: r.
Check C07_no_boundary_no_match : forall pre c r,
  pre <> [] -> c <> 47 -> matches pre (pre ++ c :: r) = false.
Check C07_struct_relative_strips_only_prefix : forall pre p,
  matches pre p = true -> struct_relative pre p = Some (skipn (length pre) p).
Check C07_registry_pointer_strips_only_prefix : forall pre p,
  matches pre p = true ->
  registry_pointer pre p = Some (match skipn (length pre) p with [] => [47] | rel => rel end).
Check C07_remaining_app : forall pre r : str, skipn (length pre) (pre ++ r) = r.
Check C07_registry_prefix_no_trailing_slash : forall p x, norm_prefix p <> x ++ [47].
Check C07_mw_uniform : forall ops e,
  In e (r_map (run_ops ops) ++ r_regs (run_ops ops) ++ r_structs (run_ops ops)) ->
  e_disp e = (e_raw e, mws_of ops).
Check C07_mws_in_registration_order : forall ops, r_mws (run_ops ops) = mws_of ops.
Check C07_lookup_precedence : forall ops p, lookup (run_ops ops) p = spec_lookup ops p.
Check C07_exact_wins : forall ops1 p h ops2,
  (forall h', ~ In (AddRoute p h') ops2) ->
  lookup (run_ops (ops1 ++ AddRoute p h :: ops2)) p = ARoute h (mws_of (ops1 ++ AddRoute p h :: ops2)).
Check C07_exact_route_shadows_mounts : forall ops p h,
  In (AddRoute p h) ops -> exists h', lookup (run_ops ops) p = ARoute h' (mws_of ops).
Check C07_registry_receives_iff : forall ops1 raw h ops2 p,
  let ops := ops1 ++ AddRegistry raw h :: ops2 in
  NoDup (hids ops) ->
  (answered_by (lookup (run_ops ops) p) = Some h
   <-> last_route ops p = None /\ no_cover (regs_of ops1) p /\ covers_prop (norm_prefix raw) p).
Check C07_struct_receives_iff : forall ops1 raw h ops2 p,
  let ops := ops1 ++ AddStruct raw h :: ops2 in
  NoDup (hids ops) ->
  (answered_by (lookup (run_ops ops) p) = Some h
   <-> last_route ops p = None /\ no_cover (regs_of ops) p /\ no_cover (structs_of ops1) p /\
       covers_prop (norm_root raw) p).
Check C07_registry_receives : forall ops1 raw h ops2 p,
  let ops := ops1 ++ AddRegistry raw h :: ops2 in
  let pre := norm_prefix raw in
  last_route ops p = None -> no_cover (regs_of ops1) p -> covers_prop pre p ->
  lookup (run_ops ops) p
  = AReg h (mws_of ops) (Some (match skipn (length pre) p with [] => [47] | rel => rel end)).
Check C07_struct_receives : forall ops1 raw h ops2 p,
  let ops := ops1 ++ AddStruct raw h :: ops2 in
  let root := norm_root raw in
  last_route ops p = None -> no_cover (regs_of ops) p -> no_cover (structs_of ops1) p ->
  covers_prop root p ->
  lookup (run_ops ops) p = AStruct h (mws_of ops) (Some (struct_segments (skipn (length root) p))).
Check C07_registry_ignores : forall ops1 raw h ops2 p,
  ~ covers_prop (norm_prefix raw) p ->
  lookup (run_ops (ops1 ++ AddRegistry raw h :: ops2)) p = lookup (run_ops (ops1 ++ ops2)) p.
Check C07_struct_ignores : forall ops1 raw h ops2 p,
  ~ covers_prop (norm_root raw) p ->
  lookup (run_ops (ops1 ++ AddStruct raw h :: ops2)) p = lookup (run_ops (ops1 ++ ops2)) p.
Check C07_holds : forall ops paths, ok_C07 ops paths (model_C07 ops paths) = true.
Check C07_oracle_struct_sound : forall ops p h m segs,
  ok_answer ops p (AStruct h m (Some segs)) = true ->
  exists pre, In (pre, h) (structs_of ops) /\ covers_prop pre p /\ m = mws_of ops /\
    (well_escaped (skipn (length pre) p) = true -> pointer_shaped (skipn (length pre) p) = true ->
     render segs = skipn (length pre) p).
Check C07_pair_oracle_iff : forall rs,
  ok_C07_pair rs = true <-> exists r, rs <> [] /\ forall x, In x rs -> x = r.

(** the definitions used above are the plain ones *)
Check (eq_refl : covers_prop = fun pre p => pre = [] \/ p = pre \/ exists r, p = pre ++ 47 :: r).
Check (eq_refl : no_cover = fun l p => forall m, In m l -> ~ covers_prop (fst m) p).
Check (eq_refl : remaining = fun pre p => skipn (length pre) p).
Check (eq_refl : render = fun ts => concat (map (fun t => 47 :: rfc_escape t) ts)).
Check (eq_refl : wrap = fun raw mws => (raw, mws)).

Print Assumptions C07_render_inj.
Print Assumptions C07_segments_are_rfc6901_tokens.
Print Assumptions C07_segments_unique.
Print Assumptions C07_segments_of_render.
Print Assumptions C07_stack_buffer_transparent.
Print Assumptions C07_overflow_iff.
Print Assumptions C07_fast_path_is_parse.
Print Assumptions C07_struct_segments_is_parse.
Print Assumptions C07_matches_iff.
Print Assumptions C07_no_boundary_no_match.
Print Assumptions C07_struct_relative_strips_only_prefix.
Print Assumptions C07_registry_pointer_strips_only_prefix.
Print Assumptions C07_remaining_app.
Print Assumptions C07_registry_prefix_no_trailing_slash.
Print Assumptions C07_mw_uniform.
Print Assumptions C07_mws_in_registration_order.
Print Assumptions C07_lookup_precedence.
Print Assumptions C07_exact_wins.
Print Assumptions C07_exact_route_shadows_mounts.
Print Assumptions C07_registry_receives_iff.
Print Assumptions C07_struct_receives_iff.
Print Assumptions C07_registry_receives.
Print Assumptions C07_struct_receives.
Print Assumptions C07_registry_ignores.
Print Assumptions C07_struct_ignores.
Print Assumptions C07_holds.
Print Assumptions C07_oracle_struct_sound.
Print Assumptions C07_pair_oracle_iff.

(** constants of the model are the ones re-read from the Rust source on this run *)
Theorem C07_source_tables :
  agrees src_STACK_SEGS (N.of_nat JsonPtr.STACK_SEGS).
Proof. exact c07_stack_segs_agree. Qed.
Check C07_source_tables :
  agrees src_STACK_SEGS (N.of_nat JsonPtr.STACK_SEGS).
Print Assumptions C07_source_tables.

(** the segment / mount functions of the model are the ones re-translated from the Rust source on this
    run (bin/rs2v, string mode: Gen/PointerGen.v, Proofs/PointerGenAgree.v): each rendering returns
    [Ok] of the model's value on every byte string -- no panic (the 16-slot stack array, [count += 1],
    [&stack[..count]]), same result; [SHandled segs]: the ONE [repe_handle] call gets exactly [segs];
    the hypothesis of [relative_pointer] says that the cut [&path[root.len()..]] made when [path] starts
    with [root] is a char boundary, which holds between any two [&str] *)
From RepeV Require Import Base.GenStrPrelude Gen.PointerGen Proofs.PointerGenAgree.

Theorem C07_source_translation :
  agrees1 gen_jp_parse (fun p => Ok (JsonPtr.parse p)) /\
  agrees1 gen_struct_segments (fun rel => Ok (SHandled (JsonPtr.struct_segments rel))) /\
  agrees2 gen_registry_matches (fun pre path => Ok (Router.matches pre path)) /\
  agrees2 gen_struct_matches (fun root path => Ok (Router.matches root path)) /\
  agrees2 gen_pointer_for (fun pre path => Ok (Router.registry_pointer pre path)) /\
  agrees1 gen_registry_prefix (fun prefix => Ok (Router.norm_prefix prefix)) /\
  agrees1 gen_struct_root (fun root => Ok (Router.norm_root root)) /\
  match gen_relative_pointer with
  | Some f => forall root path,
      (s_starts_with root path = true -> is_char_boundary path (len_n root) = true) ->
      f root path = Ok (Router.struct_relative root path)
  | None => True
  end.
Proof. exact c07_source_translation. Qed.
Check C07_source_translation :
  agrees1 gen_jp_parse (fun p => Ok (JsonPtr.parse p)) /\
  agrees1 gen_struct_segments (fun rel => Ok (SHandled (JsonPtr.struct_segments rel))) /\
  agrees2 gen_registry_matches (fun pre path => Ok (Router.matches pre path)) /\
  agrees2 gen_struct_matches (fun root path => Ok (Router.matches root path)) /\
  agrees2 gen_pointer_for (fun pre path => Ok (Router.registry_pointer pre path)) /\
  agrees1 gen_registry_prefix (fun prefix => Ok (Router.norm_prefix prefix)) /\
  agrees1 gen_struct_root (fun root => Ok (Router.norm_root root)) /\
  match gen_relative_pointer with
  | Some f => forall root path,
      (s_starts_with root path = true -> is_char_boundary path (len_n root) = true) ->
      f root path = Ok (Router.struct_relative root path)
  | None => True
  end.
Print Assumptions C07_source_translation.
