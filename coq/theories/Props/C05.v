(** C05 — Bytes put on a connection are always whole frames, never torn or
    interleaved; an interrupted write is never followed by further frames.

    What is proved is about the lock structure and the after-interruption
    policy of the six endpoints (Model/WriterSM.v, read off the code after
    commits f4e6dd8, d088b00, ce235a8).  Where exactly an interrupted write is
    cut depends on kernel buffering: the model quantifies over every cut
    position, the harness exhibits real ones.
    This file contains only statements (closed by [exact] or a witness
    computed by [vm_compute]), their pins and their assumptions. *)
From RepeV Require Import Model.WriterSM Proofs.HeaderProofs Proofs.MessageProofs Proofs.WriterSMProofs.

(** for every schedule of locked writers (whose turn it is, and where a turn is
    interrupted) the frames on the wire are, in lock-acquisition order, a
    subsequence of the turns; all of them whole except possibly the last *)
Theorem C05_no_interleave : forall e lens sched,
  let its := picks lens [] sched in
  let wire := w_wire (fst (run after_interrupt e w0 its)) in
  subseq (map seg_key wire) (map item_key its) /\
  exists whole torn,
    wire = whole ++ torn /\ forallb seg_whole whole = true /\
    (torn = [] \/ exists t, torn = [t] /\ seg_whole t = false).
Proof. exact no_interleave_run. Qed.

(** the bytes: whole frames' bytes one after the other, then the torn prefix *)
Theorem C05_wire_bytes : forall fr whole torn,
  render fr (whole ++ torn) = concat (map (seg_bytes fr) whole) ++ render fr torn.
Proof. exact render_whole_then_torn. Qed.

(** with the policy [Close] (every byte-stream endpoint, after the repairs)
    nothing follows an interrupted write: the connection is failed, every later
    write attempt is refused and the wire does not change *)
Theorem C05_torn_is_last : forall e s w sq len k its,
  atomic_send e = false -> w_broken s = false ->
  let s1 := fst (turn after_interrupt e s (mkItem w sq len (Cut k))) in
  w_broken s1 = true /\ run after_interrupt e s1 its = (s1, repeat false (length its)).
Proof.
  intros e s w sq len k its Ha Hb. split; [exact (cut_breaks e s w sq len k Ha Hb)|].
  exact (torn_is_last e s w sq len k its Ha Hb).
Qed.

(** a peer that parses by declared lengths only recovers exactly the whole
    frames, in order, and is left with the torn prefix (or nothing) *)
Theorem C05_resync : forall e lens sched fr,
  forallb (forallb (fun l => 48 <=? l)) lens = true -> frames_match lens fr ->
  let wire := w_wire (fst (run after_interrupt e w0 (picks lens [] sched))) in
  exists whole torn,
    wire = whole ++ torn /\ forallb seg_whole whole = true /\
    (torn = [] \/ exists t, torn = [t] /\ sg_k t < sg_len t) /\
    parse_frames (render fr wire) = (map (seg_frame fr) whole, render fr torn).
Proof. exact resync_run. Qed.

(** the frames of the message model (C01: header, query, body chunks of
    [write_message]) are well-formed for that reader *)
Theorem C05_frames_wellformed : forall m, msg_ok m = true -> wf_frame (frame_bytes m).
Proof. exact frame_bytes_wf. Qed.

(** the mutex: when every writer is a program (lock; write chunk; ...; flush;
    unlock) and the scheduler interleaves single steps, the bytes on the
    connection are those of whole turns in the order the critical sections
    were entered — plus, while a writer is inside, a prefix of its frame *)
Theorem C05_mutex_serialises : forall pol e queues sched fr,
  atomic_send e = false ->
  let s := frun true pol e (f0 queues) sched in
  f_holder s = None ->
  frender fr (f_wire s) = render fr (w_wire (fst (run pol e w0 (f_log s)))) /\
  f_broken s = w_broken (fst (run pol e w0 (f_log s))).
Proof. exact mutex_serialises. Qed.

Theorem C05_mutex_serialises_open : forall pol e queues sched fr,
  atomic_send e = false ->
  let s := frun true pol e (f0 queues) sched in
  forall h, f_holder s = Some h ->
  exists closed it done,
    f_log s = closed ++ [it] /\ it_w it = h /\ done <= it_len it /\
    frender fr (f_wire s)
    = render fr (w_wire (fst (run pol e w0 closed))) ++ firstn (N.to_nat done) (fr h (it_seq it)).
Proof. exact mutex_serialises_open. Qed.

(** the executable oracle accepts the model on every well-formed case *)
Theorem C05_holds : forall c, c05_wf c = true -> ok_C05 c (model_C05 c) = true.
Proof. exact ok_model_C05. Qed.

(** ** refuted: the endpoints as they were before the repairs *)

(** with the legacy policy (async server, blocking client, async client:
    [Continue]) there is a schedule in which a complete frame follows a torn
    one; the oracle rejects it, and the length-driven reader recovers nothing
    although a whole frame was written *)
Theorem C05_legacy_torn_refuted :
  exists e lens sched,
    let c := mkCase e lens 1 sched in
    c05_wf c = true /\
    o_wire (model_with legacy_policy c) = [mkSeg 0 0 50 10; mkSeg 0 1 50 50] /\
    ok_C05 c (model_with legacy_policy c) = false /\
    frames_match lens c05_fr /\
    parse_frames (render c05_fr (o_wire (model_with legacy_policy c)))
    = ([], render c05_fr (o_wire (model_with legacy_policy c))) /\
    o_wire (model_C05 c) = [mkSeg 0 0 50 10].
Proof.
  exists EAsyncServer, [[50; 50]], [(0, Cut 10); (0, Whole)]. cbv zeta.
  do 3 (split; [vm_compute; reflexivity|]). split; [exact c05_fr_match|].
  split; vm_compute; reflexivity.
Qed.

Theorem C05_legacy_blocking_client_refuted :
  ok_C05 (mkCase EClient [[50; 50]] 1 [(0, Cut 10); (0, Whole)])
         (model_with legacy_policy (mkCase EClient [[50; 50]] 1 [(0, Cut 10); (0, Whole)])) = false.
Proof. vm_compute. reflexivity. Qed.

Theorem C05_legacy_async_client_refuted :
  ok_C05 (mkCase EAsyncClient [[50]; [50]] 1 [(0, Cut 49); (1, Whole)])
         (model_with legacy_policy (mkCase EAsyncClient [[50]; [50]] 1 [(0, Cut 49); (1, Whole)])) = false.
Proof. vm_compute. reflexivity. Qed.

(** without the mutex the same writer programs interleave their chunks; with
    it the same step schedule serialises them *)
Theorem C05_unlocked_interleave_refuted :
  let queues := [(0, [mkJob 0 [48; 2] Whole]); (1, [mkJob 0 [48; 2] Whole])] in
  let sched := [0; 1; 0; 1; 0; 1; 0; 1] in
  f_wire (frun false after_interrupt EClient (f0 queues) sched)
  = [mkRun 0 0 50 0 48; mkRun 1 0 50 0 48; mkRun 0 0 50 48 2; mkRun 1 0 50 48 2] /\
  f_wire (frun true after_interrupt EClient (f0 queues) sched)
  = [mkRun 0 0 50 0 48; mkRun 0 0 50 48 2].
Proof. vm_compute. split; reflexivity. Qed.

(** ** non-vacuity *)

(** three writers and a probe; writer 1's second frame is cut after 3000 of
    its 5000 bytes: the frames before it are whole, nothing follows, every
    later attempt (writer 0's second frame, writer 2, the probe) is refused *)
Definition c05_case : case :=
  mkCase EClient [[100; 200]; [48; 5000]; [64]; [70]] 3
         [(1, Whole); (0, Whole); (1, Cut 3000); (0, Whole); (2, Whole); (3, Whole)].

Example C05_nonvacuous_wf : c05_wf c05_case = true.
Proof. vm_compute. reflexivity. Qed.

Example C05_nonvacuous_model :
  model_C05 c05_case
  = mkObs [mkSeg 1 0 48 48; mkSeg 0 0 100 100; mkSeg 1 1 5000 3000] 0
          [(1, 0, true); (0, 0, true); (1, 1, false); (0, 1, false); (2, 0, false); (3, 0, false)]
          true.
Proof. vm_compute. reflexivity. Qed.

(** the same schedule on a WebSocket endpoint: the abandoned send still
    delivers the whole message, and the connection carries on *)
Example C05_nonvacuous_atomic :
  o_wire (model_C05 (mkCase EWsClient (c_lens c05_case) 3 (c_sched c05_case)))
  = [mkSeg 1 0 48 48; mkSeg 0 0 100 100; mkSeg 1 1 5000 5000; mkSeg 0 1 200 200; mkSeg 2 0 64 64;
     mkSeg 3 0 70 70].
Proof. vm_compute. reflexivity. Qed.

(** the oracle rejects: a frame after the torn one; bytes it cannot attribute
    (interleaving); a probe that succeeded after a torn frame; a duplicated
    frame; a writer's frames out of order; a successful call whose frame is
    not on the wire; a server that did not close after a torn frame *)
Example C05_oracle_rejects :
  let good := model_C05 c05_case in
  ok_C05 c05_case good = true /\
  ok_C05 c05_case (mkObs (o_wire good ++ [mkSeg 2 0 64 64]) 0 (o_res good) true) = false /\
  ok_C05 c05_case (mkObs (o_wire good) 17 (o_res good) true) = false /\
  ok_C05 c05_case (mkObs (o_wire good) 0 [(3, 0, true)] true) = false /\
  ok_C05 c05_case (mkObs [mkSeg 0 0 100 100; mkSeg 0 0 100 100] 0 [] false) = false /\
  ok_C05 c05_case (mkObs [mkSeg 0 1 200 200; mkSeg 0 0 100 100] 0 [] false) = false /\
  ok_C05 c05_case (mkObs [mkSeg 0 0 100 100] 0 [(2, 0, true)] false) = false /\
  ok_C05 (mkCase EAsyncServer [[100; 200]] 1 []) (mkObs [mkSeg 0 0 100 60] 0 [] false) = false /\
  ok_C05 c05_case (mkObs [mkSeg 0 0 101 101] 0 [] false) = false.
Proof. vm_compute. repeat split; reflexivity. Qed.

(** the reader on real bytes: two whole model frames and 20 bytes of a third *)
Example C05_nonvacuous_parse :
  parse_frames (c05_fr 0 0 ++ c05_fr 0 1 ++ firstn 20 (c05_fr 0 2))
  = ([c05_fr 0 0; c05_fr 0 1], firstn 20 (c05_fr 0 2)).
Proof. vm_compute. reflexivity. Qed.

(** a step schedule in which writer 0 is interrupted inside its second chunk
    while writer 1 waits for the mutex: writer 1 is then refused *)
Example C05_nonvacuous_fine :
  let queues := [(0, [mkJob 0 [48; 10] (Cut 50)]); (1, [mkJob 0 [48; 2] Whole])] in
  let s := frun true after_interrupt EAsyncClient (f0 queues) [0; 1; 0; 1; 0; 1; 1] in
  f_wire s = [mkRun 0 0 58 0 48; mkRun 0 0 58 48 2] /\ f_holder s = None /\ f_broken s = true /\
  f_log s = [mkItem 0 0 58 (Cut 50)] /\
  w_wire (fst (run after_interrupt EAsyncClient w0 (f_log s))) = [mkSeg 0 0 58 50].
Proof. vm_compute. repeat split; reflexivity. Qed.

Check C05_no_interleave : forall e lens sched,
  let its := picks lens [] sched in
  let wire := w_wire (fst (run after_interrupt e w0 its)) in
  subseq (map seg_key wire) (map item_key its) /\
  exists whole torn,
    wire = whole ++ torn /\ forallb seg_whole whole = true /\
    (torn = [] \/ exists t, torn = [t] /\ seg_whole t = false).
Check C05_wire_bytes : forall fr whole torn,
  render fr (whole ++ torn) = concat (map (seg_bytes fr) whole) ++ render fr torn.
Check C05_torn_is_last : forall e s w sq len k its,
  atomic_send e = false -> w_broken s = false ->
  let s1 := fst (turn after_interrupt e s (mkItem w sq len (Cut k))) in
  w_broken s1 = true /\ run after_interrupt e s1 its = (s1, repeat false (length its)).
Check C05_resync : forall e lens sched fr,
  forallb (forallb (fun l => 48 <=? l)) lens = true -> frames_match lens fr ->
  let wire := w_wire (fst (run after_interrupt e w0 (picks lens [] sched))) in
  exists whole torn,
    wire = whole ++ torn /\ forallb seg_whole whole = true /\
    (torn = [] \/ exists t, torn = [t] /\ sg_k t < sg_len t) /\
    parse_frames (render fr wire) = (map (seg_frame fr) whole, render fr torn).
Check C05_frames_wellformed : forall m, msg_ok m = true -> wf_frame (frame_bytes m).
Check C05_mutex_serialises : forall pol e queues sched fr,
  atomic_send e = false ->
  let s := frun true pol e (f0 queues) sched in
  f_holder s = None ->
  frender fr (f_wire s) = render fr (w_wire (fst (run pol e w0 (f_log s)))) /\
  f_broken s = w_broken (fst (run pol e w0 (f_log s))).
Check C05_mutex_serialises_open : forall pol e queues sched fr,
  atomic_send e = false ->
  let s := frun true pol e (f0 queues) sched in
  forall h, f_holder s = Some h ->
  exists closed it done,
    f_log s = closed ++ [it] /\ it_w it = h /\ done <= it_len it /\
    frender fr (f_wire s)
    = render fr (w_wire (fst (run pol e w0 closed))) ++ firstn (N.to_nat done) (fr h (it_seq it)).
Check C05_holds : forall c, c05_wf c = true -> ok_C05 c (model_C05 c) = true.
Check C05_legacy_torn_refuted :
  exists e lens sched,
    let c := mkCase e lens 1 sched in
    c05_wf c = true /\
    o_wire (model_with legacy_policy c) = [mkSeg 0 0 50 10; mkSeg 0 1 50 50] /\
    ok_C05 c (model_with legacy_policy c) = false /\
    frames_match lens c05_fr /\
    parse_frames (render c05_fr (o_wire (model_with legacy_policy c)))
    = ([], render c05_fr (o_wire (model_with legacy_policy c))) /\
    o_wire (model_C05 c) = [mkSeg 0 0 50 10].
Check C05_legacy_blocking_client_refuted :
  ok_C05 (mkCase EClient [[50; 50]] 1 [(0, Cut 10); (0, Whole)])
         (model_with legacy_policy (mkCase EClient [[50; 50]] 1 [(0, Cut 10); (0, Whole)])) = false.
Check C05_legacy_async_client_refuted :
  ok_C05 (mkCase EAsyncClient [[50]; [50]] 1 [(0, Cut 49); (1, Whole)])
         (model_with legacy_policy (mkCase EAsyncClient [[50]; [50]] 1 [(0, Cut 49); (1, Whole)])) = false.
Check C05_unlocked_interleave_refuted :
  let queues := [(0, [mkJob 0 [48; 2] Whole]); (1, [mkJob 0 [48; 2] Whole])] in
  let sched := [0; 1; 0; 1; 0; 1; 0; 1] in
  f_wire (frun false after_interrupt EClient (f0 queues) sched)
  = [mkRun 0 0 50 0 48; mkRun 1 0 50 0 48; mkRun 0 0 50 48 2; mkRun 1 0 50 48 2] /\
  f_wire (frun true after_interrupt EClient (f0 queues) sched)
  = [mkRun 0 0 50 0 48; mkRun 0 0 50 48 2].

(** the auxiliary notions are the plain ones *)
Check (eq_refl : wf_frame = fun f => (48 <= length f)%nat /\ lenN f = 48 + field f 24 8 + field f 32 8).
Check (eq_refl : frames_match = fun lens fr =>
  forall w i len, nth_error (nth (N.to_nat w) lens []) (N.to_nat i) = Some len ->
                  wf_frame (fr w i) /\ lenN (fr w i) = len).
Check (eq_refl : seg_frame = fun fr s => fr (sg_w s) (sg_seq s)).
Check (eq_refl : seg_key = fun s => (sg_w s, sg_seq s)).
Check (eq_refl : item_key = fun it => (it_w it, it_seq it)).
Check (eq_refl : after_interrupt = fun e => match e with
  | EClient => Close | EAsyncClient => Close | EWsClient => Close
  | EServer => Close | EAsyncServer => Close | EWsServer => Close end).
Check (@sub_nil : forall A (l : list A), subseq [] l).
Check (@sub_skip : forall A (a : list A) x l, subseq a l -> subseq a (x :: l)).
Check (@sub_take : forall A (a : list A) x l, subseq a l -> subseq (x :: a) (x :: l)).

Print Assumptions C05_no_interleave.
Print Assumptions C05_wire_bytes.
Print Assumptions C05_torn_is_last.
Print Assumptions C05_resync.
Print Assumptions C05_frames_wellformed.
Print Assumptions C05_mutex_serialises.
Print Assumptions C05_mutex_serialises_open.
Print Assumptions C05_holds.
Print Assumptions C05_legacy_torn_refuted.
Print Assumptions C05_legacy_blocking_client_refuted.
Print Assumptions C05_legacy_async_client_refuted.
Print Assumptions C05_unlocked_interleave_refuted.
