(** C19 — Fleet retry loop: bounded attempts, retries only after transport-level
    failures, the first reply is reported, a dead cached client is dropped (the
    node is never wedged), tag filtering of broadcasts.
    This file contains only statements (closed by [exact]), their pins and
    their assumptions. *)
From RepeV Require Import Model.Fleet Gen.Tables Proofs.TablesC01 Proofs.FleetProofs.

(** [is_retryable_error] of src/fleet.rs and src/async_fleet.rs, re-read on
    every run, is the table of the model *)
Theorem C19_source_tables :
  agrees src_fleet_retryable retry_table /\ agrees src_async_fleet_retryable retry_table.
Proof. exact source_tables_agree. Qed.

(** the code's loop, driven by the retryable table, is the specification,
    driven by the transport / reply classification *)
Theorem C19_loop_is_spec : forall max script c, call max script c = spec_call max script c.
Proof. exact call_is_spec. Qed.

Theorem C19_attempts_le_max : forall max script c, co_attempts (call max script c) <= N.of_nat max.
Proof. exact attempts_le_max. Qed.

Theorem C19_at_least_one_attempt : forall max script c,
  (1 <= max)%nat -> 1 <= co_attempts (call max script c).
Proof. exact at_least_one_attempt. Qed.

(** every attempt but the last met a transport-level failure *)
Theorem C19_retries_only_after_transport : forall max script c,
  let rs := attempt_results max script c in
  N.of_nat (length rs) = co_attempts (spec_call max script c) /\
  Forall (fun r => classify r = Transport) (removelast rs).
Proof. exact retries_only_after_transport. Qed.

(** the loop ends at the first reply or when the attempts are used up, and
    reports what the last attempt met *)
Theorem C19_stops_at_first_reply_and_reports_it : forall max script c,
  (1 <= max)%nat ->
  let rs := attempt_results max script c in
  co_result (spec_call max script c) = last rs (RErr KNotConnected) /\
  (classify (last rs (RErr KNotConnected)) <> Transport \/ length rs = max).
Proof. intros max script c _. exact (stops_at_first_reply max script c). Qed.

(** against a healthy node a value comes back within two calls, whatever state
    the cache was left in *)
Theorem C19_never_wedged : forall max c,
  (1 <= max)%nat ->
  let o1 := call max [] c in
  is_value (co_result o1) = true \/ is_value (co_result (call max [] (co_cache o1))) = true.
Proof. exact never_wedged. Qed.

Theorem C19_never_wedged_after_any_script : forall max script c,
  (1 <= max)%nat ->
  let o := call max script c in
  let o1 := call max [] (co_cache o) in
  is_value (co_result o1) = true \/ is_value (co_result (call max [] (co_cache o1))) = true.
Proof. exact never_wedged_after_any_script. Qed.

(** the repaired defect: with the table that does not list BrokenPipe a dead
    cached client is never dropped *)
Theorem C19_old_table_wedges : forall max n,
  (1 <= max)%nat ->
  Forall (fun '(a, r) => r = RErr KBrokenPipe) (follow_ups old_table max n [] CDead).
Proof. exact old_table_wedges. Qed.

(** a broadcast addresses exactly the nodes carrying all requested tags, one
    decision per node *)
Theorem C19_broadcast_targets : forall node_tags want i t,
  nth_error node_tags i = Some t ->
  nth_error (addressed node_tags want) i = Some (N.land t want =? want).
Proof. exact broadcast_targets. Qed.

Theorem C19_broadcast_one_per_node : forall node_tags want,
  length (addressed node_tags want) = length node_tags.
Proof. exact broadcast_one_per_node. Qed.

(** the executable oracle (also applied to the implementation's observations)
    accepts the model on every scenario *)
Theorem C19_holds : forall max script n,
  (1 <= max)%nat -> ok_C19 max script (model_C19 max script n) = true.
Proof. exact ok_model_C19. Qed.

(** ** non-vacuity *)

(** the tables are present and are the model's *)
Example C19_nonvacuous_tables :
  src_fleet_retryable = Some retry_table /\ src_async_fleet_retryable = Some retry_table /\
  old_table <> retry_table /\ retryable_with old_table KBrokenPipe = false /\
  retryable KBrokenPipe = true /\ retryable KInvalidSpec = false /\ retryable KServerError = false.
Proof. vm_compute. repeat split; try reflexivity. discriminate. Qed.

(** two transport failures, then an application error: three attempts, the
    reply is reported, the connection is kept *)
Example C19_nonvacuous_call :
  call 3 [Refused; AccClosed; AppError; Silent] CNone
  = mkCallOut 3 (RErr KServerError) CLive [Silent] /\
  attempt_results 3 [Refused; AccClosed; AppError; Silent] CNone
  = [RErr KRefused; RErr KEof; RErr KServerError] /\
  call 2 [Refused; AccClosed; AppError] CNone = mkCallOut 2 (RErr KEof) CNone [AppError] /\
  call 3 [Malformed; Success] CNone = mkCallOut 1 (RErr KInvalidSpec) CDead [Success].
Proof. vm_compute. repeat split; reflexivity. Qed.

(** the dead-client state and one attempt per call: the first call fails with
    BrokenPipe and drops the client, the second succeeds *)
Example C19_nonvacuous_dead_client :
  call 1 [] CDead = mkCallOut 1 (RErr KBrokenPipe) CNone [] /\
  call 1 [] CNone = mkCallOut 1 RValue CLive [] /\
  call 2 [] CDead = mkCallOut 2 RValue CLive [].
Proof. vm_compute. repeat split; reflexivity. Qed.

(** the dead state is reachable with the old table from a clean start: the
    node closes the idle connection of a live client (or sends a malformed
    reply); from then on every call fails, where the repaired table recovers *)
Example C19_old_table_dead_reachable :
  co_cache (retry_loop old_table 3 [Malformed] CNone 0 (RErr KNotConnected)) = CDead /\
  co_cache (retry_loop old_table 3 [ClosedIdle] CLive 0 (RErr KNotConnected)) = CDead /\
  follow_ups old_table 3 4 [Success; ClosedIdle] CNone
  = [(1, RValue); (1, RErr KBrokenPipe); (1, RErr KBrokenPipe); (1, RErr KBrokenPipe)] /\
  follow_ups retry_table 3 4 [Success; ClosedIdle] CNone
  = [(1, RValue); (2, RValue); (1, RValue); (1, RValue)] /\
  follow_ups retry_table 1 4 [Success; ClosedIdle] CNone
  = [(1, RValue); (1, RErr KBrokenPipe); (1, RValue); (1, RValue)].
Proof. vm_compute. repeat split; reflexivity. Qed.

(** the oracle is not trivially true: it rejects the behaviour of the old
    table, a call exceeding [max] attempts, and a retry after a reply *)
Example C19_oracle_rejects :
  let script := [Success; ClosedIdle] in
  let o := retry_loop old_table 3 script CNone 0 (RErr KNotConnected) in
  ok_C19 3 script (model_C19 3 script 4) = true /\
  ok_C19 3 script
    (mkC19Obs (co_attempts o) (co_result o) (is_connected (co_cache o))
              (follow_ups old_table 3 4 (co_script o) (co_cache o))) = false /\
  ok_C19 3 [AppError] (mkC19Obs 2 RValue true []) = false /\
  ok_C19 2 [Refused; Refused; Refused] (mkC19Obs 3 RValue true []) = false.
Proof. vm_compute. repeat split; reflexivity. Qed.

Example C19_nonvacuous_model :
  model_C19 3 [Refused; AccClosed; Success] 2 = mkC19Obs 3 RValue true [(1, RValue); (1, RValue)] /\
  model_C19 1 [Success; ClosedIdle] 3
  = mkC19Obs 1 RValue true [(1, RErr KBrokenPipe); (1, RValue); (1, RValue)].
Proof. vm_compute. split; reflexivity. Qed.

Example C19_nonvacuous_broadcast :
  addressed [3; 1; 2; 7; 0] 3 = [true; false; false; true; false] /\
  addressed [3; 1; 2; 7; 0] 0 = [true; true; true; true; true].
Proof. vm_compute. split; reflexivity. Qed.

Check C19_source_tables :
  agrees src_fleet_retryable retry_table /\ agrees src_async_fleet_retryable retry_table.
Check C19_loop_is_spec : forall max script c, call max script c = spec_call max script c.
Check C19_attempts_le_max : forall max script c, co_attempts (call max script c) <= N.of_nat max.
Check C19_at_least_one_attempt : forall max script c,
  (1 <= max)%nat -> 1 <= co_attempts (call max script c).
Check C19_retries_only_after_transport : forall max script c,
  let rs := attempt_results max script c in
  N.of_nat (length rs) = co_attempts (spec_call max script c) /\
  Forall (fun r => classify r = Transport) (removelast rs).
Check C19_stops_at_first_reply_and_reports_it : forall max script c,
  (1 <= max)%nat ->
  let rs := attempt_results max script c in
  co_result (spec_call max script c) = last rs (RErr KNotConnected) /\
  (classify (last rs (RErr KNotConnected)) <> Transport \/ length rs = max).
Check C19_never_wedged : forall max c,
  (1 <= max)%nat ->
  let o1 := call max [] c in
  is_value (co_result o1) = true \/ is_value (co_result (call max [] (co_cache o1))) = true.
Check C19_never_wedged_after_any_script : forall max script c,
  (1 <= max)%nat ->
  let o := call max script c in
  let o1 := call max [] (co_cache o) in
  is_value (co_result o1) = true \/ is_value (co_result (call max [] (co_cache o1))) = true.
Check C19_old_table_wedges : forall max n,
  (1 <= max)%nat ->
  Forall (fun '(a, r) => r = RErr KBrokenPipe) (follow_ups old_table max n [] CDead).
Check C19_broadcast_targets : forall node_tags want i t,
  nth_error node_tags i = Some t ->
  nth_error (addressed node_tags want) i = Some (N.land t want =? want).
Check C19_broadcast_one_per_node : forall node_tags want,
  length (addressed node_tags want) = length node_tags.
Check C19_holds : forall max script n,
  (1 <= max)%nat -> ok_C19 max script (model_C19 max script n) = true.

(** the definitions the statements above rely on, pinned *)
Check (eq_refl : old_table = [true; true; true; true; true; true; false; true; true]).
Check (eq_refl : attempt_results = fix go (fuel : nat) (script : list behaviour) (c : cache) : list result :=
  match fuel with
  | O => []
  | S fuel' =>
      let '(b, script') := next_b script in
      let '(r, _) := attempt b c in
      match classify r with
      | Transport => r :: go fuel' script' CNone
      | Reply | MalformedReply => [r]
      end
  end).
Check (eq_refl : @agrees = fun A (src : option A) (m : A) => match src with Some x => x = m | None => True end).

Print Assumptions C19_source_tables.
Print Assumptions C19_loop_is_spec.
Print Assumptions C19_attempts_le_max.
Print Assumptions C19_at_least_one_attempt.
Print Assumptions C19_retries_only_after_transport.
Print Assumptions C19_stops_at_first_reply_and_reports_it.
Print Assumptions C19_never_wedged.
Print Assumptions C19_never_wedged_after_any_script.
Print Assumptions C19_old_table_wedges.
Print Assumptions C19_broadcast_targets.
Print Assumptions C19_broadcast_one_per_node.
Print Assumptions C19_holds.

(** ** tie to the source text: the bodies of the four retry functions
    (call_json_with_retry, call_message_with_retry of src/fleet.rs and of
    src/async_fleet.rs), re-translated into Gallina by bin/rs2v on every run
    (Gen/FleetGen.v), are all the ONE model loop [retry_loop]: same attempts
    made, cached client, remaining script, reported result, and one sleep after
    every retryable failure that was not the last allowed attempt
    ([retry_sleeps]).  The closure / async block that performs one attempt is
    not translated: it is the environment step that assumption R8 describes.
    For [max = 0] (rejected by validate_fleet_options) the code reports neither
    value nor error, where the model has its placeholder.  A function that could
    not be translated is [None] and its clause is [True] (reported by rs2v). *)
From RepeV Require Import Base.GenFleetPrelude Gen.FleetGen Proofs.FleetGenAgree.

Theorem C19_source_translation : forall g,
  In g [gen_fleet_call_json; gen_fleet_call_message; gen_afleet_call_json; gen_afleet_call_message] ->
  match g with
  | Some f => forall tbl max script c,
      let o := f tbl (N.of_nat max) script c in
      let m := retry_loop tbl max script c 0 (RErr KNotConnected) in
      fo_made o = co_attempts m /\ fo_cache o = co_cache m /\ fo_script o = co_script m /\
      fo_sleeps o = retry_sleeps tbl max script c /\
      ((1 <= max)%nat -> fo_result o = rr_of (co_result m)) /\
      (max = 0%nat -> fo_result o = RRError None)
  | None => True
  end.
Proof. exact c19_source_translation_explicit. Qed.

Check C19_source_translation : forall g,
  In g [gen_fleet_call_json; gen_fleet_call_message; gen_afleet_call_json; gen_afleet_call_message] ->
  match g with
  | Some f => forall tbl max script c,
      let o := f tbl (N.of_nat max) script c in
      let m := retry_loop tbl max script c 0 (RErr KNotConnected) in
      fo_made o = co_attempts m /\ fo_cache o = co_cache m /\ fo_script o = co_script m /\
      fo_sleeps o = retry_sleeps tbl max script c /\
      ((1 <= max)%nat -> fo_result o = rr_of (co_result m)) /\
      (max = 0%nat -> fo_result o = RRError None)
  | None => True
  end.

Print Assumptions C19_source_translation.
