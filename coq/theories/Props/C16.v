(** C16 — Off-reader handlers are capped, never block the reader or kill the
    connection.  One WebSocket connection is the state [(running, cap, outbox)]
    of Model/OffReader.v driven by [Arrive r] (the reader decoded request [r])
    and [Exit r how] (the blocking thread of [r] left its handler by return,
    error or panic).  This file contains only statements (closed by [exact] or
    a short application of lemmas), their pins and their assumptions. *)
From RepeV Require Import Model.OffReader Proofs.OffReaderProofs.
From RepeV Require Import Model.OutQueue Proofs.OutQueueProofs.
From Coq Require Import Permutation.
From RepeV Require Import Gen.Tables Proofs.TablesC01 Proofs.TablesMisc.

(** the number of held permits never exceeds the cap: in every state reachable
    by ANY event list (every prefix of every history, well-formed or not), and
    so does the maximum over a history *)
Theorem C16_running_le_cap : forall nmw c evs,
  running (run nmw (init (Some c)) evs) <= c /\ maxrun_from nmw (init (Some c)) evs <= c.
Proof.
  intros nmw c evs. split; [apply reachable_le_cap|].
  apply maxrun_le_cap; [reflexivity|]. cbn [init running]. lia.
Qed.

(** an off-reader request arriving at the cap is refused by the [Arrive] step
    itself: ResourceExhausted with the request's id is queued (nothing for a
    notify), [running] and the cap are unchanged *)
Theorem C16_saturated_reply_immediate : forall nmw s r,
  is_blocking_route (r_route r) = true -> saturated s = true ->
  step nmw s (Arrive r)
  = mkSt (running s) (cap s)
         (outbox s ++ (if r_notify r then [] else [(r_id r, EC_RESOURCE_EXHAUSTED)])) /\
  outcome_of nmw s (Arrive r) = (if r_notify r then ODrop else OReject).
Proof. exact step_saturated. Qed.

(** every exit frees one slot, by return, error and panic alike *)
Theorem C16_every_exit_frees_slot : forall nmw s r h,
  running (step nmw s (Exit r h)) = running s - 1 /\ cap (step nmw s (Exit r h)) = cap s.
Proof. intros nmw s r h. rewrite step_exit. split; reflexivity. Qed.

(** after a well-formed history the number of held permits is exactly the
    number of admitted requests that have not exited: no slot leaks *)
Theorem C16_running_counts_live : forall nmw c evs,
  wf_from c [] [] evs = true ->
  running (run nmw (init c) evs) = N.of_nat (length (live_after c [] evs)).
Proof.
  intros nmw c evs H.
  exact (running_counts_live nmw c evs (init c) [] [] eq_refl eq_refl H).
Qed.

(** a batch of off-reader requests that fits under the cap is admitted whole *)
Theorem C16_free_slots_admit : forall nmw c rs s,
  cap s = Some c -> running s + N.of_nat (length rs) <= c ->
  forallb (fun r => is_blocking_route (r_route r)) rs = true ->
  outs_from nmw s (map Arrive rs) = map (fun _ => OAdmit) rs /\
  running (run nmw s (map Arrive rs)) = running s + N.of_nat (length rs).
Proof. intros nmw c rs s. exact (batch_admitted nmw c rs s). Qed.

(** a panic is reported to its caller as InternalError with the request's id
    (nothing for a notify) and frees the slot *)
Theorem C16_panic_reports_internal_error_same_id : forall nmw s r,
  step nmw s (Exit r Panic)
  = mkSt (running s - 1) (cap s)
         (outbox s ++ (if r_notify r then [] else [(r_id r, EC_INTERNAL_ERROR)])).
Proof. intros nmw s r. exact (step_exit nmw s r Panic). Qed.

(** every reply in the outbox is a function of one event and that event's own
    outcome: the outbox is the concatenation of the per-event replies *)
Theorem C16_replies_determined_per_request : forall nmw c evs,
  outbox (run nmw (init c) evs) = implied_all evs (outs_from nmw (init c) evs).
Proof. intros nmw c evs. rewrite outbox_run. reflexivity. Qed.

(** under well-formedness no request is answered twice *)
Theorem C16_one_reply_per_request : forall c,
  c16_wf c = true -> NoDup (map fst (o_resp (model_C16 c))).
Proof. exact one_reply_per_request. Qed.

(** deleting a request refused at the cap from a history changes nothing for
    the others: same outcomes, same replies in the same order, same [running] *)
Theorem C16_others_unaffected_by_saturated : forall nmw s evs1 r evs2,
  is_blocking_route (r_route r) = true -> saturated (run nmw s evs1) = true ->
  let s1 := run nmw s evs1 in
  let mine := if r_notify r then [] else [(r_id r, EC_RESOURCE_EXHAUSTED)] in
  exists rest_outs rest_replies,
    outs_from nmw s (evs1 ++ Arrive r :: evs2)
      = outs_from nmw s evs1 ++ (if r_notify r then ODrop else OReject) :: rest_outs /\
    outs_from nmw s (evs1 ++ evs2) = outs_from nmw s evs1 ++ rest_outs /\
    outbox (run nmw s (evs1 ++ Arrive r :: evs2)) = outbox s1 ++ mine ++ rest_replies /\
    outbox (run nmw s (evs1 ++ evs2)) = outbox s1 ++ rest_replies /\
    running (run nmw s (evs1 ++ Arrive r :: evs2)) = running (run nmw s (evs1 ++ evs2)).
Proof. exact others_unaffected_saturated. Qed.

(** a handler that panics instead of leaving in any other way [h] changes
    nothing for the others *)
Theorem C16_others_unaffected_by_panic : forall nmw s evs1 r h evs2,
  let s1 := run nmw s evs1 in
  exists rest_outs rest_replies,
    outs_from nmw s (evs1 ++ Exit r Panic :: evs2)
      = outs_from nmw s evs1 ++ outcome_of nmw s1 (Exit r Panic) :: rest_outs /\
    outs_from nmw s (evs1 ++ Exit r h :: evs2)
      = outs_from nmw s evs1 ++ outcome_of nmw s1 (Exit r h) :: rest_outs /\
    outbox (run nmw s (evs1 ++ Exit r Panic :: evs2))
      = outbox s1 ++ (if r_notify r then [] else [(r_id r, EC_INTERNAL_ERROR)]) ++ rest_replies /\
    outbox (run nmw s (evs1 ++ Exit r h :: evs2))
      = outbox s1 ++ (if r_notify r then [] else [(r_id r, how_code h)]) ++ rest_replies /\
    running (run nmw s (evs1 ++ Exit r Panic :: evs2)) = running (run nmw s (evs1 ++ Exit r h :: evs2)).
Proof. exact others_unaffected_panic. Qed.

(** a middleware pipeline has the execution mode of the handler it wraps,
    however many middlewares and however deeply nested; so every blocking
    route is dispatched off the reader and the plain route inline *)
Theorem C16_execution_preserved_through_middleware : forall nmw h r,
  execution (wrap_with_middlewares nmw h) = execution h /\
  execution (HPipeline nmw h) = execution h /\
  execution (dispatched nmw r) = (if is_blocking_route r then OffReader else Inline).
Proof.
  intros nmw h r. split; [apply execution_wrap|]. split; [reflexivity|apply execution_dispatched].
Qed.

(** the reader never waits for a handler: [step] is a total function of the
    current state and the event alone (no [Arrive] is disabled and none waits
    for a future [Exit]); in particular, whatever the number of running
    handlers, an inline request is answered in its own step.  In the model this
    is by construction; for the crate it rests on [try_acquire_owned] being
    non-blocking, on [spawn_blocking] returning at once and on the tokio
    scheduler (the harness measures it: inline traffic is answered while every
    slot is held by a parked handler). *)
Theorem C16_reader_never_waits : forall nmw s r,
  (exists s', step nmw s (Arrive r) = s' /\ cap s' = cap s) /\
  (is_blocking_route (r_route r) = false ->
   step nmw s (Arrive r)
   = mkSt (running s) (cap s) (outbox s ++ (if r_notify r then [] else [(r_id r, EC_OK)]))).
Proof.
  intros nmw s r. split; [exists (step nmw s (Arrive r)); split; reflexivity|].
  intros Hb. exact (proj1 (step_inline nmw s r Hb)).
Qed.

(** the executable oracle (also applied to the implementation's observations)
    accepts the model on every well-formed case *)
Theorem C16_holds : forall c, c16_wf c = true -> ok_C16 c (model_C16 c) = true.
Proof. exact ok_model_C16. Qed.

(** ** the bounded outbound channel between the reader / the blocking threads and the writer
    (Model/OutQueue.v): what the refusals and replies of the theorems above go through *)

(** whatever the producers and the schedule of waiting sends and writer steps, nothing is
    lost or duplicated, and the queue never exceeds its capacity *)
Theorem C16_bounded_queue_conserves : forall (acts : list qact) (s : qst resp),
  forallb waiting_act acts = true -> (length (q_items s) <= q_cap s)%nat ->
  Permutation (all_of (qrun s acts)) (all_of s) /\
  (length (q_items (qrun s acts)) <= q_cap s)%nat.
Proof.
  intros acts s Hw Hb. split; [exact (run_conserves acts s Hw)|exact (proj1 (run_bounded acts s Hb))].
Qed.

(** reader and writer cannot block each other: with a capacity of at least one, as long as
    anything is queued or unsent some waiting action is enabled *)
Theorem C16_bounded_queue_no_deadlock : forall (s : qst resp),
  (0 < q_cap s)%nat -> quiescent s = false ->
  exists a, waiting_act a = true /\ enabled s a = true.
Proof. exact no_deadlock. Qed.

(** a schedule of enabled actions is no longer than the work left, and a maximal one ends
    with every message on the wire exactly once (any number of producers) *)
Theorem C16_bounded_queue_delivers_all : forall (acts : list qact) (s : qst resp),
  (0 < q_cap s)%nat -> forallb waiting_act acts = true -> all_enabled s acts = true ->
  (length acts <= measure s)%nat /\
  ((forall a, waiting_act a = true -> enabled (qrun s acts) a = false) ->
   quiescent (qrun s acts) = true /\ Permutation (q_wire (qrun s acts)) (all_of s)).
Proof. exact delivery. Qed.

(** the reader's own messages (refusals at the cap, inline replies) reach the wire in the
    order of the requests, whatever the capacity and the schedule *)
Theorem C16_reader_replies_delivered_in_order : forall (q : nat) (msgs : list resp) acts,
  (0 < q)%nat -> forallb waiting_act acts = true ->
  all_enabled (mkQ q [msgs] [] []) acts = true ->
  (forall a, waiting_act a = true -> enabled (qrun (mkQ q [msgs] [] []) acts) a = false) ->
  q_wire (qrun (mkQ q [msgs] [] []) acts) = msgs.
Proof. exact single_producer_delivery. Qed.

(** and it has to be the waiting send: with [try_send] a full queue loses a message *)
Theorem C16_try_send_would_lose : exists (s : qst N) acts,
  (0 < q_cap s)%nat /\ quiescent (qrun s acts) = true /\ ~ Permutation (q_wire (qrun s acts)) (all_of s).
Proof. exact try_send_loses. Qed.

(** ** non-vacuity *)

Definition rq (id : N) (ntf : bool) (rt : route) : req := mkReq id ntf rt.

(** cap 2, one middleware: two admissions, a refused request and a dropped
    notify at the cap, an inline request answered during saturation, a panic, a
    handler error, a re-admission into the freed slots, a refused one again *)
Definition c16_demo : c16case :=
  mkCase (Some 2) 1
    [Arrive (rq 11 false RJsonBlocking); Arrive (rq 12 true RTypedBlocking);
     Arrive (rq 13 false RCtxBlocking); Arrive (rq 14 true RJsonBlocking);
     Arrive (rq 15 false RInline);
     Exit (rq 11 false RJsonBlocking) Panic; Exit (rq 12 true RTypedBlocking) Panic;
     Arrive (rq 16 false RJsonBlocking); Arrive (rq 17 false RTypedBlocking);
     Arrive (rq 18 false RCtxBlocking);
     Exit (rq 17 false RTypedBlocking) (Error 4096); Exit (rq 16 false RJsonBlocking) Return;
     Arrive (rq 19 false RInline)].

Example C16_nonvacuous_wf : c16_wf c16_demo = true.
Proof. vm_compute. reflexivity. Qed.

Example C16_nonvacuous_model :
  model_C16 c16_demo
  = mkObs 2
      [OAdmit; OAdmit; OReject; ODrop; OInlineOk; OPanic; OQuiet; OAdmit; OAdmit; OReject;
       OError 4096; OReturn; OInlineOk]
      [(13, 8); (15, 0); (11, 9); (18, 8); (17, 4096); (16, 0); (19, 0)]
      3 2 true [Inline; OffReader; OffReader; OffReader].
Proof. vm_compute. reflexivity. Qed.

Example C16_nonvacuous_ok : ok_C16 c16_demo (model_C16 c16_demo) = true.
Proof. vm_compute. reflexivity. Qed.

(** the oracle rejects: a third handler admitted at cap 2 (clause 2, and
    clause 1 once the gauge shows it); a slot that a panic did not free (the
    later request refused although a slot must be free); a panic answered
    without the request's id; a refusal that was not reported; a dead
    connection; a blocking route downgraded to inline by the middleware *)
Example C16_oracle_rejects :
  let m := model_C16 c16_demo in
  ok_C16 c16_demo (mkObs 3 (o_outs m) (o_resp m) (o_sat m) (o_pan m) true (o_modes m)) = false /\
  ok_C16 c16_demo
    (mkObs 2 [OAdmit; OAdmit; OAdmit; ODrop; OInlineOk; OPanic; OQuiet; OAdmit; OAdmit; OReject;
              OError 4096; OReturn; OInlineOk] (o_resp m) (o_sat m) (o_pan m) true (o_modes m)) = false /\
  ok_C16 c16_demo
    (mkObs 2 [OAdmit; OAdmit; OReject; ODrop; OInlineOk; OPanic; OQuiet; OAdmit; OReject; OReject;
              OError 4096; OReturn; OInlineOk]
       [(13, 8); (15, 0); (11, 9); (17, 8); (18, 8); (17, 4096); (16, 0); (19, 0)] 4 2 true (o_modes m)) = false /\
  ok_C16 c16_demo
    (mkObs 2 (o_outs m) [(13, 8); (15, 0); (0, 9); (18, 8); (17, 4096); (16, 0); (19, 0)]
       (o_sat m) (o_pan m) true (o_modes m)) = false /\
  ok_C16 c16_demo (mkObs 2 (o_outs m) (o_resp m) 2 (o_pan m) true (o_modes m)) = false /\
  ok_C16 c16_demo (mkObs 2 (o_outs m) (o_resp m) (o_sat m) (o_pan m) false (o_modes m)) = false /\
  ok_C16 c16_demo (mkObs 2 (o_outs m) (o_resp m) (o_sat m) (o_pan m) true [Inline; Inline; OffReader; OffReader]) = false.
Proof. vm_compute. repeat split; reflexivity. Qed.

(** the hypotheses of the step theorems are satisfiable: a saturated state is
    reachable, and there the refused request leaves [running] at the cap *)
Example C16_nonvacuous_saturated :
  let s := run 1 (init (Some 2)) (firstn 2 (c_evs c16_demo)) in
  saturated s = true /\ running s = 2 /\
  running (step 1 s (Arrive (rq 13 false RCtxBlocking))) = 2 /\
  running (step 1 s (Exit (rq 11 false RJsonBlocking) Panic)) = 1 /\
  live_after (Some 2) [] (firstn 10 (c_evs c16_demo)) = [rq 16 false RJsonBlocking; rq 17 false RTypedBlocking] /\
  live_after (Some 2) [] (c_evs c16_demo) = [] /\ running (run 1 (init (Some 2)) (c_evs c16_demo)) = 0.
Proof. vm_compute. repeat split; reflexivity. Qed.

(** ill-formed histories are excluded: an exit without an admission, an exit
    of a refused request, a reused id *)
Example C16_wf_rejects :
  c16_wf (mkCase (Some 1) 0 [Exit (rq 1 false RJsonBlocking) Return]) = false /\
  c16_wf (mkCase (Some 1) 0 [Arrive (rq 1 false RJsonBlocking); Arrive (rq 2 false RJsonBlocking);
                             Exit (rq 2 false RJsonBlocking) Return]) = false /\
  c16_wf (mkCase None 0 [Arrive (rq 1 false RInline); Arrive (rq 1 false RJsonBlocking)]) = false /\
  c16_wf (mkCase (Some 0) 0 []) = false.
Proof. vm_compute. repeat split; reflexivity. Qed.

Check C16_running_le_cap : forall nmw c evs,
  running (run nmw (init (Some c)) evs) <= c /\ maxrun_from nmw (init (Some c)) evs <= c.
Check C16_saturated_reply_immediate : forall nmw s r,
  is_blocking_route (r_route r) = true -> saturated s = true ->
  step nmw s (Arrive r)
  = mkSt (running s) (cap s)
         (outbox s ++ (if r_notify r then [] else [(r_id r, EC_RESOURCE_EXHAUSTED)])) /\
  outcome_of nmw s (Arrive r) = (if r_notify r then ODrop else OReject).
Check C16_every_exit_frees_slot : forall nmw s r h,
  running (step nmw s (Exit r h)) = running s - 1 /\ cap (step nmw s (Exit r h)) = cap s.
Check C16_running_counts_live : forall nmw c evs,
  wf_from c [] [] evs = true ->
  running (run nmw (init c) evs) = N.of_nat (length (live_after c [] evs)).
Check C16_free_slots_admit : forall nmw c rs s,
  cap s = Some c -> running s + N.of_nat (length rs) <= c ->
  forallb (fun r => is_blocking_route (r_route r)) rs = true ->
  outs_from nmw s (map Arrive rs) = map (fun _ => OAdmit) rs /\
  running (run nmw s (map Arrive rs)) = running s + N.of_nat (length rs).
Check C16_panic_reports_internal_error_same_id : forall nmw s r,
  step nmw s (Exit r Panic)
  = mkSt (running s - 1) (cap s)
         (outbox s ++ (if r_notify r then [] else [(r_id r, EC_INTERNAL_ERROR)])).
Check C16_replies_determined_per_request : forall nmw c evs,
  outbox (run nmw (init c) evs) = implied_all evs (outs_from nmw (init c) evs).
Check C16_one_reply_per_request : forall c,
  c16_wf c = true -> NoDup (map fst (o_resp (model_C16 c))).
Check C16_others_unaffected_by_saturated : forall nmw s evs1 r evs2,
  is_blocking_route (r_route r) = true -> saturated (run nmw s evs1) = true ->
  let s1 := run nmw s evs1 in
  let mine := if r_notify r then [] else [(r_id r, EC_RESOURCE_EXHAUSTED)] in
  exists rest_outs rest_replies,
    outs_from nmw s (evs1 ++ Arrive r :: evs2)
      = outs_from nmw s evs1 ++ (if r_notify r then ODrop else OReject) :: rest_outs /\
    outs_from nmw s (evs1 ++ evs2) = outs_from nmw s evs1 ++ rest_outs /\
    outbox (run nmw s (evs1 ++ Arrive r :: evs2)) = outbox s1 ++ mine ++ rest_replies /\
    outbox (run nmw s (evs1 ++ evs2)) = outbox s1 ++ rest_replies /\
    running (run nmw s (evs1 ++ Arrive r :: evs2)) = running (run nmw s (evs1 ++ evs2)).
Check C16_others_unaffected_by_panic : forall nmw s evs1 r h evs2,
  let s1 := run nmw s evs1 in
  exists rest_outs rest_replies,
    outs_from nmw s (evs1 ++ Exit r Panic :: evs2)
      = outs_from nmw s evs1 ++ outcome_of nmw s1 (Exit r Panic) :: rest_outs /\
    outs_from nmw s (evs1 ++ Exit r h :: evs2)
      = outs_from nmw s evs1 ++ outcome_of nmw s1 (Exit r h) :: rest_outs /\
    outbox (run nmw s (evs1 ++ Exit r Panic :: evs2))
      = outbox s1 ++ (if r_notify r then [] else [(r_id r, EC_INTERNAL_ERROR)]) ++ rest_replies /\
    outbox (run nmw s (evs1 ++ Exit r h :: evs2))
      = outbox s1 ++ (if r_notify r then [] else [(r_id r, how_code h)]) ++ rest_replies /\
    running (run nmw s (evs1 ++ Exit r Panic :: evs2)) = running (run nmw s (evs1 ++ Exit r h :: evs2)).
Check C16_execution_preserved_through_middleware : forall nmw h r,
  execution (wrap_with_middlewares nmw h) = execution h /\
  execution (HPipeline nmw h) = execution h /\
  execution (dispatched nmw r) = (if is_blocking_route r then OffReader else Inline).
Check C16_reader_never_waits : forall nmw s r,
  (exists s', step nmw s (Arrive r) = s' /\ cap s' = cap s) /\
  (is_blocking_route (r_route r) = false ->
   step nmw s (Arrive r)
   = mkSt (running s) (cap s) (outbox s ++ (if r_notify r then [] else [(r_id r, EC_OK)]))).
Check C16_holds : forall c, c16_wf c = true -> ok_C16 c (model_C16 c) = true.
Check C16_bounded_queue_conserves : forall (acts : list qact) (s : qst resp),
  forallb waiting_act acts = true -> (length (q_items s) <= q_cap s)%nat ->
  Permutation (all_of (qrun s acts)) (all_of s) /\
  (length (q_items (qrun s acts)) <= q_cap s)%nat.
Check C16_bounded_queue_no_deadlock : forall (s : qst resp),
  (0 < q_cap s)%nat -> quiescent s = false ->
  exists a, waiting_act a = true /\ enabled s a = true.
Check C16_bounded_queue_delivers_all : forall (acts : list qact) (s : qst resp),
  (0 < q_cap s)%nat -> forallb waiting_act acts = true -> all_enabled s acts = true ->
  (length acts <= measure s)%nat /\
  ((forall a, waiting_act a = true -> enabled (qrun s acts) a = false) ->
   quiescent (qrun s acts) = true /\ Permutation (q_wire (qrun s acts)) (all_of s)).
Check C16_reader_replies_delivered_in_order : forall (q : nat) (msgs : list resp) acts,
  (0 < q)%nat -> forallb waiting_act acts = true ->
  all_enabled (mkQ q [msgs] [] []) acts = true ->
  (forall a, waiting_act a = true -> enabled (qrun (mkQ q [msgs] [] []) acts) a = false) ->
  q_wire (qrun (mkQ q [msgs] [] []) acts) = msgs.
Check C16_try_send_would_lose : exists (s : qst N) acts,
  (0 < q_cap s)%nat /\ quiescent (qrun s acts) = true /\ ~ Permutation (q_wire (qrun s acts)) (all_of s).

(** the codes are the crate's: ResourceExhausted = 8, InternalError = 9 *)
Check (eq_refl : (EC_OK, EC_RESOURCE_EXHAUSTED, EC_INTERNAL_ERROR) = (0, 8, 9)).

Print Assumptions C16_running_le_cap.
Print Assumptions C16_saturated_reply_immediate.
Print Assumptions C16_every_exit_frees_slot.
Print Assumptions C16_running_counts_live.
Print Assumptions C16_free_slots_admit.
Print Assumptions C16_panic_reports_internal_error_same_id.
Print Assumptions C16_replies_determined_per_request.
Print Assumptions C16_one_reply_per_request.
Print Assumptions C16_others_unaffected_by_saturated.
Print Assumptions C16_others_unaffected_by_panic.
Print Assumptions C16_execution_preserved_through_middleware.
Print Assumptions C16_reader_never_waits.
Print Assumptions C16_holds.
Print Assumptions C16_bounded_queue_conserves.
Print Assumptions C16_bounded_queue_no_deadlock.
Print Assumptions C16_bounded_queue_delivers_all.
Print Assumptions C16_reader_replies_delivered_in_order.
Print Assumptions C16_try_send_would_lose.

(** constants of the model are the ones re-read from the Rust source on this run *)
Theorem C16_source_tables :
  agrees src_ErrorCode_Ok OffReader.EC_OK /\ agrees src_ErrorCode_ResourceExhausted OffReader.EC_RESOURCE_EXHAUSTED /\
  agrees src_ErrorCode_InternalError OffReader.EC_INTERNAL_ERROR.
Proof. exact c16_error_codes_agree. Qed.
Check C16_source_tables :
  agrees src_ErrorCode_Ok OffReader.EC_OK /\ agrees src_ErrorCode_ResourceExhausted OffReader.EC_RESOURCE_EXHAUSTED /\
  agrees src_ErrorCode_InternalError OffReader.EC_INTERNAL_ERROR.
Print Assumptions C16_source_tables.

(** ** the admission decision is the one re-translated from the Rust source on this run (bin/rs2v,
    sinks-and-sessions mode: Gen/OffReaderGen.v, Proofs/OffReaderGenAgree.v): the synchronous part
    of spawn_off_reader, up to the call of tokio::task::spawn_blocking (the closure it starts -- the
    handler run, the panic guard, the queued response, the release of the permit -- is not
    translated; the correspondence run carries that part).  [held] permits of the semaphore
    ([sem] = [Some cap], or [None] when there is none) are out, [reports] is what the error hooks
    were handed, [outbox] the outbound channel, [spawned] the blocking tasks started; the value is
    the reader's keep-reading flag.  The rejection is built by the rendering of
    create_error_response_like (Gen/ErrMsgGen.v, tied to the model's [build] by
    C17_source_translation_messages); the premise excludes a query so long that the frame length
    would not fit 64 bits. *)
From RepeV Require Import Base.GenOutboundPrelude Gen.ErrMsgGen Gen.OffReaderGen Proofs.OffReaderGenAgree.

Theorem C16_source_translation :
  match gen_spawn_off_reader with
  | Some f => forall reports held outbox spawned sem request notify,
      HEADER_SIZE + lenN (m_query request) + lenN saturated_text < two64 ->
      f reports held outbox spawned sem request notify =
      if saturated (mkSt held sem []) then
        if notify then Ok (true, reports ++ [R_Saturation], held, outbox, spawned)
        else Ok (res_is_ok (fst (oc_send outbox (rejection request))), reports ++ [R_Saturation], held,
                 snd (oc_send outbox (rejection request)), spawned)
      else Ok (true, reports, match sem with Some _ => held + 1 | None => held end, outbox, spawned + 1)
  | None => True
  end.
Proof. exact c16_source_translation. Qed.

Theorem C16_source_translation_model :
  (forall nmw s r, execution (dispatched nmw (r_route r)) = OffReader ->
     emit nmw s (Arrive r) = (if saturated s then if r_notify r then [] else [(r_id r, EC_RESOURCE_EXHAUSTED)] else []) /\
     next_running nmw s (Arrive r) = (if saturated s then running s else running s + 1)) /\
  (forall request, reply_of (rejection request) = (h_id (m_hdr request), EC_RESOURCE_EXHAUSTED)) /\
  (forall c m, oc_left c = None -> oc_send c m = (ROk tt, mkOut (oc_sent c ++ [m]) None)).
Proof. exact c16_source_translation_model. Qed.

Check C16_source_translation :
  match gen_spawn_off_reader with
  | Some f => forall reports held outbox spawned sem request notify,
      HEADER_SIZE + lenN (m_query request) + lenN saturated_text < two64 ->
      f reports held outbox spawned sem request notify =
      if saturated (mkSt held sem []) then
        if notify then Ok (true, reports ++ [R_Saturation], held, outbox, spawned)
        else Ok (res_is_ok (fst (oc_send outbox (rejection request))), reports ++ [R_Saturation], held,
                 snd (oc_send outbox (rejection request)), spawned)
      else Ok (true, reports, match sem with Some _ => held + 1 | None => held end, outbox, spawned + 1)
  | None => True
  end.
Check C16_source_translation_model :
  (forall nmw s r, execution (dispatched nmw (r_route r)) = OffReader ->
     emit nmw s (Arrive r) = (if saturated s then if r_notify r then [] else [(r_id r, EC_RESOURCE_EXHAUSTED)] else []) /\
     next_running nmw s (Arrive r) = (if saturated s then running s else running s + 1)) /\
  (forall request, reply_of (rejection request) = (h_id (m_hdr request), EC_RESOURCE_EXHAUSTED)) /\
  (forall c m, oc_left c = None -> oc_send c m = (ROk tt, mkOut (oc_sent c ++ [m]) None)).

(** the definitions used above are the plain ones *)
Check (eq_refl : rejection = fun request => error_response_like request ERRC_ResourceExhausted saturated_text).
Check (eq_refl : saturated_text = [111; 102; 102; 45; 114; 101; 97; 100; 101; 114; 32; 100; 105; 115; 112; 97; 116; 99; 104; 32; 108; 105; 109; 105; 116; 32;
   114; 101; 97; 99; 104; 101; 100; 59; 32; 114; 101; 116; 114; 121]%N).
Check (eq_refl : reply_of = fun m => (h_id (m_hdr m), h_ec (m_hdr m))).
Check (eq_refl : ERRC_ResourceExhausted = EC_RESOURCE_EXHAUSTED).
Check (eq_refl : sem_try_acquire = fun held cap => if (held <? cap)%N then (ROk tt, (held + 1)%N) else (RErr tt, held)).

Print Assumptions C16_source_translation.
Print Assumptions C16_source_translation_model.
