(** C08 — Bulk numeric bodies are bit-identical to the generic encoding and
    decode exactly.

    Model: Model/Beve.v (the BEVE wire forms of the dependency [beve] 8.0.0,
    modelled from its source, and repe's glue around them).  Elements are bit
    patterns below [256^width]; NaN payloads, infinities and extreme integers
    are ordinary values.  Bounds, stated once in [slice_ok]: the descriptor has
    the shape of the table's entries ([ety_ok]), every element fits its width,
    the length is below 2^62 (the SIZE codec's range, [SIZE_MAX]) and the
    payload below 2^62 bytes.
    This file contains only statements (closed by [exact]), their pins and
    their assumptions, and computed examples. *)
From RepeV Require Import Model.Beve Proofs.MessageProofs Proofs.BeveProofs.
From RepeV Require Import Gen.Tables Proofs.TablesC01 Proofs.TablesMisc.

(** the compressed SIZE codec loses nothing below 2^62 *)
Theorem C08_size_roundtrip : forall n rest,
  n < SIZE_MAX -> size_dec (size_enc n ++ rest) = Some (n, rest).
Proof. exact size_roundtrip. Qed.

(** a non-empty slice: the bulk body IS the serde body, byte for byte *)
Theorem C08_bulk_eq_generic : forall t xs, xs <> [] -> enc_bulk t xs = enc_generic t xs.
Proof. exact bulk_eq_generic. Qed.

(** each decoder reads the other encoder's output — for EVERY slice, the
    empty one included (serde emits the generic empty array [05 00] for it) *)
Theorem C08_cross_decode : forall t xs, slice_ok t xs = true ->
  dec_bulk t (enc_generic t xs) = DOk xs /\ dec_generic t (enc_bulk t xs) = DOk xs.
Proof. exact cross_decode. Qed.

(** decode after encode is the identity on bit patterns, for every element
    type: repe's bulk decoder, serde, beve's raw bulk reader (trailing bytes
    ignored) and the owned read of the aligned form *)
Theorem C08_bit_exact : forall t xs, slice_ok t xs = true ->
  dec_bulk t (enc_bulk t xs) = DOk xs /\ dec_generic t (enc_generic t xs) = DOk xs /\
  (forall rest, beve_read_typed_slice t (enc_bulk t xs ++ rest) = DOk xs) /\
  (forall base rest, dec_aligned t (enc_aligned t base xs ++ rest) = DOk xs).
Proof. exact bit_exact. Qed.

(** the same for complex slices ([zs] is the flattened list of (re, im)) *)
Theorem C08_complex_bit_exact : forall t zs, slice_ok t zs = true -> lenN zs mod 2 = 0 ->
  (zs <> [] -> enc_complex t zs = enc_generic_complex t zs) /\
  read_complex_slice_compat t (enc_complex t zs) = DOk zs /\
  read_complex_slice_compat t (enc_generic_complex t zs) = DOk zs /\
  dec_generic_complex t (enc_complex t zs) = DOk zs /\
  dec_generic_complex t (enc_generic_complex t zs) = DOk zs.
Proof. exact complex_bit_exact. Qed.

(** the streaming writers, given the header of any message of the same
    builder, put on the wire exactly the frame of the buffered path; the
    declared body length is the closed-form size *)
Theorem C08_streamed_eq_buffered : forall b t xs,
  concat (stream_typed_slice (m_hdr (build b)) (b_query b) t xs)
  = concat (write_chunks (build (body_typed_slice b t xs))).
Proof. exact streamed_eq_buffered_typed. Qed.

Theorem C08_streamed_eq_buffered_complex : forall b t zs,
  concat (stream_complex_slice (m_hdr (build b)) (b_query b) t zs)
  = concat (write_chunks (build (body_complex_slice b t zs))).
Proof. exact streamed_eq_buffered_complex. Qed.

Theorem C08_sizes_exact : forall t base xs,
  typed_slice_size t xs = lenN (enc_bulk t xs) /\
  complex_slice_size t xs = lenN (enc_complex t xs) /\
  aligned_typed_slice_size t base xs = lenN (enc_aligned t base xs).
Proof.
  intros t base xs. split; [apply typed_slice_size_eq|split; [apply complex_slice_size_eq|]].
  symmetry. apply aligned_size_eq.
Qed.

(** the aligned body built for a query of any length: its element block
    starts, counted from the frame start (48-byte header, query, body), on a
    multiple of the element alignment *)
Theorem C08_aligned_offset : forall b t xs, slice_ok t xs = true ->
  let body := m_body (build (body_aligned_typed_slice b t xs)) in
  exists off, parse_aligned t body = DOk (off, lenN xs, payload t xs) /\
              (HEADER_SIZE + lenN (b_query b) + off) mod e_align t = 0.
Proof. exact aligned_offset. Qed.

(** the borrowing decode, for every buffer address: the same elements as the
    owned decode; borrowed exactly when the block is aligned in memory, copied
    otherwise; regular and serde bodies are always copied *)
Theorem C08_ref_same_elements : forall t base addr xs, slice_ok t xs = true ->
  dmap si_elems (dec_ref t addr (enc_aligned t base xs)) = dec_aligned t (enc_aligned t base xs) /\
  dec_ref t addr (enc_aligned t base xs)
  = DOk (if (addr + aligned_data_off t base (lenN xs)) mod e_align t =? 0 then SBorrowed xs else SOwned xs) /\
  dec_ref t addr (enc_bulk t xs) = DOk (SOwned xs) /\
  dec_ref t addr (enc_generic t xs) = DOk (SOwned xs).
Proof. exact ref_same_elements. Qed.

(** a frame received at an aligned address IS borrowed, for every query length *)
Theorem C08_aligned_frame_borrowed : forall t (q : list byte) fa xs,
  slice_ok t xs = true -> fa mod e_align t = 0 ->
  dec_ref t (fa + HEADER_SIZE + lenN q) (enc_aligned t (HEADER_SIZE + lenN q) xs) = DOk (SBorrowed xs).
Proof. exact aligned_frame_borrowed. Qed.

(** decoding with another element type is an error, never a
    reinterpretation; and the table's types have pairwise distinct tags *)
Theorem C08_wrong_type_rejected : forall t u xs base addr,
  ety_ok t = true -> tag_eqb t u = false ->
  dec_bulk u (enc_bulk t xs) = DErr BMismatch /\
  (xs <> [] -> dec_bulk u (enc_generic t xs) = DErr BMismatch) /\
  dec_aligned u (enc_aligned t base xs) = DErr BMismatch /\
  dec_ref u addr (enc_aligned t base xs) = DErr BMismatch /\
  dec_ref u addr (enc_bulk t xs) = DErr BMismatch.
Proof. exact wrong_type_rejected. Qed.

Theorem C08_table_tags_distinct : forall t u,
  In t ety_all -> In u ety_all -> tag_eqb t u = true -> t = u.
Proof. exact ety_all_tag_inj. Qed.

Theorem C08_table_ok : forall t, In t ety_all -> ety_ok t = true.
Proof. exact ety_all_In_ok. Qed.

(** the aligned form and a complex body are not plain typed arrays *)
Theorem C08_other_forms_rejected : forall u t base xs, ety_ok u = true ->
  dec_bulk u (enc_aligned t base xs) = DErr BMismatch /\
  dec_bulk u (enc_complex t xs) = DErr BInvalidType.
Proof. intros u t base xs H. split; [now apply dec_bulk_aligned|apply dec_bulk_complex]. Qed.

(** a body under another format code is refused by the decoders (structured
    error) and by the bulk routes (InvalidBody response) *)
Theorem C08_wrong_format_rejected : forall t u m, h_bfmt (m_hdr m) <> BODY_BEVE ->
  decode_typed_slice t m = DErr BFormat /\ decode_complex_slice u m = DErr BFormat /\
  route_slice t (h_bfmt (m_hdr m)) (m_body m) = DErr BRemote /\
  (forall addr, route_ref t (h_bfmt (m_hdr m)) addr (m_body m) = DErr BRemote).
Proof. exact wrong_format_rejected. Qed.

(** every live pairing of client helper and echo route returns the original
    bit patterns, wherever the request lands in memory *)
Theorem C08_live_calls : forall t qlen addr xs, slice_ok t xs = true ->
  live_call RSlice CBulk t qlen addr xs = DOk xs /\ live_call RSlice CSerde t qlen addr xs = DOk xs /\
  live_call RRef CBulk t qlen addr xs = DOk xs /\ live_call RRef CSerde t qlen addr xs = DOk xs /\
  live_call RRef CAligned t qlen addr xs = DOk xs /\
  live_call RTyped CBulk t qlen addr xs = DOk xs /\ live_call RTyped CSerde t qlen addr xs = DOk xs /\
  live_call RSlice CAligned t qlen addr xs = DErr BRemote.
Proof. exact live_calls. Qed.

(** the executable oracle (also applied to the implementation's
    observations) accepts the model on every well-formed case *)
Theorem C08_holds : forall c, c08_wf c = true -> ok_C08 c (model_C08 c) = true.
Proof. exact ok_model_C08. Qed.

(** ** non-vacuity and computed examples *)

(** f64 bit patterns: a quiet NaN with payload, -inf, the smallest subnormal *)
Definition c08_f64s : list N := [9221120237041090561; 18442240474082181120; 1].

Example C08_example_bulk :
  enc_bulk ty_f64 c08_f64s
  = [100; 12; 1; 0; 0; 0; 0; 0; 248; 127; 0; 0; 0; 0; 0; 0; 240; 255; 1; 0; 0; 0; 0; 0; 0; 0] /\
  enc_generic ty_f64 c08_f64s = enc_bulk ty_f64 c08_f64s /\
  enc_generic ty_f64 [] = [5; 0] /\ enc_bulk ty_f64 [] = [100; 0] /\
  slice_ok ty_f64 c08_f64s = true.
Proof. vm_compute. repeat split; reflexivity. Qed.

(** SIZE: the four widths *)
Example C08_example_size :
  size_enc 63 = [252] /\ size_enc 64 = [1; 1] /\ size_enc 16383 = [253; 255] /\
  size_enc 16384 = [2; 0; 1; 0] /\ size_enc 1073741824 = [3; 0; 0; 0; 1; 0; 0; 0].
Proof. vm_compute. repeat split; reflexivity. Qed.

(** the aligned form for a 6-byte query (base 54): marker, f64 header, SIZE,
    PADLEN = 6, six zero bytes, then the block at frame offset 64 *)
Example C08_example_aligned :
  enc_aligned ty_f64 54 [1] = [92; 100; 4; 6; 0; 0; 0; 0; 0; 0; 1; 0; 0; 0; 0; 0; 0; 0] /\
  aligned_data_off ty_f64 54 1 = 10 /\
  dec_ref ty_f64 54 (enc_aligned ty_f64 54 [1]) = DOk (SBorrowed [1]) /\
  dec_ref ty_f64 55 (enc_aligned ty_f64 54 [1]) = DOk (SOwned [1]) /\
  dec_ref ty_f32 54 (enc_aligned ty_f64 54 [1]) = DErr BMismatch.
Proof. vm_compute. repeat split; reflexivity. Qed.

(** bf16 and f16 are both two bytes wide but carry different tags *)
Example C08_example_halves :
  enc_bulk ty_bf16 [16256] = [4; 4; 128; 63] /\ enc_bulk ty_f16 [15360] = [36; 4; 0; 60] /\
  dec_bulk ty_f16 (enc_bulk ty_bf16 [16256]) = DErr BMismatch.
Proof. vm_compute. repeat split; reflexivity. Qed.

(** beve's raw bulk reader refuses the generic empty array; repe's wrapper
    (the repaired behaviour) accepts it as the empty slice of any type *)
Example C08_example_empty_generic :
  beve_read_typed_slice ty_f64 [5; 0] = DErr BInvalidType /\ dec_bulk ty_f64 [5; 0] = DOk [] /\
  dec_bulk ty_u8 (enc_generic ty_f64 []) = DOk [].
Proof. vm_compute. repeat split; reflexivity. Qed.

(** the hypotheses of [C08_holds] are satisfiable in every case kind *)
Example C08_nonvacuous_wf :
  c08_wf (KEnc ty_f64 c08_f64s [47; 97] 7) = true /\
  c08_wf (KCplx ty_f32 ty_f64 [1; 2; 3; 4] [47] 7) = true /\
  c08_wf (KRef ty_f64 c08_f64s 6 3 CAligned) = true /\
  c08_wf (KWrongType ty_f64 ty_f32 c08_f64s 6 3) = true /\
  c08_wf (KWrongFmt ty_f64 c08_f64s 2 false) = true /\
  c08_wf (KWrongFmt ty_f64 [] 0 true) = true /\
  c08_wf (KNet RRef CAligned ty_f64 c08_f64s 6) = true.
Proof. vm_compute. repeat split; reflexivity. Qed.

(** the oracle is not trivially true.  It rejects: a generic body that differs
    from the bulk one; a decoder that fails on the empty generic array (the
    behaviour before the repair); a borrowed flag at a misaligned address; an
    aligned frame in an aligned buffer that was copied; a wrong element type
    that was reinterpreted *)
Example C08_oracle_rejects :
  let c1 := KEnc ty_u16 [513] [] 1 in
  let o1 := model_C08 c1 in
  ok_C08 c1 o1 = true /\
  ok_C08 c1 (mkObs [[68; 4; 1; 2]; [5; 4; 1; 2]; nth 2 (o_bytes o1) []; nth 3 (o_bytes o1) []] (o_res o1) []) = false /\
  let c2 := KEnc ty_u16 [] [] 1 in
  let o2 := model_C08 c2 in
  ok_C08 c2 o2 = true /\
  ok_C08 c2 (mkObs (o_bytes o2) [DOk []; DErr BInvalidType; DOk []; DOk []] []) = false /\
  let c3 := KRef ty_f64 [1] 6 3 CAligned in
  ok_C08 c3 (model_C08 c3) = true /\ o_flags (model_C08 c3) = [false] /\
  ok_C08 c3 (mkObs (o_bytes (model_C08 c3)) (o_res (model_C08 c3)) [true]) = false /\
  let c4 := KRef ty_f64 [1] 6 0 CAligned in
  ok_C08 c4 (model_C08 c4) = true /\ o_flags (model_C08 c4) = [true] /\
  ok_C08 c4 (mkObs (o_bytes (model_C08 c4)) (o_res (model_C08 c4)) [false]) = false /\
  let c5 := KWrongType ty_u16 ty_i16 [65535] 0 0 in
  ok_C08 c5 (model_C08 c5) = true /\
  ok_C08 c5 (mkObs [] [DOk [65535]; DErr BMismatch; DErr BMismatch; DErr BMismatch; DErr BMismatch] []) = false.
Proof. vm_compute. repeat split; reflexivity. Qed.

Check C08_size_roundtrip : forall n rest,
  n < SIZE_MAX -> size_dec (size_enc n ++ rest) = Some (n, rest).
Check C08_bulk_eq_generic : forall t xs, xs <> [] -> enc_bulk t xs = enc_generic t xs.
Check C08_cross_decode : forall t xs, slice_ok t xs = true ->
  dec_bulk t (enc_generic t xs) = DOk xs /\ dec_generic t (enc_bulk t xs) = DOk xs.
Check C08_bit_exact : forall t xs, slice_ok t xs = true ->
  dec_bulk t (enc_bulk t xs) = DOk xs /\ dec_generic t (enc_generic t xs) = DOk xs /\
  (forall rest, beve_read_typed_slice t (enc_bulk t xs ++ rest) = DOk xs) /\
  (forall base rest, dec_aligned t (enc_aligned t base xs ++ rest) = DOk xs).
Check C08_complex_bit_exact : forall t zs, slice_ok t zs = true -> lenN zs mod 2 = 0 ->
  (zs <> [] -> enc_complex t zs = enc_generic_complex t zs) /\
  read_complex_slice_compat t (enc_complex t zs) = DOk zs /\
  read_complex_slice_compat t (enc_generic_complex t zs) = DOk zs /\
  dec_generic_complex t (enc_complex t zs) = DOk zs /\
  dec_generic_complex t (enc_generic_complex t zs) = DOk zs.
Check C08_streamed_eq_buffered : forall b t xs,
  concat (stream_typed_slice (m_hdr (build b)) (b_query b) t xs)
  = concat (write_chunks (build (body_typed_slice b t xs))).
Check C08_streamed_eq_buffered_complex : forall b t zs,
  concat (stream_complex_slice (m_hdr (build b)) (b_query b) t zs)
  = concat (write_chunks (build (body_complex_slice b t zs))).
Check C08_sizes_exact : forall t base xs,
  typed_slice_size t xs = lenN (enc_bulk t xs) /\
  complex_slice_size t xs = lenN (enc_complex t xs) /\
  aligned_typed_slice_size t base xs = lenN (enc_aligned t base xs).
Check C08_aligned_offset : forall b t xs, slice_ok t xs = true ->
  let body := m_body (build (body_aligned_typed_slice b t xs)) in
  exists off, parse_aligned t body = DOk (off, lenN xs, payload t xs) /\
              (HEADER_SIZE + lenN (b_query b) + off) mod e_align t = 0.
Check C08_ref_same_elements : forall t base addr xs, slice_ok t xs = true ->
  dmap si_elems (dec_ref t addr (enc_aligned t base xs)) = dec_aligned t (enc_aligned t base xs) /\
  dec_ref t addr (enc_aligned t base xs)
  = DOk (if (addr + aligned_data_off t base (lenN xs)) mod e_align t =? 0 then SBorrowed xs else SOwned xs) /\
  dec_ref t addr (enc_bulk t xs) = DOk (SOwned xs) /\
  dec_ref t addr (enc_generic t xs) = DOk (SOwned xs).
Check C08_aligned_frame_borrowed : forall t (q : list byte) fa xs,
  slice_ok t xs = true -> fa mod e_align t = 0 ->
  dec_ref t (fa + HEADER_SIZE + lenN q) (enc_aligned t (HEADER_SIZE + lenN q) xs) = DOk (SBorrowed xs).
Check C08_wrong_type_rejected : forall t u xs base addr,
  ety_ok t = true -> tag_eqb t u = false ->
  dec_bulk u (enc_bulk t xs) = DErr BMismatch /\
  (xs <> [] -> dec_bulk u (enc_generic t xs) = DErr BMismatch) /\
  dec_aligned u (enc_aligned t base xs) = DErr BMismatch /\
  dec_ref u addr (enc_aligned t base xs) = DErr BMismatch /\
  dec_ref u addr (enc_bulk t xs) = DErr BMismatch.
Check C08_table_tags_distinct : forall t u,
  In t ety_all -> In u ety_all -> tag_eqb t u = true -> t = u.
Check C08_table_ok : forall t, In t ety_all -> ety_ok t = true.
Check C08_other_forms_rejected : forall u t base xs, ety_ok u = true ->
  dec_bulk u (enc_aligned t base xs) = DErr BMismatch /\
  dec_bulk u (enc_complex t xs) = DErr BInvalidType.
Check C08_wrong_format_rejected : forall t u m, h_bfmt (m_hdr m) <> BODY_BEVE ->
  decode_typed_slice t m = DErr BFormat /\ decode_complex_slice u m = DErr BFormat /\
  route_slice t (h_bfmt (m_hdr m)) (m_body m) = DErr BRemote /\
  (forall addr, route_ref t (h_bfmt (m_hdr m)) addr (m_body m) = DErr BRemote).
Check C08_live_calls : forall t qlen addr xs, slice_ok t xs = true ->
  live_call RSlice CBulk t qlen addr xs = DOk xs /\ live_call RSlice CSerde t qlen addr xs = DOk xs /\
  live_call RRef CBulk t qlen addr xs = DOk xs /\ live_call RRef CSerde t qlen addr xs = DOk xs /\
  live_call RRef CAligned t qlen addr xs = DOk xs /\
  live_call RTyped CBulk t qlen addr xs = DOk xs /\ live_call RTyped CSerde t qlen addr xs = DOk xs /\
  live_call RSlice CAligned t qlen addr xs = DErr BRemote.
Check C08_holds : forall c, c08_wf c = true -> ok_C08 c (model_C08 c) = true.

(** the bounds and the names of the statement are the plain ones *)
Check (eq_refl : SIZE_MAX = 2 ^ 62).
Check (eq_refl : dec_bulk = read_typed_slice_compat).
Check (eq_refl : dec_ref = decode_ref_body).
Check (eq_refl : dec_aligned = beve_read_aligned).
Check (eq_refl : slice_ok = fun t xs => ety_ok t && elems_ok t xs &&
  ((lenN xs <? SIZE_MAX) && (lenN xs * N.of_nat (e_width t) <? SIZE_MAX))).

Print Assumptions C08_size_roundtrip.
Print Assumptions C08_bulk_eq_generic.
Print Assumptions C08_cross_decode.
Print Assumptions C08_bit_exact.
Print Assumptions C08_complex_bit_exact.
Print Assumptions C08_streamed_eq_buffered.
Print Assumptions C08_streamed_eq_buffered_complex.
Print Assumptions C08_sizes_exact.
Print Assumptions C08_aligned_offset.
Print Assumptions C08_ref_same_elements.
Print Assumptions C08_aligned_frame_borrowed.
Print Assumptions C08_wrong_type_rejected.
Print Assumptions C08_table_tags_distinct.
Print Assumptions C08_table_ok.
Print Assumptions C08_other_forms_rejected.
Print Assumptions C08_wrong_format_rejected.
Print Assumptions C08_live_calls.
Print Assumptions C08_holds.

(** constants of the model are the ones re-read from the Rust source on this run *)
Theorem C08_source_tables :
  agrees src_ALIGNED_MARKER Beve.ALIGNED_MARKER.
Proof. exact c08_marker_agree. Qed.
Check C08_source_tables :
  agrees src_ALIGNED_MARKER Beve.ALIGNED_MARKER.
Print Assumptions C08_source_tables.
