(** C08 — placeholder while the proofs are being written (replaced below). *)
From RepeV Require Import Model.Beve Proofs.BeveProofs.
