(** C02 — Hostile bytes never crash a parser or reader; only consistent frames parse. *)
From RepeV Require Import Model.C02 Proofs.HeaderProofs Proofs.MessageProofs Proofs.C01Proofs Proofs.C02Proofs.

(** no byte string makes a slice parser panic or abort: the unchecked [usize]
    additions and slice indexings of from_slice / MessageView::from_slice are
    modelled with their panicking semantics and shown unreachable *)
Theorem C02_decode_total : forall bs, crashes (decode bs) = false.
Proof. exact decode_total. Qed.
Theorem C02_from_slice_total : forall bs, crashes (from_slice bs) = false.
Proof. exact from_slice_total. Qed.
Theorem C02_from_slice_exact_total : forall bs, crashes (from_slice_exact bs) = false.
Proof. exact from_slice_exact_total. Qed.
Theorem C02_view_total : forall bs, crashes (view_from_slice bs) = false.
Proof. exact view_from_slice_total. Qed.
Theorem C02_view_exact_total : forall bs, crashes (view_from_slice_exact bs) = false.
Proof. exact view_from_slice_exact_total. Qed.

(** stream readers: whatever the stream holds and whatever the allocator
    answers, the result is a value or an error *)
Theorem C02_read_total : forall can_alloc src, crashes (read_message can_alloc src) = false.
Proof. exact read_message_total. Qed.
Theorem C02_read_into_total : forall can_alloc src, crashes (read_message_into can_alloc src) = false.
Proof. exact read_message_into_total. Qed.

(** a parse succeeds only on a consistent frame (sum in N, no wrap) and
    returns exactly the input's bytes; conversely every such frame parses *)
Theorem C02_parse_sound : forall bs m, from_slice bs = Ok m -> parse_ok bs m.
Proof. exact from_slice_ok. Qed.
Theorem C02_parse_complete : forall bs m, bytes_ok bs = true -> parse_ok bs m -> from_slice bs = Ok m.
Proof. exact from_slice_complete. Qed.
Theorem C02_exact_sound : forall bs m,
  from_slice_exact bs = Ok m -> parse_ok bs m /\ lenN bs = h_length (m_hdr m).
Proof. exact from_slice_exact_ok. Qed.
Theorem C02_view_agrees : forall bs, view_from_slice bs = from_slice bs.
Proof. exact view_eq_owned. Qed.

(** a reader that succeeds consumed exactly the serialization of what it returns *)
Theorem C02_read_sound : forall can_alloc src m r,
  bytes_ok src = true -> read_message can_alloc src = Ok (m, r) -> src = to_vec m ++ r /\ msg_ok m = true.
Proof. exact read_message_ok. Qed.

(** truncation at every byte position is an error, for slices and streams *)
Theorem C02_truncated_slice : forall m n,
  msg_ok m = true -> (n < length (to_vec m))%nat -> exists e, from_slice (firstn n (to_vec m)) = Err e.
Proof. exact from_slice_truncated. Qed.
Theorem C02_truncated_stream : forall can_alloc m n,
  msg_ok m = true -> (n < length (to_vec m))%nat ->
  exists e, read_message can_alloc (firstn n (to_vec m)) = Err e.
Proof. exact read_message_truncated. Qed.

Theorem C02_holds : forall bs, bytes_ok bs = true -> ok_C02 bs (model_C02 bs) = true.
Proof. exact ok_model_C02. Qed.

(** non-vacuity and the boundary witnesses of the repaired defect (D1): a
    header whose lengths wrap to a consistent-looking total, one that declares
    2^62 bytes, and a valid frame *)
Definition hdr_bytes (len ql bl : N) : list byte :=
  encode (mkHeader len REPE_SPEC 1 0 0 7 ql bl 1 2 0).
Example C02_wrapping_sum_rejected :
  from_slice (hdr_bytes 10 18446744073709551595 (* 2^64-21 *) 27 ++ [1;2;3]) = Err ELenMismatch.
Proof. vm_compute. reflexivity. Qed.
Example C02_wrap_to_zero_rejected :
  from_slice (hdr_bytes 0 18446744073709551568 (* 2^64-48 *) 0) = Err ELenMismatch.
Proof. vm_compute. reflexivity. Qed.
Example C02_unallocatable_is_error :
  read_message can_alloc_R4 (hdr_bytes 4611686018427387952 4611686018427387904 (* 2^62 *) 0) = Err EOom.
Proof. vm_compute. reflexivity. Qed.
Example C02_valid_parses :
  exists m, from_slice (hdr_bytes 51 2 1 ++ [47; 97; 9]) = Ok m /\ m_query m = [47; 97] /\ m_body m = [9].
Proof. eexists. vm_compute. repeat split. Qed.

Check C02_decode_total : forall bs, crashes (decode bs) = false.
Check C02_from_slice_total : forall bs, crashes (from_slice bs) = false.
Check C02_from_slice_exact_total : forall bs, crashes (from_slice_exact bs) = false.
Check C02_view_total : forall bs, crashes (view_from_slice bs) = false.
Check C02_view_exact_total : forall bs, crashes (view_from_slice_exact bs) = false.
Check C02_read_total : forall can_alloc src, crashes (read_message can_alloc src) = false.
Check C02_read_into_total : forall can_alloc src, crashes (read_message_into can_alloc src) = false.
Check C02_parse_sound : forall bs m, from_slice bs = Ok m -> parse_ok bs m.
Check C02_parse_complete : forall bs m, bytes_ok bs = true -> parse_ok bs m -> from_slice bs = Ok m.
Check C02_exact_sound : forall bs m, from_slice_exact bs = Ok m -> parse_ok bs m /\ lenN bs = h_length (m_hdr m).
Check C02_view_agrees : forall bs, view_from_slice bs = from_slice bs.
Check C02_read_sound : forall can_alloc src m r, bytes_ok src = true ->
  read_message can_alloc src = Ok (m, r) -> src = to_vec m ++ r /\ msg_ok m = true.
Check C02_truncated_slice : forall m n, msg_ok m = true -> (n < length (to_vec m))%nat ->
  exists e, from_slice (firstn n (to_vec m)) = Err e.
Check C02_truncated_stream : forall can_alloc m n, msg_ok m = true -> (n < length (to_vec m))%nat ->
  exists e, read_message can_alloc (firstn n (to_vec m)) = Err e.
Check C02_holds : forall bs, bytes_ok bs = true -> ok_C02 bs (model_C02 bs) = true.

Print Assumptions C02_decode_total.
Print Assumptions C02_from_slice_total.
Print Assumptions C02_from_slice_exact_total.
Print Assumptions C02_view_total.
Print Assumptions C02_view_exact_total.
Print Assumptions C02_read_total.
Print Assumptions C02_read_into_total.
Print Assumptions C02_parse_sound.
Print Assumptions C02_parse_complete.
Print Assumptions C02_exact_sound.
Print Assumptions C02_view_agrees.
Print Assumptions C02_read_sound.
Print Assumptions C02_truncated_slice.
Print Assumptions C02_truncated_stream.
Print Assumptions C02_holds.

(** ** tie to the source text (see Props/C01.v): the re-translated bodies of the
    five slice parsers (Gen/FrameGen.v) and of the stream readers read_message,
    read_message_into, zeroed_payload and grow_zeroed of src/io.rs
    (Gen/ReadersGen.v), with Rust's panicking [+], slicing, indexing and
    [copy_from_slice] kept, equal the model's parsers / readers on every byte
    string, every stream and every allocator -- so the totality theorems above are
    statements about the text of src/header.rs, src/message.rs and src/io.rs.
    Oracles of the readers: [read_exact(r, ..)] is ONE [read_exact] of the model
    over the remaining stream; [try_reserve_exact] asks the model's [can_alloc] for
    the new total length ([n < two64]: the argument is a u64; spare capacity of a
    reused buffer is not modelled, so where the code would skip the allocator the
    rendering, like the model, still consults it). *)
From RepeV Require Import Base.GenFramePrelude Gen.FrameGen Proofs.FrameGenAgree.
From RepeV Require Import Base.GenVecPrelude Gen.ReadersGen Proofs.ReadersGenAgree.

Theorem C02_source_translation :
  agrees1 gen_decode decode /\
  agrees1 gen_from_slice from_slice /\
  agrees1 gen_from_slice_exact from_slice_exact /\
  agrees1 gen_view_from_slice view_from_slice /\
  agrees1 gen_view_from_slice_exact view_from_slice_exact /\
  match gen_grow_zeroed with
  | Some f => forall can_alloc buf n, lenN buf < two64 -> n < two64 ->
      f can_alloc buf n = (do _ <- alloc can_alloc (N.max (lenN buf) n); Ok (vec_resize buf n 0))
  | None => True
  end /\
  match gen_zeroed_payload with
  | Some f => forall can_alloc n, n < two64 ->
      f can_alloc n = (do _ <- alloc can_alloc n; Ok (repeat 0 (N.to_nat n)))
  | None => True
  end /\
  agrees2 gen_read_message read_message /\
  match gen_read_message_into with
  | Some f => forall can_alloc buf src, f can_alloc buf src = read_message_into can_alloc src
  | None => True
  end.
Proof. exact c02_source_translation_readers. Qed.

Check C02_source_translation :
  agrees1 gen_decode decode /\
  agrees1 gen_from_slice from_slice /\
  agrees1 gen_from_slice_exact from_slice_exact /\
  agrees1 gen_view_from_slice view_from_slice /\
  agrees1 gen_view_from_slice_exact view_from_slice_exact /\
  match gen_grow_zeroed with
  | Some f => forall can_alloc buf n, lenN buf < two64 -> n < two64 ->
      f can_alloc buf n = (do _ <- alloc can_alloc (N.max (lenN buf) n); Ok (vec_resize buf n 0))
  | None => True
  end /\
  match gen_zeroed_payload with
  | Some f => forall can_alloc n, n < two64 ->
      f can_alloc n = (do _ <- alloc can_alloc n; Ok (repeat 0 (N.to_nat n)))
  | None => True
  end /\
  agrees2 gen_read_message read_message /\
  match gen_read_message_into with
  | Some f => forall can_alloc buf src, f can_alloc buf src = read_message_into can_alloc src
  | None => True
  end.

Print Assumptions C02_source_translation.
