(** Extraction of the executable models and oracles to OCaml.
    Only ExtrOcamlBasic: bool, option, unit, list, prod, sumbool, sumor map to
    OCaml natives; N, positive and nat stay the extracted inductive types. *)
Require Extraction.
Require Import ExtrOcamlBasic.
From RepeV Require Import Model.C01 Model.C02 Model.C11 Model.Condvar Model.Peers Model.Fleet Model.Limits Model.Svs Model.Json Model.Registry Model.Beve Model.SvsCommit Model.JsonPtr Model.Router Model.Route Model.OffReader Model.ClientMux Model.Lifecycle Model.ClientFail Model.WriterSM.
Separate Extraction
  Model.C01.model_C01 Model.C01.ok_C01 Model.C01.c01_wf
  Model.C02.model_C02 Model.C02.ok_C02
  Base.Word.bytes_ok
  Model.C11.model_trace Model.C11.ok_C11 Model.C11.ok_C13 Model.C11.hist_ok
  Model.Condvar.model_C12 Model.Condvar.ok_C12 Model.Condvar.wobs_eqb Model.Condvar.ready
  Model.Peers.model_C18 Model.Peers.ok_C18
  Model.Fleet.model_C19 Model.Fleet.ok_C19 Model.Fleet.c19_obs_eqb Model.Fleet.addressed
  Model.Limits.model_C17_abs Model.Limits.ok_C17_abs Model.Limits.c17_obs_eqb Model.Limits.replacement_bound
  Model.Svs.model_C09 Model.Svs.model_C09_with Model.Svs.ok_C09 Model.Svs.c09_wf Model.Svs.resps_eqb Model.Svs.resp_eqb Model.Svs.hlres_eqb Model.Svs.bytes_eqb Model.Svs.bodies
  Model.Registry.model_C14 Model.Registry.model_full Model.Registry.ok_C14 Model.Registry.c14_wf Model.Registry.spec_C14 Model.Registry.ostep_eqb Model.Registry.rstep Model.Registry.sstep Model.Registry.obs_out Model.Registry.is_request Model.Registry.jp_eval Model.Registry.ok_jp Model.Registry.jp_parse Model.Registry.rstate0 Model.Registry.sstate0
  Model.Beve.model_C08 Model.Beve.ok_C08 Model.Beve.c08_wf Model.Beve.ety_all
  Model.SvsCommit.model_C10 Model.SvsCommit.ok_C10 Model.SvsCommit.c10_wf Model.SvsCommit.c10_obs_match
  Model.Router.model_C07 Model.Router.ok_C07 Model.Router.ok_C07_pair Model.Router.answer_eqb Model.JsonPtr.parse Model.JsonPtr.struct_segments Model.JsonPtr.well_escaped Model.JsonPtr.pointer_shaped
  Model.Route.model_C03 Model.Route.ok_C03 Model.Route.c03_wf Model.Route.c03_obs_eqb
  Model.OffReader.model_C16 Model.OffReader.ok_C16 Model.OffReader.ok_C16_clause Model.OffReader.c16_wf Model.OffReader.c16_obs_eqb
  Model.ClientMux.model_C04 Model.ClientMux.model_C04_nosub Model.ClientMux.ok_C04_nosub Model.ClientMux.ok_C04 Model.ClientMux.c04_wf Model.ClientMux.c04_obs_eqb Model.ClientMux.brun
  Model.Lifecycle.model_C15 Model.Lifecycle.ok_C15 Model.Lifecycle.c15_wf Model.Lifecycle.c15_obs_match Model.Lifecycle.model_mid Model.Lifecycle.ok_mid Model.Lifecycle.c15_stag_wf Model.Lifecycle.mobs_eqb
  Model.ClientFail.model_C06 Model.ClientFail.ok_C06 Model.ClientFail.c06_wf Model.ClientFail.c06_valid Model.ClientFail.obs_eqb Model.ClientFail.obs_match
  Model.WriterSM.model_C05 Model.WriterSM.model_with Model.WriterSM.ok_C05 Model.WriterSM.c05_wf Model.WriterSM.segs_eqb Model.WriterSM.parse_frames Model.WriterSM.after_interrupt Model.WriterSM.legacy_policy.
