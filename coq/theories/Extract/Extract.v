(** Extraction of the executable models and oracles to OCaml.
    Only ExtrOcamlBasic: bool, option, unit, list, prod, sumbool, sumor map to
    OCaml natives; N, positive and nat stay the extracted inductive types. *)
Require Extraction.
Require Import ExtrOcamlBasic.
From RepeV Require Import Model.C01 Model.C02.
Separate Extraction
  Model.C01.model_C01 Model.C01.ok_C01 Model.C01.c01_wf
  Model.C02.model_C02 Model.C02.ok_C02
  Base.Word.bytes_ok.
