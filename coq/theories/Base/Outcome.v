(** Outcomes of modelled Rust functions: a value, a returned error, a panic
    (unwinding) or a process abort.  Properties such as C02 are statements
    that [Panic]/[Abort] are unreachable. *)
From RepeV Require Export Base.Word.

Inductive err : Set :=
| EHeaderLen      (* RepeError::InvalidHeaderLength *)
| ESpec           (* RepeError::InvalidSpec *)
| ELenMismatch    (* RepeError::LengthMismatch *)
| EBufSmall       (* RepeError::BufferTooSmall *)
| EEof            (* RepeError::Io(UnexpectedEof) *)
| EOom            (* RepeError::Io(OutOfMemory) *)
| EOther.         (* any other error value *)

Inductive outcome (A : Type) : Type :=
| Ok (a : A)
| Err (e : err)
| Panic
| Abort.
Arguments Ok {A} a.
Arguments Err {A} e.
Arguments Panic {A}.
Arguments Abort {A}.

Definition bind {A B} (x : outcome A) (f : A -> outcome B) : outcome B :=
  match x with
  | Ok a => f a
  | Err e => Err e
  | Panic => Panic
  | Abort => Abort
  end.

Notation "'do' x <- e ; f" := (bind e (fun x => f))
  (at level 200, x name, e at level 100, f at level 200, right associativity).

Definition crashes {A} (x : outcome A) : bool :=
  match x with Panic | Abort => true | _ => false end.

Definition err_eqb (a b : err) : bool :=
  match a, b with
  | EHeaderLen, EHeaderLen | ESpec, ESpec | ELenMismatch, ELenMismatch
  | EBufSmall, EBufSmall | EEof, EEof | EOom, EOom | EOther, EOther => true
  | _, _ => false
  end.

(** Rust [usize]/[u64] [+] with overflow checks on (debug profile): panics on
    wrap.  A function proved panic-free under this semantics computes the same
    values with the checks off (release profile). *)
Definition add64 (a b : N) : outcome N :=
  if a + b <? two64 then Ok (a + b) else Panic.

(** [u64::checked_add] *)
Definition checked_add64 (a b : N) : option N :=
  if a + b <? two64 then Some (a + b) else None.

(** [&buf[a..b]] with the bounds checks of core::slice::index *)
Definition slice_chk {A} (bs : list A) (a b : N) : outcome (list A) :=
  if (a <=? b) && (b <=? N.of_nat (length bs))
  then Ok (slice bs (N.to_nat a) (N.to_nat b))
  else Panic.

Lemma bind_ok {A B} (x : outcome A) (f : A -> outcome B) b :
  bind x f = Ok b -> exists a, x = Ok a /\ f a = Ok b.
Proof. destruct x; cbn; intros H; try discriminate. eauto. Qed.
