(** Hand-written helpers used by the text that bin/rs2v generates from
    /repo/src/server_request.rs (Gen/RouteGen.v).  Every name used by that text
    and not defined in Model/Route.v, Model/Header.v, Base/GenCommon.v or the Coq
    standard library is defined here; each is the fixed meaning of one Rust
    construct (see the docstring of bin/rs2v).  Definitions only. *)
From RepeV Require Export Model.Header Model.Route Base.GenCommon.

(** ** [QueryFormat] (src/constants.rs): the discriminants are tied to the source by Gen/Tables.v *)
Inductive query_format : Set := QFRawBinary | QFJsonPointer.
Definition QF_RAW_BINARY : N := 0.
Definition QF_JSON_POINTER : N := 1.
(** what [QueryFormat::try_from(x)] is meant to be: the variant whose discriminant is [x]
    (Proofs/RouteGenAgree.v proves the rendered function equal to it) *)
Definition qf_try_from (x : N) : option query_format :=
  if x =? QF_RAW_BINARY then Some QFRawBinary
  else if x =? QF_JSON_POINTER then Some QFJsonPointer
  else None.
(** [Result::unwrap_or] / [Option::unwrap_or] *)
Definition opt_unwrap_or {A} (o : option A) (d : A) : A := match o with Some a => a | None => d end.
Definition res_unwrap_or {A E} (r : result A E) (d : A) : A := match r with ROk a => a | RErr _ => d end.

(** [std::str::from_utf8(q)]: the oracle [utf8] decides; the [&str] is the same byte list *)
Definition from_utf8 (utf8 : list byte -> bool) (q : list byte) : result (list byte) unit :=
  if utf8 q then ROk q else RErr tt.

(** ** the router and its handlers *)
(** an [Arc<dyn HandlerErased>] obtained from [Router::get]: the route's handler (with its
    mount point) as wrapped by the middleware of the router it came from *)
Definition bound_handler : Set := (router * (list byte * handler))%type.
Definition router_get_bound (rt : router) (p : list byte) : option bound_handler :=
  option_map (fun x => (rt, x)) (router_get rt p).

(** ** texts, responses, [RouteOutcome] *)
(** a [String] that becomes the body of an error response: [format!(..)] and ["..".to_string()]
    are opaque (the model's error texts are not tied to the source); [err.to_string()] of a
    handler's error is the text the handler oracle supplied *)
Inductive gtext : Set := TOpaque | TText (s : list byte).

(** a response [Message]: what the handler returned, or an error response built by
    [create_error_response_unstamped_view] ([View]) / [create_error_response_like] ([Owned])
    for this request with this code and text *)
Inductive gresp : Set :=
| GHandler (p : resp)
| GError (m : mode) (r : request) (code : N) (t : gtext).

Inductive route_outcome : Set :=
| RODispatch (handler : bound_handler) (notify : bool) (path : list byte)
| ROReject (notify : bool) (code : N) (message : gtext).

(** ** the handler oracle *)
(** a [RepeError] returned by a handler: [to_error_code()] and [to_string()] *)
Record rerror : Set := mkRError { re_code : N; re_text : list byte }.

(** what calling handlers has done so far: number of [handle_view] / [handle_with_ctx]
    calls, user-function invocation counters bumped, middleware invocations *)
Record heff : Set := mkEff { e_calls : nat; e_inv : list N; e_mw : nat }.
Definition eff0 : heff := mkEff O [] O.

(** a call returns a [Result<Message, RepeError>] or panics *)
Inductive called : Set := HReturned (v : result gresp rerror) | HPanicked.

(** ONE call of [handler.handle_view(req, ctx)] ([View]) / [handler.handle_with_ctx(req, ctx)]
    ([Owned]): one step of the model's [run_handler] for this handler of this router *)
Definition call_handler (m : mode) (bh : bound_handler) (r : request) (e : heff) : called * heff :=
  let '(rt, (mount, h)) := bh in
  let '(res, n, k) := run_handler m rt mount h r in
  (match res with
   | HOk p => HReturned (ROk (GHandler p))
   | HErr c msg => HReturned (RErr (mkRError c msg))
   | HPanic => HPanicked
   end,
   mkEff (S (e_calls e)) (e_inv e ++ inv_of h n) (e_mw e + k)).

(** the result of a function that calls handlers: a value, or the panic of a handler unwinding through it *)
Inductive dres (A : Type) : Type := DRet (a : A) | DUnwind.
Arguments DRet {A} a.
Arguments DUnwind {A}.
