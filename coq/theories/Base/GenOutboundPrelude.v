(** Hand-written helpers used by the text that bin/rs2v generates from
    WebSocketLimits::check_outbound (/repo/src/websocket_limits.rs) and frame_outbound
    (/repo/src/websocket_server.rs) in its sinks-and-sessions mode (Gen/OutboundGen.v), from the
    error-message constructors of /repo/src/message.rs (Gen/ErrMsgGen.v) and from spawn_off_reader
    (Gen/OffReaderGen.v).  Every
    name used by that text and not defined in Model/Header.v, Model/Message.v, Base/Outcome.v,
    Base/GenCommon.v, Base/GenVecPrelude.v (field setters), Base/GenLimitsPrelude.v ([ws_limits]),
    Base/GenStrPrelude.v, Base/GenSinkCommon.v, Gen/BuildGen.v or the Coq standard library is
    defined here.  Definitions only. *)
From RepeV Require Export Base.GenVecPrelude Base.GenLimitsPrelude Base.GenSinkCommon.

(** what [report_error(on_error, e)] hands to the error hooks: the variant of [ConnectionError]
    the translated code constructs (their [method] string is dropped) *)
Inductive report : Set := R_OutboundTooLarge (size limit : N) | R_Saturation.

(** assignment to one field of a [MessageBuilder] (the model's [builder]) *)
Definition set_b_id (b : builder) (v : N) : builder := mkBuilder v (b_query b) (b_body b) (b_qfmt b) (b_bfmt b) (b_notify b) (b_ec b).
Definition set_b_query (b : builder) (v : list byte) : builder := mkBuilder (b_id b) v (b_body b) (b_qfmt b) (b_bfmt b) (b_notify b) (b_ec b).
Definition set_b_body (b : builder) (v : list byte) : builder := mkBuilder (b_id b) (b_query b) v (b_qfmt b) (b_bfmt b) (b_notify b) (b_ec b).
Definition set_b_qfmt (b : builder) (v : N) : builder := mkBuilder (b_id b) (b_query b) (b_body b) v (b_bfmt b) (b_notify b) (b_ec b).
Definition set_b_bfmt (b : builder) (v : N) : builder := mkBuilder (b_id b) (b_query b) (b_body b) (b_qfmt b) v (b_notify b) (b_ec b).
Definition set_b_notify (b : builder) (v : bool) : builder := mkBuilder (b_id b) (b_query b) (b_body b) (b_qfmt b) (b_bfmt b) v (b_ec b).
Definition set_b_ec (b : builder) (v : N) : builder := mkBuilder (b_id b) (b_query b) (b_body b) (b_qfmt b) (b_bfmt b) (b_notify b) v.

(** ** the admission decision of spawn_off_reader (Gen/OffReaderGen.v) *)
(** [Arc::clone(sem).try_acquire_owned()] on a semaphore created with [cap] permits of which
    [held] are out: a permit (and one more is out), or [Err] when none is left *)
Definition sem_try_acquire (held cap : N) : result unit unit * N :=
  if held <? cap then (ROk tt, held + 1) else (RErr tt, held).
(** the connection's outbound channel ([mpsc::Sender<Message>]; the writer task owns the
    receiver): the messages queued so far and how many further sends succeed before the writer is
    gone ([None]: all); [tx.send(m).await] is [Err] (and [m] is lost) iff the channel is closed *)
Record out_chan : Set := mkOut { oc_sent : list message; oc_left : option nat }.
Definition oc_send (c : out_chan) (m : message) : result unit unit * out_chan :=
  match oc_left c with
  | Some O => (RErr tt, c)
  | Some (S k) => (ROk tt, mkOut (oc_sent c ++ [m]) (Some k))
  | None => (ROk tt, mkOut (oc_sent c ++ [m]) None)
  end.
(** [Result::is_ok] *)
Definition res_is_ok {A E} (r : result A E) : bool := match r with ROk _ => true | RErr _ => false end.
