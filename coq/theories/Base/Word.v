(** Machine words as [N], bytes as [N] below 256, little-endian codecs.
    Definitions and their basic lemmas (shared by every model). *)
From Coq Require Export List NArith ZArith Lia Bool.
From Coq Require Import ZifyBool ZifyN ZifyNat.
Export ListNotations.
Open Scope N_scope.

Ltac Zify.zify_post_hook ::= Z.div_mod_to_equations.

Arguments N.add : simpl never.
Arguments N.sub : simpl never.
Arguments N.mul : simpl never.
Arguments N.div : simpl never.
Arguments N.modulo : simpl never.
Arguments N.pow : simpl never.
Arguments N.eqb : simpl never.
Arguments N.ltb : simpl never.
Arguments N.leb : simpl never.

Definition byte := N.

Definition byte_ok (b : byte) : bool := b <? 256.
Definition bytes_ok (bs : list byte) : bool := forallb byte_ok bs.

Definition two8 : N := 256.
Definition two16 : N := 65536.
Definition two32 : N := 4294967296.
Definition two64 : N := 18446744073709551616.

(** [le_enc w n] : the [w] low-order bytes of [n], least significant first. *)
Fixpoint le_enc (w : nat) (n : N) : list byte :=
  match w with
  | O => []
  | S w' => (n mod 256) :: le_enc w' (n / 256)
  end.

(** [le_dec bs] : the number whose little-endian digits are [bs]. *)
Fixpoint le_dec (bs : list byte) : N :=
  match bs with
  | [] => 0
  | b :: bs' => b + 256 * le_dec bs'
  end.

Definition pow256 (w : nat) : N := 256 ^ N.of_nat w.

Lemma pow256_S w : pow256 (S w) = 256 * pow256 w.
Proof. unfold pow256. rewrite Nat2N.inj_succ, N.pow_succ_r'. reflexivity. Qed.

Lemma pow256_0 : pow256 0 = 1.
Proof. reflexivity. Qed.

Lemma pow256_pos w : 0 < pow256 w.
Proof. unfold pow256. apply N.neq_0_lt_0, N.pow_nonzero. discriminate. Qed.

Lemma le_enc_length w n : length (le_enc w n) = w.
Proof. revert n; induction w as [|w IH]; intros n; cbn [le_enc length]; [reflexivity|now rewrite IH]. Qed.

Lemma bytes_ok_cons b bs : bytes_ok (b :: bs) = (b <? 256) && bytes_ok bs.
Proof. reflexivity. Qed.

Lemma bytes_ok_app a b : bytes_ok (a ++ b) = bytes_ok a && bytes_ok b.
Proof. unfold bytes_ok. apply forallb_app. Qed.

Lemma le_enc_ok w n : bytes_ok (le_enc w n) = true.
Proof.
  revert n; induction w as [|w IH]; intros n; cbn [le_enc]; [reflexivity|].
  rewrite bytes_ok_cons, IH, andb_true_r.
  apply N.ltb_lt. apply N.mod_lt. discriminate.
Qed.

Lemma le_dec_enc w n : le_dec (le_enc w n) = n mod pow256 w.
Proof.
  revert n; induction w as [|w IH]; intros n; cbn [le_enc le_dec].
  - rewrite pow256_0. now rewrite N.mod_1_r.
  - rewrite IH, pow256_S.
    pose proof (pow256_pos w) as Hp.
    rewrite N.mod_mul_r by lia. reflexivity.
Qed.

Lemma le_dec_enc_small w n : n < pow256 w -> le_dec (le_enc w n) = n.
Proof. intros H. rewrite le_dec_enc. now apply N.mod_small. Qed.

Lemma le_dec_bound bs : bytes_ok bs = true -> le_dec bs < pow256 (length bs).
Proof.
  induction bs as [|b bs IH]; intros H; cbn [le_dec length].
  - rewrite pow256_0. lia.
  - rewrite bytes_ok_cons in H. apply andb_true_iff in H as [Hb Hbs].
    apply N.ltb_lt in Hb. specialize (IH Hbs). rewrite pow256_S. lia.
Qed.

Lemma le_enc_dec bs : bytes_ok bs = true -> le_enc (length bs) (le_dec bs) = bs.
Proof.
  induction bs as [|b bs IH]; intros H; cbn [le_dec length le_enc]; [reflexivity|].
  rewrite bytes_ok_cons in H. apply andb_true_iff in H as [Hb Hbs].
  apply N.ltb_lt in Hb. specialize (IH Hbs).
  f_equal.
  - generalize (le_dec bs). intros x. lia.
  - replace ((b + 256 * le_dec bs) / 256) with (le_dec bs); [exact IH|].
    generalize (le_dec bs). intros x. lia.
Qed.

Lemma le_enc_inj w a b : a < pow256 w -> b < pow256 w -> le_enc w a = le_enc w b -> a = b.
Proof.
  intros Ha Hb H. rewrite <- (le_dec_enc_small w a Ha), <- (le_dec_enc_small w b Hb). now rewrite H.
Qed.

Lemma pow256_1 : pow256 1 = 256. Proof. reflexivity. Qed.
Lemma pow256_2 : pow256 2 = two16. Proof. reflexivity. Qed.
Lemma pow256_4 : pow256 4 = two32. Proof. reflexivity. Qed.
Lemma pow256_8 : pow256 8 = two64. Proof. reflexivity. Qed.

(** Slices as Rust sees them: [slice bs a b] is [bs[a..b]] when [a <= b <= len]. *)
Definition slice {A} (bs : list A) (a b : nat) : list A := firstn (b - a) (skipn a bs).

Lemma slice_length {A} (bs : list A) a b :
  (a <= b)%nat -> (b <= length bs)%nat -> length (slice bs a b) = (b - a)%nat.
Proof. intros H1 H2. unfold slice. rewrite firstn_length, skipn_length. lia. Qed.

Lemma bytes_ok_firstn n bs : bytes_ok bs = true -> bytes_ok (firstn n bs) = true.
Proof.
  revert n; induction bs as [|b bs IH]; intros [|n] H; cbn [firstn]; try reflexivity.
  rewrite bytes_ok_cons in *. apply andb_true_iff in H as [Hb Hbs].
  now rewrite Hb, IH.
Qed.

Lemma bytes_ok_skipn n bs : bytes_ok bs = true -> bytes_ok (skipn n bs) = true.
Proof.
  revert n; induction bs as [|b bs IH]; intros [|n] H; cbn [skipn]; try reflexivity; try assumption.
  rewrite bytes_ok_cons in H. apply andb_true_iff in H as [Hb Hbs]. now apply IH.
Qed.

Lemma bytes_ok_slice bs a b : bytes_ok bs = true -> bytes_ok (slice bs a b) = true.
Proof. intros H. unfold slice. now apply bytes_ok_firstn, bytes_ok_skipn. Qed.
