(** Hand-written helpers used by the text that bin/rs2v generates from
    /repo/src/header.rs and src/message.rs (Gen/FrameGen.v).  Every name used by
    that text and not defined in Model/Header.v, Model/Message.v, Base/Outcome.v,
    Base/GenCommon.v or the Coq standard library is defined here; each is the
    fixed meaning of one Rust construct (see the docstring of bin/rs2v).
    Definitions only. *)
From RepeV Require Export Model.Message Base.GenCommon.

(** [buf[i]] with the bounds check of core::slice::index *)
Definition index_chk (bs : list byte) (i : N) : outcome byte :=
  match nth_error bs (N.to_nat i) with Some b => Ok b | None => Panic end.

(** [buf[i] = v;] *)
Definition store_chk (buf : list byte) (i : N) (v : byte) : outcome (list byte) :=
  if i <? lenN buf then Ok (overwrite buf (N.to_nat i) [v]) else Panic.

(** [buf[a..b].copy_from_slice(src);]: panics when the range is out of bounds
    or the two lengths differ *)
Definition copy_chk (buf : list byte) (a b : N) (src : list byte) : outcome (list byte) :=
  if (a <=? b) && (b <=? lenN buf) && (b - a =? lenN src)
  then Ok (overwrite buf (N.to_nat a) src) else Panic.
