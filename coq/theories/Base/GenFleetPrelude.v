(** Hand-written helpers used by the text that bin/rs2v generates from the retry
    loops of /repo/src/fleet.rs and src/async_fleet.rs (Gen/FleetGen.v).  Every
    name used by that text and not defined in Model/Fleet.v or the Coq standard
    library is defined here; each is the fixed meaning of one Rust construct
    (see the docstring of bin/rs2v).  Definitions only. *)
From RepeV Require Export Model.Fleet.

(** the [value] / [error] fields of the returned [RemoteResult]:
    [{ value: Some(v), error: None, .. }] and [{ value: None, error: e, .. }] *)
Inductive remote_result : Set := RRValue | RRError (e : option ekind).

(** what a rendered retry function returns: the environment steps taken
    (attempts), the RemoteResult, the cached client and the remaining script of
    the node afterwards, and how often it slept *)
Record fleet_out : Set := mkFleetOut {
  fo_made : N; fo_result : remote_result; fo_cache : cache; fo_script : list behaviour; fo_sleeps : N
}.

(** ** [for i in lo..hi { body }] with [break], [continue] and early [return] *)
(** how one iteration ends: falls through or [continue]s, [break]s, or [return]s from the function *)
Inductive flow (S R : Type) : Type := Next (s : S) | Stop (s : S) | Return (r : R).
Arguments Next {S R} s.
Arguments Stop {S R} s.
Arguments Return {S R} r.
(** how the loop ends: control reaches the statement after it, or the function returned *)
Inductive loop_end (S R : Type) : Type := Fell (s : S) | Returned (r : R).
Arguments Fell {S R} s.
Arguments Returned {S R} r.

Fixpoint for_range {S R : Type} (body : N -> S -> flow S R) (idx : list N) (s : S) : loop_end S R :=
  match idx with
  | [] => Fell s
  | i :: idx' =>
      match body i s with
      | Next s' => for_range body idx' s'
      | Stop s' => Fell s'
      | Return r => Returned r
      end
  end.

(** the indices of [lo..hi] *)
Definition range_N (lo hi : N) : list N := map N.of_nat (seq (N.to_nat lo) (N.to_nat hi - N.to_nat lo)).
