(** Hand-written helpers used by the text that bin/rs2v generates from the frame
    constructors of /repo/src/message.rs (Gen/BuildGen.v) and the stream readers
    of /repo/src/io.rs (Gen/ReadersGen.v).  Every name used by that text and not
    defined in Model/Header.v, Model/Message.v, Base/Outcome.v, Base/GenCommon.v,
    Base/GenFramePrelude.v, Gen/FrameGen.v or the Coq standard library is defined
    here; each is the fixed meaning of one Rust construct (see the docstring of
    bin/rs2v).  Definitions only. *)
From RepeV Require Export Base.GenFramePrelude.

(** ** assignment to one field of a local [Header] / [Message] *)
Definition set_h_length (h : header) (v : N) : header :=
  mkHeader v (h_spec h) (h_version h) (h_notify h) (h_reserved h) (h_id h) (h_qlen h) (h_blen h) (h_qfmt h) (h_bfmt h) (h_ec h).
Definition set_h_spec (h : header) (v : N) : header :=
  mkHeader (h_length h) v (h_version h) (h_notify h) (h_reserved h) (h_id h) (h_qlen h) (h_blen h) (h_qfmt h) (h_bfmt h) (h_ec h).
Definition set_h_version (h : header) (v : N) : header :=
  mkHeader (h_length h) (h_spec h) v (h_notify h) (h_reserved h) (h_id h) (h_qlen h) (h_blen h) (h_qfmt h) (h_bfmt h) (h_ec h).
Definition set_h_notify (h : header) (v : N) : header :=
  mkHeader (h_length h) (h_spec h) (h_version h) v (h_reserved h) (h_id h) (h_qlen h) (h_blen h) (h_qfmt h) (h_bfmt h) (h_ec h).
Definition set_h_reserved (h : header) (v : N) : header :=
  mkHeader (h_length h) (h_spec h) (h_version h) (h_notify h) v (h_id h) (h_qlen h) (h_blen h) (h_qfmt h) (h_bfmt h) (h_ec h).
Definition set_h_id (h : header) (v : N) : header :=
  mkHeader (h_length h) (h_spec h) (h_version h) (h_notify h) (h_reserved h) v (h_qlen h) (h_blen h) (h_qfmt h) (h_bfmt h) (h_ec h).
Definition set_h_qlen (h : header) (v : N) : header :=
  mkHeader (h_length h) (h_spec h) (h_version h) (h_notify h) (h_reserved h) (h_id h) v (h_blen h) (h_qfmt h) (h_bfmt h) (h_ec h).
Definition set_h_blen (h : header) (v : N) : header :=
  mkHeader (h_length h) (h_spec h) (h_version h) (h_notify h) (h_reserved h) (h_id h) (h_qlen h) v (h_qfmt h) (h_bfmt h) (h_ec h).
Definition set_h_qfmt (h : header) (v : N) : header :=
  mkHeader (h_length h) (h_spec h) (h_version h) (h_notify h) (h_reserved h) (h_id h) (h_qlen h) (h_blen h) v (h_bfmt h) (h_ec h).
Definition set_h_bfmt (h : header) (v : N) : header :=
  mkHeader (h_length h) (h_spec h) (h_version h) (h_notify h) (h_reserved h) (h_id h) (h_qlen h) (h_blen h) (h_qfmt h) v (h_ec h).
Definition set_h_ec (h : header) (v : N) : header :=
  mkHeader (h_length h) (h_spec h) (h_version h) (h_notify h) (h_reserved h) (h_id h) (h_qlen h) (h_blen h) (h_qfmt h) (h_bfmt h) v.
Definition set_m_hdr (m : message) (v : header) : message := mkMessage v (m_query m) (m_body m).
Definition set_m_query (m : message) (v : list byte) : message := mkMessage (m_hdr m) v (m_body m).
Definition set_m_body (m : message) (v : list byte) : message := mkMessage (m_hdr m) (m_query m) v.

(** ** [QueryFormat::V as u16] / [BodyFormat::V as u16] (src/constants.rs): tied to the source by Gen/Tables.v *)
Definition QF_RAW_BINARY : N := 0.
Definition QF_JSON_POINTER : N := 1.
Definition BF_RAW_BINARY : N := 0.
Definition BF_BEVE : N := 1.
Definition BF_JSON : N := 2.
Definition BF_UTF8 : N := 3.

(** ** Vec<u8> operations (a vector is its contents; capacity is not part of the value) *)
(** [v.resize(n, x)]: truncate, or extend with copies of [x] *)
Definition vec_resize (v : list byte) (n : N) (x : byte) : list byte :=
  if n <=? lenN v then firstn (N.to_nat n) v else v ++ repeat x (N.to_nat n - length v).

(** [v.copy_within(s..e, d)]: panics when the source range or the destination is out of bounds *)
Definition copy_within_chk (v : list byte) (s e d : N) : outcome (list byte) :=
  if (s <=? e) && (e <=? lenN v) && (d + (e - s) <=? lenN v)
  then Ok (copy_within v (N.to_nat s) (N.to_nat e) (N.to_nat d)) else Panic.

(** ** the allocator and the byte stream (oracles of the readers) *)
(** [v.try_reserve_exact(additional).map_err(|_| e)?]: room for [len v + additional] bytes is
    requested from the allocator ([can_alloc]; spare capacity is not modelled, so the request
    is always made); a sum that does not fit a usize is a capacity overflow, also an error *)
Definition try_reserve_or (can_alloc : N -> bool) (v : list byte) (additional : N) (e : err) : outcome unit :=
  if (lenN v + additional <? two64) && can_alloc (lenN v + additional) then Ok tt else Err e.

(** [read_exact(r, &mut buf)?]: all of [buf] is filled from the remaining stream [src], or the
    stream ends first ([EEof]); returns the filled buffer and the rest of the stream *)
Definition read_exact_fill (src buf : list byte) : outcome (list byte * list byte) :=
  read_exact src (lenN buf).
