(** Hand-written helpers used by the text that bin/rs2v generates from the JSON-pointer
    code of /repo/src/json_pointer.rs, src/registry.rs and src/server.rs (Gen/PointerGen.v).
    Every name used by that text and not defined in Base/Outcome.v, Base/GenCommon.v or the
    Coq standard library is defined here; each is the fixed meaning of one Rust construct
    (see the docstring of bin/rs2v).  This file imports no model.  Definitions only.

    A [&str] / [String] is the list of its UTF-8 bytes.  The meanings below are byte-level;
    they are the meanings of the Rust operations on valid UTF-8 (a type invariant of [str])
    because every pattern the translator accepts is ASCII and an ASCII byte never occurs
    inside the encoding of another character: splitting, searching, stripping, trimming and
    replacing by ASCII patterns cut the byte string exactly where they cut the character
    string.  A [char] taken from [s.chars()] is rendered as ONE byte; the translator only lets
    such a value be compared with ASCII literals and pushed back unchanged, for which walking
    the bytes of a multi-byte character one by one (each differs from every ASCII literal, each
    is pushed) gives the same string as walking the character.  Nothing else is assumed about
    multi-byte characters; slicing a [str] keeps Rust's char-boundary panic ([s_slice_chk]). *)
From RepeV Require Export Base.Outcome Base.GenCommon.

Definition str := list byte.

(** [x.len()] of a [str] (bytes), a [Vec], a slice or an array *)
Definition len_n {A} (l : list A) : N := N.of_nat (length l).

(** [a == b] on strings *)
Fixpoint s_eqb (a b : str) : bool :=
  match a, b with
  | [], [] => true
  | x :: a', y :: b' => (x =? y) && s_eqb a' b'
  | _, _ => false
  end.

(** [s.starts_with(c)], [s.contains(c)], [s.strip_prefix(c)] for an ASCII [char] *)
Definition s_starts_with_c (c : byte) (s : str) : bool :=
  match s with b :: _ => b =? c | [] => false end.
Definition s_contains_c (c : byte) (s : str) : bool := existsb (fun b => b =? c) s.
Definition s_strip_prefix_c (c : byte) (s : str) : option str :=
  match s with b :: s' => if b =? c then Some s' else None | [] => None end.

(** [s.strip_prefix(p)], [s.starts_with(p)] for a string [p] *)
Fixpoint s_strip_prefix (p s : str) : option str :=
  match p with
  | [] => Some s
  | a :: p' => match s with
               | b :: s' => if a =? b then s_strip_prefix p' s' else None
               | [] => None
               end
  end.
Definition s_starts_with (p s : str) : bool :=
  match s_strip_prefix p s with Some _ => true | None => false end.

(** [s.split(c)], collected: always at least one piece *)
Fixpoint s_split_c (c : byte) (s : str) : list str :=
  match s with
  | [] => [[]]
  | b :: s' =>
      if b =? c then [] :: s_split_c c s'
      else match s_split_c c s' with
           | t :: ts => (b :: t) :: ts
           | [] => [[b]]
           end
  end.

(** [s.replace(c, r)] for a one-byte pattern and [s.replace("ab", r)] for a two-byte
    pattern: left to right, non-overlapping *)
Fixpoint s_replace_c (c : byte) (r : str) (s : str) : str :=
  match s with
  | [] => []
  | b :: s' => if b =? c then r ++ s_replace_c c r s' else b :: s_replace_c c r s'
  end.
Fixpoint s_replace_cc (a b : byte) (r : str) (s : str) : str :=
  match s with
  | [] => []
  | x :: s' =>
      match s' with
      | y :: s'' => if (x =? a) && (y =? b) then r ++ s_replace_cc a b r s'' else x :: s_replace_cc a b r s'
      | [] => [x]
      end
  end.

(** [s.trim_start_matches(c)], [s.trim_end_matches(c)] *)
Fixpoint s_trim_start_c (c : byte) (s : str) : str :=
  match s with
  | b :: s' => if b =? c then s_trim_start_c c s' else s
  | [] => []
  end.
Fixpoint s_trim_end_c (c : byte) (s : str) : str :=
  match s with
  | [] => []
  | b :: s' => match s_trim_end_c c s' with
               | [] => if b =? c then [] else [b]
               | t => b :: t
               end
  end.

(** [str::is_char_boundary]: the end of the string, or a byte that is not a UTF-8
    continuation byte (10xxxxxx) *)
Definition is_char_boundary (s : str) (i : N) : bool :=
  match nth_error s (N.to_nat i) with
  | Some b => negb ((128 <=? b) && (b <? 192))
  | None => i =? len_n s
  end.

(** [&s[a..b]] on a [str] ([a] = 0 / [b] = [s.len()] when omitted): panics when the range is
    out of bounds or an end is not a char boundary *)
Definition s_slice_chk (s : str) (a b : N) : outcome str :=
  if (a <=? b) && (b <=? len_n s) && is_char_boundary s a && is_char_boundary s b
  then Ok (slice s (N.to_nat a) (N.to_nat b)) else Panic.

(** [v[i]], [v[i] = x;] on a [Vec] / array / slice *)
Definition l_index_chk {A} (l : list A) (i : N) : outcome A :=
  match nth_error l (N.to_nat i) with Some x => Ok x | None => Panic end.
Definition l_store_chk {A} (l : list A) (i : N) (x : A) : outcome (list A) :=
  if i <? len_n l then Ok (firstn (N.to_nat i) l ++ x :: skipn (S (N.to_nat i)) l) else Panic.

(** [Option::unwrap_or], [Option::unwrap_or_default] on a [Vec] *)
Definition o_unwrap_or {A} (o : option A) (d : A) : A := match o with Some a => a | None => d end.

(** [r.map_err(|_| e)] *)
Definition res_map_err {A E F} (r : result A E) (e : F) : result A F :=
  match r with ROk a => ROk a | RErr _ => RErr e end.

(** [e?] in a function that returns [Result<_, E>] (the error is passed on unchanged) or
    [Option<_>]: the rest of the function is [k] *)
Definition try_res {A B E} (r : result A E) (k : A -> outcome (result B E)) : outcome (result B E) :=
  match r with ROk a => k a | RErr e => Ok (RErr e) end.
Definition try_opt {A B} (o : option A) (k : A -> outcome (option B)) : outcome (option B) :=
  match o with Some a => k a | None => Ok None end.
Notation "'tryr' x <- e ; f" := (try_res e (fun x => f))
  (at level 200, x name, e at level 100, f at level 200, right associativity).
Notation "'tryo' x <- e ; f" := (try_opt e (fun x => f))
  (at level 200, x name, e at level 100, f at level 200, right associativity).

(** ** loops *)
(** how one iteration ends: falls through or [continue]s, [break]s (or the loop condition
    fails), or [return]s from the function; how the loop ends *)
Inductive lflow (S R : Type) : Type := LNext (s : S) | LStop (s : S) | LReturn (r : R).
Arguments LNext {S R} s.
Arguments LStop {S R} s.
Arguments LReturn {S R} r.
Inductive lend (S R : Type) : Type := LFell (s : S) | LReturned (r : R).
Arguments LFell {S R} s.
Arguments LReturned {S R} r.

(** [for x in l { body }] over the variables [s] the body assigns *)
Fixpoint for_each_chk {A S R} (body : A -> S -> outcome (lflow S R)) (l : list A) (s : S) : outcome (lend S R) :=
  match l with
  | [] => Ok (LFell s)
  | x :: l' =>
      do f <- body x s;
      match f with
      | LNext s' => for_each_chk body l' s'
      | LStop s' => Ok (LFell s')
      | LReturn r => Ok (LReturned r)
      end
  end.

(** [while ..] / [while let Some(x) = it.next()]: [step] tests the condition and runs the body
    once; the translator supplies fuel that the agreement proof shows sufficient (running out
    of it is [Abort], which no model function returns) *)
Fixpoint loop_chk {S R} (fuel : nat) (step : S -> outcome (lflow S R)) (s : S) : outcome (lend S R) :=
  match fuel with
  | O => Abort
  | Datatypes.S n =>
      do f <- step s;
      match f with
      | LNext s' => loop_chk n step s'
      | LStop s' => Ok (LFell s')
      | LReturn r => Ok (LReturned r)
      end
  end.

(** [it.map(f).collect::<Vec<_>>()] for a function [f] that may panic, and
    [it.map(f).collect::<Result<Vec<_>, _>>()]: elements are mapped in order and the first
    error ends the iteration (later elements are not evaluated) *)
Fixpoint map_chk {A B} (f : A -> outcome B) (l : list A) : outcome (list B) :=
  match l with
  | [] => Ok []
  | x :: l' => do b <- f x; do bs <- map_chk f l'; Ok (b :: bs)
  end.
Fixpoint map_collect_chk {A B E} (f : A -> outcome (result B E)) (l : list A) : outcome (result (list B) E) :=
  match l with
  | [] => Ok (ROk [])
  | x :: l' =>
      do r <- f x;
      match r with
      | RErr e => Ok (RErr e)
      | ROk b => do rs <- map_collect_chk f l';
                 Ok (match rs with ROk bs => ROk (b :: bs) | RErr e => RErr e end)
      end
  end.

(** ** values *)
(** the variants of [RegistryError] the translated functions construct (payloads dropped) *)
Inductive reg_error : Set := GE_InvalidPointer.

(** what [dispatch_struct_segments] does with its handler: ONE call
    [handler.repe_handle(segs, body)]; the response is built from its result (that mapping
    is not translated) *)
Inductive struct_answer : Set := SHandled (segs : list str).

(** what [Registry::register_function_arc] does on success: the segments whose object parents
    were ensured in the JSON tree and the key the callable was stored under in the function map
    ([None]: that step did not happen) *)
Inductive reg_step : Set := RegFn (ensured : option (list str)) (key : option str).

(** [e?] on an [Option] inside a loop of a function that returns [Option<_>]: the function
    returns [None] *)
Definition try_opt_loop {A S R} (o : option A) (k : A -> outcome (lflow S (option R))) : outcome (lflow S (option R)) :=
  match o with Some a => k a | None => Ok (LReturn None) end.
Notation "'tryol' x <- e ; f" := (try_opt_loop e (fun x => f))
  (at level 200, x name, e at level 100, f at level 200, right associativity).
