(** Hand-written helpers shared by both files that bin/rs2v generates
    (Gen/StreamGen.v, Gen/FrameGen.v): the fixed meanings of Option / VecDeque /
    integer methods, [while], and the result types.  Definitions only. *)
From RepeV Require Export Base.Word.

(** ** Option / VecDeque / integer methods *)
Definition opt_is_some {A} (o : option A) : bool := match o with Some _ => true | None => false end.
Definition opt_is_none {A} (o : option A) : bool := match o with Some _ => false | None => true end.
(** [Option::is_some_and] *)
Definition opt_is_some_and {A} (o : option A) (p : A -> bool) : bool :=
  match o with Some a => p a | None => false end.
(** [==] on [Option<T>] *)
Definition opt_eqb {A} (eqb : A -> A -> bool) (a b : option A) : bool :=
  match a, b with
  | Some x, Some y => eqb x y
  | None, None => true
  | _, _ => false
  end.
(** [VecDeque::back] (the list is oldest first) *)
Fixpoint last_opt {A} (l : list A) : option A :=
  match l with
  | [] => None
  | [a] => Some a
  | _ :: l' => last_opt l'
  end.
(** [Option::and_then] *)
Definition opt_bind {A B} (o : option A) (f : A -> option B) : option B :=
  match o with Some a => f a | None => None end.
Definition list_is_empty {A} (l : list A) : bool := match l with [] => true | _ => false end.
(** bare [a - b] on u64 with overflow checks off (release arithmetic): wraps *)
Definition wrap_sub64 (a b : N) : N := (a + two64 - b) mod two64.
(** [u64::wrapping_add] *)
Definition wrap_add64 (a b : N) : N := (a + b) mod two64.

(** ** [while c { body }] over the state, with fuel *)
Fixpoint while_fuel {S : Type} (fuel : nat) (c : S -> bool) (body : S -> S) (s : S) : S :=
  match fuel with
  | O => s
  | Datatypes.S fuel' => if c s then while_fuel fuel' c body (body s) else s
  end.

(** ** results *)
(** [Result<A, E>] *)
Inductive result (A E : Type) : Type := ROk (a : A) | RErr (e : E).
Arguments ROk {A E} a.
Arguments RErr {A E} e.

(** one iteration of a [loop] around [cv.wait_timeout]: the method returned a
    value, or released the mutex and parked *)
Inductive iter (A : Type) : Type := Ret (a : A) | Park.
Arguments Ret {A} a.
Arguments Park {A}.
