(** Hand-written helpers used by the text that bin/rs2v generates from the lock structure of
    [Registry] (/repo/src/registry.rs -> Gen/RegLocksGen.v, target `reglocks`).  Every name used by
    that text and not defined in Model/Registry.v, Model/Json.v or the Coq
    standard library is defined here; each is the fixed meaning of one Rust construct (see the
    docstring of bin/rs2v, NINTH MODE).  Definitions only.

    The [RwLock]-protected [RegistryState] is the model's [rstate] (Model/Registry.v): [root] is
    [r_root], [functions] -- a map from the canonical pointer string to the callable -- is [r_funs]
    with [fget] / [fset], a callable ([Arc<dyn RegistryCallable>]) being its number. *)
From RepeV Require Export Model.Registry.

(** ** [Option] / [Vec] methods *)
Definition o_is_some {A} (o : option A) : bool := match o with Some _ => true | None => false end.
Definition o_is_none {A} (o : option A) : bool := match o with Some _ => false | None => true end.
Definition l_is_empty {A} (l : list A) : bool := match l with [] => true | _ => false end.
(** [v.last()] *)
Fixpoint l_last {A} (l : list A) : option A :=
  match l with
  | [] => None
  | [x] => Some x
  | _ :: l' => l_last l'
  end.

(** ** assignment to one field of the state *)
Definition set_r_root (s : rstate) (v : json) : rstate := mkR v (r_funs s).
Definition set_r_funs (s : rstate) (f : ftab) : rstate := mkR (r_root s) f.

(** ** the result of the user callable: [Result<Value, (ErrorCode, String)>], the text dropped *)
Inductive cres : Set := CROk (j : json) | CRErr (code : N).
(** [.map_err(|(code, message)| RegistryError::Execution { code, message })] seen as the method's answer *)
Definition of_cres (r : cres) : rout := match r with CROk j => ROk j | CRErr c => RErr (EExec c) end.

(** ** a [&mut] into the value tree: the place it points into and the path from there *)
(** the effect of writing through a [&mut] that was obtained by walking [segs] down from [cur]
    ([resolve_mut], [ensure_object_parent]): the value there becomes [f] of what it was *)
Fixpoint upd_at (cur : json) (segs : list str) (f : json -> json) : json :=
  match segs with
  | [] => f cur
  | s :: rest => match child cur s with
                 | Ok c => put_child cur s (upd_at c rest f)
                 | Err _ => cur
                 end
  end.
(** [for (key, value) in object { m.insert(key, value); }] on a [&mut Map] *)
Definition merge_into (o : omap) (v : json) : json := JObj (omerge (obj_of v) o).
(** [m.insert(k, x)] on a [&mut Map] *)
Definition insert_into (k : str) (x : json) (v : json) : json := JObj (oset (obj_of v) k x).
Definition is_obj (v : json) : bool := match v with JObj _ => true | _ => false end.

(** ** what a method does: lock acquisitions, releases, calls of the user callable *)
Inductive lmode : Set := LRd | LWr.

(** a rendered method is an [lplan].  [LAcq m k]: [self.read_state()] / [self.write_state()] --
    blocks until the lock is granted, then [k] gets the protected state.  [LTry m k busy]:
    [self.state.try_read()] / [try_write()] -- [busy] when the lock is not granted at once.
    [LRel w k]: the guard is dropped; [w] is [None] for a read guard and [Some s] for a write
    guard, [s] being the state it leaves behind.  [LCall fid arg k]: ONE invocation of the user
    callable [fid] ([f.call(ctx, Some(arg))]); [k] gets its result.  [LAtomic k]: ONE atomic
    read-modify-write of some other shared cell of the registry ([self.x.fetch_add(..)]).
    [LPanic]: an [unwrap()] of [None].  Other threads may run wherever no guard is held. *)
Inductive lplan : Type :=
| LDone (r : rout)
| LPanic
| LAcq (m : lmode) (k : rstate -> lplan)
| LTry (m : lmode) (k : rstate -> lplan) (busy : lplan)
| LRel (w : option rstate) (k : lplan)
| LCall (fid : N) (arg : json) (k : cres -> lplan)
| LAtomic (k : lplan).

(** what one run of a plan does, in order *)
Inductive tev : Set :=
| TAcq (m : lmode)            (* a lock section begins *)
| TBusy                       (* a try-lock that was refused *)
| TRel                        (* the section ends *)
| TCall (fid : N) (arg : json)
| TAtomic
| TPanic
| TDeadlock.                  (* a second acquisition while this thread holds a guard *)

(** [run user env busy n held p s]: the plan [p] run from the shared state [s] by one thread
    while OTHER threads run too: before the [n]-th lock acquisition of this thread (counted from
    the start of the method) the others turn the shared state [s] into [env n s]; [busy n] says
    whether the [n]-th acquisition, if it is a try-lock, is refused; [user] is the callable
    oracle; [held]: this thread holds a guard.  Result: the shared state at the end, the events
    in order, the method's answer. *)
Fixpoint run (user : N -> json -> cres) (env : nat -> rstate -> rstate) (busy : nat -> bool)
             (n : nat) (held : bool) (p : lplan) (s : rstate) {struct p} : rstate * list tev * rout :=
  match p with
  | LDone r => (s, [], r)
  | LPanic => (s, [TPanic], RNoRoute)
  | LAcq m k =>
      if held then (s, [TDeadlock], RNoRoute)
      else let s1 := env n s in
           let '(s', tr, r) := run user env busy (S n) true (k s1) s1 in (s', TAcq m :: tr, r)
  | LTry m k b =>
      if held || busy n then
        let '(s', tr, r) := run user env busy (S n) held b s in (s', TBusy :: tr, r)
      else let s1 := env n s in
           let '(s', tr, r) := run user env busy (S n) true (k s1) s1 in (s', TAcq m :: tr, r)
  | LRel w k =>
      let '(s', tr, r) := run user env busy n false k (match w with Some s1 => s1 | None => s end) in
      (s', TRel :: tr, r)
  | LCall fid arg k =>
      let '(s', tr, r) := run user env busy n held (k (user fid arg)) s in (s', TCall fid arg :: tr, r)
  | LAtomic k =>
      let '(s', tr, r) := run user env busy n held k s in (s', TAtomic :: tr, r)
  end.

(** the callables of the model ([fun_out]: callable [fid] returns [[fid, argument]], or fails with
    an application code when [fid mod 4 = 3]) as a callable oracle *)
Definition model_user (fid : N) (arg : json) : cres :=
  if fid mod 4 =? 3 then CRErr APP_ERROR else CROk (JArr [JNum fid; arg]).

(** the calls a run made, as the model logs them *)
Fixpoint calls_of (tr : list tev) : calllog :=
  match tr with
  | [] => []
  | TCall fid arg :: tr' => (fid, arg) :: calls_of tr'
  | _ :: tr' => calls_of tr'
  end.
