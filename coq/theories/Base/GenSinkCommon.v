(** Hand-written helpers shared by the two files that bin/rs2v generates in its sinks-and-sessions
    mode (EIGHTH MODE: Gen/SvsGen.v, Gen/OutboundGen.v): the fixed meanings that do not depend on a
    model.  The loop combinators, [len_n], [slice_chk], [res_map_err] ... come from
    Base/GenStrPrelude.v.  Definitions only. *)
From RepeV Require Export Base.GenStrPrelude.

(** ** errors and texts *)
(** an [io::Error] is its kind: [io::Error::new(io::ErrorKind::K, text)] is [K] (the text is
    dropped); [IoOther] stands for every kind other than the two the translated code names (an
    oracle -- the body writer, the inner writer -- may fail with any of the three);
    [e.kind() == io::ErrorKind::K] is [io_error_eqb] *)
Inductive io_error : Set := IoBrokenPipe | IoUnexpectedEof | IoOther.
Definition io_error_eqb (a b : io_error) : bool :=
  match a, b with
  | IoBrokenPipe, IoBrokenPipe | IoUnexpectedEof, IoUnexpectedEof | IoOther, IoOther => true
  | _, _ => false
  end.
(** a [String] that only ends up in an error text ([format!], [e.to_string()], literals) *)
Inductive text : Set := TOpaque.

(** bare [a - b] on usize with overflow checks on: panics on wrap (as [add64] for [+]) *)
Definition sub64 (a b : N) : outcome N := if b <=? a then Ok (a - b) else Panic.

(** [e?] with the value the function returns in the error case spelled out ([h]: the error,
    and the state the function hands back with it) *)
Definition try_or {A E R} (r : result A E) (h : E -> R) (k : A -> R) : R :=
  match r with ROk a => k a | RErr e => h e end.
Notation "'tryx' x <- e 'orelse' h ; f" := (try_or e h (fun x => f))
  (at level 200, x name, e at level 100, h at level 100, f at level 200, right associativity).

(** [Result::unwrap_or_else(|_| d)] *)
Definition res_unwrap_or {A E} (r : result A E) (d : A) : A := match r with ROk a => a | RErr _ => d end.

(** [v.drain(..n);] (the drained elements are dropped): panics when [n > len] *)
Definition drain_chk {A} (v : list A) (n : N) : outcome (list A) :=
  if n <=? len_n v then Ok (skipn (N.to_nat n) v) else Panic.

(** [RepeError]: the variant the translated code constructs and inspects keeps its payload; any
    other error value is [E_Other] *)
Inductive repe_error : Set := E_MessageTooLarge (size limit : N) | E_Other.

(** ErrorCode discriminants (src/constants.rs; tied to the source by Gen/Tables.v, see
    Proofs/SvsGenAgree.v) *)
Definition ERRC_InvalidQuery : N := 3.
Definition ERRC_InvalidBody : N := 4.
Definition ERRC_MethodNotFound : N := 6.
Definition ERRC_ResourceExhausted : N := 8.
Definition ERRC_InternalError : N := 9.
