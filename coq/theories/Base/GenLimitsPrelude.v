(** Hand-written helpers used by the text that bin/rs2v generates from
    /repo/src/websocket_limits.rs (Gen/LimitsGen.v).  Definitions only. *)
From RepeV Require Export Model.Limits Base.GenCommon.

(** [WebSocketLimits]: the three thresholds, [None] = unlimited *)
Record ws_limits : Set := mkLimits {
  l_in_frame : option N;       (* max_incoming_frame_size *)
  l_in_message : option N;     (* max_incoming_message_size *)
  l_peer : option N            (* assumed_peer_frame_limit *)
}.
