(** Hand-written helpers used by the text that bin/rs2v generates from
    /repo/src/stream.rs (Gen/StreamGen.v).  Every name used by generated text
    and not defined in Model/Stream.v or the Coq standard library is defined
    or in Base/GenCommon.v (helpers shared with Gen/FrameGen.v); each is the fixed
    meaning of one Rust construct (see the docstring of bin/rs2v).  Definitions only. *)
From RepeV Require Export Base.Outcome Model.Stream Base.GenCommon.

(** ** assignment to one field of the mutex-protected state *)
Definition set_t_window (s : tc) (v : N) : tc :=
  mkTc v (t_sent s) (t_acked s) (t_file s) (t_cancelled s) (t_ring s) (t_held s) (t_cap s) (t_peer s) (t_pending s).
Definition set_t_sent (s : tc) (v : N) : tc :=
  mkTc (t_window s) v (t_acked s) (t_file s) (t_cancelled s) (t_ring s) (t_held s) (t_cap s) (t_peer s) (t_pending s).
Definition set_t_acked (s : tc) (v : N) : tc :=
  mkTc (t_window s) (t_sent s) v (t_file s) (t_cancelled s) (t_ring s) (t_held s) (t_cap s) (t_peer s) (t_pending s).
Definition set_t_file (s : tc) (v : N) : tc :=
  mkTc (t_window s) (t_sent s) (t_acked s) v (t_cancelled s) (t_ring s) (t_held s) (t_cap s) (t_peer s) (t_pending s).
Definition set_t_cancelled (s : tc) (v : option N) : tc :=
  mkTc (t_window s) (t_sent s) (t_acked s) (t_file s) v (t_ring s) (t_held s) (t_cap s) (t_peer s) (t_pending s).
Definition set_t_ring (s : tc) (v : list chunk) : tc :=
  mkTc (t_window s) (t_sent s) (t_acked s) (t_file s) (t_cancelled s) v (t_held s) (t_cap s) (t_peer s) (t_pending s).
Definition set_t_held (s : tc) (v : N) : tc :=
  mkTc (t_window s) (t_sent s) (t_acked s) (t_file s) (t_cancelled s) (t_ring s) v (t_cap s) (t_peer s) (t_pending s).
Definition set_t_cap (s : tc) (v : N) : tc :=
  mkTc (t_window s) (t_sent s) (t_acked s) (t_file s) (t_cancelled s) (t_ring s) (t_held s) v (t_peer s) (t_pending s).
Definition set_t_peer (s : tc) (v : option N) : tc :=
  mkTc (t_window s) (t_sent s) (t_acked s) (t_file s) (t_cancelled s) (t_ring s) (t_held s) (t_cap s) v (t_pending s).
Definition set_t_pending (s : tc) (v : option N) : tc :=
  mkTc (t_window s) (t_sent s) (t_acked s) (t_file s) (t_cancelled s) (t_ring s) (t_held s) (t_cap s) (t_peer s) v.

(** [ResumeRejection], [CreditError], [ReconnectOutcome] of src/stream.rs *)
Inductive resume_rejection : Set :=
| RR_WrongFileIndex (requested current : N) | RR_OutOfWindow | RR_Cancelled.
Inductive credit_error : Set := CE_Cancelled (reason : N) | CE_Timeout.
Inductive reconnect_outcome : Set :=
| RO_ResumeReady (pending : N) | RO_Cancelled (reason : N) | RO_Timeout.
