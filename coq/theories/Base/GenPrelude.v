(** Hand-written helpers used by the text that bin/rs2v generates from
    /repo/src/stream.rs (Gen/StreamGen.v).  Every name used by generated text
    and not defined in Model/Stream.v or the Coq standard library is defined
    here; each is the fixed meaning of one Rust construct (see the docstring of
    bin/rs2v).  Definitions only. *)
From RepeV Require Export Base.Outcome Model.Stream.

(** ** assignment to one field of the mutex-protected state *)
Definition set_t_window (s : tc) (v : N) : tc :=
  mkTc v (t_sent s) (t_acked s) (t_file s) (t_cancelled s) (t_ring s) (t_held s) (t_cap s) (t_peer s) (t_pending s).
Definition set_t_sent (s : tc) (v : N) : tc :=
  mkTc (t_window s) v (t_acked s) (t_file s) (t_cancelled s) (t_ring s) (t_held s) (t_cap s) (t_peer s) (t_pending s).
Definition set_t_acked (s : tc) (v : N) : tc :=
  mkTc (t_window s) (t_sent s) v (t_file s) (t_cancelled s) (t_ring s) (t_held s) (t_cap s) (t_peer s) (t_pending s).
Definition set_t_file (s : tc) (v : N) : tc :=
  mkTc (t_window s) (t_sent s) (t_acked s) v (t_cancelled s) (t_ring s) (t_held s) (t_cap s) (t_peer s) (t_pending s).
Definition set_t_cancelled (s : tc) (v : option N) : tc :=
  mkTc (t_window s) (t_sent s) (t_acked s) (t_file s) v (t_ring s) (t_held s) (t_cap s) (t_peer s) (t_pending s).
Definition set_t_ring (s : tc) (v : list chunk) : tc :=
  mkTc (t_window s) (t_sent s) (t_acked s) (t_file s) (t_cancelled s) v (t_held s) (t_cap s) (t_peer s) (t_pending s).
Definition set_t_held (s : tc) (v : N) : tc :=
  mkTc (t_window s) (t_sent s) (t_acked s) (t_file s) (t_cancelled s) (t_ring s) v (t_cap s) (t_peer s) (t_pending s).
Definition set_t_cap (s : tc) (v : N) : tc :=
  mkTc (t_window s) (t_sent s) (t_acked s) (t_file s) (t_cancelled s) (t_ring s) (t_held s) v (t_peer s) (t_pending s).
Definition set_t_peer (s : tc) (v : option N) : tc :=
  mkTc (t_window s) (t_sent s) (t_acked s) (t_file s) (t_cancelled s) (t_ring s) (t_held s) (t_cap s) v (t_pending s).
Definition set_t_pending (s : tc) (v : option N) : tc :=
  mkTc (t_window s) (t_sent s) (t_acked s) (t_file s) (t_cancelled s) (t_ring s) (t_held s) (t_cap s) (t_peer s) v.

(** ** Option / VecDeque / integer methods *)
Definition opt_is_some {A} (o : option A) : bool := match o with Some _ => true | None => false end.
Definition opt_is_none {A} (o : option A) : bool := match o with Some _ => false | None => true end.
(** [Option::is_some_and] *)
Definition opt_is_some_and {A} (o : option A) (p : A -> bool) : bool :=
  match o with Some a => p a | None => false end.
(** [==] on [Option<T>] *)
Definition opt_eqb {A} (eqb : A -> A -> bool) (a b : option A) : bool :=
  match a, b with
  | Some x, Some y => eqb x y
  | None, None => true
  | _, _ => false
  end.
(** [VecDeque::back] (the list is oldest first) *)
Fixpoint last_opt {A} (l : list A) : option A :=
  match l with
  | [] => None
  | [a] => Some a
  | _ :: l' => last_opt l'
  end.
Definition list_is_empty {A} (l : list A) : bool := match l with [] => true | _ => false end.
(** bare [a - b] on u64 with overflow checks off (release arithmetic): wraps *)
Definition wrap_sub64 (a b : N) : N := (a + two64 - b) mod two64.

(** ** [while c { body }] over the state, with fuel *)
Fixpoint while_fuel {S : Type} (fuel : nat) (c : S -> bool) (body : S -> S) (s : S) : S :=
  match fuel with
  | O => s
  | Datatypes.S fuel' => if c s then while_fuel fuel' c body (body s) else s
  end.

(** ** results *)
(** [Result<A, E>] *)
Inductive result (A E : Type) : Type := ROk (a : A) | RErr (e : E).
Arguments ROk {A E} a.
Arguments RErr {A E} e.

(** one iteration of a [loop] around [cv.wait_timeout]: the method returned a
    value, or released the mutex and parked *)
Inductive iter (A : Type) : Type := Ret (a : A) | Park.
Arguments Ret {A} a.
Arguments Park {A}.

(** [ResumeRejection], [CreditError], [ReconnectOutcome] of src/stream.rs *)
Inductive resume_rejection : Set :=
| RR_WrongFileIndex (requested current : N) | RR_OutOfWindow | RR_Cancelled.
Inductive credit_error : Set := CE_Cancelled (reason : N) | CE_Timeout.
Inductive reconnect_outcome : Set :=
| RO_ResumeReady (pending : N) | RO_Cancelled (reason : N) | RO_Timeout.
