(** Hand-written helpers used by the text that bin/rs2v generates from the SVS producer /
    session code of /repo/src/value_stream.rs (Gen/SvsGen.v).  Every name used by that text and
    not defined in Model/Svs.v (only its data types [msg], [session], [resp] are used),
    Base/Outcome.v, Base/GenCommon.v, Base/GenStrPrelude.v, Base/GenSinkCommon.v or the Coq standard library is defined
    here; each is the fixed meaning of one Rust construct (see the docstring of bin/rs2v, EIGHTH
    MODE).  Definitions only. *)
From RepeV Require Export Model.Svs Base.GenSinkCommon.

(** ** the producer -> session channel *)
(** sender side ([SyncSender<Msg>]; every handle in scope names this ONE channel): the messages
    sent so far, in order, and how many further sends succeed before the receiver is gone
    ([None]: the receiver outlives the producer).  The bound of the channel only delays. *)
Record tx_chan : Set := mkTx { tx_sent : list msg; tx_left : option nat }.
(** [tx.send(m)]: [Err] (and [m] is lost) iff the receiver was dropped *)
Definition tx_send (c : tx_chan) (m : msg) : result unit unit * tx_chan :=
  match tx_left c with
  | Some O => (RErr tt, c)
  | Some (S k) => (ROk tt, mkTx (tx_sent c ++ [m]) (Some k))
  | None => (ROk tt, mkTx (tx_sent c ++ [m]) None)
  end.
(** receiver side ([Receiver<Msg>], owned by the session: a value): the messages that are still
    to arrive, the producer having finished; [rx.recv()] pops the head, [Err] = disconnected *)
Definition rx_recv (rx : list msg) : result msg unit * list msg :=
  match rx with [] => (RErr tt, []) | m :: r => (ROk m, r) end.

(** ** ChunkSink { tx, buf, chunk_bytes } ([tx] is a handle of the channel, not data) *)
Record sink : Set := mkSink { k_buf : list byte; k_chunk_bytes : N }.
Definition set_k_buf (s : sink) (v : list byte) : sink := mkSink v (k_chunk_bytes s).
Definition set_k_chunk_bytes (s : sink) (v : N) : sink := mkSink (k_buf s) v.

(** ** StreamOpts (the fields the translated code reads) *)
Inductive compression : Set := CoNone | CoZstd.
Record stream_opts : Set := mkOpts { o_chunk_bytes : N; o_compression : compression }.

(** ** the body writer and the compressor: oracles that drive the sink
    A call into code that is not translated and holds the [&mut] to the sink (the boxed body
    writer, [zstd::stream::write::Encoder::new], [enc.finish()], the body writer running on the
    encoder) is ONE step of the writer oracle: it makes the [Write] calls the step names on the
    sink, in order, stops at the first one that fails (returning that error, as [write_all] does),
    and otherwise returns what the step says. *)
Inductive wop : Set := WWrite (b : list byte) | WFlush.
Record wstep : Set := mkWStep { ws_ops : list wop; ws_res : option io_error }.

Fixpoint run_wops {S C : Type}
    (write : C -> S -> list byte -> outcome (result N io_error * S * C))
    (flush : C -> S -> outcome (result unit io_error * S * C))
    (ops : list wop) (c : C) (s : S) : outcome (result unit io_error * S * C) :=
  match ops with
  | [] => Ok (ROk tt, s, c)
  | WWrite b :: r =>
      do x <- write c s b;
      let '(res, s', c') := x in
      match res with ROk _ => run_wops write flush r c' s' | RErr e => Ok (RErr e, s', c') end
  | WFlush :: r =>
      do x <- flush c s;
      let '(res, s', c') := x in
      match res with ROk _ => run_wops write flush r c' s' | RErr e => Ok (RErr e, s', c') end
  end.

(** one oracle step: the next entry of the script (an exhausted script: nothing is written, [Ok]) *)
Definition writer_step {S C : Type}
    (write : C -> S -> list byte -> outcome (result N io_error * S * C))
    (flush : C -> S -> outcome (result unit io_error * S * C))
    (script : list wstep) (c : C) (s : S) : outcome (result unit io_error * S * C * list wstep) :=
  match script with
  | [] => Ok (ROk tt, s, c, [])
  | st :: rest =>
      do x <- run_wops write flush (ws_ops st) c s;
      let '(res, s', c') := x in
      Ok (match res with
          | RErr e => RErr e
          | ROk _ => match ws_res st with Some e => RErr e | None => ROk tt end
          end, s', c', rest)
  end.

(** ** Session { rx, lookahead, done } is the model's [session]; setters *)
Definition set_s_rx (s : session) (v : list msg) : session := mkSession v (s_look s) (s_done s).
Definition set_s_look (s : session) (v : option chunk) : session := mkSession (s_rx s) v (s_done s).
Definition set_s_done (s : session) (v : bool) : session := mkSession (s_rx s) (s_look s) v.

(** ** SessionTable { next_id, sessions }: the map is an association list (keys are unique in a
    HashMap; [m_get] reads the first binding, [m_del] removes every binding of the key) *)
Fixpoint m_get {V} (m : list (N * V)) (k : N) : option V :=
  match m with [] => None | (k', v) :: r => if k' =? k then Some v else m_get r k end.
Fixpoint m_del {V} (m : list (N * V)) (k : N) : list (N * V) :=
  match m with [] => [] | (k', v) :: r => if k' =? k then m_del r k else (k', v) :: m_del r k end.
(** a write through a lock guard of the [Arc<Mutex<V>>] that [get(k)] returned: the entry is
    updated where it is; a key that is no longer in the table is not re-inserted *)
Fixpoint m_put {V} (m : list (N * V)) (k : N) (v : V) : list (N * V) :=
  match m with [] => [] | (k', v') :: r => if k' =? k then (k', v) :: r else (k', v') :: m_put r k v end.

Record sess_table : Set := mkTable { tb_next_id : N; tb_sessions : list (N * session) }.
Definition set_tb_next_id (t : sess_table) (v : N) : sess_table := mkTable v (tb_sessions t).
Definition set_tb_sessions (t : sess_table) (v : list (N * session)) : sess_table := mkTable (tb_next_id t) v.

(** NextHandler { table } / CancelHandler { table } *)
Record svs_handler : Set := mkHandler { nh_table : sess_table }.
Definition set_nh_table (h : svs_handler) (v : sess_table) : svs_handler := mkHandler v.

(** ** responses: [error_like(req, code, text)] and [chunk_response(req, chunk, last)] are the
    model's [resp] constructors (the request they answer and the text are dropped);
    [beve_response(req, &CancelAck { .. })] is [SAck] *)
Definition resp_err (code : N) : resp := Svs.RErr code.
Definition resp_chunk (body : list byte) (last : bool) : resp := Svs.RChunk body last.
Inductive svs_reply : Set := SResp (r : resp) | SAck.

(** ** TrailerHold { inner, hold, trailer_len }; [inner: W] ([W: Write], owned: a value) is the
    list of the [write_all] calls that succeeded on it and how many more succeed ([None]: all) *)
Record inner_writer : Set := mkInner { iw_done : list (list byte); iw_left : option nat }.
Definition iw_write_all (w : inner_writer) (x : list byte) : result unit io_error * inner_writer :=
  match iw_left w with
  | Some O => (RErr IoOther, w)
  | Some (S k) => (ROk tt, mkInner (iw_done w ++ [x]) (Some k))
  | None => (ROk tt, mkInner (iw_done w ++ [x]) None)
  end.
Record trailer_hold : Set := mkHold { th_inner : inner_writer; th_hold : list byte; th_trailer_len : N }.
Definition set_th_inner (h : trailer_hold) (v : inner_writer) : trailer_hold := mkHold v (th_hold h) (th_trailer_len h).
Definition set_th_hold (h : trailer_hold) (v : list byte) : trailer_hold := mkHold (th_inner h) v (th_trailer_len h).
Definition set_th_trailer_len (h : trailer_hold) (v : N) : trailer_hold := mkHold (th_inner h) (th_hold h) v.
