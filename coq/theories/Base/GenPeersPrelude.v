(** Hand-written helpers used by the text that bin/rs2v generates from PeerRegistry
    (/repo/src/peer.rs -> Gen/PeersGen.v).  Every name used by that text and not defined in
    Model/Peers.v, Base/GenCommon.v or the Coq standard library is defined here; each is the fixed
    meaning of one Rust construct (see the docstring of bin/rs2v).  Definitions only.

    The mutex-protected [RegistryInner] is the model's [preg] (Model/Peers.v).  A [PeerId] and a
    [PeerHandle] are the peer's id (a handle is only looked up, cloned and sent to); alias keys
    ([String]) are numbers, as in the model.  [aliases] and [alias_index] are association lists
    with the model's [aget] / [aset] (replace in place, else append) / [adel]; [peers], a map from
    an id to the handle WITH that id, is the set of its ids, kept as the model keeps it: sorted.
    Rust leaves the iteration order of a [HashMap] unspecified; the only iteration over one is
    [peers.values()], rendered in increasing id order (the model, the harness observations and
    the oracle sort). *)
From RepeV Require Export Model.Peers Base.GenCommon.

(** ** assignment to one field of the state *)
Definition set_p_peers (s : preg) (v : list N) : preg := mkPreg v (p_aliases s) (p_index s).
Definition set_p_aliases (s : preg) (v : list (N * N)) : preg := mkPreg (p_peers s) v (p_index s).
Definition set_p_index (s : preg) (v : list (N * list N)) : preg := mkPreg (p_peers s) (p_aliases s) v.

(** ** [Option] / [Vec] methods *)
Definition o_unwrap_or {A} (o : option A) (d : A) : A := match o with Some a => a | None => d end.
(** [v.iter().position(p)] *)
Fixpoint list_position {A} (p : A -> bool) (l : list A) : option N :=
  match l with
  | [] => None
  | x :: l' => if p x then Some 0 else option_map N.succ (list_position p l')
  end.
(** [v.swap_remove(i)] (the removed element is replaced by the last one); [i] out of range,
    where Rust panics, leaves the vector unchanged: the translator only accepts an index that
    comes from [position] on the same vector *)
Definition list_swap_remove {A} (l : list A) (i : N) : list A :=
  match nth_error l (N.to_nat i), last_opt l with
  | Some _, Some z =>
      let l' := removelast l in
      if N.to_nat i <? length l' then firstn (N.to_nat i) l' ++ z :: skipn (S (N.to_nat i)) l' else l'
  | _, _ => l
  end%nat.
(** a map from peer ids to opaque values (the per-peer results of a broadcast): the ids, in
    insertion order, each once *)
Definition ids_insert (id : N) (l : list N) : list N := if memN id l then l else l ++ [id].

(** ** what a method does: critical sections and sends *)
(** a rendered method is a [plan]: it is finished with a value, or it takes the registry's
    mutex for ONE critical section [f] (state before -> state after, and what it does after
    unlocking), or it calls [send_notify] on ONE peer's handle outside the lock (the result of
    the call is opaque) and goes on.  Other threads may run between two constructors. *)
Inductive plan (R : Type) : Type :=
| PDone (r : R)
| PStep (f : preg -> preg * plan R)
| PSend (id : N) (k : plan R).
Arguments PDone {R} r.
Arguments PStep {R} f.
Arguments PSend {R} id k.

(** calling another method of the registry and continuing with its value *)
Fixpoint pbind {A B} (p : plan A) (k : A -> plan B) : plan B :=
  match p with
  | PDone a => k a
  | PStep f => PStep (fun s => let '(s', p') := f s in (s', pbind p' k))
  | PSend id p' => PSend id (pbind p' k)
  end.

(** [for x in l { body }] outside the lock, over the variables [s] the body assigns; the body
    gets the rest of the loop as [k] ([continue] and falling through call it) *)
Fixpoint for_plan {A S R} (body : A -> S -> (S -> plan R) -> plan R) (l : list A) (s : S) (k : S -> plan R) : plan R :=
  match l with
  | [] => k s
  | x :: l' => body x s (fun s' => for_plan body l' s' k)
  end.

(** the plan run with no other thread in between: final state, the peers sent to (in order),
    the number of critical sections, the value *)
Fixpoint run {R} (p : plan R) (s : preg) : preg * list N * nat * R :=
  match p with
  | PDone r => (s, [], O, r)
  | PStep f => let '(s', p') := f s in let '(s'', sends, n, r) := run p' s' in (s'', sends, S n, r)
  | PSend id p' => let '(s', sends, n, r) := run p' s in (s', id :: sends, n, r)
  end.
