(** Model of the fleet retry loop (src/fleet.rs, src/async_fleet.rs):
    [call_*_with_retry], [ensure_connected], [invalidate_client],
    [is_retryable_error], and the environment map R8 from what a node does on
    an attempt to the error kind the client observes. *)
From RepeV Require Export Base.Word.

(** what a node does for one attempt *)
Inductive behaviour : Set :=
| Refused        (* node down: open connections die, connect is refused *)
| AccClosed      (* accepts (or has) the connection, reads the request, closes without replying *)
| ClosedIdle     (* closes any idle connection before the attempt, then serves normally *)
| Silent         (* reads the request, never answers (until the call times out) *)
| Malformed      (* answers with a frame whose magic is wrong *)
| AppError       (* answers with an application error *)
| Success.

(** error kinds the loop can see *)
Inductive ekind : Set :=
| KRefused | KReset | KAborted | KNotConnected | KEof | KTimedOut | KBrokenPipe | KWouldBlock
| KInterrupted          (* io::ErrorKind, in the order of Gen.Tables *)
| KInvalidSpec          (* RepeError::InvalidSpec: the malformed reply *)
| KServerError.         (* RepeError::ServerError: the application error reply *)

(** [is_retryable_error] as a table over the nine io kinds (compared with the
    table re-read from both fleet sources on every run) *)
Definition retry_table : list bool := [true; true; true; true; true; true; true; true; true].

Definition kind_index (k : ekind) : option nat :=
  match k with
  | KRefused => Some 0 | KReset => Some 1 | KAborted => Some 2 | KNotConnected => Some 3
  | KEof => Some 4 | KTimedOut => Some 5 | KBrokenPipe => Some 6 | KWouldBlock => Some 7
  | KInterrupted => Some 8 | KInvalidSpec => None | KServerError => None
  end%nat.

Definition retryable_with (tbl : list bool) (k : ekind) : bool :=
  match kind_index k with Some i => nth i tbl false | None => false end.
Definition retryable := retryable_with retry_table.

(** the cached client of a node *)
Inductive cache : Set :=
| CNone      (* no client cached *)
| CLive      (* a client whose connection is healthy *)
| CDead.     (* a client whose reader has shut the socket down (writes fail with BrokenPipe) *)

Inductive result : Set := RValue | RErr (k : ekind).

(** R8: one attempt = ensure_connected + call, against a node doing [b].
    Returns what the call returns and the cache as [ensure_connected] and the
    client's reader leave it (before the loop's own invalidation). *)
Definition attempt (b : behaviour) (c : cache) : result * cache :=
  match c with
  | CDead => (RErr KBrokenPipe, CDead)
  | CNone =>
      match b with
      | Refused => (RErr KRefused, CNone)
      | AccClosed => (RErr KEof, CDead)
      | ClosedIdle => (RValue, CLive)
      | Silent => (RErr KTimedOut, CLive)
      | Malformed => (RErr KInvalidSpec, CDead)
      | AppError => (RErr KServerError, CLive)
      | Success => (RValue, CLive)
      end
  | CLive =>
      match b with
      | Refused => (RErr KBrokenPipe, CDead)
      | AccClosed => (RErr KEof, CDead)
      | ClosedIdle => (RErr KBrokenPipe, CDead)
      | Silent => (RErr KTimedOut, CLive)
      | Malformed => (RErr KInvalidSpec, CDead)
      | AppError => (RErr KServerError, CLive)
      | Success => (RValue, CLive)
      end
  end.

(** the node's script: behaviour of each successive attempt; healthy afterwards *)
Definition next_b (script : list behaviour) : behaviour * list behaviour :=
  match script with [] => (Success, []) | b :: s => (b, s) end.

Record call_out : Set := mkCallOut {
  co_attempts : N;          (* attempts made (probe count) *)
  co_result : result;       (* value, or the last error *)
  co_cache : cache;         (* cached client afterwards *)
  co_script : list behaviour
}.

(** [for attempt in 0..max_attempts { ... }] *)
Fixpoint retry_loop (tbl : list bool) (fuel : nat) (script : list behaviour) (c : cache)
    (made : N) (last : result) : call_out :=
  match fuel with
  | O => mkCallOut made last c script
  | S fuel' =>
      let '(b, script') := next_b script in
      let '(r, c1) := attempt b c in
      match r with
      | RValue => mkCallOut (made + 1) RValue c1 script'
      | RErr k =>
          if retryable_with tbl k
          then retry_loop tbl fuel' script' CNone (made + 1) (RErr k)   (* invalidate_client *)
          else mkCallOut (made + 1) (RErr k) c1 script'                 (* break *)
      end
  end.

Definition call (max : nat) (script : list behaviour) (c : cache) : call_out :=
  retry_loop retry_table max script c 0 (RErr KNotConnected).

(** ** the specification, written from the property text *)
Inductive aclass : Set := Transport | Reply | MalformedReply.

(** classification of what an attempt met *)
Definition classify (r : result) : aclass :=
  match r with
  | RValue => Reply
  | RErr KServerError => Reply
  | RErr KInvalidSpec => MalformedReply
  | RErr _ => Transport
  end.

(** at most [max] attempts; retry only after a transport-level failure; stop at
    the first reply (success, application error) — and at a malformed reply,
    which the code treats as a reply; report that reply or the last transport
    error; after a transport failure the dead client is dropped *)
Fixpoint spec_loop (fuel : nat) (script : list behaviour) (c : cache) (made : N) (last : result) : call_out :=
  match fuel with
  | O => mkCallOut made last c script
  | S fuel' =>
      let '(b, script') := next_b script in
      let '(r, c1) := attempt b c in
      match classify r with
      | Transport => spec_loop fuel' script' CNone (made + 1) r
      | Reply | MalformedReply => mkCallOut (made + 1) r c1 script'
      end
  end.
Definition spec_call (max : nat) (script : list behaviour) (c : cache) : call_out :=
  spec_loop max script c 0 (RErr KNotConnected).

(** ** a scenario: one call against a scripted node, then calls against the
    healthy node *)
Record c19_obs : Set := mkC19Obs {
  f_attempts : N; f_result : result; f_connected : bool;
  f_follow : list (N * result)       (* (attempts, result) of each follow-up call *)
}.

Definition is_connected (c : cache) : bool := match c with CNone => false | _ => true end.

Fixpoint follow_ups (tbl : list bool) (max n : nat) (script : list behaviour) (c : cache) : list (N * result) :=
  match n with
  | O => []
  | S n' => let o := retry_loop tbl max script c 0 (RErr KNotConnected) in
            (co_attempts o, co_result o) :: follow_ups tbl max n' (co_script o) (co_cache o)
  end.

Definition model_C19 (max : nat) (script : list behaviour) (nfollow : nat) : c19_obs :=
  let o := call max script CNone in
  mkC19Obs (co_attempts o) (co_result o) (is_connected (co_cache o))
           (follow_ups retry_table max nfollow (co_script o) (co_cache o)).

Definition result_class_eqb (a b : result) : bool :=
  match a, b with
  | RValue, RValue => true
  | RErr x, RErr y =>
      match classify (RErr x), classify (RErr y) with
      | Transport, Transport => true
      | Reply, Reply => true
      | MalformedReply, MalformedReply => true
      | _, _ => false
      end
  | _, _ => false
  end.

Definition is_value (r : result) : bool := match r with RValue => true | _ => false end.

(** results of the follow-up calls that started after the script was used up
    (the node is healthy from then on); [rem] = scripted attempts still ahead *)
Fixpoint healthy_results (rem : N) (fl : list (N * result)) : list result :=
  match fl with
  | [] => []
  | (a, r) :: fl' => if rem =? 0 then r :: healthy_results 0 fl' else healthy_results (rem - a) fl'
  end.

(** the oracle, on what was observed of the implementation: the first call
    behaves as the specification says (attempt count, class of the reported
    result), every call stays within [max] attempts, and the node is not
    wedged: once the node is healthy a value comes back within two calls *)
Definition ok_C19 (max : nat) (script : list behaviour) (o : c19_obs) : bool :=
  let s := spec_call max script CNone in
  (f_attempts o =? co_attempts s) && (f_attempts o <=? N.of_nat max) &&
  result_class_eqb (f_result o) (co_result s) &&
  forallb (fun '(a, _) => (a <=? N.of_nat max) && (1 <=? a)) (f_follow o) &&
  match healthy_results (N.of_nat (length script) - f_attempts o) (f_follow o) with
  | r1 :: r2 :: _ => is_value r1 || is_value r2
  | _ => true
  end.

(** observations agree up to the class of the reported error (which transport
    error kind a dead connection yields depends on kernel timing) *)
Definition c19_obs_eqb (a b : c19_obs) : bool :=
  (f_attempts a =? f_attempts b) && result_class_eqb (f_result a) (f_result b) &&
  Bool.eqb (f_connected a) (f_connected b) &&
  (fix go (x y : list (N * result)) : bool :=
     match x, y with
     | [], [] => true
     | (n1, r1) :: x', (n2, r2) :: y' => (n1 =? n2) && result_class_eqb r1 r2 && go x' y'
     | _, _ => false
     end) (f_follow a) (f_follow b).

(** tag filtering: a node is addressed iff it carries all requested tags
    (tags as bit masks) *)
Definition addressed (node_tags : list N) (want : N) : list bool :=
  map (fun t => N.land t want =? want) node_tags.
