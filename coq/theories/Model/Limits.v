(** Model of the outbound size guard: WebSocketLimits::check_outbound
    (src/websocket_limits.rs), frame_outbound (src/websocket_server.rs, used by
    the writer task and the proxy) and the client's pre-send check
    (src/websocket_client.rs). *)
From RepeV Require Export Model.Message.

(** decimal rendering of a u64 (Rust's Display), at most 20 digits *)
Fixpoint dec_digits (fuel : nat) (n : N) (acc : list byte) : list byte :=
  match fuel with
  | O => acc
  | S f => let acc' := (48 + n mod 10) :: acc in
           if n / 10 =? 0 then acc' else dec_digits f (n / 10) acc'
  end.
Definition dec (n : N) : list byte := dec_digits 20 n [].

Definition txt1 : list byte := [114; 101; 115; 112; 111; 110; 115; 101; 32; 105; 115; 32].
Definition txt2 : list byte := [32; 98; 121; 116; 101; 115; 44; 32; 111; 118; 101; 114; 32; 116; 104; 101; 32].
Definition txt3 : list byte := [32; 98; 121; 116; 101; 32; 97; 115; 115; 117; 109; 101; 100; 32; 112; 101; 101; 114; 32; 102; 114; 97; 109; 101; 32; 108; 105; 109; 105; 116; 59; 32; 114; 97; 105; 115; 101; 32; 116; 104; 101; 32; 112; 101; 101; 114; 39; 115; 32; 105; 110; 98; 111; 117; 110; 100; 32; 108; 105; 109; 105; 116; 32; 111; 114; 32; 114; 101; 100; 117; 99; 101; 32; 116; 104; 101; 32; 114; 101; 115; 112; 111; 110; 115; 101].

Definition replacement_text (size limit : N) : list byte :=
  txt1 ++ dec size ++ txt2 ++ dec limit ++ txt3.

(** [check_outbound]: true = may be sent *)
Definition check_outbound (lim : option N) (size : N) : bool :=
  match lim with Some l => negb (l <? size) | None => true end.

(** [create_error_message(InternalError, text)] with the request id carried over *)
Definition replacement (id size limit : N) : message :=
  let text := replacement_text size limit in
  mkMessage (mkHeader (HEADER_SIZE + 0 + lenN text) REPE_SPEC REPE_VERSION 0 0 id 0 (lenN text) 0 3 9) [] text.

(** [frame_outbound]: the bytes to put on the wire (if any) and whether the
    refusal was reported to the error hooks *)
Definition frame_outbound (lim : option N) (m : message) : option (list byte) * bool :=
  let frame_len := HEADER_SIZE + lenN (m_query m) + lenN (m_body m) in
  match lim with
  | Some l =>
      if l <? frame_len then
        if negb (h_notify (m_hdr m) =? 0) then (None, true)
        else (Some (into_wire_bytes 0 (replacement (h_id (m_hdr m)) frame_len l)), true)
      else (Some (into_wire_bytes (lenN (m_body m)) m), false)
  | None => (Some (into_wire_bytes (lenN (m_body m)) m), false)
  end.

(** the client's [write_request]: [None] = refused locally with MessageTooLarge *)
Definition client_send (lim : option N) (m : message) : option (list byte) :=
  let bytes := to_vec m in
  if check_outbound lim (lenN bytes) then Some bytes else None.

(** every replacement frame fits this many bytes *)
Definition replacement_bound : N := HEADER_SIZE + lenN txt1 + 20 + lenN txt2 + 20 + lenN txt3.

(** ** C17 scenario: one message offered to one outbound path *)
Inductive opath : Set :=
| PInlineResponse | POffReaderResponse | PHandlerNotify | PBroadcastNotify | PProxyResponse
| PClientRequest | PClientNotify.

Record c17_case : Set := mkC17 {
  v_path : opath; v_limit : option N; v_msg : message
}.

Inductive sent : Set := SNothing | SFrame (size id ec : N) (same : bool).
  (* [same]: the frame is byte-for-byte the offered message *)

Record c17_obs : Set := mkC17Obs {
  w_sent : sent;            (* what the raw peer received for this message *)
  w_reported : bool;        (* error hook fired (server paths) / call returned MessageTooLarge (client paths) *)
  w_alive : bool            (* the connection answered a later small request *)
}.

Definition is_client (p : opath) : bool := match p with PClientRequest | PClientNotify => true | _ => false end.
Definition has_hooks (p : opath) : bool := match p with PProxyResponse => false | _ => negb (is_client p) end.

Definition sent_of (orig : message) (bytes : option (list byte)) : sent :=
  match bytes with
  | None => SNothing
  | Some bs =>
      match from_slice_exact bs with
      | Ok m => SFrame (lenN bs) (h_id (m_hdr m)) (h_ec (m_hdr m)) (bytes_eqb bs (to_vec orig))
      | _ => SFrame (lenN bs) 0 0 false
      end
  end.

Definition model_C17 (c : c17_case) : c17_obs :=
  if is_client (v_path c) then
    let r := client_send (v_limit c) (v_msg c) in
    mkC17Obs (sent_of (v_msg c) r) (match r with None => true | _ => false end) true
  else
    let '(bs, rep) := frame_outbound (v_limit c) (v_msg c) in
    mkC17Obs (sent_of (v_msg c) bs) (rep && has_hooks (v_path c)) true.

(** the oracle: nothing above the limit is ever sent; at or below the limit the
    message is delivered unchanged; an oversized response is replaced by an
    internal error (code 9) with the same id; an oversized notify or client
    request is not sent and is reported; the connection stays usable *)
Definition ok_C17 (c : c17_case) (o : c17_obs) : bool :=
  let m := v_msg c in
  let frame_len := HEADER_SIZE + lenN (m_query m) + lenN (m_body m) in
  let over := match v_limit c with Some l => l <? frame_len | None => false end in
  w_alive o &&
  (match v_limit c, w_sent o with
   | Some l, SFrame size _ _ _ => if replacement_bound <=? l then size <=? l else true
   | _, _ => true
   end) &&
  (if over then
     if is_client (v_path c) || negb (h_notify (m_hdr m) =? 0)
     then (match w_sent o with SNothing => true | _ => false end) &&
          (if has_hooks (v_path c) || is_client (v_path c) then w_reported o else true)
     else match w_sent o with
          | SFrame _ id ec same => (id =? h_id (m_hdr m)) && (ec =? 9) && negb same &&
                                   (if has_hooks (v_path c) then w_reported o else true)
          | SNothing => false
          end
   else match w_sent o with
        | SFrame size id ec same => same && (size =? frame_len) && negb (w_reported o)
        | SNothing => false
        end).

Definition c17_wf (c : c17_case) : bool :=
  msg_ok (v_msg c) && match v_limit c with Some l => l <? two64 | None => true end &&
  (HEADER_SIZE + lenN (m_query (v_msg c)) + lenN (m_body (v_msg c)) <? two64).

(** ** the same scenario by sizes only (what the driver runs: limits go up to
    16 MiB and the bytes themselves are irrelevant to the decision).  A theorem
    ties it to [model_C17]. *)
Record c17_abs : Set := mkC17Abs {
  a_path : opath; a_limit : option N; a_flen : N; a_id : N; a_notify : bool
}.

Definition abs_of (c : c17_case) : c17_abs :=
  mkC17Abs (v_path c) (v_limit c)
    (HEADER_SIZE + lenN (m_query (v_msg c)) + lenN (m_body (v_msg c)))
    (h_id (m_hdr (v_msg c))) (negb (h_notify (m_hdr (v_msg c)) =? 0)).

Definition replacement_len (size limit : N) : N := HEADER_SIZE + lenN (replacement_text size limit).

Definition model_C17_abs (ec : N) (a : c17_abs) : c17_obs :=
  let over := match a_limit a with Some l => l <? a_flen a | None => false end in
  if is_client (a_path a) then
    if over then mkC17Obs SNothing true true
    else mkC17Obs (SFrame (a_flen a) (a_id a) ec true) false true
  else
    if over then
      if a_notify a then mkC17Obs SNothing (has_hooks (a_path a)) true
      else match a_limit a with
           | Some l => mkC17Obs (SFrame (replacement_len (a_flen a) l) (a_id a) 9 false) (has_hooks (a_path a)) true
           | None => mkC17Obs SNothing false true
           end
    else mkC17Obs (SFrame (a_flen a) (a_id a) ec true) false true.

Definition ok_C17_abs (a : c17_abs) (o : c17_obs) : bool :=
  let over := match a_limit a with Some l => l <? a_flen a | None => false end in
  w_alive o &&
  (match a_limit a, w_sent o with
   | Some l, SFrame size _ _ _ => if replacement_bound <=? l then size <=? l else true
   | _, _ => true
   end) &&
  (if over then
     if is_client (a_path a) || a_notify a
     then (match w_sent o with SNothing => true | _ => false end) &&
          (if has_hooks (a_path a) || is_client (a_path a) then w_reported o else true)
     else match w_sent o with
          | SFrame _ id ec same => (id =? a_id a) && (ec =? 9) && negb same &&
                                   (if has_hooks (a_path a) then w_reported o else true)
          | SNothing => false
          end
   else match w_sent o with
        | SFrame size id ec same => same && (size =? a_flen a) && negb (w_reported o)
        | SNothing => false
        end).

Definition sent_eqb (a b : sent) : bool :=
  match a, b with
  | SNothing, SNothing => true
  | SFrame s1 i1 e1 x1, SFrame s2 i2 e2 x2 => (s1 =? s2) && (i1 =? i2) && (e1 =? e2) && Bool.eqb x1 x2
  | _, _ => false
  end.
Definition c17_obs_eqb (a b : c17_obs) : bool :=
  sent_eqb (w_sent a) (w_sent b) && Bool.eqb (w_reported a) (w_reported b) && Bool.eqb (w_alive a) (w_alive b).
