(** C12: the mutex / condition-variable protocol of TransferControl
    (src/stream.rs): one waiter (wait_for_credit or wait_for_reconnect) and any
    number of signalling threads.  Every public method body is one atomic step
    (it runs under the single mutex); [Condvar::wait_timeout] atomically
    releases the mutex and parks (R1, R2). *)
From RepeV Require Export Model.Stream.

Inductive wkind : Set :=
| WCredit (len : N)        (* wait_for_credit(len, deadline) *)
| WReconnect.              (* wait_for_reconnect(timeout) *)

(** the predicate the waiter's loop re-checks under the lock *)
Definition ready (k : wkind) (s : tc) : bool :=
  match t_cancelled s with
  | Some _ => true
  | None =>
      match k with
      | WCredit len => credit_ok s len
      | WReconnect => match t_pending s with Some _ => true | None => false end
      end
  end.

(** does the method body executing [o] in state [s] call [cv.notify_all()]? *)
Definition notifies (s : tc) (o : op) : bool :=
  match o with
  | Ack f n => (f =? t_file s) && (t_acked s <? N.min n (t_sent s))
  | Cancel _ => match t_cancelled s with None => true | Some _ => false end
  | Advance _ => true
  | Resume _ f n =>
      match t_cancelled s with
      | Some _ => false
      | None => (f =? t_file s) && covers (t_ring s) n
      end
  | _ => false
  end.

Inductive wresult : Set :=
| WGranted | WResumeReady (o : N) | WCancelled (r : N) | WTimeout.

Inductive wstate : Set :=
| Runnable                 (* holds or is about to take the lock and re-check *)
| Parked                   (* in the condvar's wait set *)
| Done (r : wresult).

Record sys : Set := mkSys {
  y_tc : tc; y_w : wstate; y_now : N; y_deadline : N; y_kind : wkind
}.

Inductive ev : Set :=
| ESignal (o : op)         (* another thread runs one method *)
| EWaiter                  (* the waiter takes the lock, re-checks, returns or parks *)
| ESpurious                (* spurious wake-up *)
| ETick                    (* time passes by one unit; a parked waiter whose deadline passed is woken *)
.

(** what the waiter returns when its predicate holds; it also consumes a
    pending resume (wait_for_reconnect takes it) *)
Definition waiter_return (k : wkind) (s : tc) : tc * wresult :=
  match t_cancelled s with
  | Some r => (s, WCancelled r)
  | None =>
      match k with
      | WCredit _ => (s, WGranted)
      | WReconnect =>
          match t_pending s with
          | Some n => (fst (step s TryReconnect), WResumeReady n)
          | None => (s, WTimeout)
          end
      end
  end.

Definition sys_step (y : sys) (e : ev) : sys :=
  match e with
  | ESignal o =>
      let s' := fst (step (y_tc y) o) in
      let w' := match y_w y with
                | Parked => if notifies (y_tc y) o then Runnable else Parked
                | w => w
                end in
      mkSys s' w' (y_now y) (y_deadline y) (y_kind y)
  | EWaiter =>
      match y_w y with
      | Runnable =>
          if ready (y_kind y) (y_tc y) then
            let '(s', r) := waiter_return (y_kind y) (y_tc y) in
            mkSys s' (Done r) (y_now y) (y_deadline y) (y_kind y)
          else if y_deadline y <=? y_now y then
            mkSys (y_tc y) (Done WTimeout) (y_now y) (y_deadline y) (y_kind y)
          else mkSys (y_tc y) Parked (y_now y) (y_deadline y) (y_kind y)
      | _ => y
      end
  | ESpurious =>
      match y_w y with
      | Parked => mkSys (y_tc y) Runnable (y_now y) (y_deadline y) (y_kind y)
      | _ => y
      end
  | ETick =>
      let now' := y_now y + 1 in
      let w' := match y_w y with
                | Parked => if y_deadline y <=? now' then Runnable else Parked
                | w => w
                end in
      mkSys (y_tc y) w' now' (y_deadline y) (y_kind y)
  end.

Definition sys_run (y : sys) (es : list ev) : sys := fold_left sys_step es y.

Definition sys_init (window cap : N) (k : wkind) (deadline : N) : sys :=
  mkSys (init window cap) Runnable 0 deadline k.

(** ** what the correspondence run observes: a waiter parked with a far
    deadline, a history of operations applied one by one from other threads;
    after each operation: has the waiter returned (and what)? *)
Inductive wobs : Set := StillParked | Returned (r : wresult).

Fixpoint observe_history (y : sys) (ops : list op) : list wobs :=
  match ops with
  | [] => []
  | o :: ops' =>
      (* the signaller runs, then the waiter (if woken) gets to run *)
      let y1 := sys_step (sys_step y (ESignal o)) EWaiter in
      (match y_w y1 with Done r => Returned r | _ => StillParked end) :: observe_history y1 ops'
  end.

(** the waiter first runs once (checks, parks), then the history is applied *)
Definition model_C12 (window cap : N) (k : wkind) (pre ops : list op) : wobs * list wobs :=
  let y0 := mkSys (exec (init window cap) pre) Runnable 0 1000000 k in
  let y1 := sys_step y0 EWaiter in
  ((match y_w y1 with Done r => Returned r | _ => StillParked end), observe_history y1 ops).

Definition wresult_eqb (a b : wresult) : bool :=
  match a, b with
  | WGranted, WGranted | WTimeout, WTimeout => true
  | WResumeReady x, WResumeReady y => x =? y
  | WCancelled x, WCancelled y => x =? y
  | _, _ => false
  end.
Definition wobs_eqb (a b : wobs) : bool :=
  match a, b with
  | StillParked, StillParked => true
  | Returned x, Returned y => wresult_eqb x y
  | _, _ => false
  end.

(** the oracle, from the property text: the waiter has returned after an
    operation exactly when its condition (sufficient ack, cancel, advance,
    credit-freeing resume / resume or cancel) holds by then, with the right
    value; it never sleeps on when the condition holds, never returns early *)
Fixpoint check12 (k : wkind) (s : tc) (returned : bool) (ops : list op) (obs : list wobs) : bool :=
  match ops, obs with
  | [], [] => true
  | o :: ops', ob :: obs' =>
      let s' := fst (step s o) in
      if returned then
        (* once returned it stays returned with the same value (the harness repeats it) *)
        check12 k s' true ops' obs'
      else
        match ob with
        | StillParked => negb (ready k s') && check12 k s' false ops' obs'
        | Returned r =>
            ready k s' && wresult_eqb r (snd (waiter_return k s')) &&
            check12 k (fst (waiter_return k s')) true ops' obs'
        end
  | _, _ => false
  end.

Definition ok_C12 (window cap : N) (k : wkind) (pre ops : list op) (o : wobs * list wobs) : bool :=
  let s0 := exec (init window cap) pre in
  match fst o with
  | Returned r => ready k s0 && wresult_eqb r (snd (waiter_return k s0))
  | StillParked => negb (ready k s0) && check12 k s0 false ops (snd o)
  end.
