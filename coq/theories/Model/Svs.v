(** Model of the Serialized Value Stream download path (src/value_stream.rs):
    the producer's [ChunkSink] (batching of writes into fixed-size chunks),
    [produce] (chunks, then exactly one End or Fail), the per-stream session
    with its one-message lookahead ([Session::pull]), the [next] / [cancel]
    handlers with the session table entry of one stream id, the [next]
    response ([chunk_response]: body = chunk, query = one byte [last]) and the
    client-side reassembly ([ChunkReader] / [pull_loop_async] + [ChannelReader]).

    The bounded channel between producer and session is a FIFO: the model is
    the list of messages in the order they were sent (the depth and the
    relative speed only delay, they never reorder or drop).  The compressor is
    not modelled: everything below is stated over the byte stream that reaches
    the sink, whatever writes produced it. *)
From RepeV Require Export Base.Word.

Definition chunk := list byte.

(** ** what "batched into chunks of [n] bytes" means, independently of the sink:
    cut [n] bytes at a time while something is left *)
Fixpoint chunks_of_fuel (fuel n : nat) (l : list byte) : list chunk :=
  match fuel with
  | O => []
  | S f => match l with
           | [] => []
           | _ :: _ => firstn n l :: chunks_of_fuel f n (skipn n l)
           end
  end.
Definition chunks_of (n : nat) (l : list byte) : list chunk := chunks_of_fuel (length l) n l.

(** ** ChunkSink *)

(** (a) one byte per [write] call: append, send when the buffer is full *)
Fixpoint sink_bytes (n : nat) (buf data : list byte) : list chunk * list byte :=
  match data with
  | [] => ([], buf)
  | b :: data' =>
      let buf' := buf ++ [b] in
      if (n <=? length buf')%nat
      then let (cs, r) := sink_bytes n [] data' in (buf' :: cs, r)
      else sink_bytes n buf' data'
  end.

Fixpoint sink_bytes_writes (n : nat) (buf : list byte) (ws : list (list byte)) : list chunk * list byte :=
  match ws with
  | [] => ([], buf)
  | w :: ws' => let (cs, b) := sink_bytes n buf w in
                let (cs', b') := sink_bytes_writes n b ws' in (cs ++ cs', b')
  end.

(** (b) the loop of [ChunkSink::write] on one slice: take
    [min (chunk_bytes - buf.len()) data.len()] bytes, send when
    [buf.len() >= chunk_bytes].  ([chunk_bytes = 0] never terminates in the
    code; here the fuel runs out.) *)
Fixpoint sink_write (fuel n : nat) (buf data : list byte) : list chunk * list byte :=
  match data with
  | [] => ([], buf)
  | _ :: _ =>
    match fuel with
    | O => ([], buf)
    | S f =>
      let space := (n - length buf)%nat in
      let take := Nat.min space (length data) in
      let buf' := buf ++ firstn take data in
      let data' := skipn take data in
      if (n <=? length buf')%nat
      then let (cs, r) := sink_write f n [] data' in (buf' :: cs, r)
      else sink_write f n buf' data'
    end
  end.

(** a sequence of [write] calls (the write segmentation of the body writer) *)
Fixpoint sink_writes (n : nat) (buf : list byte) (ws : list (list byte)) : list chunk * list byte :=
  match ws with
  | [] => ([], buf)
  | w :: ws' => let (cs, b) := sink_write (S (length w)) n buf w in
                let (cs', b') := sink_writes n b ws' in (cs ++ cs', b')
  end.

(** ** produce *)
Inductive msg : Set := MChunk (c : chunk) | MEnd | MFail.

(** [failed]: the body writer returned an error after performing the writes
    [ws]; then [flush_remaining] is skipped (the partial tail is dropped) and
    [Fail] is sent instead of [End] *)
Definition produce (n : nat) (ws : list (list byte)) (failed : bool) : list msg :=
  let (cs, tail) := sink_writes n [] ws in
  map MChunk cs ++
  (if failed then [MFail]
   else match tail with [] => [MEnd] | _ :: _ => [MChunk tail; MEnd] end).

(** the body writer PANICS after performing the writes [ws] (a panic in a
    [Serialize] impl, a [Read] source or the writer closure): the producer thread
    unwinds, the partially filled buffer is dropped with the sink, no terminal
    message is sent and both senders drop, i.e. the channel closes after the full
    chunks *)
Definition produce_panic (n : nat) (ws : list (list byte)) : list msg :=
  map MChunk (fst (sink_writes n [] ws)).

(** ** Session *)
Record session : Set := mkSession { s_rx : list msg; s_look : option chunk; s_done : bool }.

(** [Session::recv]: a closed channel counts as a failure *)
Definition recv (rx : list msg) : msg * list msg :=
  match rx with [] => (MFail, []) | m :: r => (m, r) end.

Inductive pulled : Set := PChunk (c : chunk) (last : bool) | PErr.

(** second half of [Session::pull]: [c] is the current chunk, look one message ahead *)
Definition pull_second (c : chunk) (rx : list msg) (done : bool) : pulled * session :=
  let (m, rx') := recv rx in
  match m with
  | MChunk nx => (PChunk c false, mkSession rx' (Some nx) done)
  | MEnd => (PChunk c true, mkSession rx' None done)
  | MFail => (PErr, mkSession rx' None done)
  end.

Definition session_pull (s : session) : pulled * session :=
  match s_look s with
  | Some c => pull_second c (s_rx s) (s_done s)
  | None =>
      let (m, rx) := recv (s_rx s) in
      match m with
      | MChunk c => pull_second c rx (s_done s)
      | MEnd => (PChunk [] true, mkSession rx None (s_done s))
      | MFail => (PErr, mkSession rx None (s_done s))
      end
  end.

(** ** handlers; [table] is the session-table entry of one stream id *)
Inductive resp : Set := RChunk (body : list byte) (last : bool) | RErr (ec : N).
Definition EC_INVALID_QUERY : N := 3.
Definition EC_INTERNAL : N := 9.

Definition table := option session.

Definition open_handler (n : nat) (ws : list (list byte)) (failed : bool) : table :=
  Some (mkSession (produce n ws failed) None false).

Definition open_panic (n : nat) (ws : list (list byte)) : table :=
  Some (mkSession (produce_panic n ws) None false).

Definition next_handler (t : table) : resp * table :=
  match t with
  | None => (RErr EC_INVALID_QUERY, None)
  | Some s =>
      if s_done s then (RErr EC_INTERNAL, None)
      else
        let (p, s') := session_pull s in
        match p with
        | PChunk c true => (RChunk c true, None)
        | PChunk c false => (RChunk c false, Some s')
        | PErr => (RErr EC_INTERNAL, None)
        end
  end.

Definition cancel_handler (t : table) : table := None.

(** a raw consumer: at most [fuel] [next] requests, stopping after the first
    response that carries [last] or an error *)
Fixpoint raw_pulls (fuel : nat) (t : table) : list resp * table :=
  match fuel with
  | O => ([], t)
  | S f =>
      let (r, t') := next_handler t in
      match r with
      | RChunk _ false => let (rs, t'') := raw_pulls f t' in (r :: rs, t'')
      | _ => ([r], t')
      end
  end.

(** ** client-side reassembly: [next] until [last], bodies concatenated; an
    error response fails the pull *)
Inductive hlres : Set := HBytes (b : list byte) | HErr.

Fixpoint chunk_reader (fuel : nat) (t : table) : hlres :=
  match fuel with
  | O => HErr
  | S f =>
      let (r, t') := next_handler t in
      match r with
      | RChunk b true => HBytes b
      | RChunk b false => match chunk_reader f t' with HBytes rest => HBytes (b ++ rest) | HErr => HErr end
      | RErr _ => HErr
      end
  end.

(** ** C09 cases and observations *)
Record c09_case : Set := mkC09 {
  c_data : list byte;      (* the producer's logical bytes *)
  c_n : N;                 (* StreamOpts::chunk_bytes *)
  c_depth : N;             (* StreamOpts::session_depth *)
  c_writes : list N;       (* sizes of the body writer's writes; the rest goes in a final write *)
  c_fail : option N;       (* the body writer fails after this many bytes *)
  c_zstd : bool;
  c_kind : N;              (* 0 value, 1 typed array, 2 complex array, 3 reader, 4 writer *)
  c_puller : N;            (* 0 blocking, 1 async, 2 WebSocket *)
  c_cancel_after : N;      (* [next] requests before the cancel, on a second stream *)
  c_panic : bool           (* the failure (if any) is a panic instead of a returned error *)
}.

Record c09_obs : Set := mkO09 {
  o_pulls : list resp;         (* responses to [next] up to the first last/error *)
  o_after_end : resp;          (* one more [next] on the same stream id *)
  o_cancel_pulls : list resp;  (* second stream: responses before the cancel *)
  o_after_cancel : resp;       (* second stream: [next] after the cancel *)
  o_plain : list byte;         (* zstd only: the decompression of the pulled bodies *)
  o_vec : hlres;               (* pull_to_vec / pull_to_vec_async *)
  o_typed : option hlres       (* pull_value / pull_typed_slice / pull_complex_slice, re-encoded *)
}.

Fixpoint segment (sizes : list N) (data : list byte) : list (list byte) :=
  match sizes with
  | [] => match data with [] => [] | _ :: _ => [data] end
  | k :: sizes' => firstn (N.to_nat k) data :: segment sizes' (skipn (N.to_nat k) data)
  end.

Definition c09_failed (c : c09_case) : bool := match c_fail c with Some _ => true | None => false end.
Definition c09_written (c : c09_case) : list byte :=
  match c_fail c with Some k => firstn (N.to_nat k) (c_data c) | None => c_data c end.
Definition c09_writes (c : c09_case) : list (list byte) := segment (c_writes c) (c09_written c).

Definition c09_open (c : c09_case) (ws : list (list byte)) : table :=
  if c09_failed c && c_panic c then open_panic (N.to_nat (c_n c)) ws
  else open_handler (N.to_nat (c_n c)) ws (c09_failed c).

Definition lenw (ws : list (list byte)) : nat := length (concat ws).

(** the exchange for the writes [ws] reaching the sink; [plain] is what the
    decompression of the stream yields (only used when [c_zstd]) *)
Definition model_C09_with (c : c09_case) (ws : list (list byte)) (plain : list byte) : c09_obs :=
  let t0 := c09_open c ws in
  let fuel := S (S (lenw ws)) in
  let (pulls, t1) := raw_pulls fuel t0 in
  let (cpulls, t2) := raw_pulls (N.to_nat (c_cancel_after c)) t0 in
  let vec := match chunk_reader fuel t0 with
             | HBytes s => HBytes (if c_zstd c then plain else s)
             | HErr => HErr
             end in
  mkO09 pulls (fst (next_handler t1)) cpulls (fst (next_handler (cancel_handler t2)))
        (if c_zstd c then plain else [])
        vec (if c_kind c <? 3 then Some vec else None).

Definition model_C09 (c : c09_case) : c09_obs := model_C09_with c (c09_writes c) [].

Definition c09_wf (c : c09_case) : bool :=
  (0 <? c_n c) && negb (c_zstd c) && (c_kind c <? 5) && (c_puller c <? 3) &&
  match c_fail c with Some k => k <=? N.of_nat (length (c_data c)) | None => true end.

(** ** the oracle, from the property text *)
Fixpoint bytes_eqb (a b : list byte) : bool :=
  match a, b with
  | [], [] => true
  | x :: a', y :: b' => (x =? y) && bytes_eqb a' b'
  | _, _ => false
  end.

(** [p] is a prefix of [l] *)
Fixpoint starts_with (p l : list byte) : bool :=
  match p, l with
  | [], _ => true
  | x :: p', y :: l' => (x =? y) && starts_with p' l'
  | _ :: _, [] => false
  end.

Definition resp_body (r : resp) : list byte := match r with RChunk b _ => b | RErr _ => [] end.
Definition bodies (rs : list resp) : list byte := concat (map resp_body rs).
Definition is_err (r : resp) : bool := match r with RErr _ => true | RChunk _ _ => false end.
Definition is_nil {A} (l : list A) : bool := match l with [] => true | _ :: _ => false end.

(** every response is a chunk, exactly one carries [last], and it is the final one *)
Fixpoint one_last_final (rs : list resp) : bool :=
  match rs with
  | [] => false
  | RChunk _ true :: rs' => is_nil rs'
  | RChunk _ false :: rs' => one_last_final rs'
  | RErr _ :: _ => false
  end.

(** no response carries [last]; the final one is an error, the earlier ones are chunks *)
Fixpoint ends_in_error (rs : list resp) : bool :=
  match rs with
  | [] => false
  | RErr _ :: rs' => is_nil rs'
  | RChunk _ false :: rs' => ends_in_error rs'
  | RChunk _ true :: _ => false
  end.

(** a stream abandoned early: each delivered body continues the byte stream
    [rest] (checked when [chk]); a [last] flag only on the response that
    completes it; an error only at the very end and only if the producer failed *)
Fixpoint partial_ok (chk may_fail : bool) (rs : list resp) (rest : list byte) : bool :=
  match rs with
  | [] => true
  | RChunk b l :: rs' =>
      (if chk then starts_with b rest else true) &&
      (if l then is_nil rs' && negb may_fail && (if chk then (length b =? length rest)%nat else true)
       else partial_ok chk may_fail rs' (skipn (length b) rest))
  | RErr _ :: rs' => may_fail && is_nil rs'
  end.

Definition hl_is (r : hlres) (expect : option (list byte)) : bool :=
  match r, expect with
  | HBytes b, Some e => bytes_eqb b e
  | HErr, None => true
  | _, _ => false
  end.

Definition ok_C09 (c : c09_case) (o : c09_obs) : bool :=
  let recovered := if c_zstd c then o_plain o else bodies (o_pulls o) in
  let chk := negb (c_zstd c) in
  (* pulling past the end, or after release, is an error *)
  is_err (o_after_end o) && is_err (o_after_cancel o) &&
  match c_fail c with
  | None =>
      (* nothing lost, duplicated or reordered *)
      bytes_eqb recovered (c_data c) &&
      (* exactly one pulled chunk, the final one, carries the end marker *)
      one_last_final (o_pulls o) &&
      (* an empty payload yields a single empty final chunk *)
      (if is_nil (c_data c) && chk
       then match o_pulls o with [RChunk [] true] => true | _ => false end else true) &&
      partial_ok chk false (o_cancel_pulls o) (c_data c) &&
      hl_is (o_vec o) (Some (c_data c)) &&
      match o_typed o with Some r => hl_is r (Some (c_data c)) | None => true end
  | Some k =>
      let w := firstn (N.to_nat k) (c_data c) in
      (* a producer failure surfaces as an error instead of an end marker *)
      ends_in_error (o_pulls o) &&
      (* and what was delivered before it is a prefix of the stream *)
      starts_with recovered w &&
      partial_ok chk true (o_cancel_pulls o) w &&
      hl_is (o_vec o) None &&
      match o_typed o with Some r => hl_is r None | None => true end
  end.

(** equality of observations for the driver *)
Definition resp_eqb (a b : resp) : bool :=
  match a, b with
  | RChunk x l, RChunk y m => bytes_eqb x y && Bool.eqb l m
  | RErr x, RErr y => x =? y
  | _, _ => false
  end.
Fixpoint resps_eqb (a b : list resp) : bool :=
  match a, b with
  | [], [] => true
  | x :: a', y :: b' => resp_eqb x y && resps_eqb a' b'
  | _, _ => false
  end.
Definition hlres_eqb (a b : hlres) : bool :=
  match a, b with
  | HBytes x, HBytes y => bytes_eqb x y
  | HErr, HErr => true
  | _, _ => false
  end.
