(** Model of the path tokenisation behind mounted structs
    (src/json_pointer.rs [parse], src/server.rs [dispatch_struct_segments]) and
    an independent rendering of RFC 6901 reference tokens.
    Strings are lists of bytes; '/' = 47, '~' = 126, '0' = 48, '1' = 49. *)
From RepeV Require Export Base.Word.

Definition str := list N.

Fixpoint str_eqb (a b : str) : bool :=
  match a, b with
  | [], [] => true
  | x :: a', y :: b' => (x =? y) && str_eqb a' b'
  | _, _ => false
  end.

Fixpoint strs_eqb (a b : list str) : bool :=
  match a, b with
  | [], [] => true
  | x :: a', y :: b' => str_eqb x y && strs_eqb a' b'
  | _, _ => false
  end.

(** * RFC 6901, written independently of the code: a reference token is
    escaped by [~ -> ~0] and [/ -> ~1]; a pointer is the concatenation of
    ['/' ++ escape token] over its tokens *)
Fixpoint rfc_escape (t : str) : str :=
  match t with
  | [] => []
  | c :: t' =>
      if c =? 126 then 126 :: 48 :: rfc_escape t'
      else if c =? 47 then 126 :: 49 :: rfc_escape t'
      else c :: rfc_escape t'
  end.

Definition render (ts : list str) : str := concat (map (fun t => 47 :: rfc_escape t) ts).

(** every '~' is followed by '0' or '1' *)
Fixpoint well_escaped (s : str) : bool :=
  match s with
  | [] => true
  | c :: s' =>
      (if c =? 126 then match s' with d :: _ => (d =? 48) || (d =? 49) | [] => false end else true)
      && well_escaped s'
  end.

(** empty or starting with '/' *)
Definition pointer_shaped (s : str) : bool :=
  match s with [] => true | c :: _ => c =? 47 end.

(** * the code *)

(** [str::split('/')] : always at least one piece *)
Fixpoint split_slash (s : str) : list str :=
  match s with
  | [] => [[]]
  | c :: s' =>
      if c =? 47 then [] :: split_slash s'
      else match split_slash s' with
           | t :: ts => (c :: t) :: ts
           | [] => [[c]]
           end
  end.

(** [str::replace] for a two-byte pattern [a b]: leftmost, non-overlapping *)
Fixpoint replace2 (a b : N) (r : str) (s : str) : str :=
  match s with
  | [] => []
  | c :: s' =>
      match s' with
      | d :: s'' => if (c =? a) && (d =? b) then r ++ replace2 a b r s'' else c :: replace2 a b r s'
      | [] => [c]
      end
  end.

(** [t.replace("~1", "/").replace("~0", "~")] *)
Definition unescape_code (t : str) : str := replace2 126 48 [126] (replace2 126 49 [47] t).

(** [strip_prefix('/').unwrap_or(s)] *)
Definition strip_slash (s : str) : str :=
  match s with c :: s' => if c =? 47 then s' else s | [] => [] end.

(** [json_pointer::parse] *)
Definition parse (ptr : str) : list str :=
  match ptr with
  | [] => []
  | _ => map unescape_code (split_slash (strip_slash ptr))
  end.

Definition contains_tilde (s : str) : bool := existsb (fun c => c =? 126) s.

(** the segment buffer of [dispatch_struct_segments]: a 16-slot stack array,
    the number of slots in use, and the overflow vector created at the 17th
    segment by copying the 16 slots *)
Definition STACK_SEGS : nat := 16.

Record segstate : Set := mkSeg {
  ss_stack : list str;
  ss_count : nat;
  ss_overflow : option (list str)
}.

Definition ss_init : segstate := mkSeg (repeat [] STACK_SEGS) 0 None.

Fixpoint set_nth {A} (n : nat) (x : A) (l : list A) {struct l} : list A :=
  match l with
  | [] => []
  | y :: l' => match n with O => x :: l' | S n' => y :: set_nth n' x l' end
  end.

Definition ss_push (st : segstate) (seg : str) : segstate :=
  match ss_overflow st with
  | Some v => mkSeg (ss_stack st) (ss_count st) (Some (v ++ [seg]))
  | None =>
      if Nat.ltb (ss_count st) STACK_SEGS
      then mkSeg (set_nth (ss_count st) seg (ss_stack st)) (S (ss_count st)) None
      else mkSeg (ss_stack st) (ss_count st) (Some (ss_stack st ++ [seg]))
  end.

Definition ss_result (st : segstate) : list str :=
  match ss_overflow st with
  | Some v => v
  | None => firstn (ss_count st) (ss_stack st)
  end.

(** the escape-free fast path *)
Definition fast_segments (rel : str) : list str :=
  match rel with
  | [] => []
  | _ =>
      if str_eqb rel [47] then [[]]
      else ss_result (fold_left ss_push (split_slash (strip_slash rel)) ss_init)
  end.

(** the segments handed to [RepeStruct::repe_handle] *)
Definition struct_segments (rel : str) : list str :=
  if negb (contains_tilde rel) then fast_segments rel else parse rel.
