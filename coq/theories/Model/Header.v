(** Model of src/header.rs: the 48-byte REPE v1 header codec. *)
From RepeV Require Export Base.Outcome.

Record header : Set := mkHeader {
  h_length : N;    (* u64 *)
  h_spec : N;      (* u16 *)
  h_version : N;   (* u8  *)
  h_notify : N;    (* u8  *)
  h_reserved : N;  (* u32 *)
  h_id : N;        (* u64 *)
  h_qlen : N;      (* u64 *)
  h_blen : N;      (* u64 *)
  h_qfmt : N;      (* u16 *)
  h_bfmt : N;      (* u16 *)
  h_ec : N         (* u32 *)
}.

Definition HEADER_SIZE : N := 48.
Definition REPE_SPEC : N := 5383. (* 0x1507 *)
Definition REPE_VERSION : N := 1.

(** every field fits its Rust type *)
Definition hdr_ok (h : header) : bool :=
  (h_length h <? two64) && (h_spec h <? two16) && (h_version h <? two8) &&
  (h_notify h <? two8) && (h_reserved h <? two32) && (h_id h <? two64) &&
  (h_qlen h <? two64) && (h_blen h <? two64) && (h_qfmt h <? two16) &&
  (h_bfmt h <? two16) && (h_ec h <? two32).

Definition header_eqb (a b : header) : bool :=
  (h_length a =? h_length b) && (h_spec a =? h_spec b) && (h_version a =? h_version b) &&
  (h_notify a =? h_notify b) && (h_reserved a =? h_reserved b) && (h_id a =? h_id b) &&
  (h_qlen a =? h_qlen b) && (h_blen a =? h_blen b) && (h_qfmt a =? h_qfmt b) &&
  (h_bfmt a =? h_bfmt b) && (h_ec a =? h_ec b).

(** [Header::encode]: the eleven fields in source order, each little-endian. *)
Definition encode (h : header) : list byte :=
  le_enc 8 (h_length h) ++ le_enc 2 (h_spec h) ++ le_enc 1 (h_version h) ++
  le_enc 1 (h_notify h) ++ le_enc 4 (h_reserved h) ++ le_enc 8 (h_id h) ++
  le_enc 8 (h_qlen h) ++ le_enc 8 (h_blen h) ++ le_enc 2 (h_qfmt h) ++
  le_enc 2 (h_bfmt h) ++ le_enc 4 (h_ec h).

Definition field (bs : list byte) (off w : nat) : N := le_dec (slice bs off (off + w)).
Arguments field : simpl never.

(** [Header::decode] (after the checked-add repair). Reads the first 48 bytes. *)
Definition decode (bs : list byte) : outcome header :=
  if N.of_nat (length bs) <? HEADER_SIZE then Err EHeaderLen else
  let length := field bs 0 8 in
  let spec := field bs 8 2 in
  let version := field bs 10 1 in
  let notify := field bs 11 1 in
  let reserved := field bs 12 4 in
  let id := field bs 16 8 in
  let ql := field bs 24 8 in
  let bl := field bs 32 8 in
  let qf := field bs 40 2 in
  let bf := field bs 42 2 in
  let ec := field bs 44 4 in
  if negb (spec =? REPE_SPEC) then Err ESpec else
  let expected :=
    match checked_add64 HEADER_SIZE ql with
    | Some n => checked_add64 n bl
    | None => None
    end in
  match expected with
  | Some e =>
      if e =? length
      then Ok (mkHeader length spec version notify reserved id ql bl qf bf ec)
      else Err ELenMismatch
  | None => Err ELenMismatch
  end.

(** The REPE v1 layout table, stated independently of [encode]:
    (offset, width, accessor). *)
Definition layout : list (nat * nat * (header -> N)) :=
  [ (0, 8, h_length); (8, 2, h_spec); (10, 1, h_version); (11, 1, h_notify);
    (12, 4, h_reserved); (16, 8, h_id); (24, 8, h_qlen); (32, 8, h_blen);
    (40, 2, h_qfmt); (42, 2, h_bfmt); (44, 4, h_ec) ]%nat.

(** The layout oracle used on implementation bytes: every field of [h] sits at
    its table offset in [bs], little-endian, and [bs] is at least 48 bytes. *)
Definition layout_ok (h : header) (bs : list byte) : bool :=
  (48 <=? N.of_nat (length bs)) &&
  forallb (fun '(off, w, get) => field bs off w =? get h) layout.

(** The same encoder driven by a (field index, width) table: this is the form
    that is compared with the table re-read from src/header.rs on every run. *)
Definition field_of (i : nat) (h : header) : N :=
  match i with
  | 0 => h_length h | 1 => h_spec h | 2 => h_version h | 3 => h_notify h | 4 => h_reserved h
  | 5 => h_id h | 6 => h_qlen h | 7 => h_blen h | 8 => h_qfmt h | 9 => h_bfmt h | _ => h_ec h
  end%nat.

Definition header_table : list (nat * nat) :=
  [(0, 8); (1, 2); (2, 1); (3, 1); (4, 4); (5, 8); (6, 8); (7, 8); (8, 2); (9, 2); (10, 4)]%nat.

Definition encode_tbl (tbl : list (nat * nat)) (h : header) : list byte :=
  concat (map (fun '(i, w) => le_enc w (field_of i h)) tbl).

(** offsets implied by a table: running sum of the widths *)
Fixpoint offsets_of (o : nat) (tbl : list (nat * nat)) : list (nat * nat * nat) :=
  match tbl with
  | [] => []
  | (i, w) :: tbl' => (o, w, i) :: offsets_of (o + w) tbl'
  end.
