(** C01: case, observation, executable model and decidable oracle. *)
From RepeV Require Export Model.Message.

(** the allocator assumption R4 used when running the reader models *)
Definition can_alloc_R4 (n : N) : bool := n <=? 16777216.

Record c01_case : Set := mkC01 {
  c_hdr : header;            (* header handed to Message::new *)
  c_query : list byte;
  c_body : list byte;
  c_cap : N;                 (* capacity of the body Vec given to into_wire_bytes *)
  c_chunks : list N;         (* sizes of the body writes of the streaming route *)
  c_rest : list byte;        (* bytes following the frame in parse/read tests *)
  c_echo : bool              (* server routes: true = the handler leaves the response query
                                empty and the request carries the query; false = the handler
                                sets the query itself and the request goes to [mirror_path] *)
}.

(** "/mirror" *)
Definition mirror_path : list byte := [47; 109; 105; 114; 114; 111; 114].

(** split [b] into pieces of the given sizes (a zero or exhausted size list puts
    the remainder in one final piece) *)
Fixpoint split_chunks (sizes : list N) (b : list byte) : list (list byte) :=
  match sizes with
  | [] => match b with [] => [] | _ => [b] end
  | s :: sizes' =>
      match b with
      | [] => []
      | _ => if s =? 0 then [b]
             else firstn (N.to_nat s) b :: split_chunks sizes' (skipn (N.to_nat s) b)
      end
  end.

Record c01_obs : Set := mkC01Obs {
  o_new : outcome message;                 (* Message::new *)
  o_routes : list (list byte);             (* bytes of each in-process emission route *)
  o_srv : list (list byte);                (* bytes received from Server, AsyncServer, WebSocketServer *)
  o_decode : outcome header;               (* Header::decode(to_vec) *)
  o_parse_more : list (outcome message);   (* from_slice, view on to_vec ++ rest *)
  o_parse_exact : list (outcome message);  (* from_slice_exact, view exact on to_vec *)
  o_parse_trail : list (outcome message);  (* the exact variants on to_vec ++ rest *)
  o_read : outcome (message * list byte);  (* read_message on to_vec ++ rest *)
  o_read_into : outcome (list byte * list byte)
}.

Definition empty_obs (r : outcome message) : c01_obs :=
  mkC01Obs r [] [] (Err EOther) [] [] [] (Err EOther) (Err EOther).

(** in-process routes in the order the harness reports them:
    to_vec, write_to, into_wire_bytes(cap), write_message, write_message_async,
    write_message_streaming(chunks) *)
Definition model_routes (c : c01_case) (m : message) : list (list byte) :=
  [ to_vec m;
    concat (write_chunks m);
    into_wire_bytes (c_cap c) m;
    concat (write_chunks m);
    concat (write_chunks m);
    concat (write_streaming_chunks (m_hdr m) (m_query m) (lenN (m_body m))
              (split_chunks (c_chunks c) (m_body m))) ].

(** the response the test handler returns and the query of the request *)
Definition srv_resp (c : c01_case) (m : message) : message * list byte :=
  if c_echo c
  then (mkMessage (patch_lengths (m_hdr m) 0 (lenN (m_body m))) [] (m_body m), m_query m)
  else (m, mirror_path).

(** blocking TCP server, async TCP server (both frame by patching the header
    and echoing the query), WebSocket server (stamp, then into_wire_bytes) *)
Definition model_srv (c : c01_case) (m : message) : list (list byte) :=
  let '(resp, req_q) := srv_resp c m in
  [ concat (server_frame resp req_q);
    concat (server_frame resp req_q);
    into_wire_bytes (lenN (m_body resp)) (stamp resp req_q) ].

Definition model_C01 (c : c01_case) : c01_obs :=
  match msg_new (c_hdr c) (c_query c) (c_body c) with
  | Ok m =>
      let tv := to_vec m in
      mkC01Obs (Ok m) (model_routes c m) (model_srv c m) (decode tv)
        [from_slice (tv ++ c_rest c); view_from_slice (tv ++ c_rest c)]
        [from_slice_exact tv; view_from_slice_exact tv]
        [from_slice_exact (tv ++ c_rest c); view_from_slice_exact (tv ++ c_rest c)]
        (read_message can_alloc_R4 (tv ++ c_rest c))
        (read_message_into can_alloc_R4 (tv ++ c_rest c))
  | r => empty_obs r
  end.

Definition is_ok_msg (m : message) (r : outcome message) : bool :=
  match r with Ok m' => message_eqb m m' | _ => false end.

Definition is_err {A} (r : outcome A) : bool :=
  match r with Err _ => true | _ => false end.

(** The property oracle.  It is stated on the observation alone (plus the
    case), never by comparison with the model: layout table, payload placement,
    pairwise-equal routes, lossless round trip, trailing bytes. *)
Definition ok_C01 (c : c01_case) (o : c01_obs) : bool :=
  match o_new o with
  | Ok m =>
      message_eqb m (mkMessage (c_hdr c) (c_query c) (c_body c)) &&
      match o_routes o with
      | tv :: others =>
          layout_ok (m_hdr m) tv &&
          bytes_eqb (skipn 48 tv) (m_query m ++ m_body m) &&
          (lenN tv =? h_length (m_hdr m)) &&
          (lenN others =? 5) &&
          forallb (bytes_eqb tv) others &&
          (lenN (o_srv o) =? 3) &&
          (* the servers send the same frame as each other; it is the message
             itself whenever the message carries the query the peer sees *)
          (match o_srv o with
           | s0 :: rest => forallb (bytes_eqb s0) rest &&
               (if c_echo c then bytes_eqb s0 tv
                else match m_query m with
                     | [] => layout_ok (patch_lengths (m_hdr m) (lenN mirror_path) (lenN (m_body m))) s0 &&
                             bytes_eqb (skipn 48 s0) (mirror_path ++ m_body m)
                     | _ => bytes_eqb s0 tv
                     end)
           | [] => false
           end) &&
          (if h_spec (m_hdr m) =? REPE_SPEC then
             match o_decode o with Ok h => header_eqb h (m_hdr m) | _ => false end &&
             (lenN (o_parse_more o) =? 2) && forallb (is_ok_msg m) (o_parse_more o) &&
             (lenN (o_parse_exact o) =? 2) && forallb (is_ok_msg m) (o_parse_exact o) &&
             (lenN (o_parse_trail o) =? 2) &&
             forallb (fun r => match c_rest c with [] => is_ok_msg m r | _ => is_err r end)
               (o_parse_trail o) &&
             (if can_alloc_R4 (h_length (m_hdr m)) then
                match o_read o with
                | Ok (m', r) => message_eqb m m' && bytes_eqb r (c_rest c)
                | _ => false
                end &&
                match o_read_into o with
                | Ok (f, r) => bytes_eqb f tv && bytes_eqb r (c_rest c)
                | _ => false
                end
              else true)
           else
             (* a header without the REPE magic never parses *)
             is_err (o_decode o) && forallb is_err (o_parse_more o) &&
             forallb is_err (o_parse_exact o))
      | [] => false
      end
  | Err _ =>
      (* Message::new may refuse only an inconsistent header *)
      negb ((h_qlen (c_hdr c) =? lenN (c_query c)) && (h_blen (c_hdr c) =? lenN (c_body c)) &&
            (h_length (c_hdr c) =? HEADER_SIZE + lenN (c_query c) + lenN (c_body c)))
  | _ => false
  end.

Definition c01_wf (c : c01_case) : bool :=
  hdr_ok (c_hdr c) && bytes_ok (c_query c) && bytes_ok (c_body c) && bytes_ok (c_rest c) &&
  (* buffers that exist in memory are far below 2^64 bytes *)
  (lenN (c_query c) + lenN (c_body c) + 1024 <? two64).
