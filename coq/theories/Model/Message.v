(** Model of src/message.rs (framing part), src/io.rs and src/async_io.rs. *)
From RepeV Require Export Model.Header.

Record message : Set := mkMessage {
  m_hdr : header;
  m_query : list byte;
  m_body : list byte
}.

Definition lenN {A} (l : list A) : N := N.of_nat (length l).

Fixpoint bytes_eqb (a b : list byte) : bool :=
  match a, b with
  | [], [] => true
  | x :: a', y :: b' => (x =? y) && bytes_eqb a' b'
  | _, _ => false
  end.

Definition message_eqb (a b : message) : bool :=
  header_eqb (m_hdr a) (m_hdr b) && bytes_eqb (m_query a) (m_query b) &&
  bytes_eqb (m_body a) (m_body b).

(** [Message::new] (after the total-length repair). *)
Definition msg_new (h : header) (q b : list byte) : outcome message :=
  let actual := HEADER_SIZE + lenN q + lenN b in
  if negb (h_qlen h =? lenN q) || negb (h_blen h =? lenN b) then Err ELenMismatch
  else if negb (h_length h =? actual) then Err ELenMismatch
  else Ok (mkMessage h q b).

(** Consistency of a message value: what every library constructor establishes. *)
Definition msg_ok (m : message) : bool :=
  hdr_ok (m_hdr m) && bytes_ok (m_query m) && bytes_ok (m_body m) &&
  (h_spec (m_hdr m) =? REPE_SPEC) &&
  (h_qlen (m_hdr m) =? lenN (m_query m)) && (h_blen (m_hdr m) =? lenN (m_body m)) &&
  (h_length (m_hdr m) =? HEADER_SIZE + lenN (m_query m) + lenN (m_body m)).

(** [Message::to_vec] *)
Definition to_vec (m : message) : list byte :=
  encode (m_hdr m) ++ m_query m ++ m_body m.

Definition nonempty_chunk (c : list byte) : list (list byte) :=
  match c with [] => [] | _ => [c] end.

(** [Message::write_to] / [write_message] / [write_message_async]: the sequence
    of [write_all] calls (empty payloads are skipped). *)
Definition write_chunks (m : message) : list (list byte) :=
  [encode (m_hdr m)] ++ nonempty_chunk (m_query m) ++ nonempty_chunk (m_body m).

(** Vec operations used by the in-place path of [into_wire_bytes]. *)
Definition overwrite (v : list byte) (off : nat) (src : list byte) : list byte :=
  firstn off v ++ src ++ skipn (off + length src) v.

Definition copy_within (v : list byte) (s e d : nat) : list byte :=
  overwrite v d (slice v s e).

(** [Message::into_wire_bytes] for a body [Vec] of capacity [cap >= len]. *)
Definition into_wire_bytes (cap : N) (m : message) : list byte :=
  let q := m_query m in
  let b := m_body m in
  let prefix_len := (48 + length q)%nat in
  let body_len := length b in
  let total := (prefix_len + body_len)%nat in
  if N.of_nat total <=? cap then
    let v1 := b ++ repeat 0 (total - body_len) in
    let v2 := if (0 <? body_len)%nat then copy_within v1 0 body_len prefix_len else v1 in
    let v3 := overwrite v2 0 (encode (m_hdr m)) in
    match q with
    | [] => v3
    | _ => overwrite v3 48 q
    end
  else
    encode (m_hdr m) ++ q ++ b.

(** [MessageBuilder::build] *)
Record builder : Set := mkBuilder {
  b_id : N; b_query : list byte; b_body : list byte;
  b_qfmt : N; b_bfmt : N; b_notify : bool; b_ec : N
}.

Definition build (b : builder) : message :=
  let ql := lenN (b_query b) in
  let bl := lenN (b_body b) in
  mkMessage
    (mkHeader (HEADER_SIZE + ql + bl) REPE_SPEC REPE_VERSION
       (if b_notify b then 1 else 0) 0 (b_id b) ql bl (b_qfmt b) (b_bfmt b) (b_ec b))
    (b_query b) (b_body b).

(** Header patch done by [write_message_streaming], the blocking server's
    response writer and the async server's [write_view_response]. *)
Definition patch_lengths (h : header) (ql bl : N) : header :=
  mkHeader (HEADER_SIZE + ql + bl) (h_spec h) (h_version h) (h_notify h) (h_reserved h)
    (h_id h) ql bl (h_qfmt h) (h_bfmt h) (h_ec h).

(** [write_message_streaming]: [body_chunks] are the writes the body writer
    performs; [blen] is the length the caller declared. *)
Definition write_streaming_chunks (h : header) (q : list byte) (blen : N)
    (body_chunks : list (list byte)) : list (list byte) :=
  [encode (patch_lengths h (lenN q) blen)] ++ nonempty_chunk q ++ body_chunks.

(** [response_echo_query] / [stamp_response_query]: which query a response is
    framed with. *)
Definition echo_query (resp_q req_q : list byte) : list byte :=
  match resp_q with [] => req_q | _ => resp_q end.

(** Server-side response framing on the borrowing TCP paths:
    [write_message_streaming(w, resp.header, echo, |resp.body|, write body)]. *)
Definition server_frame (resp : message) (req_q : list byte) : list (list byte) :=
  let q := echo_query (m_query resp) req_q in
  write_streaming_chunks (m_hdr resp) q (lenN (m_body resp)) (nonempty_chunk (m_body resp)).

(** WebSocket path: [stamp_response_query] then [into_wire_bytes]. *)
Definition stamp (resp : message) (req_q : list byte) : message :=
  match req_q, m_query resp with
  | _ :: _, [] =>
      mkMessage (patch_lengths (m_hdr resp) (lenN req_q) (h_blen (m_hdr resp))) req_q (m_body resp)
  | _, _ => resp
  end.

(** [Message::from_slice]; the arithmetic and slicing are the unchecked Rust
    operations (they may panic): that they never do is a theorem. *)
Definition from_slice (bs : list byte) : outcome message :=
  if lenN bs <? HEADER_SIZE then Err EHeaderLen else
  do h <- decode (firstn 48 bs);
  do e1 <- add64 HEADER_SIZE (h_qlen h);
  do expected <- add64 e1 (h_blen h);
  if lenN bs <? expected then Err EBufSmall else
  let o := HEADER_SIZE in
  do o1 <- add64 o (h_qlen h);
  do q <- slice_chk bs o o1;
  do o2 <- add64 o1 (h_blen h);
  do b <- slice_chk bs o1 o2;
  msg_new h q b.

Definition from_slice_exact (bs : list byte) : outcome message :=
  do m <- from_slice bs;
  let expected := HEADER_SIZE + lenN (m_query m) + lenN (m_body m) in
  if negb (lenN bs =? expected) then Err ELenMismatch else Ok m.

(** [MessageView::from_slice]: same arithmetic, no [Message::new] re-check. *)
Definition view_from_slice (bs : list byte) : outcome message :=
  if lenN bs <? HEADER_SIZE then Err EHeaderLen else
  do h <- decode (firstn 48 bs);
  do e1 <- add64 HEADER_SIZE (h_qlen h);
  do expected <- add64 e1 (h_blen h);
  if lenN bs <? expected then Err EBufSmall else
  let q_start := HEADER_SIZE in
  do q_end <- add64 q_start (h_qlen h);
  do b_end <- add64 q_end (h_blen h);
  do q <- slice_chk bs q_start q_end;
  do b <- slice_chk bs q_end b_end;
  Ok (mkMessage h q b).

Definition view_from_slice_exact (bs : list byte) : outcome message :=
  do m <- view_from_slice bs;
  let expected := HEADER_SIZE + lenN (m_query m) + lenN (m_body m) in
  if negb (lenN bs =? expected) then Err ELenMismatch else Ok m.

(** Stream readers.  [can_alloc n] is the allocator's answer to a request for
    [n] bytes (assumption R4 constrains it only for n <= 2^24 and n >= 2^62). *)
Section Readers.
  Variable can_alloc : N -> bool.

  (** [read_exact] of [n] bytes from the remaining stream *)
  Definition read_exact (src : list byte) (n : N) : outcome (list byte * list byte) :=
    if lenN src <? n then Err EEof
    else Ok (firstn (N.to_nat n) src, skipn (N.to_nat n) src).

  (** [zeroed_payload]: fallible reservation *)
  Definition alloc (n : N) : outcome unit :=
    if can_alloc n then Ok tt else Err EOom.

  (** [read_message] / [read_message_async]; returns the message and the rest
      of the stream. *)
  Definition read_message (src : list byte) : outcome (message * list byte) :=
    do r0 <- read_exact src HEADER_SIZE;
    let '(hb, s1) := r0 in
    do h <- decode hb;
    do _ <- alloc (h_qlen h);
    do r1 <- (if h_qlen h =? 0 then Ok ([], s1) else read_exact s1 (h_qlen h));
    let '(q, s2) := r1 in
    do _ <- alloc (h_blen h);
    do r2 <- (if h_blen h =? 0 then Ok ([], s2) else read_exact s2 (h_blen h));
    let '(b, s3) := r2 in
    do m <- msg_new h q b;
    Ok (m, s3).

  (** [read_message_into] / [read_message_into_async]; returns the frame
      buffer and the rest of the stream. *)
  Definition read_message_into (src : list byte) : outcome (list byte * list byte) :=
    do r0 <- read_exact src HEADER_SIZE;
    let '(hb, s1) := r0 in
    do h <- decode hb;
    do _ <- alloc (h_length h);
    do r1 <- read_exact s1 (h_length h - HEADER_SIZE);
    let '(rest, s2) := r1 in
    Ok (hb ++ rest, s2).
End Readers.
