(** Model of PeerRegistry (src/peer.rs): the peer map, the forward alias map
    and the reverse alias index, all under one mutex; and the abstract
    specification it must refine.  Peer ids and alias keys are numbers. *)
From RepeV Require Export Base.Word.

(** association lists keyed by N *)
Fixpoint aget {V} (l : list (N * V)) (k : N) : option V :=
  match l with
  | [] => None
  | (k', v) :: l' => if k' =? k then Some v else aget l' k
  end.

Fixpoint adel {V} (l : list (N * V)) (k : N) : list (N * V) :=
  match l with
  | [] => []
  | (k', v) :: l' => if k' =? k then adel l' k else (k', v) :: adel l' k
  end.

(** replace in place if present, else append *)
Fixpoint aset {V} (l : list (N * V)) (k : N) (v : V) : list (N * V) :=
  match l with
  | [] => [(k, v)]
  | (k', v') :: l' => if k' =? k then (k, v) :: l' else (k', v') :: aset l' k v
  end.

Fixpoint memN (x : N) (l : list N) : bool :=
  match l with [] => false | y :: l' => (y =? x) || memN x l' end.

Fixpoint delN (x : N) (l : list N) : list N :=
  match l with [] => [] | y :: l' => if y =? x then delN x l' else y :: delN x l' end.

(** sorted insertion (the registry's HashMap has no order; observations are sorted) *)
Fixpoint insN (x : N) (l : list N) : list N :=
  match l with
  | [] => [x]
  | y :: l' => if x <? y then x :: l else if x =? y then l else y :: insN x l'
  end.

(** ** concrete registry *)
Record preg : Set := mkPreg {
  p_peers : list N;                 (* present ids, sorted *)
  p_aliases : list (N * N);         (* key -> id *)
  p_index : list (N * list N)       (* id -> keys in registration order *)
}.

Definition preg_empty : preg := mkPreg [] [] [].

Inductive pop : Set :=
| PInsert (id : N)
| PRemove (id : N)
| PAlias (id key : N)
| PBroadcast.

Inductive pout : Set :=
| PUnit
| PBool (b : bool)            (* alias: attached?  remove: was present? *)
| PIds (ids : list N).        (* broadcast: one delivery and one result for each of these *)

Definition p_alias (s : preg) (id key : N) : preg * pout :=
  if negb (memN id (p_peers s)) then (s, PBool false) else
  match aget (p_aliases s) key with
  | Some prev =>
      if prev =? id then (s, PBool true)
      else
        let idx1 := match aget (p_index s) prev with
                    | Some keys => aset (p_index s) prev (delN key keys)
                    | None => p_index s
                    end in
        let cur := match aget idx1 id with Some keys => keys | None => [] end in
        (mkPreg (p_peers s) (aset (p_aliases s) key id) (aset idx1 id (cur ++ [key])), PBool true)
  | None =>
      let cur := match aget (p_index s) id with Some keys => keys | None => [] end in
      (mkPreg (p_peers s) (aset (p_aliases s) key id) (aset (p_index s) id (cur ++ [key])), PBool true)
  end.

Definition p_remove (s : preg) (id : N) : preg * pout :=
  let was := memN id (p_peers s) in
  let peers' := delN id (p_peers s) in
  match aget (p_index s) id with
  | Some keys =>
      let aliases' :=
        fold_left (fun al key => match aget al key with
                                 | Some owner => if owner =? id then adel al key else al
                                 | None => al
                                 end) keys (p_aliases s) in
      (mkPreg peers' aliases' (adel (p_index s) id), PBool was)
  | None => (mkPreg peers' (p_aliases s) (p_index s), PBool was)
  end.

Definition pstep (s : preg) (o : pop) : preg * pout :=
  match o with
  | PInsert id => (mkPreg (insN id (p_peers s)) (p_aliases s) (p_index s), PUnit)
  | PRemove id => p_remove s id
  | PAlias id key => p_alias s id key
  | PBroadcast => (s, PIds (p_peers s))
  end.

(** queries *)
Definition q_get (s : preg) (id : N) : bool := memN id (p_peers s).
Definition q_get_by (s : preg) (key : N) : option N :=
  match aget (p_aliases s) key with
  | Some id => if memN id (p_peers s) then Some id else None
  | None => None
  end.
Definition q_aliases_for (s : preg) (id : N) : list N :=
  match aget (p_index s) id with Some keys => keys | None => [] end.
Definition q_key_for (s : preg) (id : N) : option N :=
  match q_aliases_for s id with [] => None | k :: _ => Some k end.
Definition q_len (s : preg) : N := N.of_nat (length (p_peers s)).

(** ** specification: the present peers and one list of (key, id) assignments in
    assignment order, each key at most once *)
Record pspec : Set := mkPspec { s_present : list N; s_assign : list (N * N) }.
Definition pspec_empty : pspec := mkPspec [] [].

Definition sp_lookup (s : pspec) (key : N) : option N := aget (s_assign s) key.
Definition sp_aliases_for (s : pspec) (id : N) : list N :=
  map fst (filter (fun kv => snd kv =? id) (s_assign s)).

Definition sstep (s : pspec) (o : pop) : pspec * pout :=
  match o with
  | PInsert id => (mkPspec (insN id (s_present s)) (s_assign s), PUnit)
  | PRemove id =>
      (mkPspec (delN id (s_present s)) (filter (fun kv => negb (snd kv =? id)) (s_assign s)),
       PBool (memN id (s_present s)))
  | PAlias id key =>
      if negb (memN id (s_present s)) then (s, PBool false)
      else match sp_lookup s key with
           | Some owner => if owner =? id then (s, PBool true)
                           else (mkPspec (s_present s) (adel (s_assign s) key ++ [(key, id)]), PBool true)
           | None => (mkPspec (s_present s) (s_assign s ++ [(key, id)]), PBool true)
           end
  | PBroadcast => (s, PIds (s_present s))
  end.

(** ** observations over a universe of ids and keys *)
Record pobs : Set := mkPobs {
  b_out : pout;
  b_len : N;
  b_present : list bool;            (* get(id) for each id of the universe *)
  b_by_key : list (option N);       (* get_by(key) for each key *)
  b_aliases : list (list N);        (* aliases_for(id) for each id *)
  b_key_for : list (option N)       (* key_for(id) for each id *)
}.

Definition observe (ids keys : list N) (r : pout) (s : preg) : pobs :=
  mkPobs r (q_len s) (map (q_get s) ids) (map (q_get_by s) keys) (map (q_aliases_for s) ids)
         (map (q_key_for s) ids).

Definition sobserve (ids keys : list N) (r : pout) (s : pspec) : pobs :=
  mkPobs r (N.of_nat (length (s_present s))) (map (fun id => memN id (s_present s)) ids)
         (map (fun k => match sp_lookup s k with
                        | Some id => if memN id (s_present s) then Some id else None
                        | None => None end) keys)
         (map (sp_aliases_for s) ids)
         (map (fun id => match sp_aliases_for s id with [] => None | k :: _ => Some k end) ids).

Fixpoint ptrace (ids keys : list N) (s : preg) (ops : list pop) : list pobs :=
  match ops with
  | [] => []
  | o :: ops' => let '(s', r) := pstep s o in observe ids keys r s' :: ptrace ids keys s' ops'
  end.

Fixpoint strace (ids keys : list N) (s : pspec) (ops : list pop) : list pobs :=
  match ops with
  | [] => []
  | o :: ops' => let '(s', r) := sstep s o in sobserve ids keys r s' :: strace ids keys s' ops'
  end.

Definition model_C18 (ids keys : list N) (ops : list pop) : list pobs := ptrace ids keys preg_empty ops.
Definition spec_C18 (ids keys : list N) (ops : list pop) : list pobs := strace ids keys pspec_empty ops.

(** decidable equality of observations, so that the oracle "the observed
    trace is the specification's trace" is executable *)
Definition optN_eqb' (a b : option N) : bool :=
  match a, b with Some x, Some y => x =? y | None, None => true | _, _ => false end.
Fixpoint listN_eqb (a b : list N) : bool :=
  match a, b with
  | [], [] => true
  | x :: a', y :: b' => (x =? y) && listN_eqb a' b'
  | _, _ => false
  end.
Fixpoint list_eqb {A} (eqb : A -> A -> bool) (a b : list A) : bool :=
  match a, b with
  | [], [] => true
  | x :: a', y :: b' => eqb x y && list_eqb eqb a' b'
  | _, _ => false
  end.
Definition pout_eqb (a b : pout) : bool :=
  match a, b with
  | PUnit, PUnit => true
  | PBool x, PBool y => Bool.eqb x y
  | PIds x, PIds y => listN_eqb x y
  | _, _ => false
  end.
Definition pobs_eqb (a b : pobs) : bool :=
  pout_eqb (b_out a) (b_out b) && (b_len a =? b_len b) && list_eqb Bool.eqb (b_present a) (b_present b) &&
  list_eqb optN_eqb' (b_by_key a) (b_by_key b) && list_eqb listN_eqb (b_aliases a) (b_aliases b) &&
  list_eqb optN_eqb' (b_key_for a) (b_key_for b).

(** the property oracle: what was observed is what the specification (a map
    from keys to their last assignment among present peers, per-peer lists in
    assignment order, removal drops exactly the peer's own keys, a broadcast
    reaches exactly the present peers) predicts *)
Definition ok_C18 (ids keys : list N) (ops : list pop) (tr : list pobs) : bool :=
  list_eqb pobs_eqb tr (spec_C18 ids keys ops).
