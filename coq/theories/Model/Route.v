(** Model of request routing and dispatch (src/server_request.rs, the handler
    kinds of src/server.rs, the response constructors of src/message.rs) and of
    the four dispatch paths: blocking TCP, async TCP, WebSocket inline and
    WebSocket off-reader; the decision table of property C03 and its oracle.

    What is NOT modelled but supplied per request as oracle input computed by
    the harness without going through repe's dispatch: whether the query is
    UTF-8, whether the body decodes as the handler kind's input type (and the
    decoder's message if not), and what the user function does with the
    decoded input. *)
From RepeV Require Export Base.Word.

(** ** bytes *)
Fixpoint beqb (a b : list byte) : bool :=
  match a, b with
  | [], [] => true
  | x :: a', y :: b' => (x =? y) && beqb a' b'
  | _, _ => false
  end.

Fixpoint is_prefix (p l : list byte) : bool :=
  match p, l with
  | [], _ => true
  | x :: p', y :: l' => (x =? y) && is_prefix p' l'
  | _ :: _, [] => false
  end.

Fixpoint bmem (x : list byte) (l : list (list byte)) : bool :=
  match l with [] => false | y :: l' => beqb y x || bmem x l' end.

(** decimal rendering of a number ([Display] of u8 / u16) *)
Fixpoint dec_go (fuel : nat) (n : N) (acc : list byte) : list byte :=
  match fuel with
  | O => acc
  | S f => let acc' := (48 + n mod 10) :: acc in
           if n / 10 =? 0 then acc' else dec_go f (n / 10) acc'
  end.
Definition dec (n : N) : list byte := dec_go 20 n [].

(** ** constant message texts *)
(** "Unsupported REPE version " *)
Definition msg_version_pre : list byte := [85; 110; 115; 117; 112; 112; 111; 114; 116; 101; 100; 32; 82; 69; 80; 69; 32; 118; 101; 114; 115; 105; 111; 110; 32].
(** "Query must be valid UTF-8" *)
Definition msg_query_utf8 : list byte := [81; 117; 101; 114; 121; 32; 109; 117; 115; 116; 32; 98; 101; 32; 118; 97; 108; 105; 100; 32; 85; 84; 70; 45; 56].
(** "Raw binary queries are not supported by this server" *)
Definition msg_query_raw : list byte := [82; 97; 119; 32; 98; 105; 110; 97; 114; 121; 32; 113; 117; 101; 114; 105; 101; 115; 32; 97; 114; 101; 32; 110; 111; 116; 32; 115; 117; 112; 112; 111; 114; 116; 101; 100; 32; 98; 121; 32; 116; 104; 105; 115; 32; 115; 101; 114; 118; 101; 114].
(** "Method not found: " *)
Definition msg_notfound_pre : list byte := [77; 101; 116; 104; 111; 100; 32; 110; 111; 116; 32; 102; 111; 117; 110; 100; 58; 32].
(** "Expected JSON body" *)
Definition msg_expected_json : list byte := [69; 120; 112; 101; 99; 116; 101; 100; 32; 74; 83; 79; 78; 32; 98; 111; 100; 121].
(** "Expected BEVE typed-numeric body" *)
Definition msg_expected_beve : list byte := [69; 120; 112; 101; 99; 116; 101; 100; 32; 66; 69; 86; 69; 32; 116; 121; 112; 101; 100; 45; 110; 117; 109; 101; 114; 105; 99; 32; 98; 111; 100; 121].
(** "struct handler `" *)
Definition msg_struct_pre : list byte := [115; 116; 114; 117; 99; 116; 32; 104; 97; 110; 100; 108; 101; 114; 32; 96].
(** "` requires JSON or BEVE body, got format " *)
Definition msg_struct_mid : list byte := [96; 32; 114; 101; 113; 117; 105; 114; 101; 115; 32; 74; 83; 79; 78; 32; 111; 114; 32; 66; 69; 86; 69; 32; 98; 111; 100; 121; 44; 32; 103; 111; 116; 32; 102; 111; 114; 109; 97; 116; 32].
(** "registry body format `" *)
Definition msg_reg_pre : list byte := [114; 101; 103; 105; 115; 116; 114; 121; 32; 98; 111; 100; 121; 32; 102; 111; 114; 109; 97; 116; 32; 96].
(** "` is unsupported" *)
Definition msg_reg_post : list byte := [96; 32; 105; 115; 32; 117; 110; 115; 117; 112; 112; 111; 114; 116; 101; 100].
(** "handler panicked" *)
Definition msg_panicked : list byte := [104; 97; 110; 100; 108; 101; 114; 32; 112; 97; 110; 105; 99; 107; 101; 100].
(** "off-reader dispatch limit reached; retry" *)
Definition msg_saturated : list byte := [111; 102; 102; 45; 114; 101; 97; 100; 101; 114; 32; 100; 105; 115; 112; 97; 116; 99; 104; 32; 108; 105; 109; 105; 116; 32; 114; 101; 97; 99; 104; 101; 100; 59; 32; 114; 101; 116; 114; 121].

(** ** error codes (src/constants.rs) *)
Definition EC_VERSION : N := 1.
Definition EC_QUERY : N := 3.
Definition EC_BODY : N := 4.
Definition EC_PARSE : N := 5.
Definition EC_NOTFOUND : N := 6.
Definition EC_EXHAUSTED : N := 8.
Definition EC_INTERNAL : N := 9.

(** ** the router *)
(** the built-in handler kinds of src/server.rs: [with_json], [with_typed],
    [with_json_ctx], [with_typed_ctx], [with_handler], [with_typed_slice],
    [with_typed_slice_ref], [with_struct], [with_registry], and a custom
    [with_erased_handler] implementing only [HandlerErased::handle] *)
Inductive kind : Set :=
| KJson | KTyped | KJsonCtx | KTypedCtx | KAdapter | KSlice | KSliceRef | KStruct | KRegistry | KErased.

Record handler : Set := mkHandler {
  h_rid : N;                 (* which invocation counter its user function bumps *)
  h_kind : kind;
  h_off : bool;              (* [execution() = OffReader]: the [_blocking] constructors *)
  h_fns : list (list byte)   (* registry mounts: the pointers at which a callable is registered *)
}.

Record router : Set := mkRouter {
  rt_exact : list (list byte * handler);     (* the HashMap of exact paths *)
  rt_regs : list (list byte * handler);      (* registry mounts: normalised prefix *)
  rt_structs : list (list byte * handler);   (* struct mounts: normalised root *)
  rt_mw : bool                               (* one middleware registered: every route is wrapped *)
}.

Fixpoint find_exact (tbl : list (list byte * handler)) (q : list byte) : option (list byte * handler) :=
  match tbl with
  | [] => None
  | (p, h) :: t => if beqb p q then Some (p, h) else find_exact t q
  end.

(** [RegistryEntry::matches] / [StructEntry::matches] *)
Definition mount_matches (prefix path : list byte) : bool :=
  match prefix with
  | [] => true
  | _ :: _ => beqb path prefix ||
              (is_prefix prefix path &&
               match skipn (length prefix) path with c :: _ => c =? 47 | [] => false end)
  end.

Fixpoint find_mount (tbl : list (list byte * handler)) (q : list byte) : option (list byte * handler) :=
  match tbl with
  | [] => None
  | (p, h) :: t => if mount_matches p q then Some (p, h) else find_mount t q
  end.

(** [Router::get]: exact path, then the first matching registry, then the first
    matching struct; returns the mount point with the handler *)
Definition router_get (rt : router) (q : list byte) : option (list byte * handler) :=
  match find_exact (rt_exact rt) q with
  | Some x => Some x
  | None => match find_mount (rt_regs rt) q with
            | Some x => Some x
            | None => find_mount (rt_structs rt) q
            end
  end.

(** ** requests *)
(** what the user function does with the decoded input *)
Inductive uout : Set :=
| UVal (bf : N) (body : list byte)                 (* built-in kinds: [Ok(v)], [v] serialised as [body] in format [bf] *)
| UMsg (ec qf bf : N) (query body : list byte)     (* erased: [Ok(Message)] with these fields and the request id *)
| UErr (code : N) (msg : list byte)                (* [Err((code, msg))]; erased/struct: [Err(e)], its code and [Display] *)
| UPanic.

Record request : Set := mkReq {
  q_id : N; q_notify : N; q_version : N; q_qfmt : N; q_bfmt : N; q_ec : N;
  q_query : list byte; q_body : list byte;
  (* oracle inputs *)
  o_utf8 : bool;                       (* std::str::from_utf8(query).is_ok() *)
  o_decfail : option (list byte);      (* Some text: the body is not decodable as the kind's input; the decoder's error text *)
  o_user : uout;
  o_mw : option (N * list byte);       (* the middleware refuses this request with Err(e): code and text *)
  o_sat : bool                         (* no off-reader permit is free when this request arrives *)
}.

Definition is_notify (r : request) : bool := q_notify r =? 1.

(** ** responses *)
Record resp : Set := mkResp {
  p_id : N; p_ec : N; p_qfmt : N; p_bfmt : N; p_query : list byte; p_body : list byte
}.

(** [create_error_response_unstamped_view]: Utf8 body, query format 0, no query *)
Definition err_view (r : request) (code : N) (msg : list byte) : resp :=
  mkResp (q_id r) code 0 3 [] msg.
(** [create_error_response_like]: the same with the request query cloned in *)
Definition err_like (r : request) (code : N) (msg : list byte) : resp :=
  mkResp (q_id r) code 0 3 (q_query r) msg.

Inductive mode : Set := View | Owned.
Definition err_resp (m : mode) (r : request) (code : N) (msg : list byte) : resp :=
  match m with View => err_view r code msg | Owned => err_like r code msg end.

(** [response_header_builder]: unknown query format codes fall back to raw *)
Definition echo_qfmt (qf : N) : N := if qf =? 1 then 1 else 0.
(** [create_response_unstamped(_view)] / [create_typed_slice_response_unstamped(_view)] *)
Definition ok_resp (r : request) (bf : N) (body : list byte) : resp :=
  mkResp (q_id r) 0 (echo_qfmt (q_qfmt r)) bf [] body.

(** ** [route] (src/server_request.rs) *)
Inductive routed : Set :=
| RReject (code : N) (msg : list byte)
| RDispatch (mount : list byte) (h : handler).

Definition route (rt : router) (r : request) : routed :=
  if negb (q_version r =? 1) then RReject EC_VERSION (msg_version_pre ++ dec (q_version r))
  else if q_qfmt r =? 1 then
    if o_utf8 r then
      match router_get rt (q_query r) with
      | Some (p, h) => RDispatch p h
      | None => RReject EC_NOTFOUND (msg_notfound_pre ++ q_query r)
      end
    else RReject EC_QUERY msg_query_utf8
  else RReject EC_QUERY msg_query_raw.

(** ** the handlers *)
(** [Result<Message, RepeError>], or a panic; and how often the user function ran *)
Inductive hres : Set := HOk (m : resp) | HErr (code : N) (msg : list byte) | HPanic.

(** what a built-in kind does with the user function's result; [m] is the
    flavour of the handler body that runs ([handle_view] or [handle]) *)
Definition user_res (m : mode) (r : request) : hres :=
  match o_user r with
  | UVal bf b => HOk (ok_resp r bf b)
  | UMsg ec qf bf q b => HOk (mkResp (q_id r) ec qf bf q b)
  | UErr c msg => HOk (err_resp m r c msg)
  | UPanic => HPanic
  end.

(** a custom erased handler returns its [Result] as is *)
Definition user_res_erased (r : request) : hres :=
  match o_user r with
  | UVal bf b => HOk (ok_resp r bf b)
  | UMsg ec qf bf q b => HOk (mkResp (q_id r) ec qf bf q b)
  | UErr c msg => HErr c msg
  | UPanic => HPanic
  end.

Definition fmt_json_like (bf : N) : bool := (bf =? 1) || (bf =? 2) || (bf =? 3).

(** [decode_json_param(_view)] / [decode_typed_param(_view)] then the closure *)
Definition run_json_like (m : mode) (r : request) : hres * nat :=
  if fmt_json_like (q_bfmt r) then
    match o_decfail r with
    | Some msg => (HErr EC_PARSE msg, O)
    | None => (user_res m r, 1%nat)
    end
  else (HOk (err_resp m r EC_BODY msg_expected_json), O).

(** [decode_typed_slice_param(_view)] / [decode_typed_slice_ref_param] *)
Definition run_slice (m : mode) (r : request) : hres * nat :=
  if q_bfmt r =? 1 then
    match o_decfail r with
    | Some msg => (HErr EC_PARSE msg, O)
    | None => (user_res m r, 1%nat)
    end
  else (HOk (err_resp m r EC_BODY msg_expected_beve), O).

(** [RegisteredStruct::handle]: an empty body is a read whatever the format *)
Definition run_struct (r : request) : hres * nat :=
  match q_body r with
  | [] => (user_res Owned r, 1%nat)
  | _ :: _ =>
      if fmt_json_like (q_bfmt r) then
        match o_decfail r with
        | Some msg => (HErr EC_PARSE msg, O)
        | None => (user_res Owned r, 1%nat)
        end
      else (HOk (err_like r EC_BODY (msg_struct_pre ++ q_query r ++ msg_struct_mid ++ dec (q_bfmt r))), O)
  end.

(** [RegisteredRegistry::pointer_for] (the path is known to match the mount) *)
Definition reg_pointer (mount path : list byte) : list byte :=
  match mount with
  | [] => match path with [] => [47] | _ => path end
  | _ :: _ => if beqb path mount then [47] else skipn (length mount) path
  end.

(** [RegisteredRegistry::handle_with_ctx]: [Registry::decode_body] accepts the
    four known formats and reports every failure as InvalidBody inside an Ok
    response; the callable runs only for a non-empty body at a function
    pointer; the result of reads / calls is the oracle's [o_user] *)
Definition run_registry (mount : list byte) (h : handler) (r : request) : hres * nat :=
  match q_body r with
  | [] => (user_res Owned r, O)
  | _ :: _ =>
      if q_bfmt r <? 4 then
        match o_decfail r with
        | Some msg => (HOk (err_like r EC_BODY msg), O)
        | None => (user_res Owned r, if bmem (reg_pointer mount (q_query r)) (h_fns h) then 1%nat else O)
        end
      else (HOk (err_like r EC_BODY (msg_reg_pre ++ dec (q_bfmt r) ++ msg_reg_post)), O)
  end.

Definition run_kind (m : mode) (mount : list byte) (h : handler) (r : request) : hres * nat :=
  match h_kind h with
  | KJson | KTyped => run_json_like m r
  | KJsonCtx | KTypedCtx | KAdapter => run_json_like Owned r
  | KSlice | KSliceRef => run_slice m r
  | KStruct => run_struct r
  | KRegistry => run_registry mount h r
  | KErased => (user_res_erased r, 1%nat)
  end.

(** which handler body runs: only the bare JSON / typed / slice handlers
    override [handle_view]; an [OffReaderHandler] wrapper, a
    [MiddlewarePipeline] and every other kind take the default [handle_view],
    which materialises an owned request *)
Definition inner_mode (dm : mode) (rt : router) (h : handler) : mode :=
  match dm with
  | Owned => Owned
  | View => if rt_mw rt || h_off h then Owned else View
  end.

(** the dispatched handler: the middleware (if any) first; result, user
    invocations, middleware invocations *)
Definition run_handler (dm : mode) (rt : router) (mount : list byte) (h : handler) (r : request)
  : hres * nat * nat :=
  if rt_mw rt then
    match o_mw r with
    | Some (c, msg) => (HErr c msg, O, 1%nat)
    | None => let '(res, n) := run_kind Owned mount h r in (res, n, 1%nat)
    end
  else let '(res, n) := run_kind (inner_mode dm rt h) mount h r in (res, n, O).

(** ** one request on one dispatch path *)
Record stepres : Set := mkStep {
  s_resp : option resp;     (* the frame written for this request *)
  s_inv : list N;           (* counters bumped by user functions *)
  s_mw : nat                (* middleware invocations *)
}.

(** TCP / async TCP writers: [response_echo_query] *)
Definition finish_echo (r : request) (p : resp) : resp :=
  match p_query p with
  | [] => mkResp (p_id p) (p_ec p) (p_qfmt p) (p_bfmt p) (q_query r) (p_body p)
  | _ :: _ => p
  end.

(** WebSocket: [stamp_response_query] *)
Definition finish_stamp (r : request) (p : resp) : resp :=
  match q_query r with
  | [] => p
  | _ :: _ => match p_query p with
              | [] => mkResp (p_id p) (p_ec p) (p_qfmt p) (p_bfmt p) (q_query r) (p_body p)
              | _ :: _ => p
              end
  end.

Definition inv_of (h : handler) (n : nat) : list N := repeat (h_rid h) n.

(** [route_request_view] / the WebSocket reader's inline arm: [route], then
    [dispatch_view].  An inline panic unwinds the connection; it is outside the
    well-formed cases and rendered here as "no frame". *)
Definition inline_step (finish : request -> resp -> resp) (rt : router) (r : request) : stepres :=
  match route rt r with
  | RReject c msg =>
      mkStep (if is_notify r then None else Some (finish r (err_view r c msg))) [] O
  | RDispatch mount h =>
      let '(res, n, k) := run_handler View rt mount h r in
      let out :=
        if is_notify r then None else
        match res with
        | HOk p => Some (finish r p)
        | HErr c msg => Some (finish r (err_view r c msg))
        | HPanic => None
        end in
      mkStep out (inv_of h n) k
  end.

(** the WebSocket reader's off-reader arm: [spawn_off_reader], [dispatch] on an
    owned copy, panic caught, stamp with the moved query *)
Definition offreader_dispatch (rt : router) (mount : list byte) (h : handler) (r : request) : stepres :=
  if o_sat r then
    mkStep (if is_notify r then None else Some (err_like r EC_EXHAUSTED msg_saturated)) [] O
  else
    let '(res, n, k) := run_handler Owned rt mount h r in
    let out :=
      if is_notify r then None else
      match res with
      | HOk p => Some (finish_stamp r p)
      | HErr c msg => Some (finish_stamp r (err_like r c msg))
      | HPanic => Some (finish_stamp r (err_like r EC_INTERNAL msg_panicked))
      end in
    mkStep out (inv_of h n) k.

Definition tcp_step : router -> request -> stepres := inline_step finish_echo.
Definition async_step : router -> request -> stepres := inline_step finish_echo.
Definition wsi_step : router -> request -> stepres := inline_step finish_stamp.
Definition wso_step (rt : router) (r : request) : stepres :=
  match route rt r with
  | RReject c msg =>
      mkStep (if is_notify r then None else Some (finish_stamp r (err_view r c msg))) [] O
  | RDispatch mount h => offreader_dispatch rt mount h r
  end.

(** the WebSocket reader as it is: the dispatched handler's [execution()] picks the arm *)
Definition ws_step (rt : router) (r : request) : stepres :=
  match route rt r with
  | RDispatch mount h => if h_off h then offreader_dispatch rt mount h r else wsi_step rt r
  | RReject _ _ => wsi_step rt r
  end.

(** the four dispatch paths *)
Inductive path : Set := PTcp | PAsync | PWsInline | PWsOff.
Definition step_of (p : path) : router -> request -> stepres :=
  match p with PTcp => tcp_step | PAsync => async_step | PWsInline => wsi_step | PWsOff => wso_step end.

(** ** a connection: a pipelined request list *)
Fixpoint opt_list {A} (l : list (option A)) : list A :=
  match l with [] => [] | Some x :: l' => x :: opt_list l' | None :: l' => opt_list l' end.

Definition run_resps (step : router -> request -> stepres) (rt : router) (rs : list request) : list resp :=
  opt_list (map (fun r => s_resp (step rt r)) rs).
Definition run_invs (step : router -> request -> stepres) (rt : router) (rs : list request) : list N :=
  flat_map (fun r => s_inv (step rt r)) rs.
Definition run_mws (step : router -> request -> stepres) (rt : router) (rs : list request) : nat :=
  fold_right (fun r a => (s_mw (step rt r) + a)%nat) O rs.

(** the four paths as functions of the request list: frames written, in the
    order of a schedule in which every off-reader handler finishes at once *)
Definition tcp := run_resps tcp_step.
Definition async_tcp := run_resps async_step.
Definition ws_inline := run_resps wsi_step.
Definition ws_offreader := run_resps wso_step.

Fixpoint count_rid (x : N) (l : list N) : N :=
  match l with [] => 0 | y :: l' => (if y =? x then 1 else 0) + count_rid x l' end.

Definition all_handlers (rt : router) : list handler :=
  map snd (rt_exact rt) ++ map snd (rt_regs rt) ++ map snd (rt_structs rt).
Definition rid_universe (rt : router) : list N := map h_rid (all_handlers rt).

(** ** cases and observations *)
Record case : Set := mkCase {
  c_rt : router;
  c_tcp : bool; c_async : bool; c_ws : bool;    (* which servers the pipeline is sent to *)
  c_reqs : list request
}.

Record tobs : Set := mkTobs {
  t_resps : list resp;      (* frames received, in order *)
  t_counts : list N;        (* user-function invocations per route of [rid_universe] *)
  t_mw : N;                 (* middleware invocations *)
  t_alive : bool            (* the connection still answers after the pipeline *)
}.

Record obs : Set := mkObs { b_tcp : option tobs; b_async : option tobs; b_ws : option tobs }.

Definition run_tobs (step : router -> request -> stepres) (rt : router) (rs : list request) : tobs :=
  mkTobs (run_resps step rt rs)
         (map (fun rid => count_rid rid (run_invs step rt rs)) (rid_universe rt))
         (N.of_nat (run_mws step rt rs))
         true.

Definition model_C03 (c : case) : obs :=
  mkObs (if c_tcp c then Some (run_tobs tcp_step (c_rt c) (c_reqs c)) else None)
        (if c_async c then Some (run_tobs async_step (c_rt c) (c_reqs c)) else None)
        (if c_ws c then Some (run_tobs ws_step (c_rt c) (c_reqs c)) else None).

(** ** the property as a decision table *)
Record expect : Set := mkExp {
  x_id : N; x_ec : N; x_qfmt : N; x_bfmt : N; x_query : list byte;
  x_body : option (list byte)          (* the handler's result; error texts are not specified *)
}.

(** the body formats a kind accepts *)
Definition accepts (k : kind) (bf : N) : bool :=
  match k with
  | KJson | KTyped | KJsonCtx | KTypedCtx | KAdapter | KStruct => (bf =? 1) || (bf =? 2) || (bf =? 3)
  | KSlice | KSliceRef => bf =? 1
  | KRegistry => bf <? 4
  | KErased => true
  end.
(** kinds for which an empty body means "no parameter" (a read) *)
Definition empty_is_read (k : kind) : bool :=
  match k with KStruct | KRegistry => true | _ => false end.
(** kinds that look at the body at all *)
Definition decodes_body (k : kind) : bool :=
  match k with KErased => false | _ => true end.
(** the code for an undecodable body: ParseError, except a registry mount,
    which reports InvalidBody *)
Definition undecodable_code (k : kind) : N :=
  match k with KRegistry => EC_BODY | _ => EC_PARSE end.

Inductive bclass : Set := BOk | BBadFormat | BUndecodable.
Definition body_class (h : handler) (r : request) : bclass :=
  if negb (decodes_body (h_kind h)) then BOk
  else if empty_is_read (h_kind h) && beqb (q_body r) [] then BOk
  else if negb (accepts (h_kind h) (q_bfmt r)) then BBadFormat
  else match o_decfail r with Some _ => BUndecodable | None => BOk end.

(** the request passes the version, query-format, UTF-8 and lookup checks *)
Definition dispatched (rt : router) (r : request) : option (list byte * handler) :=
  if (q_version r =? 1) && (q_qfmt r =? 1) && o_utf8 r then router_get rt (q_query r) else None.

Definition mw_refusal (rt : router) (r : request) : option (N * list byte) :=
  if rt_mw rt then o_mw r else None.

(** [shed]: the request is turned away by the off-reader permit pool *)
Definition spec_expect (shed : bool) (rt : router) (r : request) : expect :=
  let err c := mkExp (q_id r) c 0 3 (q_query r) None in
  if negb (q_version r =? 1) then err EC_VERSION
  else if negb (q_qfmt r =? 1) || negb (o_utf8 r) then err EC_QUERY
  else match router_get rt (q_query r) with
       | None => err EC_NOTFOUND
       | Some (mount, h) =>
           if shed then err EC_EXHAUSTED else
           match mw_refusal rt r with
           | Some (c, _) => err c
           | None =>
               match body_class h r with
               | BBadFormat => err EC_BODY
               | BUndecodable => err (undecodable_code (h_kind h))
               | BOk =>
                   match o_user r with
                   | UVal bf b => mkExp (q_id r) 0 (q_qfmt r) bf (q_query r) (Some b)
                   | UMsg ec qf bf q b =>
                       mkExp (q_id r) ec qf bf (match q with [] => q_query r | _ => q end) (Some b)
                   | UErr c _ => err c
                   | UPanic => err EC_INTERNAL
                   end
               end
           end
       end.

(** the user function of the named route runs for this request *)
Definition spec_invoked (shed : bool) (rt : router) (r : request) : option N :=
  match dispatched rt r with
  | None => None
  | Some (mount, h) =>
      if shed then None else
      match mw_refusal rt r with
      | Some _ => None
      | None =>
          match body_class h r with
          | BOk =>
              match h_kind h with
              | KRegistry =>
                  if negb (beqb (q_body r) []) && bmem (reg_pointer mount (q_query r)) (h_fns h)
                  then Some (h_rid h) else None
              | _ => Some (h_rid h)
              end
          | _ => None
          end
      end
  end.

Definition spec_mw (shed : bool) (rt : router) (r : request) : bool :=
  match dispatched rt r with
  | Some _ => rt_mw rt && negb shed
  | None => false
  end.

(** handled away from the reader task on a WebSocket connection *)
Definition spec_off (rt : router) (r : request) : bool :=
  match dispatched rt r with Some (_, h) => h_off h | None => false end.

Definition optb_eqb (a : option (list byte)) (b : list byte) : bool :=
  match a with None => true | Some x => beqb x b end.

Definition resp_meets (x : expect) (p : resp) : bool :=
  (x_id x =? p_id p) && (x_ec x =? p_ec p) && (x_qfmt x =? p_qfmt p) && (x_bfmt x =? p_bfmt p) &&
  beqb (x_query x) (p_query p) && optb_eqb (x_body x) (p_body p).

Definition resp_eqb (a b : resp) : bool :=
  (p_id a =? p_id b) && (p_ec a =? p_ec b) && (p_qfmt a =? p_qfmt b) && (p_bfmt a =? p_bfmt b) &&
  beqb (p_query a) (p_query b) && beqb (p_body a) (p_body b).

Fixpoint forall2b {A B} (f : A -> B -> bool) (a : list A) (b : list B) : bool :=
  match a, b with
  | [], [] => true
  | x :: a', y :: b' => f x y && forall2b f a' b'
  | _, _ => false
  end.

Fixpoint listN_eqb (a b : list N) : bool :=
  match a, b with
  | [], [] => true
  | x :: a', y :: b' => (x =? y) && listN_eqb a' b'
  | _, _ => false
  end.

Fixpoint memN (x : N) (l : list N) : bool :=
  match l with [] => false | y :: l' => (y =? x) || memN x l' end.

Fixpoint nodupN (l : list N) : bool :=
  match l with [] => true | x :: l' => negb (memN x l') && nodupN l' end.

(** remove the first response with this id; None if there is none *)
Fixpoint take_id (id : N) (l : list resp) : option (resp * list resp) :=
  match l with
  | [] => None
  | p :: l' => if p_id p =? id then Some (p, l')
               else match take_id id l' with
                    | Some (q, rest) => Some (q, p :: rest)
                    | None => None
                    end
  end.

(** every expectation is met by exactly one received frame, and no frame is left *)
Fixpoint match_all (xs : list expect) (ps : list resp) : bool :=
  match xs with
  | [] => match ps with [] => true | _ => false end
  | x :: xs' => match take_id (x_id x) ps with
                | Some (p, rest) => resp_meets x p && match_all xs' rest
                | None => false
                end
  end.

(** the same frames up to order *)
Fixpoint perm_eqb (a b : list resp) : bool :=
  match a with
  | [] => match b with [] => true | _ => false end
  | p :: a' => match take_id (p_id p) b with
               | Some (q, rest) => resp_eqb p q && perm_eqb a' rest
               | None => false
               end
  end.

Definition shed_ws (rt : router) (r : request) : bool := spec_off rt r && o_sat r.

Definition expected_counts (shed : router -> request -> bool) (rt : router) (rs : list request) : list N :=
  let inv := flat_map (fun r => match spec_invoked (shed rt r) rt r with Some x => [x] | None => [] end) rs in
  map (fun rid => count_rid rid inv) (rid_universe rt).
Definition expected_mw (shed : router -> request -> bool) (rt : router) (rs : list request) : N :=
  N.of_nat (length (filter (fun r => spec_mw (shed rt r) rt r) rs)).

Definition no_shed (rt : router) (r : request) : bool := false.

(** blocking and async TCP: one frame per non-notify request, in arrival order *)
Definition ok_inline (rt : router) (rs : list request) (t : tobs) : bool :=
  t_alive t &&
  forall2b resp_meets (map (spec_expect false rt) (filter (fun r => negb (is_notify r)) rs)) (t_resps t) &&
  listN_eqb (t_counts t) (expected_counts no_shed rt rs) &&
  (t_mw t =? expected_mw no_shed rt rs).

(** WebSocket: exactly one frame per non-notify request; those answered by the
    reader task itself (rejections, inline handlers, shed requests) in arrival
    order among themselves; off-reader answers anywhere *)
Definition ok_ws (rt : router) (rs : list request) (t : tobs) : bool :=
  let nn := filter (fun r => negb (is_notify r)) rs in
  let on_reader := filter (fun r => negb (spec_off rt r) || o_sat r) nn in
  let reader_ids := map q_id on_reader in
  t_alive t &&
  match_all (map (fun r => spec_expect (shed_ws rt r) rt r) nn) (t_resps t) &&
  forall2b resp_meets (map (fun r => spec_expect (shed_ws rt r) rt r) on_reader)
           (filter (fun p => memN (p_id p) reader_ids) (t_resps t)) &&
  listN_eqb (t_counts t) (expected_counts shed_ws rt rs) &&
  (t_mw t =? expected_mw shed_ws rt rs).

Definition ok_opt (f : tobs -> bool) (o : option tobs) (present : bool) : bool :=
  match o with
  | Some t => present && f t
  | None => negb present
  end.

(** the same request gets the same frame on every path *)
Definition agree (o : obs) : bool :=
  match b_tcp o, b_async o with
  | Some a, Some b => forall2b resp_eqb (t_resps a) (t_resps b)
  | _, _ => true
  end &&
  match b_tcp o, b_ws o with
  | Some a, Some w => perm_eqb (t_resps a) (t_resps w)
  | _, _ => true
  end &&
  match b_async o, b_ws o with
  | Some a, Some w => perm_eqb (t_resps a) (t_resps w)
  | _, _ => true
  end.

Definition ok_C03 (c : case) (o : obs) : bool :=
  ok_opt (ok_inline (c_rt c) (c_reqs c)) (b_tcp o) (c_tcp c) &&
  ok_opt (ok_inline (c_rt c) (c_reqs c)) (b_async o) (c_async c) &&
  ok_opt (ok_ws (c_rt c) (c_reqs c)) (b_ws o) (c_ws c) &&
  agree o.

(** ** well-formed cases *)
(** the user function of this request would panic on an inline path *)
Definition panics (r : request) : bool := match o_user r with UPanic => true | _ => false end.

Definition req_wf (c : case) (r : request) : bool :=
  (* a panicking user function is reached only behind an off-reader route, and then only the WebSocket server is used *)
  (negb (panics r) ||
   match dispatched (c_rt c) r with
   | Some (_, h) => h_off h && negb (c_tcp c) && negb (c_async c)
   | None => true
   end) &&
  (* an exhausted permit pool is a WebSocket matter *)
  (negb (o_sat r) || (negb (c_tcp c) && negb (c_async c))).

Definition c03_wf (c : case) : bool :=
  nodupN (map q_id (filter (fun r => negb (is_notify r)) (c_reqs c))) &&
  forallb (req_wf c) (c_reqs c).

(** observations equal up to the order of off-reader answers on the WebSocket *)
Definition tobs_eqb (a b : tobs) : bool :=
  forall2b resp_eqb (t_resps a) (t_resps b) && listN_eqb (t_counts a) (t_counts b) &&
  (t_mw a =? t_mw b) && Bool.eqb (t_alive a) (t_alive b).

Definition ws_tobs_eqb (reader_ids : list N) (a b : tobs) : bool :=
  perm_eqb (t_resps a) (t_resps b) &&
  forall2b resp_eqb (filter (fun p => memN (p_id p) reader_ids) (t_resps a))
                    (filter (fun p => memN (p_id p) reader_ids) (t_resps b)) &&
  listN_eqb (t_counts a) (t_counts b) && (t_mw a =? t_mw b) && Bool.eqb (t_alive a) (t_alive b).

Definition opt_eqb (f : tobs -> tobs -> bool) (a b : option tobs) : bool :=
  match a, b with Some x, Some y => f x y | None, None => true | _, _ => false end.

Definition c03_obs_eqb (c : case) (a b : obs) : bool :=
  let nn := filter (fun r => negb (is_notify r)) (c_reqs c) in
  let reader_ids := map q_id (filter (fun r => negb (spec_off (c_rt c) r) || o_sat r) nn) in
  opt_eqb tobs_eqb (b_tcp a) (b_tcp b) && opt_eqb tobs_eqb (b_async a) (b_async b) &&
  opt_eqb (ws_tobs_eqb reader_ids) (b_ws a) (b_ws b).
