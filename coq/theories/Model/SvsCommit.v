(** Model of the SVS pull-to-file commit path (src/value_stream.rs):
    [write_file] / [TempFile] (create, commit, Drop), the consumers of
    [pull_to_file_trailer_verified] and of the async file pullers, [TrailerHold],
    and [run_pull].  The model starts from what the consumer receives: the
    content delivered by each successful [next] response and how the pull ends
    (with [last = 1], or with a failing request).  How the producer cuts a
    stream into chunks is property C09's business; here it only fixes how many
    responses there are.

    File system = the two paths that matter: the destination and its
    [.svspart] sibling.  A pull is a list of steps; a crash (the process is
    killed) performs a prefix of that list and nothing else. *)
From RepeV Require Export Base.Word.

Definition bytes := list byte.

(** * file system *)
Record fs : Set := mkFs { f_dst : option bytes; f_tmp : option bytes }.

(** the verif-hooks probe points of the commit path *)
Inductive probe : Set :=
| PAfterCreate | PFetch | PBeforeFlush | PBeforeSync | PBeforeRename | PAfterRename.

Inductive step : Set :=
| SCreate               (* File::create(tmp): creates or truncates *)
| SWrite (b : bytes)    (* write_all(b) on the temp file *)
| SFlush                (* File::flush: no effect on content *)
| SSync                 (* File::sync_all: durability only, no effect on content *)
| SRename               (* rename(tmp, dst) *)
| SRemove               (* remove_file(tmp) (TempFile::drop) *)
| SProbe (p : probe).   (* probe point: no effect *)

Definition apply_step (s : fs) (st : step) : fs :=
  match st with
  | SCreate => mkFs (f_dst s) (Some [])
  | SWrite b => mkFs (f_dst s) (match f_tmp s with Some t => Some (t ++ b) | None => None end)
  | SRename => match f_tmp s with Some t => mkFs (Some t) None | None => s end
  | SRemove => mkFs (f_dst s) None
  | SFlush => s
  | SSync => s
  | SProbe _ => s
  end.

Definition apply_steps (l : list step) (s : fs) : fs := fold_left apply_step l s.

(** * TrailerHold *)

(** [TrailerHold::write]: the inner [write_all] calls it makes and the new
    held tail.  First branch [buf.len() >= n], second branch the short write. *)
Definition hold_write (n : nat) (hold buf : bytes) : list bytes * bytes :=
  if (n <=? length buf)%nat then
    ((match hold with [] => [] | _ => [hold] end) ++ [firstn (length buf - n) buf],
     skipn (length buf - n) buf)
  else
    let h := hold ++ buf in
    if (n <? length h)%nat then ([firstn (length h - n) h], skipn (length h - n) h)
    else ([], h).

(** a sequence of [write] calls, from a given held tail: all inner writes, final tail *)
Fixpoint hold_run (n : nat) (hold : bytes) (writes : list bytes) : list bytes * bytes :=
  match writes with
  | [] => ([], hold)
  | w :: r =>
      let '(o, h) := hold_write n hold w in
      let '(o', h') := hold_run n h r in
      (o ++ o', h')
  end.

(** [into_trailer]: an error iff fewer than [n] bytes are held *)
Definition into_trailer_errors (n : nat) (held : bytes) : bool := (length held <? n)%nat.

(** * the fill phase *)

(** what one received chunk makes the writer do: nothing for an empty chunk (a
    read of 0 bytes is the end of input for io::copy, and the async pull loop
    does not forward an empty body), else one write, through the trailer hold
    when there is one *)
Definition deliver (tr : option nat) (hold c : bytes) : list bytes * bytes :=
  match c with
  | [] => ([], hold)
  | _ => match tr with Some n => hold_write n hold c | None => ([c], hold) end
  end.

(** one [svs.fetch] probe before every request, then the writes its response causes *)
Fixpoint fill (tr : option nat) (hold : bytes) (ps : list bytes) : list step * bytes :=
  match ps with
  | [] => ([], hold)
  | c :: r =>
      let '(ws, h) := deliver tr hold c in
      let '(st, h') := fill tr h r in
      (SProbe PFetch :: map SWrite ws ++ st, h')
  end.

(** * the protocol *)
Inductive result : Set := ROk | RErr | RKilled.

Record proto : Set := mkProto {
  pr_pieces : list bytes;    (* content delivered by each successful next response, in order *)
  pr_clean : bool;           (* the last of them carried last = 1; else the following request failed *)
  pr_trailer : option nat;   (* trailer pullers: the trailer length *)
  pr_reject : bool;          (* a verifier is present and rejects *)
  pr_async : bool;           (* async puller: when the pull loop fails the consumer thread just sees the end of its input *)
  pr_eof_clean : bool        (* async only: the consumer's reader ends without an error of its own on that end of input *)
}.

Definition fin_steps : list step := [SProbe PBeforeFlush; SFlush; SProbe PBeforeSync; SSync].
Definition commit_steps : list step := [SProbe PBeforeRename; SRename; SProbe PAfterRename].

(** The steps of one in-process pull and its result.
    - the stream ended with [last]: too short for the trailer -> remove; verifier
      rejects -> flush, sync, remove; else flush, sync, rename;
    - a request failed (producer failure reported by the server, connection
      lost): the blocking pullers propagate the read error and the guard removes
      the temp file; in the async pullers the consumer thread may complete its
      flush and sync on the truncated input before [run_pull] surfaces the pull
      error and drops the guard. *)
Definition protocol (p : proto) : list step * result :=
  let '(fsteps, held) := fill (pr_trailer p) [] (pr_pieces p) in
  let short := match pr_trailer p with Some n => into_trailer_errors n held | None => false end in
  let head := SCreate :: SProbe PAfterCreate :: fsteps in
  if negb (pr_clean p) then
    (head ++ [SProbe PFetch] ++
       (if pr_async p && pr_eof_clean p && negb short then fin_steps else []) ++ [SRemove], RErr)
  else if short then (head ++ [SRemove], RErr)
  else if pr_reject p then (head ++ fin_steps ++ [SRemove], RErr)
  else (head ++ fin_steps ++ commit_steps, ROk).

(** ** a kill: the steps performed before the n-th hit (n >= 1) of a probe *)
Definition probe_eqb (a b : probe) : bool :=
  match a, b with
  | PAfterCreate, PAfterCreate => true
  | PFetch, PFetch => true
  | PBeforeFlush, PBeforeFlush => true
  | PBeforeSync, PBeforeSync => true
  | PBeforeRename, PBeforeRename => true
  | PAfterRename, PAfterRename => true
  | _, _ => false
  end.

Definition is_hit (p : probe) (st : step) : bool :=
  match st with SProbe q => probe_eqb q p | _ => false end.

Fixpoint cut_at (p : probe) (n : nat) (l : list step) : option (list step) :=
  match l with
  | [] => None
  | st :: r =>
      if is_hit p st then
        match n with
        | O => None
        | S O => Some []
        | S n' => option_map (cons st) (cut_at p n' r)
        end
      else option_map (cons st) (cut_at p n r)
  end.

(** ** run_pull: the pull error is surfaced before the consumer's value *)
Definition run_pull {V : Type} (pull_ok : bool) (consumer : option V) : option V :=
  if pull_ok then consumer else None.

(** * cases *)
Inductive puller : Set :=
| PuFile        (* pull_to_file *)
| PuBeveFile    (* pull_to_beve_file: needs zstd, decompresses *)
| PuZstFile     (* pull_to_beve_zst_file: needs zstd, stores the wire bytes *)
| PuTrailer     (* pull_to_file_trailer_verified *)
| PuAFile       (* pull_to_file_async *)
| PuAVerified   (* pull_to_file_verified_async *)
| PuATrailer    (* pull_to_file_trailer_verified_async *)
| PuValue       (* pull_value *)
| PuAValue.     (* pull_value_async *)

Definition is_async (p : puller) : bool :=
  match p with PuAFile | PuAVerified | PuATrailer | PuAValue => true | _ => false end.
Definition has_verify (p : puller) : bool :=
  match p with PuTrailer | PuAVerified | PuATrailer => true | _ => false end.
Definition has_trailer (p : puller) : bool :=
  match p with PuTrailer | PuATrailer => true | _ => false end.
Definition is_value (p : puller) : bool :=
  match p with PuValue | PuAValue => true | _ => false end.
Definition decompresses (p : puller) : bool :=
  match p with PuZstFile => false | _ => true end.

Inductive fault : Set :=
| FNone
| FProducer (k : N)            (* the producer fails after writing k bytes *)
| FCut (j : N)                 (* the connection is closed after the j-th next response *)
| FReject                      (* the verifier rejects *)
| FKill (p : probe) (n : N).   (* the process is aborted at the n-th hit of p *)

Record case : Set := mkCase {
  c_puller : puller;
  c_stream : bytes;        (* logical content the producer writes (payload || trailer) *)
  c_wire : bytes;          (* bytes on the wire: the stream itself, or its zstd frame *)
  c_comp : bool;
  c_chunk : N;             (* producer chunk size *)
  c_trailer : N;           (* trailer length (trailer pullers) *)
  c_dst : option bytes;    (* destination before the pull *)
  c_tmp : option bytes;    (* stale temp sibling before the pull *)
  c_fault : fault
}.

Fixpoint chunks_fuel (fuel n : nat) (l : bytes) : list bytes :=
  match fuel with
  | O => []
  | S f => match l with [] => [] | _ => firstn n l :: chunks_fuel f n (skipn n l) end
  end.
Definition chunks_of (n : nat) (l : bytes) : list bytes := chunks_fuel (length l) n l.

(** the bodies of the [next] responses of the whole stream: the wire bytes cut
    every [chunk] bytes; an empty stream is one empty final response *)
Definition wire_chunks (c : case) : list bytes :=
  match chunks_of (N.to_nat (c_chunk c)) (c_wire c) with [] => [[]] | l => l end.

Definition nresp (c : case) : nat := length (wire_chunks c).

(** what each response hands to the file writer.  Uncompressed (or stored as
    received): its body.  Decompressing: the decoder's output; which response
    releases which decoded bytes is zstd's business, the model lets the last one
    release everything (the observations do not depend on the segmentation:
    [C10_obs_segmentation_independent]). *)
Definition pieces (c : case) : list bytes :=
  if c_comp c && decompresses (c_puller c)
  then repeat [] (nresp c - 1) ++ [c_stream c]
  else wire_chunks c.

(** number of successful [next] responses, and whether the last carried [last].
    Producer failure after k bytes, uncompressed: [k / chunk] full chunks reach
    the session channel, the one-chunk lookahead delivers all but the last of
    them, then the error; compressed: the encoder has emitted nothing yet (small
    streams), the first request fails. *)
Definition recv (c : case) : nat * bool :=
  match c_fault c with
  | FProducer k => ((if c_comp c then 0 else N.to_nat (k / c_chunk c) - 1)%nat, false)
  | FCut j => if (nresp c <=? N.to_nat j)%nat then (nresp c, true) else (N.to_nat j, false)
  | _ => (nresp c, true)
  end.

Definition proto_of (c : case) : proto :=
  let '(r, clean) := recv c in
  mkProto (firstn r (pieces c)) clean
          (if has_trailer (c_puller c) then Some (N.to_nat (c_trailer c)) else None)
          (has_verify (c_puller c) && match c_fault c with FReject => true | _ => false end)
          (is_async (c_puller c))
          (negb (c_comp c) || (r =? 0)%nat).

Definition run_steps (c : case) : list step * result :=
  let '(steps, res) := protocol (proto_of c) in
  match c_fault c with
  | FKill p n =>
      match cut_at p (N.to_nat n) steps with
      | Some pre => (pre, RKilled)
      | None => (steps, res)
      end
  | _ => (steps, res)
  end.

(** * observations *)
Record obs : Set := mkObs {
  o_res : result;
  o_dst : option bytes;   (* destination content afterwards; for a value pull: the decoded value *)
  o_tmp : bool            (* the temp sibling exists afterwards *)
}.

Definition is_some {A} (o : option A) : bool := match o with Some _ => true | None => false end.

Definition model_file (c : case) : obs :=
  let '(steps, res) := run_steps c in
  let s := apply_steps steps (mkFs (c_dst c) (c_tmp c)) in
  mkObs res (f_dst s) (is_some (f_tmp s)).

(** value pulls.  Blocking: a failing request is a read error inside the
    decoder.  Async: the consumer (here the most hostile one: it returns whatever
    it received as a value) loses against the pull error in [run_pull]. *)
Definition model_value (c : case) : obs :=
  let '(r, clean) := recv c in
  let got := concat (firstn r (pieces c)) in
  let v := if is_async (c_puller c) then run_pull clean (Some got)
           else if clean then Some got else None in
  mkObs (match v with Some _ => ROk | None => RErr end) v false.

Definition model_C10 (c : case) : obs :=
  if is_value (c_puller c) then model_value c else model_file c.

(** * oracle, from the property text *)
Fixpoint bytes_eqb (a b : bytes) : bool :=
  match a, b with
  | [], [] => true
  | x :: a', y :: b' => (x =? y) && bytes_eqb a' b'
  | _, _ => false
  end.
Definition optb_eqb (a b : option bytes) : bool :=
  match a, b with
  | Some x, Some y => bytes_eqb x y
  | None, None => true
  | _, _ => false
  end.
Definition result_eqb (a b : result) : bool :=
  match a, b with ROk, ROk => true | RErr, RErr => true | RKilled, RKilled => true | _, _ => false end.

(** the complete content: the stream, a verified trailer stripped; the wire
    bytes for the puller that stores them as received *)
Definition expected (c : case) : bytes :=
  match c_puller c with
  | PuZstFile => c_wire c
  | PuTrailer | PuATrailer => firstn (length (c_stream c) - N.to_nat (c_trailer c)) (c_stream c)
  | _ => c_stream c
  end.

(** the pull must not publish: producer failure, connection dropped before the
    last response, rejecting verifier, stream shorter than the trailer *)
Definition must_fail (c : case) : bool :=
  match c_fault c with
  | FProducer _ => true
  | FCut j => j <? N.of_nat (nresp c)
  | FReject => has_verify (c_puller c)
  | _ => false
  end
  || (has_trailer (c_puller c) && (N.of_nat (length (c_stream c)) <? c_trailer c)).

(** - success is reported only if nothing was wrong, and then the destination is
      exactly the complete content and no temp file remains;
    - an in-process failure leaves the destination as it was and no temp file;
    - a killed pull leaves the destination as it was or complete, and as it was
      unless the kill point is after the rename. *)
Definition ok_C10 (c : case) (o : obs) : bool :=
  match o_res o with
  | ROk => negb (must_fail c) && optb_eqb (o_dst o) (Some (expected c)) && negb (o_tmp o)
  | RErr => optb_eqb (o_dst o) (c_dst c) && negb (o_tmp o)
  | RKilled =>
      match c_fault c with
      | FKill p _ =>
          (optb_eqb (o_dst o) (c_dst c) || optb_eqb (o_dst o) (Some (expected c))) &&
          match p with PAfterRename => true | _ => optb_eqb (o_dst o) (c_dst c) end
      | _ => false
      end
  end.

(** * domain of the model *)
Definition c10_wf (c : case) : bool :=
  (1 <=? c_chunk c) &&
  (c_comp c || bytes_eqb (c_wire c) (c_stream c)) &&
  (match c_puller c with PuBeveFile | PuZstFile => c_comp c | _ => true end) &&
  (has_trailer (c_puller c) || (c_trailer c =? 0)) &&
  (match c_fault c with
   | FProducer k => (k <=? N.of_nat (length (c_stream c))) && (negb (c_comp c) || (N.of_nat (length (c_stream c)) <? 65536))
   | FKill _ n => (1 <=? n) && negb (is_value (c_puller c))
   | _ => true
   end) &&
  (negb (is_value (c_puller c)) || (negb (is_some (c_dst c)) && negb (is_some (c_tmp c)))).

(** comparison of the model's and the implementation's observations.  One
    field is not determined by the case: in an async pull the consumer thread
    creates the temp file concurrently with the pull loop, so whether it exists
    when the process dies at an [svs.fetch] hit is a race. *)
Definition c10_obs_match (c : case) (m i : obs) : bool :=
  result_eqb (o_res m) (o_res i) && optb_eqb (o_dst m) (o_dst i) &&
  (Bool.eqb (o_tmp m) (o_tmp i) ||
   (is_async (c_puller c) &&
    match c_fault c, o_res m with FKill PFetch _, RKilled => true | _, _ => false end)).
