(** C11 (credit accounting) and C13 (replay ring / resume): observations and
    decidable oracles over a history of TransferControl operations. *)
From RepeV Require Export Model.Stream.

(** what the public API lets an observer see after every operation:
    offsets(), cancel_reason(), peer(), replay_chunks_from(0) *)
Record snap : Set := mkSnap {
  n_sent : N; n_acked : N; n_cancel : option N; n_peer : option N; n_ring : list chunk
}.

Definition snap_of (s : tc) : snap :=
  mkSnap (t_sent s) (t_acked s) (t_cancelled s) (t_peer s) (t_ring s).

Definition trace := list (out * snap).

Definition model_trace (window cap : N) (ops : list op) : trace :=
  map (fun '(r, s) => (r, snap_of s)) (run (init window cap) ops).

Definition optN_eqb (a b : option N) : bool :=
  match a, b with
  | Some x, Some y => x =? y
  | None, None => true
  | _, _ => false
  end.

(** ** C11 *)
Record track11 : Set := mkT11 { k_file : N; k_cancel : option N; k_prev : snap }.

Definition init_snap : snap := mkSnap 0 0 None None [].
Definition init_track11 : track11 := mkT11 0 None init_snap.

Definition step_ok11 (window : N) (k : track11) (o : op) (r : out) (sn : snap) : bool :=
  let p := k_prev k in
  (* the acknowledged offset never exceeds the sent offset *)
  (n_acked sn <=? n_sent sn) &&
  (* cancellation is permanent and its first reason wins *)
  (match k_cancel k with
   | Some c => optN_eqb (n_cancel sn) (Some c)
   | None => match o with
             | Cancel c => optN_eqb (n_cancel sn) (Some c)
             | _ => optN_eqb (n_cancel sn) None
             end
   end) &&
  match o with
  | Ack f n =>
      (* another file's ack, or one at or below the acknowledged offset, releases nothing *)
      (if negb (f =? k_file k) || (n <=? n_acked p)
       then (n_sent sn =? n_sent p) && (n_acked sn =? n_acked p) else true) &&
      (* no ack moves the acknowledged offset backwards or past what was sent *)
      (n_acked p <=? n_acked sn) && (n_sent sn =? n_sent p)
  | Sent n => (n_acked sn =? n_acked p) && (n_sent p <=? n_sent sn)
  | TryCredit len =>
      match k_cancel k with
      | Some c => match r with OCreditCancelled c' => c' =? c | _ => false end
      | None =>
          let inflight := n_sent p - n_acked p in
          let fits := (inflight =? 0) || (inflight + len <=? window) in
          match r with
          | OGranted => fits
          | OCreditTimeout => negb fits
          | _ => false
          end
      end && (n_sent sn =? n_sent p) && (n_acked sn =? n_acked p)
  | TryReconnect =>
      match k_cancel k with
      | Some c => match r with OReconnCancelled c' => c' =? c | _ => false end
      | None => match r with OReconnCancelled _ => false | _ => true end
      end
  | Resume _ _ _ =>
      match k_cancel k with
      | Some _ => match r with ORejCancelled => true | _ => false end
      | None => match r with ORejCancelled => false | _ => true end
      end && (n_sent sn =? n_sent p) && (n_acked p <=? n_acked sn)
  | Advance _ => (n_sent sn =? 0) && (n_acked sn =? 0)
  | _ => (n_sent sn =? n_sent p) && (n_acked sn =? n_acked p)
  end.

Definition next11 (k : track11) (o : op) (sn : snap) : track11 :=
  mkT11 (match o with Advance f => f | _ => k_file k end)
        (match k_cancel k, o with
         | None, Cancel c => Some c
         | c, _ => c
         end)
        sn.

Fixpoint check11 (window : N) (k : track11) (ops : list op) (tr : trace) : bool :=
  match ops, tr with
  | [], [] => true
  | o :: ops', (r, sn) :: tr' => step_ok11 window k o r sn && check11 window (next11 k o sn) ops' tr'
  | _, _ => false
  end.

Definition ok_C11 (window : N) (ops : list op) (tr : trace) : bool :=
  check11 window init_track11 ops tr.

(** ** C13 *)
Definition chunk_eqb (a b : chunk) : bool :=
  (ck_off a =? ck_off b) && (ck_len a =? ck_len b) && Bool.eqb (ck_last a) (ck_last b) &&
  (fix beq (x y : list byte) : bool :=
     match x, y with
     | [], [] => true
     | p :: x', q :: y' => (p =? q) && beq x' y'
     | _, _ => false
     end) (ck_body a) (ck_body b).

Fixpoint chunks_eqb (a b : list chunk) : bool :=
  match a, b with
  | [], [] => true
  | x :: a', y :: b' => chunk_eqb x y && chunks_eqb a' b'
  | _, _ => false
  end.

(** [is_suffix a b]: [a] is a suffix of [b] *)
Fixpoint is_suffix (a b : list chunk) : bool :=
  chunks_eqb a b || match b with [] => false | _ :: b' => is_suffix a b' end.

Fixpoint contiguous (cs : list chunk) : bool :=
  match cs with
  | a :: ((b :: _) as rest) => (ck_end a =? ck_off b) && contiguous rest
  | _ => true
  end.

Definition sum_wire (cs : list chunk) : N := fold_right (fun c acc => wire c + acc) 0 cs.

Record track13 : Set := mkT13 {
  j_file : N; j_cancel : bool; j_pushed : list chunk;   (* pushes since the last advance *)
  j_pending : option N; j_prev : snap; j_accepted : option N  (* offset of a resume accepted by the previous step *)
}.
Definition init_track13 : track13 := mkT13 0 false [] None init_snap None.

Definition last_end (pushed : list chunk) : N :=
  match pushed with [] => 0 | _ => ck_end (last pushed (mkChunk 0 0 false [])) end.

Definition step_ok13 (cap : N) (k : track13) (o : op) (r : out) (sn : snap) : bool :=
  let p := j_prev k in
  let pushed' := match o with
                 | Push off len lst body => j_pushed k ++ [mkChunk off len lst body]
                 | Advance _ => []
                 | _ => j_pushed k
                 end in
  (* the buffer is a contiguous run of the most recent emissions, oldest evicted first *)
  is_suffix (n_ring sn) pushed' &&
  (* bounded: at most one chunk, or within the byte capacity *)
  ((N.of_nat (length (n_ring sn)) <=? 1) || (sum_wire (n_ring sn) <=? cap)) &&
  (* the most recent chunk is always retained *)
  (match pushed' with [] => true | _ => negb (N.of_nat (length (n_ring sn)) =? 0) end) &&
  match o with
  | Resume _ f n =>
      let acceptable :=
        negb (j_cancel k) && (f =? j_file k) &&
        (match n_ring p with
         | [] => n =? 0
         | ring => existsb (fun c => ck_off c =? n) ring || (last_end ring =? n)
         end) in
      match r with
      | OResumeOk n' => acceptable && (n' =? n) && optN_eqb (n_peer sn) (match o with Resume pr _ _ => Some pr | _ => None end)
      | ORejCancelled | ORejWrongFile _ _ | ORejOutOfWindow => negb acceptable && optN_eqb (n_peer sn) (n_peer p)
      | _ => false
      end
  | Replay n =>
      match r with
      | OChunks cs =>
          match j_accepted k with
          | Some a =>
              if a =? n then
                (* gapless tail: starts exactly at the accepted offset, contiguous,
                   byte-identical to what was pushed, up to the last byte emitted *)
                is_suffix cs (j_pushed k) &&
                match cs with
                | [] => last_end (j_pushed k) =? n
                | c :: _ => (ck_off c =? n)
                end
              else true
          | None => true
          end
      | _ => false
      end
  | TryReconnect =>
      match r with
      | OResumeReady n => negb (j_cancel k) && optN_eqb (j_pending k) (Some n)
      | OReconnTimeout => negb (j_cancel k) && optN_eqb (j_pending k) None
      | OReconnCancelled _ => j_cancel k
      | _ => false
      end
  | Advance _ => N.of_nat (length (n_ring sn)) =? 0
  | _ => true
  end.

Definition next13 (k : track13) (o : op) (r : out) (sn : snap) : track13 :=
  mkT13 (match o with Advance f => f | _ => j_file k end)
        (match o with Cancel _ => true | _ => j_cancel k end)
        (match o with
         | Push off len lst body => j_pushed k ++ [mkChunk off len lst body]
         | Advance _ => []
         | _ => j_pushed k
         end)
        (match o, r with
         | Advance _, _ => None
         | Resume _ _ _, OResumeOk n => Some n
         | TryReconnect, OResumeReady _ => None
         | _, _ => j_pending k
         end)
        sn
        (match o, r with Resume _ _ _, OResumeOk n => Some n | _, _ => None end).

Fixpoint check13 (cap : N) (k : track13) (ops : list op) (tr : trace) : bool :=
  match ops, tr with
  | [], [] => true
  | o :: ops', (r, sn) :: tr' => step_ok13 cap k o r sn && check13 cap (next13 k o r sn) ops' tr'
  | _, _ => false
  end.

Definition ok_C13 (cap : N) (ops : list op) (tr : trace) : bool :=
  check13 cap init_track13 ops tr.

(** histories inside the quantifier: pushes abut (the documented producer loop),
    offsets stay below 2^64, 64-bit values *)
Fixpoint pushes_ok (endo : option N) (ops : list op) : bool :=
  match ops with
  | [] => true
  | Push off len _ body :: ops' =>
      (match endo with Some e => off =? e | None => true end) &&
      (off + len <? two64) && bytes_ok body && pushes_ok (Some (off + len)) ops'
  | Advance _ :: ops' => pushes_ok None ops'
  | _ :: ops' => pushes_ok endo ops'
  end.

Definition op_ok (o : op) : bool :=
  match o with
  | Sent n | Replay n | TryCredit n => n <? two64
  | Ack f n => (f <? two32) && (n <? two64)
  | Advance f => f <? two32
  | Resume p f n => (p <? two64) && (f <? two32) && (n <? two64)
  | Cancel r | SetPeer r => r <? two64
  | Push off len _ _ => (off <? two64) && (len <? two64)
  | TryReconnect => true
  end.

Definition hist_ok (window cap : N) (ops : list op) : bool :=
  (window <? two64) && (cap <? two64) && forallb op_ok ops && pushes_ok None ops.
