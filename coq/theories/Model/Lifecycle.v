(** Model of one WebSocket connection's lifecycle (src/websocket_server.rs,
    [handle_connection_with_config] and [DisconnectGuard]): the handshake, the
    disconnect guard built BEFORE the connect hooks, the plain connect hooks,
    the registry insert hook of [with_peer_registry], the handshake-aware
    hooks, the reader (requests, an inline handler, a parked off-reader
    handler, a flooded outbound queue), the exit cause, and the guard's drop
    (cancel the token, then the disconnect hooks in registration order, among
    them the registry's remove hook).

    The model is thin.  Its one substantial rule is R5: a constructed guard
    contributes exactly one drop at scope exit, whatever ends the scope
    (return, [?], panic unwind, the future dropped by an abort).  [run] builds
    that rule in by appending [drop_evs] exactly once after [EGuardBuilt];
    that Rust and tokio behave so is what the harness exercises. *)
From RepeV Require Export Base.Word Model.Peers.

(** what an observable connect hook does (after being counted) *)
Inductive hact : Set :=
| ACount                 (* nothing else *)
| ANotify (k : N)        (* queues k notifies through the peer handle *)
| ASleep                 (* blocks for a while *)
| APanic                 (* panics *)
| AAlias (key : N).      (* attaches an alias key to the peer in the registry *)

Inductive cause : Set :=
| CleanClose | SocketLoss | ProtocolViolation | Malformed | HandlerPanic
| EmbedderCancel | DrainAbort.

Inductive phase : Set := PIdle | PInline | POffReader | PQueue | PHooks.

(** how the connection is served (harness only; the model does not depend on it) *)
Inductive mode : Set := MListener | MDrain | MServeConn | MAdopt.

Record scenario : Set := mkScenario {
  s_mode : mode;
  s_hs : bool;              (* the handshake succeeds *)
  s_ctx : bool;             (* a HandshakeContext reaches the connection *)
  s_pre : list hact;        (* on_peer_connect hooks registered before with_peer_registry *)
  s_reg : bool;             (* with_peer_registry attached *)
  s_post : list hact;       (* on_peer_connect hooks registered after it *)
  s_xh : list hact;         (* on_peer_connect_with_handshake hooks *)
  s_dpre : nat;             (* on_peer_disconnect hooks registered before with_peer_registry *)
  s_dpost : nat;            (* ... and after *)
  s_cause : cause;
  s_phase : phase;
  s_reqs : N;               (* small requests answered before the phase is entered *)
  s_flood : N;              (* notifies pushed by the flooding handler (PQueue) *)
  s_sibling : bool          (* a sibling connection under the same server / trigger ended earlier *)
}.

Inductive exitc : Set := XCause (c : cause) | XHookPanic (i : nat).

(** messages entering the connection's one outbound FIFO *)
Inductive omsg : Set :=
| OHookNotify (hook : nat) (q : N)
| OResponse (id : N)
| OPush (q : N).

Inductive ev : Set :=
| EHandshake (ok : bool)
| EGuardBuilt
| EConnect (i : nat)          (* the i-th observable connect hook is entered *)
| ERegInsert | ERegAlias (key : N) | ERegRemove
| EQueue (m : omsg)
| EReaderStart
| ERequest (id : N)
| EInlineStart | EInlineEnd
| EOffStart | EOffSeesCancel
| EArrive (c : cause)         (* the exit cause is raised *)
| EExit (x : exitc)           (* the guard's scope is left *)
| ECancel                     (* DisconnectGuard::drop cancels the connection token *)
| EDisconnect (j : nat).      (* the j-th observable disconnect hook runs *)

Definition nseq (k : N) : list N := map N.of_nat (seq 0 (N.to_nat k)).

(** the steps of the connect phase, in execution order *)
Inductive cstep : Set := CHook (i : nat) (h : hact) | CReg.

Fixpoint number (i : nat) (hs : list hact) : list cstep :=
  match hs with [] => [] | h :: r => CHook i h :: number (S i) r end.

Definition eff_xh (s : scenario) : list hact := if s_ctx s then s_xh s else [].

Definition script (s : scenario) : list cstep :=
  number 0 (s_pre s) ++ (if s_reg s then [CReg] else []) ++
  number (length (s_pre s)) (s_post s ++ eff_xh s).

(** hooks run synchronously one after the other; a panicking hook is the last step *)
Fixpoint upto_panic (l : list cstep) : list cstep :=
  match l with
  | [] => []
  | CHook i APanic :: _ => [CHook i APanic]
  | c :: r => c :: upto_panic r
  end.

Fixpoint panic_idx (l : list cstep) : option nat :=
  match l with
  | [] => None
  | CHook i APanic :: _ => Some i
  | _ :: r => panic_idx r
  end.

Definition hact_evs (i : nat) (h : hact) : list ev :=
  match h with
  | ANotify k => map (fun q => EQueue (OHookNotify i q)) (nseq k)
  | AAlias key => [ERegAlias key]
  | _ => []
  end.

Definition cstep_evs (c : cstep) : list ev :=
  match c with
  | CReg => [ERegInsert]
  | CHook i h => EConnect i :: hact_evs i h
  end.

Definition hookpart (s : scenario) : list ev := flat_map cstep_evs (upto_panic (script s)).

Definition token_cause (c : cause) : bool :=
  match c with EmbedderCancel | DrainAbort => true | _ => false end.

Definition pings (n : N) : list ev :=
  flat_map (fun id => [ERequest id; EQueue (OResponse id)]) (nseq n).

Definition is_PHooks (p : phase) : bool := match p with PHooks => true | _ => false end.
Definition is_POff (p : phase) : bool := match p with POffReader => true | _ => false end.

(** from the end of the connect hooks to the moment the guard's scope is left *)
Definition body (s : scenario) : list ev :=
  let c := s_cause s in
  let n := s_reqs s in
  (match s_phase s with
   | PHooks => if token_cause c then [] else EReaderStart :: pings n
   | PIdle => EReaderStart :: pings n ++ [EArrive c]
   | PInline =>
       EReaderStart :: pings n ++ [ERequest n; EInlineStart; EArrive c; EInlineEnd] ++
       (match c with HandlerPanic => [] | _ => [EQueue (OResponse n)] end)
   | POffReader =>
       EReaderStart :: pings n ++ [ERequest n; EOffStart; EArrive c] ++
       (if token_cause c then [EOffSeesCancel] else [])
   | PQueue =>
       EReaderStart :: pings n ++ [ERequest n] ++
       map (fun q => EQueue (OPush q)) (nseq (s_flood s)) ++ [EQueue (OResponse n); EArrive c]
   end) ++ [EExit (XCause c)].

Fixpoint disc_evs (j n : nat) : list ev :=
  match n with O => [] | S n' => EDisconnect j :: disc_evs (S j) n' end.

(** a parked off-reader handler that has not yet seen the token cancelled sees
    it as soon as the guard cancels it *)
Definition off_pending (s : scenario) : bool :=
  is_POff (s_phase s) && negb (token_cause (s_cause s)) &&
  match panic_idx (script s) with None => true | Some _ => false end.

(** R5: the drop of the guard *)
Definition drop_evs (s : scenario) : list ev :=
  ECancel :: (if off_pending s then [EOffSeesCancel] else []) ++
  disc_evs 0 (s_dpre s) ++ (if s_reg s then [ERegRemove] else []) ++
  disc_evs (s_dpre s) (s_dpost s).

Definition run (s : scenario) : list ev :=
  EHandshake (s_hs s) ::
  if s_hs s then
    EGuardBuilt ::
    (if is_PHooks (s_phase s) then [EArrive (s_cause s)] else []) ++
    hookpart s ++
    (match panic_idx (script s) with
     | Some i => [EExit (XHookPanic i)]
     | None => body s
     end) ++
    drop_evs s
  else [].

(** ** the registry as seen from this one peer: present?  which alias keys? *)
Record rview : Set := mkRv { rv_present : bool; rv_keys : list N }.
Definition rv0 : rview := mkRv false [].

Definition rv_step (v : rview) (e : ev) : rview :=
  match e with
  | ERegInsert => mkRv true (rv_keys v)
  | ERegAlias k =>
      if rv_present v then (if memN k (rv_keys v) then v else mkRv true (rv_keys v ++ [k])) else v
  | ERegRemove => mkRv false []
  | _ => v
  end.

Definition rv_after (v : rview) (tr : list ev) : rview := fold_left rv_step tr v.

(** the same events applied to the registry specification of C18 *)
Definition reg_step (id : N) (st : pspec) (e : ev) : pspec :=
  match e with
  | ERegInsert => fst (sstep st (PInsert id))
  | ERegAlias k => fst (sstep st (PAlias id k))
  | ERegRemove => fst (sstep st (PRemove id))
  | _ => st
  end.
Definition reg_after (id : N) (st : pspec) (tr : list ev) : pspec := fold_left (reg_step id) tr st.

(** ** observations *)
Inductive hev : Set :=
| HC (i : nat) (present : bool)               (* connect hook i entered; registry.get(id) there *)
| HK                                          (* the parked handler saw is_cancelled() *)
| HD (j : nat) (present : bool) (aliases : N). (* disconnect hook j; get(id); resolving aliases *)

Inductive wframe : Set := WN (hook : nat) (q : N) | WR | WO.

Record obs : Set := mkObs {
  o_trace : list hev;        (* callbacks of one connection ordered by a global sequence counter *)
  o_after : bool * N;        (* get(id), resolving aliases, after the connection ended *)
  o_wire : list wframe;      (* frames seen by the raw client up to and including the first response *)
  o_seen : option bool       (* parked handler: saw cancellation?  None: none was started *)
}.

Fixpoint proj (v : rview) (tr : list ev) : list hev :=
  match tr with
  | [] => []
  | e :: tr' =>
      let rest := proj (rv_step v e) tr' in
      match e with
      | EConnect i => HC i (rv_present v) :: rest
      | EOffSeesCancel => HK :: rest
      | EDisconnect j => HD j (rv_present v) (N.of_nat (length (rv_keys v))) :: rest
      | _ => rest
      end
  end.

Definition outq (tr : list ev) : list omsg :=
  flat_map (fun e => match e with EQueue m => [m] | _ => [] end) tr.

Definition wframe_of (m : omsg) : wframe :=
  match m with OHookNotify i q => WN i q | OResponse _ => WR | OPush _ => WO end.

Fixpoint upto_resp (l : list wframe) : list wframe :=
  match l with
  | [] => []
  | WR :: _ => [WR]
  | f :: r => f :: upto_resp r
  end.

Definition is_offstart (e : ev) : bool := match e with EOffStart => true | _ => false end.
Definition is_offsees (e : ev) : bool := match e with EOffSeesCancel => true | _ => false end.

Definition observe_run (tr : list ev) : obs :=
  let v := rv_after rv0 tr in
  mkObs (proj rv0 tr)
        (rv_present v, N.of_nat (length (rv_keys v)))
        (upto_resp (map wframe_of (outq tr)))
        (if existsb is_offstart tr then Some (existsb is_offsees tr) else None).

Definition model_C15 (s : scenario) : obs := observe_run (run s).

(** ** the oracle, from the property text *)
Definition oh (s : scenario) : list hact := s_pre s ++ s_post s ++ eff_xh s.
Definition ndisc (s : scenario) : nat := (s_dpre s + s_dpost s)%nat.

Definition hc_indices (tr : list hev) : list nat :=
  flat_map (fun e => match e with HC i _ => [i] | _ => [] end) tr.
Definition hd_indices (tr : list hev) : list nat :=
  flat_map (fun e => match e with HD j _ _ => [j] | _ => [] end) tr.
Definition is_hd (e : hev) : bool := match e with HD _ _ _ => true | _ => false end.

(** once a disconnect hook has run, nothing but disconnect hooks follows *)
Fixpoint order_ok (tr : list hev) : bool :=
  match tr with
  | [] => true
  | HD _ _ _ :: r => forallb is_hd r
  | _ :: r => order_ok r
  end.

Definition is_panic (h : hact) : bool := match h with APanic => true | _ => false end.
Definition is_alias (h : hact) : bool := match h with AAlias _ => true | _ => false end.
Definition nalias (l : list hact) : N := N.of_nat (length (filter is_alias l)).

(** the registry's insert hook ran: every hook registered before it ran and returned *)
Definition inserted (s : scenario) (nran : nat) : bool :=
  s_reg s && (length (s_pre s) <=? nran)%nat && negb (existsb is_panic (s_pre s)).

Definition sample_ok (s : scenario) (nran : nat) (e : hev) : bool :=
  match e with
  | HC i p => Bool.eqb p (s_reg s && (length (s_pre s) <=? i)%nat)
  | HK => true
  | HD j p a =>
      let w := inserted s nran && (j <? s_dpre s)%nat in
      Bool.eqb p w && (a =? (if w then nalias (firstn nran (oh s)) else 0))
  end.

Fixpoint expected_notifies (i : nat) (hs : list hact) : list wframe :=
  match hs with
  | [] => []
  | h :: r =>
      (match h with ANotify k => map (WN i) (nseq k) | _ => [] end) ++ expected_notifies (S i) r
  end.

Definition wframe_eqb (a b : wframe) : bool :=
  match a, b with
  | WN i q, WN i' q' => (i =? i')%nat && (q =? q')
  | WR, WR => true
  | WO, WO => true
  | _, _ => false
  end.

(** the frames are the expected notifies, all of them and in order, followed by
    the response; or, when no response arrived, a prefix of them *)
Fixpoint wire_ok (exp w : list wframe) : bool :=
  match w with
  | [] => true
  | WR :: r => (match exp with [] => true | _ => false end) && (match r with [] => true | _ => false end)
  | f :: r => match exp with e :: exp' => wframe_eqb f e && wire_ok exp' r | [] => false end
  end.

Definition nat_list_eqb (a b : list nat) : bool := list_eqb Nat.eqb a b.

Definition ok_C15 (s : scenario) (o : obs) : bool :=
  let tr := o_trace o in
  if s_hs s then
    let nran := length (hc_indices tr) in
    (* each disconnect callback exactly once, in registration order *)
    nat_list_eqb (hd_indices tr) (seq 0 (ndisc s)) &&
    (* after every connect callback that ran, and after the cancellation was observable *)
    order_ok tr &&
    (* connect callbacks in registration order, each at most once *)
    nat_list_eqb (hc_indices tr) (seq 0 nran) && (nran <=? length (oh s))%nat &&
    (* the peer and its aliases: present from the insert hook until the remove hook *)
    forallb (sample_ok s nran) tr &&
    (* ... and absent afterwards *)
    negb (fst (o_after o)) && (snd (o_after o) =? 0) &&
    (* notifies queued by connect callbacks precede every response *)
    wire_ok (expected_notifies 0 (firstn nran (oh s))) (o_wire o) &&
    (* a handler still running when the connection ended observed cancellation *)
    (match o_seen o with Some false => false | _ => true end)
  else
    (match tr with [] => true | _ => false end) &&
    negb (fst (o_after o)) && (snd (o_after o) =? 0) &&
    (match o_wire o with [] => true | _ => false end) &&
    (match o_seen o with None => true | _ => false end).

(** ** well-formed cases *)
Definition alias_keys (l : list hact) : list N :=
  flat_map (fun h => match h with AAlias k => [k] | _ => [] end) l.

Fixpoint nodupN (l : list N) : bool :=
  match l with [] => true | x :: r => negb (memN x r) && nodupN r end.

Definition hact_small (h : hact) : bool := match h with ANotify k => k <=? 64 | _ => true end.

Definition c15_wf (s : scenario) : bool :=
  negb (existsb is_alias (s_pre s)) &&
  (s_reg s || negb (existsb is_alias (s_post s ++ s_xh s))) &&
  nodupN (alias_keys (s_post s ++ s_xh s)) &&
  forallb hact_small (s_pre s ++ s_post s ++ s_xh s) &&
  (length (s_pre s ++ s_post s ++ s_xh s) <=? 16)%nat && (s_dpre s + s_dpost s <=? 16)%nat &&
  (if is_PHooks (s_phase s) then token_cause (s_cause s) && (s_reqs s =? 0)
   else (1 <=? s_reqs s) && (s_reqs s <=? 8)) &&
  (s_flood s <=? 4096) &&
  (match s_mode s with
   | MListener => negb (token_cause (s_cause s)) && (s_ctx s || match s_xh s with [] => true | _ => false end)
   | MDrain => s_ctx s || match s_xh s with [] => true | _ => false end
   | _ => true
   end).

(** ** comparison of a model observation with an implementation observation:
    equal, except that when no response is due (a hook panicked, or the
    connection was cancelled inside the connect hooks) the writer may be torn
    down early, so the client may have seen only a prefix of the notifies *)
Definition hev_eqb (a b : hev) : bool :=
  match a, b with
  | HC i p, HC i' p' => (i =? i')%nat && Bool.eqb p p'
  | HK, HK => true
  | HD j p a, HD j' p' a' => (j =? j')%nat && Bool.eqb p p' && (a =? a')
  | _, _ => false
  end.

Fixpoint is_prefix (a b : list wframe) : bool :=
  match a, b with
  | [], _ => true
  | x :: a', y :: b' => wframe_eqb x y && is_prefix a' b'
  | _ :: _, [] => false
  end.

Definition is_WR (f : wframe) : bool := match f with WR => true | _ => false end.

Definition optb_eqb (a b : option bool) : bool :=
  match a, b with Some x, Some y => Bool.eqb x y | None, None => true | _, _ => false end.

Definition c15_obs_match (m i : obs) : bool :=
  list_eqb hev_eqb (o_trace m) (o_trace i) &&
  Bool.eqb (fst (o_after m)) (fst (o_after i)) && (snd (o_after m) =? snd (o_after i)) &&
  (if existsb is_WR (o_wire m) then list_eqb wframe_eqb (o_wire m) (o_wire i)
   else is_prefix (o_wire i) (o_wire m)) &&
  optb_eqb (o_seen m) (o_seen i).

(** ** a connection that survives a sibling

    Connections are independent: [run] does not look at [s_sibling].  The
    staggered cases of the harness end one connection while its siblings (same
    server, same shutdown trigger) stay in their phase, and observe each
    survivor BEFORE its own exit cause is raised: the events of its run before
    [EArrive]. *)
Definition set_sibling (b : bool) (s : scenario) : scenario :=
  mkScenario (s_mode s) (s_hs s) (s_ctx s) (s_pre s) (s_reg s) (s_post s) (s_xh s) (s_dpre s) (s_dpost s)
             (s_cause s) (s_phase s) (s_reqs s) (s_flood s) b.

Definition is_arrive (e : ev) : bool := match e with EArrive _ => true | _ => false end.

Fixpoint before_arrive (tr : list ev) : list ev :=
  match tr with
  | [] => []
  | e :: r => if is_arrive e then [] else e :: before_arrive r
  end.

Record mobs : Set := mkMobs {
  m_disc : N;               (* disconnect callbacks so far *)
  m_present : bool;         (* registry.get(id) *)
  m_aliases : N;            (* resolving aliases *)
  m_seen : option bool;     (* parked handler: saw cancellation?  None: none parked *)
  m_alive : bool;           (* a fresh request is answered *)
  m_trigger : bool;         (* the connection's token / the embedder's ShutdownToken reads cancelled *)
  m_new : bool              (* a connection opened now runs its connect hooks and is served *)
}.

Definition is_disc_ev (e : ev) : bool := match e with EDisconnect _ => true | _ => false end.
Definition is_cancel_ev (e : ev) : bool := match e with ECancel => true | _ => false end.
Definition is_reader_ev (e : ev) : bool := match e with EReaderStart => true | _ => false end.
Definition is_exit_ev (e : ev) : bool := match e with EExit _ => true | _ => false end.

Definition observe_mid (tr : list ev) : mobs :=
  let v := rv_after rv0 tr in
  mkMobs (N.of_nat (length (filter is_disc_ev tr)))
         (rv_present v) (N.of_nat (length (rv_keys v)))
         (if existsb is_offstart tr then Some (existsb is_offsees tr) else None)
         (existsb is_reader_ev tr && negb (existsb is_exit_ev tr))
         (existsb is_cancel_ev tr)
         true.

Definition model_mid (s : scenario) : mobs := observe_mid (before_arrive (run s)).

(** from the property text: the connection has not ended, so no disconnect
    callback has run, the peer and all its aliases are registered, no handler
    has been told to stop, it still serves, and nothing a sibling did reached
    the shared trigger or later connections *)
Definition ok_mid (s : scenario) (m : mobs) : bool :=
  let ins := inserted s (length (oh s)) in
  (m_disc m =? 0) && Bool.eqb (m_present m) ins &&
  (m_aliases m =? (if ins then nalias (oh s) else 0)) &&
  (match m_seen m with Some true => false | _ => true end) &&
  m_alive m && negb (m_trigger m) && m_new m.

Definition c15_stag_wf (s : scenario) : bool :=
  c15_wf s && s_hs s && negb (existsb is_panic (s_pre s ++ s_post s ++ s_xh s)) &&
  (match s_phase s with PIdle | POffReader => true | _ => false end).

Definition mobs_eqb (a b : mobs) : bool :=
  (m_disc a =? m_disc b) && Bool.eqb (m_present a) (m_present b) && (m_aliases a =? m_aliases b) &&
  optb_eqb (m_seen a) (m_seen b) && Bool.eqb (m_alive a) (m_alive b) &&
  Bool.eqb (m_trigger a) (m_trigger b) && Bool.eqb (m_new a) (m_new b).
