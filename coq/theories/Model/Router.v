(** Model of [Router] (src/server.rs): registration of exact routes, mounted
    registries, mounted structs and middleware; [Router::get]; the relative
    path a mount computes; and the property oracle for C07.
    A handler is an identifier; a dispatched slot is (handler id, middleware
    ids wrapped around it, outermost first). *)
From RepeV Require Export Model.JsonPtr.

Fixpoint strip_prefix (pre s : str) : option str :=
  match pre, s with
  | [], _ => Some s
  | a :: pre', b :: s' => if a =? b then strip_prefix pre' s' else None
  | _ :: _, [] => None
  end.

Definition starts_with_slash (s : str) : bool :=
  match s with c :: _ => c =? 47 | [] => false end.

(** [RegistryEntry::matches] / [StructEntry::matches] *)
Definition matches (pre path : str) : bool :=
  match pre with
  | [] => true
  | _ =>
      if str_eqb path pre then true
      else match strip_prefix pre path with
           | Some rest => starts_with_slash rest
           | None => false
           end
  end.

(** [RegisteredStruct::new]: "" and "/" become ""; a missing leading '/' is added *)
Definition norm_root (root : str) : str :=
  match root with
  | [] => []
  | c :: r => if c =? 47 then match r with [] => [] | _ => root end else 47 :: root
  end.

(** [trim_end_matches('/')] *)
Fixpoint trim_end_slashes (s : str) : str :=
  match s with
  | [] => []
  | c :: s' =>
      match trim_end_slashes s' with
      | [] => if c =? 47 then [] else [c]
      | r => c :: r
      end
  end.

(** [RegisteredRegistry::new]: as for structs, then (if longer than one byte)
    all trailing '/' are removed *)
Definition norm_prefix (p : str) : str :=
  match norm_root p with
  | a :: b :: r => trim_end_slashes (a :: b :: r)
  | n => n
  end.

(** [RegisteredRegistry::pointer_for] *)
Definition registry_pointer (pre path : str) : option str :=
  match pre with
  | [] => Some (match path with [] => [47] | _ => path end)
  | _ =>
      if str_eqb path pre then Some [47]
      else match strip_prefix pre path with
           | Some rest => if starts_with_slash rest then Some rest else None
           | None => None
           end
  end.

(** [RegisteredStruct::relative_pointer] *)
Definition struct_relative (root path : str) : option str :=
  match root with
  | [] => Some path
  | _ =>
      if str_eqb path root then Some []
      else match strip_prefix root path with
           | Some rest => if starts_with_slash rest then Some rest else None
           | None => None
           end
  end.

(** ** the router *)
Record entry : Set := mkEntry {
  e_key : str;                  (* exact path / normalised prefix / normalised root *)
  e_raw : N;                    (* the handler as registered *)
  e_disp : N * list N           (* the dispatched slot *)
}.

(** [wrap_with_middlewares] (an empty chain stands for the bare handler) *)
Definition wrap (raw : N) (mws : list N) : N * list N := (raw, mws).

Record router : Set := mkRouter {
  r_map : list entry;           (* HashMap<String, RouterMapEntry>: lookup by key only *)
  r_regs : list entry;          (* Vec<RegistryEntry>, registration order *)
  r_structs : list entry;       (* Vec<StructEntry>, registration order *)
  r_mws : list N                (* Vec<Arc<dyn Middleware>>, registration order *)
}.

Definition router_empty : router := mkRouter [] [] [] [].

Fixpoint map_insert (m : list entry) (e : entry) : list entry :=
  match m with
  | [] => [e]
  | x :: m' => if str_eqb (e_key x) (e_key e) then e :: m' else x :: map_insert m' e
  end.

Fixpoint map_get (m : list entry) (k : str) : option entry :=
  match m with
  | [] => None
  | x :: m' => if str_eqb (e_key x) k then Some x else map_get m' k
  end.

Inductive rop : Set :=
| AddRoute (path : str) (h : N)
| AddRegistry (prefix : str) (h : N)
| AddStruct (root : str) (h : N)
| AddMw (m : N).

Definition rebuild (mws : list N) (e : entry) : entry :=
  mkEntry (e_key e) (e_raw e) (wrap (e_raw e) mws).

Definition rstep (r : router) (o : rop) : router :=
  match o with
  | AddRoute p h =>
      mkRouter (map_insert (r_map r) (mkEntry p h (wrap h (r_mws r)))) (r_regs r) (r_structs r) (r_mws r)
  | AddRegistry p h =>
      mkRouter (r_map r) (r_regs r ++ [mkEntry (norm_prefix p) h (wrap h (r_mws r))]) (r_structs r) (r_mws r)
  | AddStruct p h =>
      mkRouter (r_map r) (r_regs r) (r_structs r ++ [mkEntry (norm_root p) h (wrap h (r_mws r))]) (r_mws r)
  | AddMw m =>
      let mws := r_mws r ++ [m] in
      mkRouter (map (rebuild mws) (r_map r)) (map (rebuild mws) (r_regs r))
               (map (rebuild mws) (r_structs r)) mws
  end.

Definition run_ops (ops : list rop) : router := fold_left rstep ops router_empty.

Inductive rkind : Set := KRoute | KReg | KStruct.

(** [Router::get] *)
Definition router_get (r : router) (path : str) : option (rkind * entry) :=
  match map_get (r_map r) path with
  | Some e => Some (KRoute, e)
  | None =>
      match find (fun e => matches (e_key e) path) (r_regs r) with
      | Some e => Some (KReg, e)
      | None =>
          match find (fun e => matches (e_key e) path) (r_structs r) with
          | Some e => Some (KStruct, e)
          | None => None
          end
      end
  end.

(** what a request for [path] reaches: which handler, behind which middleware
    chain, and what a mount makes of the path *)
Inductive answer : Set :=
| ANone
| ARoute (h : N) (mws : list N)
| AReg (h : N) (mws : list N) (ptr : option str)
| AStruct (h : N) (mws : list N) (segs : option (list str)).

Definition lookup (r : router) (path : str) : answer :=
  match router_get r path with
  | None => ANone
  | Some (KRoute, e) => ARoute (fst (e_disp e)) (snd (e_disp e))
  | Some (KReg, e) => AReg (fst (e_disp e)) (snd (e_disp e)) (registry_pointer (e_key e) path)
  | Some (KStruct, e) =>
      AStruct (fst (e_disp e)) (snd (e_disp e))
              (match struct_relative (e_key e) path with
               | Some rel => Some (struct_segments rel)
               | None => None
               end)
  end.

Definition model_C07 (ops : list rop) (paths : list str) : list answer :=
  map (lookup (run_ops ops)) paths.

(** ** the oracle, from the property text and the registration history *)

Fixpoint prefix_of (a b : str) : bool :=
  match a, b with
  | [], _ => true
  | x :: a', y :: b' => (x =? y) && prefix_of a' b'
  | _ :: _, [] => false
  end.

(** the mount at [pre] covers [p]: everything if [pre] is empty, else [p]
    equals [pre] or extends it at a '/' boundary *)
Definition covers (pre p : str) : bool :=
  match pre with [] => true | _ => str_eqb p pre || prefix_of (pre ++ [47]) p end.

Fixpoint last_route (ops : list rop) (p : str) : option N :=
  match ops with
  | [] => None
  | o :: ops' =>
      match last_route ops' p with
      | Some h => Some h
      | None => match o with
                | AddRoute q h => if str_eqb q p then Some h else None
                | _ => None
                end
      end
  end.

Fixpoint mws_of (ops : list rop) : list N :=
  match ops with
  | [] => []
  | AddMw m :: ops' => m :: mws_of ops'
  | _ :: ops' => mws_of ops'
  end.

Fixpoint regs_of (ops : list rop) : list (str * N) :=
  match ops with
  | [] => []
  | AddRegistry p h :: ops' => (norm_prefix p, h) :: regs_of ops'
  | _ :: ops' => regs_of ops'
  end.

Fixpoint structs_of (ops : list rop) : list (str * N) :=
  match ops with
  | [] => []
  | AddStruct p h :: ops' => (norm_root p, h) :: structs_of ops'
  | _ :: ops' => structs_of ops'
  end.

Fixpoint listN_eqb (a b : list N) : bool :=
  match a, b with
  | [], [] => true
  | x :: a', y :: b' => (x =? y) && listN_eqb a' b'
  | _, _ => false
  end.

(** ** definitions used in the statements about the router *)

(** the plain statement of "covers": everything, or equality, or extension at a '/' *)
Definition covers_prop (pre p : str) : Prop :=
  pre = [] \/ p = pre \/ exists r, p = pre ++ 47 :: r.

Definition all_entries (r : router) : list entry := r_map r ++ r_regs r ++ r_structs r.

(** the answer as a function of the registration history: the latest exact
    route for the path, else the first registry in registration order whose
    prefix matches, else the first struct *)
Definition spec_lookup (ops : list rop) (p : str) : answer :=
  let mws := mws_of ops in
  match last_route ops p with
  | Some h => ARoute h mws
  | None =>
      match find (fun m => matches (fst m) p) (regs_of ops) with
      | Some (pre, h) => AReg h mws (registry_pointer pre p)
      | None =>
          match find (fun m => matches (fst m) p) (structs_of ops) with
          | Some (pre, h) =>
              AStruct h mws (match struct_relative pre p with
                             | Some rel => Some (struct_segments rel)
                             | None => None
                             end)
          | None => ANone
          end
      end
  end.

Definition no_cover (l : list (str * N)) (p : str) : Prop := forall m, In m l -> ~ covers_prop (fst m) p.

Fixpoint hids (ops : list rop) : list N :=
  match ops with
  | [] => []
  | AddRoute _ h :: ops' => h :: hids ops'
  | AddRegistry _ h :: ops' => h :: hids ops'
  | AddStruct _ h :: ops' => h :: hids ops'
  | AddMw _ :: ops' => hids ops'
  end.

Definition answered_by (a : answer) : option N :=
  match a with
  | ANone => None
  | ARoute h _ => Some h
  | AReg h _ _ => Some h
  | AStruct h _ _ => Some h
  end.

(** the remaining path: the prefix stripped, nothing else *)
Definition remaining (pre p : str) : str := skipn (length pre) p.

Definition ok_answer (ops : list rop) (p : str) (a : answer) : bool :=
  let mws := mws_of ops in
  match last_route ops p with
  | Some h =>
      (* an exactly registered path wins (the latest registration of it) *)
      match a with ARoute h' m' => (h' =? h) && listN_eqb m' mws | _ => false end
  | None =>
      match find (fun m => covers (fst m) p) (regs_of ops) with
      | Some (pre, h) =>
          match a with
          | AReg h' m' (Some ptr) =>
              (h' =? h) && listN_eqb m' mws &&
              (* a registry names its root "/" *)
              str_eqb ptr (match remaining pre p with [] => [47] | rel => rel end)
          | _ => false
          end
      | None =>
          match find (fun m => covers (fst m) p) (structs_of ops) with
          | Some (pre, h) =>
              match a with
              | AStruct h' m' (Some segs) =>
                  (h' =? h) && listN_eqb m' mws &&
                  (let rel := remaining pre p in
                   (* the segments are the RFC 6901 tokens of the remaining path;
                      malformed escapes and pointers without leading '/' are unspecified *)
                   if well_escaped rel && pointer_shaped rel then str_eqb (render segs) rel else true)
              | _ => false
              end
          | None => match a with ANone => true | _ => false end
          end
      end
  end.

Fixpoint ok_answers (ops : list rop) (paths : list str) (obs : list answer) : bool :=
  match paths, obs with
  | [], [] => true
  | p :: paths', a :: obs' => ok_answer ops p a && ok_answers ops paths' obs'
  | _, _ => false
  end.

Definition ok_C07 (ops : list rop) (paths : list str) (obs : list answer) : bool :=
  ok_answers ops paths obs.

(** owned path = borrowed path = behind a forwarding chain: the observation is
    the list of (echo-normalised) responses of all variants for one request;
    the property demands they are all the same *)
Fixpoint all_same (r : str) (rs : list str) : bool :=
  match rs with [] => true | x :: rs' => str_eqb x r && all_same r rs' end.

Definition ok_C07_pair (rs : list str) : bool :=
  match rs with [] => false | r :: rs' => all_same r rs' end.

(** equality of observations for the driver *)
Definition optstr_eqb (a b : option str) : bool :=
  match a, b with Some x, Some y => str_eqb x y | None, None => true | _, _ => false end.
Definition optstrs_eqb (a b : option (list str)) : bool :=
  match a, b with Some x, Some y => strs_eqb x y | None, None => true | _, _ => false end.

Definition answer_eqb (a b : answer) : bool :=
  match a, b with
  | ANone, ANone => true
  | ARoute h m, ARoute h' m' => (h =? h') && listN_eqb m m'
  | AReg h m p, AReg h' m' p' => (h =? h') && listN_eqb m m' && optstr_eqb p p'
  | AStruct h m s, AStruct h' m' s' => (h =? h') && listN_eqb m m' && optstrs_eqb s s'
  | _, _ => false
  end.
