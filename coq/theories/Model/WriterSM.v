(** C05 — what an endpoint puts on a connection.

    Model of the writer side of the six endpoints:
    - src/client.rs [write_request]: writer mutex held across [write_message]
      (three [write_all]s) + [flush]; on a write/flush error the socket is shut
      down (commit d088b00);
    - src/async_client.rs [write_request] + [FrameWriteGuard]: tokio mutex held
      across the awaited writes; a frame write that does not complete (future
      dropped, write error) marks the connection broken, later writes are
      refused (commit ce235a8);
    - src/websocket_client.rs [write_request]: one locked sink, one binary
      message per frame (the transport queues whole messages);
    - src/server.rs [handle_connection]: a write error ends the connection;
    - src/async_server.rs [handle_connection]: a timed-out or failed write
      returns an error and closes the connection (commit f4e6dd8);
    - src/websocket_server.rs [writer_task]: single writer task, one binary
      message per frame, a send error ends the writer.

    The wire is kept as a list of *segments*: "the first [sg_k] bytes of frame
    ([sg_w], [sg_seq]) whose total length is [sg_len]".  Its bytes are given by
    [render] below.  Which bytes of an interrupted frame reach the peer depends
    on kernel buffering; the model quantifies over every cut position. *)
From RepeV Require Export Model.Message.

Inductive endpoint : Set :=
| EClient | EAsyncClient | EWsClient | EServer | EAsyncServer | EWsServer.

Inductive policy : Set := Close | Continue.

(** what the endpoint does with the connection after a frame write was
    interrupted part-way — read off the code (after the repairs) *)
Definition after_interrupt (e : endpoint) : policy :=
  match e with
  | EClient => Close        (* shutdown(Both) in write_request *)
  | EAsyncClient => Close   (* FrameWriteGuard::drop: write_broken, fail all pending *)
  | EWsClient => Close      (* a sink error is terminal for the transport *)
  | EServer => Close        (* `?` on the write: handle_connection returns *)
  | EAsyncServer => Close   (* Ok(r) => r?, Err(_) => return Err(write_timed_out) *)
  | EWsServer => Close      (* writer_task: break on a send error *)
  end.

(** the same table before commits f4e6dd8, d088b00, ce235a8 *)
Definition legacy_policy (e : endpoint) : policy :=
  match e with
  | EClient => Continue       (* error returned to the caller, socket left open *)
  | EAsyncClient => Continue  (* dropping the future released the mutex, nothing else *)
  | EAsyncServer => Continue  (* timeout(..).await.ok(): loop continues *)
  | EWsClient | EServer | EWsServer => Close
  end.

(** WebSocket endpoints hand the transport one whole binary message; an
    abandoned send leaves the whole message queued (it is flushed before the
    next one): the unit of interruption is the message, not the byte *)
Definition atomic_send (e : endpoint) : bool :=
  match e with EWsClient | EWsServer => true | _ => false end.

(** does failing the connection make the peer see end-of-stream at once?
    (the async client refuses later writes but keeps the socket until dropped) *)
Definition signals_eof (e : endpoint) : bool :=
  match e with EAsyncClient | EWsClient => false | _ => true end.

Definition is_server (e : endpoint) : bool :=
  match e with EServer | EAsyncServer | EWsServer => true | _ => false end.

(** ** one critical section *)

Inductive event : Set :=
| Whole            (* the frame write runs to completion *)
| Cut (k : N).     (* timeout / cancellation / error after [k] bytes reached the connection *)

Record seg : Set := mkSeg { sg_w : N; sg_seq : N; sg_len : N; sg_k : N }.

Definition seg_whole (s : seg) : bool := sg_k s =? sg_len s.

Definition seg_eqb (a b : seg) : bool :=
  (sg_w a =? sg_w b) && (sg_seq a =? sg_seq b) && (sg_len a =? sg_len b) && (sg_k a =? sg_k b).

Record wstate : Set := mkW { w_wire : list seg; w_broken : bool }.

Definition w0 : wstate := mkW [] false.

(** a resolved turn: writer [it_w] holds the writer mutex and writes its frame
    number [it_seq], [it_len] bytes long *)
Record item : Set := mkItem { it_w : N; it_seq : N; it_len : N; it_ev : event }.

Definition closes (p : policy) : bool := match p with Close => true | Continue => false end.

Definition turn (pol : endpoint -> policy) (e : endpoint) (s : wstate) (it : item) : wstate * bool :=
  if w_broken s then (s, false)           (* refused: nothing is written *)
  else
    match it_ev it with
    | Whole =>
        (mkW (w_wire s ++ [mkSeg (it_w it) (it_seq it) (it_len it) (it_len it)]) false, true)
    | Cut k =>
        if atomic_send e then
          (mkW (w_wire s ++ (if k =? 0 then []
                             else [mkSeg (it_w it) (it_seq it) (it_len it) (it_len it)])) false, false)
        else
          let k' := N.min k (it_len it) in
          (mkW (w_wire s ++ (if k' =? 0 then [] else [mkSeg (it_w it) (it_seq it) (it_len it) k']))
               (closes (pol e)), false)
    end.

Fixpoint run (pol : endpoint -> policy) (e : endpoint) (s : wstate) (its : list item)
  : wstate * list bool :=
  match its with
  | [] => (s, [])
  | it :: its' =>
      let '(s1, r) := turn pol e s it in
      let '(s2, rs) := run pol e s1 its' in
      (s2, r :: rs)
  end.

(** ** concurrent writers: a schedule says whose turn it is *)

Fixpoint cget (c : list (N * N)) (w : N) : N :=
  match c with
  | [] => 0
  | (w', v) :: c' => if w' =? w then v else cget c' w
  end.

Fixpoint cset (c : list (N * N)) (w v : N) : list (N * N) :=
  match c with
  | [] => [(w, v)]
  | (w', v') :: c' => if w' =? w then (w, v) :: c' else (w', v') :: cset c' w v
  end.

(** [lens]: for every writer, the lengths of the frames it will write, in its
    program order; [cur]: how many frames each writer has started *)
Fixpoint picks (lens : list (list N)) (cur : list (N * N)) (sched : list (N * event)) : list item :=
  match sched with
  | [] => []
  | (w, ev) :: sched' =>
      let sq := cget cur w in
      match nth_error (nth (N.to_nat w) lens []) (N.to_nat sq) with
      | Some len => mkItem w sq len ev :: picks lens (cset cur w (sq + 1)) sched'
      | None => picks lens cur sched'      (* that writer has nothing left to write *)
      end
  end.

(** ** bytes *)

(** [fr w i]: the bytes of frame [i] of writer [w] *)
Definition seg_bytes (fr : N -> N -> list byte) (s : seg) : list byte :=
  firstn (N.to_nat (sg_k s)) (fr (sg_w s) (sg_seq s)).

Definition render (fr : N -> N -> list byte) (wire : list seg) : list byte :=
  concat (map (seg_bytes fr) wire).

(** the bytes of one frame write: the chunks of [write_message] /
    [write_message_async] / [write_view_response] (C01 model), concatenated *)
Definition frame_bytes (m : message) : list byte := concat (write_chunks m).

(** ** an independent reader: re-synchronisation from the declared lengths
    only (48 header bytes; query_length at offset 24, body_length at offset
    32, little-endian) *)
Fixpoint parse_frames_fuel (fuel : nat) (bs : list byte) : list (list byte) * list byte :=
  match fuel with
  | O => ([], bs)
  | S f =>
      if lenN bs <? 48 then ([], bs)
      else
        let n := 48 + field bs 24 8 + field bs 32 8 in
        if lenN bs <? n then ([], bs)
        else
          let '(fs, rest) := parse_frames_fuel f (skipn (N.to_nat n) bs) in
          (firstn (N.to_nat n) bs :: fs, rest)
  end.

Definition parse_frames (bs : list byte) : list (list byte) * list byte :=
  parse_frames_fuel (length bs) bs.

(** ** case, observation, model *)

Record case : Set := mkCase {
  c_ep : endpoint;
  c_lens : list (list N);        (* frame lengths per writer *)
  c_probe_from : N;              (* writers with a tag >= this are probes: calls issued
                                    after every other call has returned *)
  c_sched : list (N * event)     (* lock-acquisition order and the interruption *)
}.

Record obs : Set := mkObs {
  o_wire : list seg;             (* what the peer's independent parser attributed *)
  o_garbage : N;                 (* bytes it could not attribute to any intended frame *)
  o_res : list (N * N * bool);   (* (writer, frame number, did the call/write succeed) *)
  o_eof : bool                   (* the endpoint ended the stream by itself *)
}.

Definition results (its : list item) (rs : list bool) : list (N * N * bool) :=
  map (fun p => (it_w (fst p), it_seq (fst p), snd p)) (combine its rs).

Definition model_with (pol : endpoint -> policy) (c : case) : obs :=
  let its := picks (c_lens c) [] (c_sched c) in
  let '(s, rs) := run pol (c_ep c) w0 its in
  mkObs (w_wire s) 0 (results its rs) (w_broken s && signals_eof (c_ep c)).

Definition model_C05 (c : case) : obs := model_with after_interrupt c.

(** ** well-formed cases: every frame has at least its 48 header bytes, and the
    probe calls come after all the others and are not themselves interrupted *)
Definition is_probe (c : case) (w : N) : bool := c_probe_from c <=? w.

Fixpoint sched_wf (pf : N) (seen_probe : bool) (sched : list (N * event)) : bool :=
  match sched with
  | [] => true
  | (w, ev) :: sched' =>
      if pf <=? w then
        (match ev with Whole => true | Cut _ => false end) && sched_wf pf true sched'
      else negb seen_probe && sched_wf pf seen_probe sched'
  end.

Definition c05_wf (c : case) : bool :=
  forallb (forallb (fun l => 48 <=? l)) (c_lens c) && sched_wf (c_probe_from c) false (c_sched c).

(** ** the property oracle (from the property text; also applied to what the
    scripted peer observed of the implementation) *)

Definition intended (lens : list (list N)) (s : seg) : bool :=
  match nth_error (nth (N.to_nat (sg_w s)) lens []) (N.to_nat (sg_seq s)) with
  | Some l => l =? sg_len s
  | None => false
  end.

(** whole frames, then at most one torn one, which is last *)
Fixpoint whole_then_torn (wire : list seg) : bool :=
  match wire with
  | [] => true
  | [s] => true
  | s :: rest => seg_whole s && whole_then_torn rest
  end.

(** no frame twice, and every writer's frames in its program order *)
Fixpoint ordered (wire : list seg) : bool :=
  match wire with
  | [] => true
  | s :: rest =>
      forallb (fun t => negb (sg_w t =? sg_w s) || (sg_seq s <? sg_seq t)) rest && ordered rest
  end.

Definition has_torn (wire : list seg) : bool := existsb (fun s => negb (seg_whole s)) wire.

Definition on_wire_whole (wire : list seg) (w sq : N) : bool :=
  existsb (fun s => (sg_w s =? w) && (sg_seq s =? sq) && seg_whole s) wire.

Definition ok_C05 (c : case) (o : obs) : bool :=
  let wire := o_wire o in
  (* only intended frames, each a non-empty prefix of itself *)
  forallb (intended (c_lens c)) wire &&
  forallb (fun s => (0 <? sg_k s) && (sg_k s <=? sg_len s)) wire &&
  (* nothing the peer cannot attribute: no interleaved or foreign bytes *)
  (o_garbage o =? 0) &&
  (* whole frames followed by at most one proper prefix; nothing after a torn frame *)
  whole_then_torn wire &&
  (* no duplicate, per-writer order *)
  ordered wire &&
  (* a call that succeeded put its whole frame on the wire *)
  forallb (fun r => match r with (w, sq, ok) => negb ok || on_wire_whole wire w sq end) (o_res o) &&
  (* after a torn frame the connection is failed: every later call errors, none
     of their frames reaches the peer, and a server closes the connection *)
  (negb (has_torn wire) ||
   (forallb (fun r => match r with (w, _, ok) => negb (is_probe c w) || negb ok end) (o_res o) &&
    forallb (fun s => negb (is_probe c (sg_w s))) wire &&
    (negb (is_server (c_ep c)) || o_eof o))).

(** equality of observations, for the driver *)
Fixpoint segs_eqb (a b : list seg) : bool :=
  match a, b with
  | [], [] => true
  | x :: a', y :: b' => seg_eqb x y && segs_eqb a' b'
  | _, _ => false
  end.

(** ** the lock: a finer model in which every writer is a little program
    (lock; write chunk; ...; flush; unlock) and the scheduler interleaves
    single steps.  The wire here is a list of runs "bytes [off, off+n) of
    frame (w, i)" with no assumption about who wrote what when. *)

Record brun : Set := mkRun { r_w : N; r_seq : N; r_len : N; r_off : N; r_n : N }.

(** a job: the frame and the lengths of its [write_all] chunks *)
Record job : Set := mkJob { j_seq : N; j_chunks : list N; j_ev : event }.

Definition sumN (l : list N) : N := fold_right N.add 0 l.

Inductive wloc : Set :=
| Idle
| Writing (j : job) (rem : list N) (done : N).

Record fstate : Set := mkF {
  f_wire : list brun;
  f_holder : option N;
  f_broken : bool;
  f_locs : list (N * wloc);            (* writers not listed are Idle *)
  f_queues : list (N * list job);      (* jobs not yet started, per writer *)
  f_log : list item                    (* ghost: critical sections in the order they were entered *)
}.

Fixpoint lget {V} (d : V) (l : list (N * V)) (w : N) : V :=
  match l with
  | [] => d
  | (w', v) :: l' => if w' =? w then v else lget d l' w
  end.

Fixpoint lset {V} (l : list (N * V)) (w : N) (v : V) : list (N * V) :=
  match l with
  | [] => [(w, v)]
  | (w', v') :: l' => if w' =? w then (w, v) :: l' else (w', v') :: lset l' w v
  end.

Definition job_len (j : job) : N := sumN (j_chunks j).

Definition emit (wire : list brun) (w : N) (j : job) (off n : N) : list brun :=
  if n =? 0 then wire else wire ++ [mkRun w (j_seq j) (job_len j) off n].

(** the budget of bytes this write may still put on the connection *)
Definition budget (j : job) (done : N) : option N :=
  match j_ev j with Whole => None | Cut k => Some (k - done) end.

(** one step of writer [w].  [locked = false] is the same program without the
    mutex (used only to show that the mutex is what prevents interleaving). *)
Definition fstep (locked : bool) (pol : endpoint -> policy) (e : endpoint) (s : fstate) (w : N) : fstate :=
  match lget Idle (f_locs s) w with
  | Idle =>
      match lget [] (f_queues s) w with
      | [] => s
      | j :: q =>
          let free := match f_holder s with None => true | Some _ => negb locked end in
          if negb free then s                                   (* blocked on the mutex *)
          else if f_broken s then                               (* refused *)
            mkF (f_wire s) (f_holder s) true (f_locs s) (lset (f_queues s) w q) (f_log s)
          else
            mkF (f_wire s) (Some w) false (lset (f_locs s) w (Writing j (j_chunks j) 0))
                (lset (f_queues s) w q)
                (f_log s ++ [mkItem w (j_seq j) (job_len j) (j_ev j)])
      end
  | Writing j rem done =>
      let release := match f_holder s with
                     | Some h => if h =? w then None else f_holder s
                     | None => None
                     end in
      match rem with
      | [] =>
          (* flush + unlock; an interruption at or after the last byte *)
          let brk := match j_ev j with Whole => false | Cut _ => closes (pol e) end in
          mkF (f_wire s) release (f_broken s || brk) (lset (f_locs s) w Idle) (f_queues s) (f_log s)
      | c :: rem' =>
          match budget j done with
          | None =>
              mkF (emit (f_wire s) w j done c) (f_holder s) (f_broken s)
                  (lset (f_locs s) w (Writing j rem' (done + c))) (f_queues s) (f_log s)
          | Some b =>
              if c <=? b then
                mkF (emit (f_wire s) w j done c) (f_holder s) (f_broken s)
                    (lset (f_locs s) w (Writing j rem' (done + c))) (f_queues s) (f_log s)
              else
                (* interrupted inside this chunk: [b] more bytes, then the
                   write is abandoned and the mutex released *)
                mkF (emit (f_wire s) w j done b) release (f_broken s || closes (pol e))
                    (lset (f_locs s) w Idle) (f_queues s) (f_log s)
          end
      end
  end.

Definition frun (locked : bool) (pol : endpoint -> policy) (e : endpoint) (s : fstate) (sched : list N) : fstate :=
  fold_left (fstep locked pol e) sched s.

Definition f0 (queues : list (N * list job)) : fstate := mkF [] None false [] queues [].

Definition brun_bytes (fr : N -> N -> list byte) (r : brun) : list byte :=
  firstn (N.to_nat (r_n r)) (skipn (N.to_nat (r_off r)) (fr (r_w r) (r_seq r))).

Definition frender (fr : N -> N -> list byte) (wire : list brun) : list byte :=
  concat (map (brun_bytes fr) wire).
