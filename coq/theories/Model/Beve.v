(** Model of the BEVE numeric-array wire forms used by repe's bulk body paths
    (dependency [beve] 8.0.0: size.rs, header.rs, fast.rs, aligned.rs, and the
    numeric-sequence part of ser.rs / de.rs — MODELLED from its source, tied
    to the crate by the correspondence check), and of repe's glue around them
    (src/message.rs [body_typed_slice], [body_complex_slice],
    [body_aligned_typed_slice], [decode_typed_slice], [decode_complex_slice],
    [read_typed_slice_compat]; src/io.rs [write_message_typed_slice],
    [write_message_complex_slice]; src/server.rs [decode_typed_slice_param],
    [decode_typed_slice_ref_body], the three bulk routes; src/client.rs
    [call_typed_slice], [call_typed_slice_aligned], [call_typed_beve]).

    Elements are BIT PATTERNS: an element of a [w]-byte type is a number below
    [256^w]; NaN payloads, infinities and extreme integers are just values. *)
From RepeV Require Export Model.Message.

(** ** element type descriptors (beve::BeveTypedSlice: CLASS, BYTE_CODE,
    ELEM_SIZE, and core::mem::align_of) *)
Record ety : Set := mkEty {
  e_class : N;      (* 0 float, 1 signed, 2 unsigned *)
  e_code : N;       (* BYTE_CODE: log2 width, except bf16 = 0 and f16 = 1 *)
  e_width : nat;    (* ELEM_SIZE in bytes *)
  e_align : N       (* align_of::<T>() *)
}.

Definition ty_u8 := mkEty 2 0 1 1.
Definition ty_u16 := mkEty 2 1 2 2.
Definition ty_u32 := mkEty 2 2 4 4.
Definition ty_u64 := mkEty 2 3 8 8.
Definition ty_u128 := mkEty 2 4 16 16.
Definition ty_i8 := mkEty 1 0 1 1.
Definition ty_i16 := mkEty 1 1 2 2.
Definition ty_i32 := mkEty 1 2 4 4.
Definition ty_i64 := mkEty 1 3 8 8.
Definition ty_i128 := mkEty 1 4 16 16.
Definition ty_bf16 := mkEty 0 0 2 2.
Definition ty_f16 := mkEty 0 1 2 2.
Definition ty_f32 := mkEty 0 2 4 4.
Definition ty_f64 := mkEty 0 3 8 8.

Definition ety_all : list ety :=
  [ty_u8; ty_u16; ty_u32; ty_u64; ty_u128; ty_i8; ty_i16; ty_i32; ty_i64; ty_i128;
   ty_bf16; ty_f16; ty_f32; ty_f64].

(** what the theorems need of a descriptor *)
Definition ety_ok (t : ety) : bool :=
  (0 <? e_width t)%nat && (e_width t <=? 16)%nat && (e_class t <? 3) && (e_code t <? 8) &&
  (0 <? e_align t) && (e_align t <=? 16).

(** two descriptors name the same wire tag *)
Definition tag_eqb (t u : ety) : bool := (e_class t =? e_class u) && (e_code t =? e_code u).

Definition elems_ok (t : ety) (xs : list N) : bool :=
  forallb (fun x => x <? pow256 (e_width t)) xs.

(** ** size.rs: the compressed SIZE codec *)
Definition size_code (n : N) : N * nat :=
  if n <? 64 then (0, 0%nat)
  else if n <? 16384 then (1, 1%nat)
  else if n <? 1073741824 then (2, 3%nat)
  else (3, 7%nat).

(** [write_size] / [encode_size_to_array] *)
Definition size_enc (n : N) : list byte :=
  let '(c, k) := size_code n in ((n mod 64) * 4 + c) :: le_enc k (n / 64).

(** [size_encoded_len] *)
Definition size_len (n : N) : N :=
  if n <? 64 then 1 else if n <? 16384 then 2 else if n <? 1073741824 then 4 else 8.

Definition size_tail (c : N) : nat :=
  match c with 0 => 0%nat | 1 => 1%nat | 2 => 3%nat | _ => 7%nat end.

(** [read_size]: [None] is [Error::Eof] *)
Definition size_dec (bs : list byte) : option (N * list byte) :=
  match bs with
  | [] => None
  | b0 :: r =>
      let k := size_tail (b0 mod 4) in
      if (length r <? k)%nat then None
      else Some (b0 / 4 + 64 * le_dec (firstn k r), skipn k r)
  end.

(** bound under which the codec is lossless (62 value bits) *)
Definition SIZE_MAX : N := 4611686018427387904. (* 2^62 *)

(** ** results of the readers *)
Inductive berr : Set :=
| BEof            (* beve::Error::Eof *)
| BInvalidType    (* beve::Error::InvalidType *)
| BMismatch       (* beve::Error::Mismatch *)
| BInvalidSize    (* beve::Error::InvalidSize *)
| BUnsupported    (* beve::Error::Unsupported *)
| BFormat         (* RepeError::UnexpectedBodyFormat *)
| BRemote         (* an error response (ec <> 0) produced by a route *)
| BOther.         (* any other error; also: outside the modelled domain *)

Inductive dres (A : Type) : Type :=
| DOk (a : A)
| DErr (e : berr).
Arguments DOk {A} a.
Arguments DErr {A} e.

Definition dmap {A B} (f : A -> B) (r : dres A) : dres B :=
  match r with DOk a => DOk (f a) | DErr e => DErr e end.

Definition is_err {A} (r : dres A) : bool := match r with DOk _ => false | DErr _ => true end.

(** ** header.rs / fast.rs: typed numeric arrays *)
(** [make_header(TYPE_TYPED_ARRAY = 4, class, byte_code)] *)
Definition hdr_byte (t : ety) : byte := e_code t * 32 + e_class t * 8 + 4.

(** the little-endian element block *)
Definition payload (t : ety) (xs : list N) : list byte := flat_map (le_enc (e_width t)) xs.

(** [write_typed_slice] / [to_vec_typed_slice] / the bytes [to_writer_typed_slice] emits *)
Definition enc_bulk (t : ety) (xs : list N) : list byte :=
  hdr_byte t :: size_enc (lenN xs) ++ payload t xs.

(** [typed_slice_size] *)
Definition typed_slice_size (t : ety) (xs : list N) : N :=
  1 + size_len (lenN xs) + N.of_nat (e_width t) * lenN xs.

(** the [write_all] calls of [to_writer_typed_slice] *)
Definition bulk_chunks (t : ety) (xs : list N) : list (list byte) :=
  [[hdr_byte t]; size_enc (lenN xs)] ++ match xs with [] => [] | _ => [payload t xs] end.

(** header check shared by [read_typed_slice] and the aligned numeric header *)
Definition check_hdr (t : ety) (h : byte) : option berr :=
  if negb (h mod 8 =? 4) then Some BInvalidType
  else if negb ((h / 8) mod 4 =? e_class t) || negb (h / 32 =? e_code t) then Some BMismatch
  else None.

(** [n] little-endian elements of [w] bytes from the front of [bs] *)
Fixpoint chunks_dec (w : nat) (n : nat) (bs : list byte) : list N :=
  match n with
  | O => []
  | S n' => le_dec (firstn w bs) :: chunks_dec w n' (skipn w bs)
  end.

(** bounds check ([checked_mul], remaining length) and the bulk copy; [per] is
    the number of scalars per item (1, or 2 for complex) *)
Definition read_payload (w : nat) (per : N) (count : N) (rest : list byte) : dres (list N) :=
  let need := count * (per * N.of_nat w) in
  if two64 <=? need then DErr BInvalidSize
  else if lenN rest <? need then DErr BEof
  else DOk (chunks_dec w (N.to_nat (count * per)) rest).

(** [beve::read_typed_slice] (trailing bytes are ignored) *)
Definition beve_read_typed_slice (t : ety) (bs : list byte) : dres (list N) :=
  match bs with
  | [] => DErr BEof
  | h :: r =>
      match check_hdr t h with
      | Some e => DErr e
      | None =>
          match size_dec r with
          | None => DErr BEof
          | Some (count, rest) => read_payload (e_width t) 1 count rest
          end
      end
  end.

(** ** ser.rs: a [Vec<T>] of one numeric type through serde ([beve::to_vec]).
    [SeqSerializer] knows the length; the first element switches it from
    [Unknown] to the typed mode (header + SIZE), every element appends its
    little-endian bytes; a sequence that ends in [Unknown] mode (no element)
    gets the generic array header.  All elements have the same type, so the
    conversion-to-generic paths are unreachable and not modelled. *)
Inductive seqmode : Set := SUnknown | STyped.

Definition ser_elem (t : ety) (n : N) (st : seqmode * list (list byte)) (x : N)
    : seqmode * list (list byte) :=
  match fst st with
  | SUnknown => (STyped, le_enc (e_width t) x :: (hdr_byte t :: size_enc n) :: snd st)
  | STyped => (STyped, le_enc (e_width t) x :: snd st)
  end.

Definition enc_generic (t : ety) (xs : list N) : list byte :=
  let st := fold_left (ser_elem t (lenN xs)) xs (SUnknown, []) in
  match fst st with
  | SUnknown => concat (rev ((5 :: size_enc (lenN xs)) :: snd st))
  | STyped => concat (rev (snd st))
  end.

(** ** de.rs: [beve::from_slice::<Vec<T>>] on the two shapes the property is
    about: a typed array whose tag names [T] (element-wise visit of the
    little-endian block) and a generic array of length 0.  Everything else
    (numeric conversions, non-empty generic arrays, other values) is outside
    the model: [BOther]. *)
Definition dec_generic (t : ety) (bs : list byte) : dres (list N) :=
  match bs with
  | [] => DErr BEof
  | h :: r =>
      if h mod 8 =? 4 then
        if ((h / 8) mod 4 =? e_class t) && (h / 32 =? e_code t) then
          match size_dec r with
          | None => DErr BEof
          | Some (count, rest) => read_payload (e_width t) 1 count rest
          end
        else DErr BOther
      else if h mod 8 =? 5 then
        match size_dec r with
        | None => DErr BEof
        | Some (count, _) => if count =? 0 then DOk [] else DErr BOther
        end
      else DErr BOther
  end.

(** ** complex arrays (extension 3); a complex slice is given FLATTENED:
    [re0; im0; re1; im1; ...], of even length *)
Definition CPLX_EXT : byte := 30.  (* (EXT_COMPLEX << 3) | TYPE_EXTENSION *)
Definition cplx_hdr (t : ety) : byte := e_code t * 32 + e_class t * 8 + 1.
Definition cplx_count (zs : list N) : N := lenN zs / 2.

(** [write_complex_slice] / the bytes [to_writer_complex_slice] emits *)
Definition enc_complex (t : ety) (zs : list N) : list byte :=
  CPLX_EXT :: cplx_hdr t :: size_enc (cplx_count zs) ++ payload t zs.

(** [complex_slice_size] *)
Definition complex_slice_size (t : ety) (zs : list N) : N :=
  2 + size_len (cplx_count zs) + N.of_nat (e_width t) * lenN zs.

Definition complex_chunks (t : ety) (zs : list N) : list (list byte) :=
  [[CPLX_EXT; cplx_hdr t]; size_enc (cplx_count zs)] ++ match zs with [] => [] | _ => [payload t zs] end.

(** [beve::read_complex_slice] *)
Definition beve_read_complex_slice (t : ety) (bs : list byte) : dres (list N) :=
  match bs with
  | [] => DErr BEof
  | h :: r =>
      if negb ((h mod 8 =? 6) && (h / 8 =? 3)) then DErr BInvalidType else
      match r with
      | [] => DErr BEof
      | ch :: r2 =>
          if ch mod 2 =? 0 then DErr BInvalidType
          else if negb ((ch / 8) mod 4 =? e_class t) || negb ((ch / 32) mod 8 =? e_code t)
          then DErr BMismatch
          else match size_dec r2 with
               | None => DErr BEof
               | Some (count, rest) => read_payload (e_width t) 2 count rest
               end
      end
  end.

(** serde: [Vec<Complex<T>>] — same state machine with the two-byte header *)
Fixpoint pairs_chunks (w : nat) (zs : list N) : list (list byte) :=
  match zs with
  | re :: im :: zs' => (le_enc w re ++ le_enc w im) :: pairs_chunks w zs'
  | _ => []
  end.

Definition ser_cplx (t : ety) (n : N) (st : seqmode * list (list byte)) (c : list byte)
    : seqmode * list (list byte) :=
  match fst st with
  | SUnknown => (STyped, c :: (CPLX_EXT :: cplx_hdr t :: size_enc n) :: snd st)
  | STyped => (STyped, c :: snd st)
  end.

Definition enc_generic_complex (t : ety) (zs : list N) : list byte :=
  let st := fold_left (ser_cplx t (cplx_count zs)) (pairs_chunks (e_width t) zs) (SUnknown, []) in
  match fst st with
  | SUnknown => concat (rev ((5 :: size_enc (cplx_count zs)) :: snd st))
  | STyped => concat (rev (snd st))
  end.

(** serde: [from_slice::<Vec<Complex<T>>>] on a complex array of [T] or an
    empty generic array *)
Definition dec_generic_complex (t : ety) (bs : list byte) : dres (list N) :=
  match bs with
  | [] => DErr BEof
  | h :: r =>
      if (h mod 8 =? 6) && (h / 8 =? 3) then
        match r with
        | [] => DErr BEof
        | ch :: r2 =>
            if (ch mod 2 =? 1) && ((ch / 8) mod 4 =? e_class t) && ((ch / 32) mod 8 =? e_code t) then
              match size_dec r2 with
              | None => DErr BEof
              | Some (count, rest) => read_payload (e_width t) 2 count rest
              end
            else DErr BOther
        end
      else if h mod 8 =? 5 then
        match size_dec r with
        | None => DErr BEof
        | Some (count, _) => if count =? 0 then DOk [] else DErr BOther
        end
      else DErr BOther
  end.

(** ** aligned.rs *)
Definition ALIGNED_MARKER : byte := 92. (* 0x5C *)

(** [padding_for] *)
Definition padding_for (off align : N) : N := (align - ((off + 1) mod align)) mod align.

Definition aligned_prefix (t : ety) (n : N) : list byte :=
  [ALIGNED_MARKER; hdr_byte t] ++ size_enc n.

(** [write_aligned_typed_slice_at] with [base_offset = base] *)
Definition enc_aligned (t : ety) (base : N) (xs : list N) : list byte :=
  let pre := aligned_prefix t (lenN xs) in
  let pad := padding_for (base + lenN pre) (e_align t) in
  pre ++ [pad] ++ repeat 0 (N.to_nat pad) ++ payload t xs.

(** [aligned_typed_slice_size] *)
Definition aligned_pad (t : ety) (base n : N) : N :=
  padding_for (base + (2 + size_len n)) (e_align t).
Definition aligned_typed_slice_size (t : ety) (base : N) (xs : list N) : N :=
  2 + size_len (lenN xs) + 1 + aligned_pad t base (lenN xs) + N.of_nat (e_width t) * lenN xs.

(** offset of DATA from the marker byte *)
Definition aligned_data_off (t : ety) (base n : N) : N :=
  2 + size_len n + 1 + aligned_pad t base n.

(** [parse_aligned_header]: offset of DATA in the input, element count, DATA and what follows *)
Definition parse_aligned (t : ety) (bs : list byte) : dres (N * N * list byte) :=
  match bs with
  | [] => DErr BEof
  | mk :: r1 =>
      if negb ((mk mod 8 =? 4) && ((mk / 8) mod 4 =? 3) && (mk / 32 =? 2)) then DErr BInvalidType else
      match r1 with
      | [] => DErr BEof
      | nh :: r2 =>
          match check_hdr t nh with
          | Some e => DErr e
          | None =>
              match size_dec r2 with
              | None => DErr BEof
              | Some (count, r3) =>
                  match r3 with
                  | [] => DErr BEof
                  | p :: r4 =>
                      if lenN r4 <? p then DErr BEof else
                      let data := skipn (N.to_nat p) r4 in
                      let need := count * N.of_nat (e_width t) in
                      if two64 <=? need then DErr BInvalidSize
                      else if lenN data <? need then DErr BEof
                      else DOk (lenN bs - lenN data, count, data)
                  end
              end
          end
      end
  end.

(** [read_aligned_typed_slice]: the owned read *)
Definition beve_read_aligned (t : ety) (bs : list byte) : dres (list N) :=
  match parse_aligned t bs with
  | DErr e => DErr e
  | DOk (_, count, data) => DOk (chunks_dec (e_width t) (N.to_nat count) data)
  end.

(** [read_aligned_typed_slice_ref] on a little-endian target; [addr] is the
    address of the first input byte.  The borrow is served iff DATA is aligned
    in memory. *)
Definition beve_read_aligned_ref (t : ety) (addr : N) (bs : list byte) : dres (list N) :=
  match parse_aligned t bs with
  | DErr e => DErr e
  | DOk (off, count, data) =>
      if (addr + off) mod e_align t =? 0
      then DOk (chunks_dec (e_width t) (N.to_nat count) data)
      else DErr BUnsupported
  end.

(** ** repe glue *)
Definition BODY_BEVE : N := 1.

(** [is_generic_empty_array] *)
Definition is_generic_empty (body : list byte) : bool := bytes_eqb body [5; 0].

(** [read_typed_slice_compat] (after the repair: the generic empty array is
    an empty slice of any element type) *)
Definition read_typed_slice_compat (t : ety) (body : list byte) : dres (list N) :=
  if is_generic_empty body then DOk [] else beve_read_typed_slice t body.

(** [Message::decode_typed_slice] *)
Definition decode_typed_slice (t : ety) (m : message) : dres (list N) :=
  if h_bfmt (m_hdr m) =? BODY_BEVE then read_typed_slice_compat t (m_body m) else DErr BFormat.

(** [Message::decode_complex_slice] *)
Definition read_complex_slice_compat (t : ety) (body : list byte) : dres (list N) :=
  if is_generic_empty body then DOk [] else beve_read_complex_slice t body.
Definition decode_complex_slice (t : ety) (m : message) : dres (list N) :=
  if h_bfmt (m_hdr m) =? BODY_BEVE then read_complex_slice_compat t (m_body m) else DErr BFormat.

(** [Message::beve_body::<Vec<T>>] *)
Definition beve_body_vec (t : ety) (m : message) : dres (list N) :=
  if h_bfmt (m_hdr m) =? BODY_BEVE then dec_generic t (m_body m) else DErr BFormat.

(** the names used in the property statement *)
Definition dec_bulk := read_typed_slice_compat.
Definition dec_aligned := beve_read_aligned.

(** [MessageBuilder]: the body and format the three setters leave *)
Definition body_typed_slice (b : builder) (t : ety) (xs : list N) : builder :=
  mkBuilder (b_id b) (b_query b) (enc_bulk t xs) (b_qfmt b) BODY_BEVE (b_notify b) (b_ec b).
Definition body_beve_vec (b : builder) (t : ety) (xs : list N) : builder :=
  mkBuilder (b_id b) (b_query b) (enc_generic t xs) (b_qfmt b) BODY_BEVE (b_notify b) (b_ec b).
Definition body_complex_slice (b : builder) (t : ety) (zs : list N) : builder :=
  mkBuilder (b_id b) (b_query b) (enc_complex t zs) (b_qfmt b) BODY_BEVE (b_notify b) (b_ec b).
(** [base_offset = HEADER_SIZE + self.query.len()] *)
Definition body_aligned_typed_slice (b : builder) (t : ety) (xs : list N) : builder :=
  mkBuilder (b_id b) (b_query b) (enc_aligned t (HEADER_SIZE + lenN (b_query b)) xs) (b_qfmt b)
    BODY_BEVE (b_notify b) (b_ec b).

Definition set_bfmt (h : header) (f : N) : header :=
  mkHeader (h_length h) (h_spec h) (h_version h) (h_notify h) (h_reserved h) (h_id h)
    (h_qlen h) (h_blen h) (h_qfmt h) f (h_ec h).

(** [write_message_typed_slice] / [write_message_complex_slice]: the writes *)
Definition stream_typed_slice (h : header) (q : list byte) (t : ety) (xs : list N) : list (list byte) :=
  write_streaming_chunks (set_bfmt h BODY_BEVE) q (typed_slice_size t xs) (bulk_chunks t xs).
Definition stream_complex_slice (h : header) (q : list byte) (t : ety) (zs : list N) : list (list byte) :=
  write_streaming_chunks (set_bfmt h BODY_BEVE) q (complex_slice_size t zs) (complex_chunks t zs).

(** [Header::new()] with the id set *)
Definition hdr_new (id : N) : header := mkHeader 0 REPE_SPEC REPE_VERSION 0 0 id 0 0 0 0 0.

(** [SliceInput] *)
Inductive slice_input : Set :=
| SBorrowed (xs : list N)
| SOwned (xs : list N).
Definition si_elems (s : slice_input) : list N := match s with SBorrowed xs | SOwned xs => xs end.
Definition si_borrowed (s : slice_input) : bool := match s with SBorrowed _ => true | SOwned _ => false end.

(** [decode_typed_slice_ref_body]: marker dispatch, borrow, else the owned re-read *)
Definition decode_ref_body (t : ety) (addr : N) (body : list byte) : dres slice_input :=
  match body with
  | first :: _ =>
      if first =? ALIGNED_MARKER then
        match beve_read_aligned_ref t addr body with
        | DOk xs => DOk (SBorrowed xs)
        | DErr _ => dmap SOwned (beve_read_aligned t body)
        end
      else dmap SOwned (read_typed_slice_compat t body)
  | [] => dmap SOwned (read_typed_slice_compat t body)
  end.

(** the name used in the property statement: elements and whether borrowed *)
Definition dec_ref (t : ety) (addr : N) (body : list byte) : dres slice_input :=
  decode_ref_body t addr body.

(** the routes' request decoding; a wrong body format yields an InvalidBody
    error RESPONSE ([BRemote]), a decode failure an error value *)
Definition route_slice (t : ety) (bfmt : N) (body : list byte) : dres (list N) :=
  if bfmt =? BODY_BEVE then read_typed_slice_compat t body else DErr BRemote.
Definition route_ref (t : ety) (bfmt : N) (addr : N) (body : list byte) : dres slice_input :=
  if bfmt =? BODY_BEVE then decode_ref_body t addr body else DErr BRemote.
(** [with_typed::<Vec<T>, _>]: BEVE bodies only are modelled *)
Definition route_typed (t : ety) (bfmt : N) (body : list byte) : dres (list N) :=
  if bfmt =? BODY_BEVE then dec_generic t body else DErr BOther.

(** ** a live call: client helper, echo route, response decode *)
Inductive client_kind : Set := CBulk | CAligned | CSerde.
Inductive route_kind : Set := RSlice | RRef | RTyped.

(** request body built by [call_typed_slice] / [call_typed_slice_aligned] /
    [call_typed_beve] for a path of [qlen] bytes *)
Definition client_body (ck : client_kind) (t : ety) (qlen : N) (xs : list N) : list byte :=
  match ck with
  | CBulk => enc_bulk t xs
  | CAligned => enc_aligned t (HEADER_SIZE + qlen) xs
  | CSerde => enc_generic t xs
  end.

(** an echo route of kind [rk] for element type [t] serving a request body
    that sits at address [addr]; the response is framed by
    [body_typed_slice] (bulk routes) or by serde ([TypedResponse::beve]) and
    decoded by [decode_typed_slice] (bulk clients) or serde *)
Definition live_call (rk : route_kind) (ck : client_kind) (t : ety) (qlen addr : N) (xs : list N)
    : dres (list N) :=
  let body := client_body ck t qlen xs in
  let served :=
    match rk with
    | RSlice => route_slice t BODY_BEVE body
    | RRef => dmap si_elems (route_ref t BODY_BEVE addr body)
    | RTyped => route_typed t BODY_BEVE body
    end in
  match served with
  | DErr _ => DErr BRemote
  | DOk ys =>
      let resp := match rk with RTyped => enc_generic t ys | _ => enc_bulk t ys end in
      match ck with
      | CSerde => dec_generic t resp
      | _ => read_typed_slice_compat t resp
      end
  end.

(** ** cases, observations, model, oracle *)
Inductive enc_kind : Set := EBulk | EGeneric | EAligned.

Inductive c08_case : Set :=
(** encoders, streaming writer and the four decoder/encoder pairs *)
| KEnc (t : ety) (xs : list N) (q : list byte) (id : N)
(** the same for a complex slice ([zs] flattened); [u] is another type for the rejection checks *)
| KCplx (t u : ety) (zs : list N) (q : list byte) (id : N)
(** a frame with a [qlen]-byte query whose body was produced by client kind
    [src], placed [m] bytes after an 8-aligned (16 for 128-bit types) address,
    handed to the borrowing route *)
| KRef (t : ety) (xs : list N) (qlen m : N) (src : client_kind)
(** bodies of element type [t] decoded as [u] *)
| KWrongType (t u : ety) (xs : list N) (qlen m : N)
(** a typed-array body (bulk, or the generic serde encoding when [gen]) under
    another body format *)
| KWrongFmt (t : ety) (xs : list N) (bfmt : N) (gen : bool)
(** live calls (blocking and async server) *)
| KNet (rk : route_kind) (ck : client_kind) (t : ety) (xs : list N) (qlen : N).

Record c08_obs : Set := mkObs {
  o_bytes : list (list byte);
  o_res : list (dres (list N));
  o_flags : list bool
}.

Definition req_builder (id : N) (q : list byte) : builder := mkBuilder id q [] 0 0 false 0.

Definition frame_addr (qlen m : N) : N := m + HEADER_SIZE + qlen.

Definition model_C08 (c : c08_case) : c08_obs :=
  match c with
  | KEnc t xs q id =>
      let bulk := enc_bulk t xs in
      let gen := enc_generic t xs in
      let mb := build (body_typed_slice (req_builder id q) t xs) in
      let mg := build (body_beve_vec (req_builder id q) t xs) in
      mkObs [m_body mb; m_body mg; concat (stream_typed_slice (hdr_new id) q t xs); concat (write_chunks mb)]
            [decode_typed_slice t mb; decode_typed_slice t mg; beve_body_vec t mb; beve_body_vec t mg]
            []
  | KCplx t u zs q id =>
      let mb := build (body_complex_slice (req_builder id q) t zs) in
      let mg := build (mkBuilder id q (enc_generic_complex t zs) 0 BODY_BEVE false 0) in
      mkObs [m_body mb; m_body mg; concat (stream_complex_slice (hdr_new id) q t zs); concat (write_chunks mb)]
            [decode_complex_slice t mb; decode_complex_slice t mg;
             (if h_bfmt (m_hdr mb) =? BODY_BEVE then dec_generic_complex t (m_body mb) else DErr BFormat);
             (if h_bfmt (m_hdr mg) =? BODY_BEVE then dec_generic_complex t (m_body mg) else DErr BFormat);
             decode_typed_slice t mb; decode_complex_slice u mb]
            []
  | KRef t xs qlen m src =>
      let body := client_body src t qlen xs in
      let r := route_ref t BODY_BEVE (frame_addr qlen m) body in
      mkObs [body]
            [dmap si_elems r;
             match r with DOk s => read_typed_slice_compat t (enc_bulk t (si_elems s)) | DErr e => DErr e end]
            [match r with DOk s => si_borrowed s | DErr _ => false end]
  | KWrongType t u xs qlen m =>
      let addr := frame_addr qlen m in
      mkObs []
            [read_typed_slice_compat u (enc_bulk t xs);
             read_typed_slice_compat u (enc_generic t xs);
             route_slice u BODY_BEVE (enc_bulk t xs);
             dmap si_elems (route_ref u BODY_BEVE addr (enc_aligned t (HEADER_SIZE + qlen) xs));
             dmap si_elems (route_ref u BODY_BEVE addr (enc_bulk t xs))]
            []
  | KWrongFmt t xs bfmt gen =>
      let body := if gen then enc_generic t xs else enc_bulk t xs in
      let m := build (mkBuilder 1 [] body 0 bfmt false 0) in
      mkObs []
            [decode_typed_slice t m; decode_complex_slice t m;
             route_slice t bfmt body;
             dmap si_elems (route_ref t bfmt 0 body)]
            []
  | KNet rk ck t xs qlen =>
      let r := live_call rk ck t qlen 0 xs in
      mkObs [] [r; r] []
  end.

(** equality tests for the oracle *)
Definition res_eqb (a b : dres (list N)) : bool :=
  match a, b with
  | DOk x, DOk y => bytes_eqb x y
  | _, _ => false
  end.

(** [r] is [Ok xs] *)
Definition is_ok (xs : list N) (r : dres (list N)) : bool := res_eqb r (DOk xs).

Definition is_nil {A} (l : list A) : bool := match l with [] => true | _ => false end.

(** the oracle, from the property text.
    - KEnc / KCplx: for a non-empty slice the bulk body is the generic body;
      each decoder reads each encoder's output and returns the original bit
      patterns; the streamed frame is the buffered frame; (complex: a complex
      body is not a plain typed array nor a complex array of another type).
    - KRef: the handler sees the original elements and so does the caller;
      the slice is borrowed exactly when the request was in the aligned form
      and its element block (the last [w*n] bytes of the body) lies at an
      address that is a multiple of the element alignment; and in an aligned
      buffer ([m mod align = 0]) the aligned form IS borrowed, whatever the
      query length.
    - KWrongType / KWrongFmt: every decode is an error (under the BEVE
      format the one body that carries no element type, the generic empty
      array, decodes to the empty slice; under any other format nothing
      decodes, that body included).
    - KNet: the call returns the original elements (the aligned form sent to
      a non-borrowing bulk route is an error). *)
Definition ok_C08 (c : c08_case) (o : c08_obs) : bool :=
  match c with
  | KEnc t xs _ _ =>
      match o_bytes o, o_res o with
      | [bulk; gen; stream; frame], [r1; r2; r3; r4] =>
          (is_nil xs || bytes_eqb bulk gen) && bytes_eqb stream frame &&
          is_ok xs r1 && is_ok xs r2 && is_ok xs r3 && is_ok xs r4
      | _, _ => false
      end
  | KCplx t u zs _ _ =>
      match o_bytes o, o_res o with
      | [bulk; gen; stream; frame], [r1; r2; r3; r4; r5; r6] =>
          (is_nil zs || bytes_eqb bulk gen) && bytes_eqb stream frame &&
          is_ok zs r1 && is_ok zs r2 && is_ok zs r3 && is_ok zs r4 && is_err r5 && is_err r6
      | _, _ => false
      end
  | KRef t xs qlen m src =>
      match o_bytes o, o_res o, o_flags o with
      | [body], [seen; back], [borrowed] =>
          let data_addr := frame_addr qlen m + (lenN body - N.of_nat (e_width t) * lenN xs) in
          let is_aligned_form := match src with CAligned => true | _ => false end in
          is_ok xs seen && is_ok xs back &&
          Bool.eqb borrowed (is_aligned_form && (data_addr mod e_align t =? 0)) &&
          (negb (is_aligned_form && (m mod e_align t =? 0)) || borrowed)
      | _, _, _ => false
      end
  | KWrongType t u xs _ _ =>
      match o_res o with
      | [r1; r2; r3; r4; r5] =>
          is_err r1 && (if is_nil xs then is_ok [] r2 else is_err r2) && is_err r3 && is_err r4 && is_err r5
      | _ => false
      end
  | KWrongFmt _ _ _ _ =>
      match o_res o with
      | [r1; r2; r3; r4] => is_err r1 && is_err r2 && is_err r3 && is_err r4
      | _ => false
      end
  | KNet rk ck t xs _ =>
      match o_res o with
      | [r1; r2] =>
          match rk, ck with
          | RSlice, CAligned => is_err r1 && is_err r2
          | _, _ => is_ok xs r1 && is_ok xs r2
          end
      | _ => false
      end
  end.

(** well-formed cases: descriptors of the table's shape, elements that fit
    their width, lengths below 2^62 with a payload that fits the address
    space, byte strings made of bytes, header fields that fit *)
Definition len_ok (t : ety) (xs : list N) : bool :=
  (lenN xs <? SIZE_MAX) && (lenN xs * N.of_nat (e_width t) <? SIZE_MAX).

Definition slice_ok (t : ety) (xs : list N) : bool := ety_ok t && elems_ok t xs && len_ok t xs.

Definition c08_wf (c : c08_case) : bool :=
  match c with
  | KEnc t xs q id => slice_ok t xs && bytes_ok q && (lenN q <? two32) && (id <? two64)
  | KCplx t u zs q id =>
      slice_ok t zs && ety_ok u && negb (tag_eqb t u) && (lenN zs mod 2 =? 0) &&
      bytes_ok q && (lenN q <? two32) && (id <? two64)
  | KRef t xs qlen m src => slice_ok t xs && (qlen <? two32) && (m <? two32)
  | KWrongType t u xs qlen m =>
      slice_ok t xs && ety_ok u && negb (tag_eqb t u) && (qlen <? two32) && (m <? two32)
  | KWrongFmt t xs bfmt _ => slice_ok t xs && negb (bfmt =? BODY_BEVE) && (bfmt <? two16)
  | KNet rk ck t xs qlen =>
      slice_ok t xs && (qlen <? two32) &&
      negb (match rk, ck with RTyped, CAligned => true | _, _ => false end)
  end.
