(** The bounded outbound channel of one WebSocket connection
    (src/websocket_server.rs: [mpsc::channel::<Message>(config.outbound_capacity)]
    in [handle_connection_with_config]; producers [conn.outbound_tx.send(response).await]
    in [reader_task] / [spawn_off_reader] and in the blocking threads; the single consumer
    [writer_task]).

    Producers are sequential programs (the messages each one still has to send, in order);
    [Send i] moves the next message of producer [i] into the queue when there is room and
    is otherwise not enabled (the sender stays suspended in [send().await]); [Drain] is
    the writer taking the oldest queued message to the wire.  [TrySend i] is the
    non-waiting variant ([try_send]): when the queue is full the message is dropped. *)
From RepeV Require Export Base.Word.

Section OutQueue.
Context {A : Set}.

Record qst : Set := mkQ { q_cap : nat; q_progs : list (list A); q_items : list A; q_wire : list A }.

Inductive qact : Set := Send (i : nat) | Drain | TrySend (i : nat).

Definition has_room (s : qst) : bool := (length (q_items s) <? q_cap s)%nat.

(** the next message of producer [i], and the programs after it has been taken *)
Fixpoint take_head (progs : list (list A)) (i : nat) : option (A * list (list A)) :=
  match progs, i with
  | [], _ => None
  | p :: rest, O => match p with [] => None | x :: p' => Some (x, p' :: rest) end
  | p :: rest, S i' => match take_head rest i' with Some (x, rest') => Some (x, p :: rest') | None => None end
  end.

Definition enabled (s : qst) (a : qact) : bool :=
  match a with
  | Send i => match take_head (q_progs s) i with Some _ => has_room s | None => false end
  | Drain => match q_items s with [] => false | _ :: _ => true end
  | TrySend i => match take_head (q_progs s) i with Some _ => true | None => false end
  end.

(** an action that is not enabled leaves the state as it is *)
Definition qstep (s : qst) (a : qact) : qst :=
  match a with
  | Send i =>
      match take_head (q_progs s) i with
      | Some (x, progs') => if has_room s then mkQ (q_cap s) progs' (q_items s ++ [x]) (q_wire s) else s
      | None => s
      end
  | Drain =>
      match q_items s with
      | [] => s
      | y :: rest => mkQ (q_cap s) (q_progs s) rest (q_wire s ++ [y])
      end
  | TrySend i =>
      match take_head (q_progs s) i with
      | Some (x, progs') =>
          if has_room s then mkQ (q_cap s) progs' (q_items s ++ [x]) (q_wire s)
          else mkQ (q_cap s) progs' (q_items s) (q_wire s)          (* Full: the message is gone *)
      | None => s
      end
  end.

Definition qrun (s : qst) (acts : list qact) : qst := fold_left qstep acts s.

(** everything that is still somewhere: on the wire, queued, or not yet sent *)
Definition all_of (s : qst) : list A := q_wire s ++ q_items s ++ concat (q_progs s).

(** work left: two steps per unsent message, one per queued message *)
Definition measure (s : qst) : nat := (2 * length (concat (q_progs s)) + length (q_items s))%nat.

Definition quiescent (s : qst) : bool :=
  match q_items s, concat (q_progs s) with [], [] => true | _, _ => false end.

(** only waiting sends and the writer *)
Definition waiting_act (a : qact) : bool := match a with TrySend _ => false | _ => true end.

(** a schedule that takes only enabled actions *)
Fixpoint all_enabled (s : qst) (acts : list qact) : bool :=
  match acts with
  | [] => true
  | a :: acts' => enabled s a && all_enabled (qstep s a) acts'
  end.

End OutQueue.

Arguments qst A : clear implicits.
