(** C12, the variant that is NOT the code: the waiter evaluates its predicate under one
    hold of the mutex, releases it, and takes it again only to park
    ([Checked] = "decided to park, not yet in the wait set").  A signal that arrives in
    between finds nobody to wake.  Model/Condvar.v's [EWaiter] is the atomic
    check-and-park of the real [wait_for_credit] / [wait_for_reconnect]; this file exists
    to show that the atomicity is what [C12_no_lost_wakeup] rests on. *)
From RepeV Require Export Model.Condvar.

Inductive wstate2 : Set :=
| Runnable2 | Checked2 | Parked2 | Done2 (r : wresult).

Record sys2 : Set := mkSys2 { z_tc : tc; z_w : wstate2; z_kind : wkind }.

Inductive ev2 : Set :=
| ESignal2 (o : op)        (* another thread runs one method *)
| EWaiter2.                (* the waiter's next step: check (and release), or park *)

Definition sys2_step (z : sys2) (e : ev2) : sys2 :=
  match e with
  | ESignal2 o =>
      let s' := fst (step (z_tc z) o) in
      let w' := match z_w z with
                | Parked2 => if notifies (z_tc z) o then Runnable2 else Parked2
                | w => w                       (* [Checked2]: not in the wait set, nothing to wake *)
                end in
      mkSys2 s' w' (z_kind z)
  | EWaiter2 =>
      match z_w z with
      | Runnable2 =>
          if ready (z_kind z) (z_tc z) then
            let '(s', r) := waiter_return (z_kind z) (z_tc z) in mkSys2 s' (Done2 r) (z_kind z)
          else mkSys2 (z_tc z) Checked2 (z_kind z)
      | Checked2 => mkSys2 (z_tc z) Parked2 (z_kind z)
      | _ => z
      end
  end.

Definition sys2_run (z : sys2) (es : list ev2) : sys2 := fold_left sys2_step es z.

Definition sys2_init (window cap : N) (k : wkind) : sys2 := mkSys2 (init window cap) Runnable2 k.

(** window 4, 10 bytes sent, a 2-byte chunk: the waiter checks (no credit), an ack for all
    10 bytes arrives and notifies nobody, the waiter parks - with its condition true, and
    nothing will wake it before its deadline *)
Definition lost_wakeup_schedule : list ev2 :=
  [ESignal2 (Sent 10); EWaiter2; ESignal2 (Ack 0 10); EWaiter2].
