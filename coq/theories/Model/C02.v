(** C02: hostile bytes. Case = a byte string; observation = the outcome of
    every parsing / stream-reading entry point on it. *)
From RepeV Require Export Model.C01.

Record c02_obs : Set := mkC02Obs {
  p_decode : outcome header;
  p_from_slice : outcome message;
  p_from_slice_exact : outcome message;
  p_view : outcome message;
  p_view_exact : outcome message;
  p_read : outcome (message * list byte);
  p_read_into : outcome (list byte * list byte)
}.

Definition model_C02 (bs : list byte) : c02_obs :=
  mkC02Obs (decode bs) (from_slice bs) (from_slice_exact bs) (view_from_slice bs)
    (view_from_slice_exact bs) (read_message can_alloc_R4 bs) (read_message_into can_alloc_R4 bs).

(** "the magic is correct, the declared total equals 48 plus both payload
    lengths (in N: no wrap-around), the bytes contain the whole frame, and the
    returned query and body are exactly the corresponding input bytes" *)
Definition header_matches (bs : list byte) (h : header) : bool :=
  (48 <=? lenN bs) &&
  forallb (fun '(off, w, get) => field bs off w =? get h) layout &&
  (h_spec h =? REPE_SPEC) &&
  (h_length h =? HEADER_SIZE + h_qlen h + h_blen h).

Definition parse_okb (exact : bool) (bs : list byte) (m : message) : bool :=
  header_matches bs (m_hdr m) &&
  (if exact then h_length (m_hdr m) =? lenN bs else h_length (m_hdr m) <=? lenN bs) &&
  bytes_eqb (m_query m) (slice bs 48 (48 + N.to_nat (h_qlen (m_hdr m)))) &&
  bytes_eqb (m_body m)
    (slice bs (48 + N.to_nat (h_qlen (m_hdr m)))
       (48 + N.to_nat (h_qlen (m_hdr m)) + N.to_nat (h_blen (m_hdr m)))).

Definition res_ok {A} (r : outcome A) (good : A -> bool) : bool :=
  match r with
  | Ok a => good a
  | Err _ => true
  | Panic | Abort => false
  end.

Definition ok_C02 (bs : list byte) (o : c02_obs) : bool :=
  res_ok (p_decode o) (header_matches bs) &&
  res_ok (p_from_slice o) (parse_okb false bs) &&
  res_ok (p_from_slice_exact o) (parse_okb true bs) &&
  res_ok (p_view o) (parse_okb false bs) &&
  res_ok (p_view_exact o) (parse_okb true bs) &&
  res_ok (p_read o) (fun '(m, rest) =>
    parse_okb false bs m && bytes_eqb rest (skipn (N.to_nat (h_length (m_hdr m))) bs)) &&
  res_ok (p_read_into o) (fun '(f, rest) =>
    match decode f with
    | Ok h => header_matches bs h && bytes_eqb f (firstn (N.to_nat (h_length h)) bs) &&
              (lenN f =? h_length h) &&
              bytes_eqb rest (skipn (N.to_nat (h_length h)) bs)
    | _ => false
    end).
