(** Model of request/response correlation on one client connection
    (src/client.rs, src/async_client.rs, src/websocket_client.rs): the id
    counter, the pending map, the reader loop that matches a response to its
    caller, timeouts and cancellation, the WebSocket notification subscriber;
    and the batch workers.  One step per atomic section of the code. *)
From RepeV Require Export Base.Word Model.Peers.

(** a frame as the reader sees it: the header id, the notify byte, and a tag
    standing for the rest of the frame (which request it answers) *)
Record frame : Set := mkFrame { f_id : N; f_notify : N; f_tag : N }.

(** how a call ended *)
Inductive outcome : Set :=
| OGot (f : frame) | OTimeout | OCancel
| ORefused      (* registration refused: the id is already pending (duplicate_request_id_error) *)
| ONotified.    (* forward_message of a notify message: written, Ok(None), nothing registered *)

(** what the scripted server sends, naming requests by their caller *)
Inductive sact : Set :=
| SReply (k v : N)          (* a response to caller k's request (v > 0: a further copy) *)
| SUnknown (id v : N)       (* a response with an id that no request carries *)
| SNotify (k v : N)         (* a notification that reuses the id of caller k's request *)
| SNotifyRaw (id v : N).    (* a notification with a free id *)

Inductive step : Set :=
| Register (c : N)          (* next_id.fetch_add(1); pending.insert(id, sender) *)
| Write (c : N)             (* the request frame goes on the wire *)
| Recv (f : frame)          (* reader: takes a frame and routes it under the pending lock *)
| Srv (a : sact)            (* the scripted server sends the frame of [a]; the reader takes it *)
| Deliver                   (* reader: sender.send(Ok(response)) of the matched frame *)
| Timeout (c : N)           (* the wait expired: remove_pending(id), return the error *)
| Cancel (c : N)            (* the call future is dropped: the guard removes the entry *)
| Forward (c id : N)        (* AsyncClient::forward_message with a caller-supplied id: PendingRequestGuard::register *)
| FwdNotify (c : N).        (* AsyncClient::forward_message of a notify message: only a write *)

Record mux : Set := mkMux {
  m_next : N;                          (* next_id *)
  m_pending : list (N * N);            (* id -> caller *)
  m_issued : list (N * N);             (* caller -> id, in issue order *)
  m_wire : list (N * N);               (* caller -> id of the requests written *)
  m_matched : option (N * frame);      (* removed from pending, not yet sent to the caller *)
  m_out : list (N * outcome);          (* caller -> how its call ended *)
  m_sub : list frame;                  (* what the notification subscriber received *)
  m_dropped : list frame               (* frames the reader dropped *)
}.

Definition mux0 : mux := mkMux 1 [] [] [] None [] [] [].

Definition tag_of (k v : N) : N := k + 4096 * v.
Definition unknown_k : N := 4095.

(** the frame the server sends for [a]; it can only name a request it has read *)
Definition frame_of (s : mux) (a : sact) : option frame :=
  match a with
  | SReply k v => match aget (m_wire s) k with Some id => Some (mkFrame id 0 (tag_of k v)) | None => None end
  | SNotify k v => match aget (m_wire s) k with Some id => Some (mkFrame id 1 (tag_of k v)) | None => None end
  | SUnknown id v => if memN id (map snd (m_issued s)) then None else Some (mkFrame id 0 (tag_of unknown_k v))
  | SNotifyRaw id v => Some (mkFrame id 1 (tag_of unknown_k v))
  end.

(** reader: hand the matched frame to its caller; a caller that already gave
    up has dropped its receiver, the frame is lost *)
Definition deliver (s : mux) : mux :=
  match m_matched s with
  | None => s
  | Some (c, f) =>
      match aget (m_out s) c with
      | None => mkMux (m_next s) (m_pending s) (m_issued s) (m_wire s) None
                      (m_out s ++ [(c, OGot f)]) (m_sub s) (m_dropped s)
      | Some _ => mkMux (m_next s) (m_pending s) (m_issued s) (m_wire s) None
                      (m_out s) (m_sub s) (m_dropped s ++ [f])
      end
  end.

(** reader: route one frame.  [ws]: the WebSocket client looks at the notify
    byte first; the TCP clients do not look at it at all *)
Definition route (ws : bool) (s : mux) (f : frame) : mux :=
  if ws && negb (f_notify f =? 0) then
    mkMux (m_next s) (m_pending s) (m_issued s) (m_wire s) (m_matched s) (m_out s)
          (m_sub s ++ [f]) (m_dropped s)
  else match aget (m_pending s) (f_id f) with
       | Some c => mkMux (m_next s) (adel (m_pending s) (f_id f)) (m_issued s) (m_wire s)
                         (Some (c, f)) (m_out s) (m_sub s) (m_dropped s)
       | None => mkMux (m_next s) (m_pending s) (m_issued s) (m_wire s) (m_matched s) (m_out s)
                       (m_sub s) (m_dropped s ++ [f])
       end.

(** a call gives up (timeout, cancellation): its cleanup removes the entry under
    its id only if that entry is still its own registration (the async client's
    guard compares a registration token; one call = one registration, so "the
    entry's caller is c" is the same test).  The blocking client's
    [remove_pending] and the WebSocket client's guard remove by id alone
    ([finish_legacy]); without caller-supplied ids the two coincide
    (C04_legacy_guard_same_without_reuse). *)
Definition finish (s : mux) (c : N) (o : outcome) : mux :=
  match aget (m_issued s) c with
  | Some id =>
      let own := match aget (m_pending s) id with Some c' => c' =? c | None => false end in
      mkMux (m_next s) (if own then adel (m_pending s) id else m_pending s) (m_issued s) (m_wire s) (m_matched s)
            (m_out s ++ [(c, o)]) (m_sub s) (m_dropped s)
  | None => s
  end.

(** the cleanup before the repair of the async client (and the other two clients'): by id alone *)
Definition finish_legacy (s : mux) (c : N) (o : outcome) : mux :=
  match aget (m_issued s) c with
  | Some id => mkMux (m_next s) (adel (m_pending s) id) (m_issued s) (m_wire s) (m_matched s)
                     (m_out s ++ [(c, o)]) (m_sub s) (m_dropped s)
  | None => s
  end.

Definition isSome {A} (o : option A) : bool := match o with Some _ => true | None => false end.

(** per-caller program order: Register; Write; then one of (delivery | Timeout | Cancel) *)
Definition enabled (s : mux) (st : step) : bool :=
  match st with
  | Register c | Forward c _ | FwdNotify c => negb (isSome (aget (m_issued s) c)) && negb (isSome (aget (m_out s) c))
  | Write c => isSome (aget (m_issued s) c) && negb (isSome (aget (m_wire s) c)) && negb (isSome (aget (m_out s) c))
  | Recv _ => true
  | Srv a => isSome (frame_of s a)
  | Deliver => isSome (m_matched s)
  | Timeout c => isSome (aget (m_wire s) c) && negb (isSome (aget (m_out s) c))
  | Cancel c => isSome (aget (m_issued s) c) && negb (isSome (aget (m_out s) c))
  end.

(** a step that is not enabled leaves the state unchanged *)
Definition mstep (ws : bool) (s : mux) (st : step) : mux :=
  if negb (enabled s st) then s else
  match st with
  | Register c =>
      (* the counter moves first; the async and WebSocket clients then refuse an id that is
         pending (the blocking client would replace the entry: without forwarded ids the
         case cannot arise, see C04_register_never_collides) *)
      if isSome (aget (m_pending s) (m_next s)) then
        mkMux ((m_next s + 1) mod two64) (m_pending s) (m_issued s) (m_wire s) (m_matched s)
              (m_out s ++ [(c, ORefused)]) (m_sub s) (m_dropped s)
      else
      mkMux ((m_next s + 1) mod two64) (aset (m_pending s) (m_next s) c)
            (m_issued s ++ [(c, m_next s)]) (m_wire s) (m_matched s) (m_out s) (m_sub s) (m_dropped s)
  | Forward c id =>
      if isSome (aget (m_pending s) id) then
        mkMux (m_next s) (m_pending s) (m_issued s) (m_wire s) (m_matched s)
              (m_out s ++ [(c, ORefused)]) (m_sub s) (m_dropped s)
      else
      mkMux (m_next s) (aset (m_pending s) id c) (m_issued s ++ [(c, id)]) (m_wire s) (m_matched s)
            (m_out s) (m_sub s) (m_dropped s)
  | FwdNotify c =>
      mkMux (m_next s) (m_pending s) (m_issued s) (m_wire s) (m_matched s)
            (m_out s ++ [(c, ONotified)]) (m_sub s) (m_dropped s)
  | Write c =>
      match aget (m_issued s) c with
      | Some id => mkMux (m_next s) (m_pending s) (m_issued s) (m_wire s ++ [(c, id)]) (m_matched s)
                         (m_out s) (m_sub s) (m_dropped s)
      | None => s
      end
  | Recv f => route ws (deliver s) f
  | Srv a => match frame_of s a with Some f => route ws (deliver s) f | None => s end
  | Deliver => deliver s
  | Timeout c => finish s c OTimeout
  | Cancel c => finish s c OCancel
  end.

Definition run (ws : bool) (s : mux) (l : list step) : mux := fold_left (mstep ws) l s.

Definition mstep_legacy (ws : bool) (s : mux) (st : step) : mux :=
  match st with
  | Timeout c => if enabled s st then finish_legacy s c OTimeout else s
  | Cancel c => if enabled s st then finish_legacy s c OCancel else s
  | _ => mstep ws s st
  end.
Definition run_legacy (ws : bool) (s : mux) (l : list step) : mux := fold_left (mstep_legacy ws) l s.

(** responses are correlated by id alone: once the id of caller k's request has
    been registered again by another call, a response to k's request cannot be
    told from a response to that call.  The scripted server therefore answers
    k's request only while the entry under its id, if any, is k's own. *)
Definition srv_own (s : mux) (st : step) : bool :=
  match st with
  | Srv (SReply k _) =>
      match aget (m_wire s) k with
      | Some id => match aget (m_pending s) id with Some c => c =? k | None => true end
      | None => true
      end
  | _ => true
  end.

Fixpoint all_srv_own (ws : bool) (s : mux) (l : list step) : bool :=
  match l with
  | [] => true
  | st :: l' => srv_own s st && all_srv_own ws (mstep ws s st) l'
  end.

(** an accepted registration does not reuse an id: the id of a Register or
    Forward step is either pending (then the step is refused) or was never
    registered on this connection *)
Definition fresh_reg (s : mux) (st : step) : bool :=
  match st with
  | Register _ => isSome (aget (m_pending s) (m_next s)) || negb (memN (m_next s) (map snd (m_issued s)))
  | Forward _ id => isSome (aget (m_pending s) id) || negb (memN id (map snd (m_issued s)))
  | _ => true
  end.

Fixpoint all_fresh (ws : bool) (s : mux) (l : list step) : bool :=
  match l with
  | [] => true
  | st :: l' => fresh_reg s st && all_fresh ws (mstep ws s st) l'
  end.

Definition is_forward (st : step) : bool :=
  match st with Forward _ _ | FwdNotify _ => true | _ => false end.

Fixpoint all_enabled (ws : bool) (s : mux) (l : list step) : bool :=
  match l with
  | [] => true
  | st :: l' => enabled s st && all_enabled ws (mstep ws s st) l'
  end.

(** ** cases and observations of the correspondence check *)
Record c04_case : Set := mkCase { c_ws : bool; c_n : N; c_sched : list step }.

Inductive oc : Set :=
| CGot (t : N)      (* the call returned a response whose body carries tag t *)
| CTimeout | CCancel
| CClosed           (* the call failed with an i/o error (the connection ended) *)
| CRefused          (* the call was refused: its id is already pending *)
| CNone             (* forward_message returned Ok(None) *)
| CBad (code : N).  (* anything else: id mismatch error, wrong body, hang *)

Record c04_obs : Set := mkObs {
  o_out : list oc;     (* per caller 0..n-1 *)
  o_sub : list N;      (* tags the notification subscriber received, in order *)
  o_ids : list N       (* ids of the requests of counter-issued calls that the server read, sorted *)
}.

Definition callers (n : N) : list N := map N.of_nat (seq 0 (N.to_nat n)).

Fixpoint ins_sorted (x : N) (l : list N) : list N :=
  match l with
  | [] => [x]
  | y :: l' => if x <=? y then x :: l else y :: ins_sorted x l'
  end.
Definition sortN (l : list N) : list N := fold_right ins_sorted [] l.

Definition oc_of (s : mux) (c : N) : oc :=
  match aget (m_out s) c with
  | Some (OGot f) => CGot (f_tag f)
  | Some OTimeout => CTimeout
  | Some OCancel => CCancel
  | Some ORefused => CRefused
  | Some ONotified => CNone
  | None => CClosed     (* the server closes at the end: every call still waiting fails *)
  end.

(** caller c draws its id from the counter *)
Definition is_counter (l : list step) (c : N) : bool :=
  existsb (fun st => match st with Register k => k =? c | _ => false end) l.

Definition counter_ids (l : list step) (wire : list (N * N)) : list N :=
  sortN (map snd (filter (fun ci => is_counter l (fst ci)) wire)).

Definition obs_of (cs : c04_case) (s : mux) : c04_obs :=
  mkObs (map (oc_of s) (callers (c_n cs))) (map f_tag (m_sub s)) (counter_ids (c_sched cs) (m_wire s)).

Definition model_C04 (cs : c04_case) : c04_obs := obs_of cs (deliver (run (c_ws cs) mux0 (c_sched cs))).
Definition model_C04_legacy (cs : c04_case) : c04_obs := obs_of cs (deliver (run_legacy (c_ws cs) mux0 (c_sched cs))).

(** ** well-formed cases: what the generator promises *)
Definition is_raw (st : step) : bool := match st with Recv _ => true | _ => false end.
Definition is_notify (st : step) : bool :=
  match st with Srv (SNotify _ _) | Srv (SNotifyRaw _ _) => true | _ => false end.
Definition step_caller_ok (n : N) (st : step) : bool :=
  match st with
  | Register c | Write c | Timeout c | Cancel c | Forward c _ | FwdNotify c => c <? n
  | Srv (SReply k _) | Srv (SNotify k _) => k <? n
  | _ => true
  end.

Definition step_ok (ws : bool) (n : N) (st : step) : bool :=
  negb (is_raw st) && step_caller_ok n st && (ws || negb (is_notify st)) && negb (ws && is_forward st).

Definition c04_wf (cs : c04_case) : bool :=
  (c_n cs <? unknown_k) &&
  (N.of_nat (length (c_sched cs)) <? two32) &&
  forallb (step_ok (c_ws cs) (c_n cs)) (c_sched cs) &&
  all_enabled (c_ws cs) mux0 (c_sched cs) &&
  all_srv_own (c_ws cs) mux0 (c_sched cs) &&
  (let s := run (c_ws cs) mux0 (c_sched cs) in
   forallb (fun c => isSome (aget (m_wire s) c) || isSome (aget (m_out s) c)) (callers (c_n cs))).

(** ** the oracle, from the property text *)
Fixpoint reply_tags (l : list step) : list N :=
  match l with
  | [] => []
  | Srv (SReply k v) :: l' => tag_of k v :: reply_tags l'
  | _ :: l' => reply_tags l'
  end.
Fixpoint notify_tags (l : list step) : list N :=
  match l with
  | [] => []
  | Srv (SNotify k v) :: l' => tag_of k v :: notify_tags l'
  | Srv (SNotifyRaw id v) :: l' => tag_of unknown_k v :: notify_tags l'
  | _ :: l' => notify_tags l'
  end.
Definition replied (l : list step) (c : N) : bool :=
  existsb (fun st => match st with Srv (SReply k _) => k =? c | _ => false end) l.
Definition timed_out (l : list step) (c : N) : bool :=
  existsb (fun st => match st with Timeout k => k =? c | _ => false end) l.
Definition cancelled (l : list step) (c : N) : bool :=
  existsb (fun st => match st with Cancel k => k =? c | _ => false end) l.

(** caller c's registration may be refused only if ids were supplied by callers *)
Definition may_refuse (l : list step) (c : N) : bool :=
  existsb (fun st => match st with Forward k _ => k =? c | _ => false end) l ||
  (existsb (fun st => match st with Register k => k =? c | _ => false end) l && existsb is_forward l).
Definition notify_forwarded (l : list step) (c : N) : bool :=
  existsb (fun st => match st with FwdNotify k => k =? c | _ => false end) l.

Fixpoint nodupb (l : list N) : bool :=
  match l with [] => true | x :: r => negb (memN x r) && nodupb r end.

(** caller c got the response that answers its own request (a response frame
    the server sent for c, never a notification, never another caller's), or
    an error; a call whose response was sent and that neither timed out nor was
    cancelled must return it *)
Definition ok_caller (l : list step) (c : N) (o : oc) : bool :=
  match o with
  | CGot t => (t mod 4096 =? c) && memN t (reply_tags l)
  | CTimeout => timed_out l c
  | CCancel => cancelled l c
  | CClosed => negb (replied l c) || timed_out l c || cancelled l c
  | CRefused => may_refuse l c
  | CNone => notify_forwarded l c
  | CBad _ => false
  end.

Fixpoint ok_callers (l : list step) (cs : list N) (os : list oc) : bool :=
  match cs, os with
  | [], [] => true
  | c :: cs', o :: os' => ok_caller l c o && ok_callers l cs' os'
  | _, _ => false
  end.

Definition ok_C04 (cs : c04_case) (o : c04_obs) : bool :=
  ok_callers (c_sched cs) (callers (c_n cs)) (o_out o) &&
  listN_eqb (o_sub o) (if c_ws cs then notify_tags (c_sched cs) else []) &&
  nodupb (o_ids o).

(** the same case on a WebSocket client on which nobody subscribed to
    notifications: the reader routes exactly as before (the notify byte is
    looked at first, the pending map is not consulted) but drops the frame
    instead of handing it over; nothing reaches a subscriber and the calls
    are judged as before *)
Definition drop_sub (o : c04_obs) : c04_obs := mkObs (o_out o) [] (o_ids o).
Definition model_C04_nosub (cs : c04_case) : c04_obs := drop_sub (model_C04 cs).
Definition ok_C04_nosub (cs : c04_case) (o : c04_obs) : bool :=
  ok_callers (c_sched cs) (callers (c_n cs)) (o_out o) &&
  (match o_sub o with [] => true | _ => false end) &&
  nodupb (o_ids o).

Definition oc_eqb (a b : oc) : bool :=
  match a, b with
  | CGot x, CGot y => x =? y
  | CTimeout, CTimeout | CCancel, CCancel | CClosed, CClosed | CRefused, CRefused | CNone, CNone => true
  | CBad x, CBad y => x =? y
  | _, _ => false
  end.
Definition c04_obs_eqb (a b : c04_obs) : bool :=
  list_eqb oc_eqb (o_out a) (o_out b) && listN_eqb (o_sub a) (o_sub b) && listN_eqb (o_ids a) (o_ids b).

(** ** batch workers: a shared queue of (index, request); each worker pops an
    item, performs the call, and stores the result at the item's index *)
Record batch : Set := mkBatch {
  b_queue : list (N * N);               (* (index, request) still to do *)
  b_hold : list (N * (N * N));          (* worker -> the item it popped *)
  b_res : list (option N)               (* results, by index *)
}.

Fixpoint set_nth {A} (i : nat) (x : A) (l : list A) : list A :=
  match l, i with
  | [], _ => []
  | _ :: l', O => x :: l'
  | y :: l', S i' => y :: set_nth i' x l'
  end.

Definition indexed (reqs : list N) : list (N * N) := combine (map N.of_nat (seq 0 (length reqs))) reqs.

Definition batch0 (reqs : list N) : batch :=
  mkBatch (indexed reqs) [] (repeat None (length reqs)).

(** worker [w] takes its next atomic step *)
Definition bstep (res_of : N -> N) (s : batch) (w : N) : batch :=
  match aget (b_hold s) w with
  | Some (i, r) => mkBatch (b_queue s) (adel (b_hold s) w) (set_nth (N.to_nat i) (Some (res_of r)) (b_res s))
  | None => match b_queue s with
            | [] => s
            | it :: q => mkBatch q ((w, it) :: b_hold s) (b_res s)
            end
  end.

Definition brun (res_of : N -> N) (reqs : list N) (sched : list N) : batch :=
  fold_left (bstep res_of) sched (batch0 reqs).
