(** Model of src/registry.rs ([Registry]: a JSON root value plus a map of
    callables keyed by canonical pointer string), of the prefix mount of
    src/server.rs ([RegisteredRegistry], [RegistryEntry::matches]), the
    specification "a plain JSON document plus a set of callables addressed by
    RFC 6901 pointers", the C14 case/observation types and oracle, and a small
    interleaving model of concurrent requests. *)
From RepeV Require Export Model.Json.

(** ** errors: the variants of [RegistryError] and [RegistryError::code] *)
Inductive rerr : Set :=
| EInvalidPointer
| EPathNotFound
| EInvalidIndex
| EOutOfBounds
| ERootNotObject            (* RootWriteRequiresObject *)
| EBadBody                  (* UnsupportedBodyFormat / InvalidUtf8 / Json / Beve *)
| ENotBelowPrefix           (* the mount's own "path is not below registry prefix" *)
| EExec (code : N).

Definition METHOD_NOT_FOUND : N := 6.
Definition INVALID_BODY : N := 4.
Definition APP_ERROR : N := 4096.

Definition err_code (e : rerr) : N :=
  match e with
  | EInvalidPointer | EPathNotFound | EInvalidIndex | EOutOfBounds | ENotBelowPrefix => METHOD_NOT_FOUND
  | ERootNotObject | EBadBody => INVALID_BODY
  | EExec c => c
  end.

Inductive res (A : Type) : Type := Ok (a : A) | Err (e : rerr).
Arguments Ok {A} a.
Arguments Err {A} e.

(** ** pointer functions of registry.rs *)

(** [unescape_token]: the loop over chars *)
Fixpoint unescape_go (s : str) : option str :=
  match s with
  | [] => Some []
  | c :: s' =>
      if c =? TILDE then
        match s' with
        | [] => None
        | n :: s'' =>
            if n =? ZERO then option_map (cons TILDE) (unescape_go s'')
            else if n =? ONE then option_map (cons SLASH) (unescape_go s'')
            else None
        end
      else option_map (cons c) (unescape_go s')
  end.

(** [unescape_token]: borrowed when there is no '~' *)
Definition unescape_token (t : str) : option str :=
  if contains TILDE t then unescape_go t else Some t.

(** [escape_token]: [token.replace('~', "~0").replace('/', "~1")] *)
Definition escape_token (t : str) : str :=
  replace1 SLASH [TILDE; ONE] (replace1 TILDE [TILDE; ZERO] t).

Definition canonical_pointer (segs : list str) : str :=
  match segs with
  | [] => [SLASH]
  | _ => flat_map (fun s => SLASH :: escape_token s) segs
  end.

(** [collect::<Result<Vec<_>, _>>()] *)
Fixpoint collect_opt {A} (l : list (option A)) : option (list A) :=
  match l with
  | [] => Some []
  | Some x :: l' => option_map (cons x) (collect_opt l')
  | None :: _ => None
  end.

Definition is_root_ptr (p : str) : bool :=
  match p with
  | [] => true
  | c :: [] => c =? SLASH
  | _ => false
  end.

Definition parse_pointer (p : str) : res (list str) :=
  if is_root_ptr p then Ok []
  else match p with
       | c :: rest =>
           if c =? SLASH then
             match collect_opt (map unescape_token (split_on SLASH rest)) with
             | Some segs => Ok segs
             | None => Err EInvalidPointer
             end
           else Err EInvalidPointer
       | [] => Ok []
       end.

Definition canonical_key (p : str) : res str :=
  if is_root_ptr p then Ok [SLASH]
  else if negb (starts_with SLASH p) then Err EInvalidPointer
  else if negb (contains TILDE p) then Ok p
  else match parse_pointer p with
       | Ok segs => Ok (canonical_pointer segs)
       | Err e => Err e
       end.

Definition parse_registration_path (path : str) : res (list str) :=
  match path with
  | [] => Ok []
  | _ => parse_pointer (if starts_with SLASH path then path else SLASH :: path)
  end.

(** ** the value tree *)

(** one step of the loops of [resolve_ref] / [resolve_mut] / [set_pointer] *)
Definition child (cur : json) (s : str) : res json :=
  match cur with
  | JObj m => match oget m s with Some c => Ok c | None => Err EPathNotFound end
  | JArr a =>
      match parse_usize s with
      | None => Err EInvalidIndex
      | Some i => match nthN a i with Some c => Ok c | None => Err EOutOfBounds end
      end
  | _ => Err EPathNotFound
  end.

(** the effect, seen from [cur], of mutating through the [&mut] that [child] stands for *)
Definition put_child (cur : json) (s : str) (c : json) : json :=
  match cur with
  | JObj m => JObj (oset m s c)
  | JArr a => match parse_usize s with Some i => JArr (setN a i c) | None => cur end
  | _ => cur
  end.

Fixpoint resolve (cur : json) (segs : list str) : res json :=
  match segs with
  | [] => Ok cur
  | s :: rest => match child cur s with Ok c => resolve c rest | Err e => Err e end
  end.

(** the tail of [set_pointer] on the parent *)
Definition set_last (cur : json) (last : str) (v : json) : res json :=
  match cur with
  | JObj m => Ok (JObj (oset m last v))
  | JArr a =>
      match parse_usize last with
      | None => Err EInvalidIndex
      | Some i => match nthN a i with Some _ => Ok (JArr (setN a i v)) | None => Err EOutOfBounds end
      end
  | _ => Err EPathNotFound
  end.

Fixpoint set_ptr (cur : json) (segs : list str) (v : json) : res json :=
  match segs with
  | [] => Ok v
  | s :: rest =>
      match rest with
      | [] => set_last cur s v
      | _ => match child cur s with
             | Ok c => match set_ptr c rest v with
                       | Ok c' => Ok (put_child cur s c')
                       | Err e => Err e
                       end
             | Err e => Err e
             end
      end
  end.

(** [merge_at] below the root: [resolve_mut], must be an object, insert all *)
Fixpoint merge_ptr (cur : json) (segs : list str) (o : omap) : res json :=
  match segs with
  | [] => match cur with JObj m => Ok (JObj (omerge m o)) | _ => Err EPathNotFound end
  | s :: rest =>
      match child cur s with
      | Ok c => match merge_ptr c rest o with
                | Ok c' => Ok (put_child cur s c')
                | Err e => Err e
                end
      | Err e => Err e
      end
  end.

(** [ensure_object_root] *)
Definition obj_of (v : json) : omap := match v with JObj m => m | _ => [] end.

(** [ensure_object_parent] on the root's map, then (for [register_value]) the
    insert of the last segment *)
Fixpoint reg_at (m : omap) (segs : list str) (ins : option json) : omap :=
  match segs with
  | [] => m
  | s :: rest =>
      match rest with
      | [] => match ins with Some v => oset m s v | None => m end
      | _ => let cm := match oget m s with Some (JObj cm) => cm | _ => [] end in
             oset m s (JObj (reg_at cm rest ins))
      end
  end.

(** ** the registry *)
Definition ftab := list (str * N).

Fixpoint fget (f : ftab) (k : str) : option N :=
  match f with
  | [] => None
  | (k', v) :: f' => if str_eqb k' k then Some v else fget f' k
  end.

Fixpoint fset (f : ftab) (k : str) (v : N) : ftab :=
  match f with
  | [] => [(k, v)]
  | (k', v') :: f' => if str_eqb k' k then (k, v) :: f' else (k', v') :: fset f' k v
  end.

Record rstate : Set := mkR { r_root : json; r_funs : ftab }.

Definition rstate0 : rstate := mkR (JObj []) [].

Inductive rout : Set :=
| ROk (j : json)
| RUnit
| RErr (e : rerr)
| RNoRoute.

Definition calllog := list (N * json).

(** string constants (keys in sorted order) *)
Definition s_path : str := [112; 97; 116; 104].
Definition s_status : str := [115; 116; 97; 116; 117; 115].
Definition s_ok : str := [111; 107].
Definition s_type : str := [116; 121; 112; 101].
Definition s_function : str := [102; 117; 110; 99; 116; 105; 111; 110].

Definition fn_meta (key : str) : json := JObj [(s_path, JStr key); (s_type, JStr s_function)].
Definition write_ok (key : str) : json := JObj [(s_path, JStr key); (s_status, JStr s_ok)].

(** the callables of the harness: callable [fid] records its argument and
    returns [[fid, argument]], or fails with an application code when
    [fid mod 4 = 3] *)
Definition fun_out (fid : N) (arg : json) : rout :=
  if fid mod 4 =? 3 then RErr (EExec APP_ERROR) else ROk (JArr [JNum fid; arg]).

Definition of_res (r : res json) : rout := match r with Ok j => ROk j | Err e => RErr e end.

(** the part of [dispatch_with_ctx] after the function lookup found nothing: the write lock section *)
Definition dispatch_write (st : rstate) (p : str) (payload : json) : rstate * rout * calllog :=
  match parse_pointer p with
  | Err e => (st, RErr e, [])
  | Ok segs =>
      match segs with
      | [] =>
          match payload with
          | JObj o => (mkR (JObj (omerge (obj_of (r_root st)) o)) (r_funs st), ROk (write_ok [SLASH]), [])
          | _ => (st, RErr ERootNotObject, [])
          end
      | _ =>
          match set_ptr (r_root st) segs payload with
          | Ok r' => (mkR r' (r_funs st), ROk (write_ok (canonical_pointer segs)), [])
          | Err e => (st, RErr e, [])
          end
      end
  end.

(** after the lookup under the first read lock returned [d] *)
Definition dispatch_decided (st : rstate) (p : str) (payload : json) (d : option N)
  : rstate * rout * calllog :=
  match d with
  | Some fid => (st, fun_out fid payload, [(fid, payload)])
  | None => dispatch_write st p payload
  end.

Definition dispatch (st : rstate) (p : str) (body : option json) : rstate * rout * calllog :=
  match canonical_key p with
  | Err e => (st, RErr e, [])
  | Ok key =>
      match body with
      | None =>
          match fget (r_funs st) key with
          | Some _ => (st, ROk (fn_meta key), [])
          | None =>
              match parse_pointer p with
              | Err e => (st, RErr e, [])
              | Ok segs => (st, of_res (resolve (r_root st) segs), [])
              end
          end
      | Some payload => dispatch_decided st p payload (fget (r_funs st) key)
      end
  end.

Definition read_value (st : rstate) (p : str) : rout :=
  match parse_pointer p with
  | Err e => RErr e
  | Ok segs => of_res (resolve (r_root st) segs)
  end.

Definition register_value (st : rstate) (path : str) (v : json) : rstate * rout :=
  match parse_registration_path path with
  | Err e => (st, RErr e)
  | Ok [] => (mkR v (r_funs st), RUnit)
  | Ok segs => (mkR (JObj (reg_at (obj_of (r_root st)) segs (Some v))) (r_funs st), RUnit)
  end.

Definition register_function (st : rstate) (path : str) (fid : N) : rstate * rout :=
  match parse_registration_path path with
  | Err e => (st, RErr e)
  | Ok [] => (st, RErr EInvalidPointer)
  | Ok segs => (mkR (JObj (reg_at (obj_of (r_root st)) segs None))
                    (fset (r_funs st) (canonical_pointer segs) fid), RUnit)
  end.

Definition merge_root (st : rstate) (o : omap) : rstate * rout :=
  (mkR (JObj (omerge (obj_of (r_root st)) o)) (r_funs st), RUnit).

Definition merge_at (st : rstate) (path : str) (o : omap) : rstate * rout :=
  match parse_registration_path path with
  | Err e => (st, RErr e)
  | Ok [] => merge_root st o
  | Ok segs =>
      match merge_ptr (r_root st) segs o with
      | Ok r' => (mkR r' (r_funs st), RUnit)
      | Err e => (st, RErr e)
      end
  end.

(** ** the mount (src/server.rs) *)
Fixpoint trim_end (c : byte) (s : str) : str :=
  match s with
  | [] => []
  | b :: s' => match trim_end c s' with
               | [] => if b =? c then [] else [b]
               | t => b :: t
               end
  end.

Fixpoint strip_pre (pre s : str) : option str :=
  match pre with
  | [] => Some s
  | a :: pre' => match s with
                 | b :: s' => if a =? b then strip_pre pre' s' else None
                 | [] => None
                 end
  end.

(** [RegisteredRegistry::new] *)
Definition normalize_prefix (prefix : str) : str :=
  let n := if is_root_ptr prefix then []
           else if starts_with SLASH prefix then prefix else SLASH :: prefix in
  match n with
  | _ :: _ :: _ => trim_end SLASH n
  | _ => n
  end.

(** [RegistryEntry::matches] (decides whether [Router::get] finds the mount) *)
Definition mount_matches (np path : str) : bool :=
  match np with
  | [] => true
  | _ => str_eqb path np ||
         match strip_pre np path with Some rest => starts_with SLASH rest | None => false end
  end.

Definition pointer_for (np path : str) : option str :=
  match np with
  | [] => Some (match path with [] => [SLASH] | _ => path end)
  | _ => if str_eqb path np then Some [SLASH]
         else match strip_pre np path with
              | Some rest => if starts_with SLASH rest then Some rest else None
              | None => None
              end
  end.

(** request bodies through the mount ([Registry::decode_body]; BEVE and the
    JSON parser themselves are not modelled: a JSON body is given by its value) *)
Inductive mbody : Set :=
| MNone
| MJson (v : json)
| MUtf8 (s : str)
| MRaw (bs : list byte)
| MUnsupported.               (* a non-empty body in an unknown body format *)

Definition decode_body (b : mbody) : res (option json) :=
  match b with
  | MNone => Ok None
  | MJson v => Ok (Some v)
  | MUtf8 [] => Ok None
  | MUtf8 s => Ok (Some (JStr s))
  | MRaw [] => Ok None
  | MRaw bs => Ok (Some (JArr (map JNum bs)))
  | MUnsupported => Err EBadBody
  end.

Definition route (prefix : option str) (st : rstate) (path : str) (b : mbody)
  : rstate * rout * calllog :=
  match prefix with
  | None => (st, RNoRoute, [])
  | Some pre =>
      let np := normalize_prefix pre in
      if negb (mount_matches np path) then (st, RNoRoute, [])
      else match pointer_for np path with
           | None => (st, RErr ENotBelowPrefix, [])
           | Some ptr =>
               match decode_body b with
               | Err e => (st, RErr e, [])
               | Ok body => dispatch st ptr body
               end
           end
  end.

(** ** operations *)
Inductive rop : Set :=
| RegValue (p : str) (v : json)
| RegFun (p : str) (fid : N)
| SetRoot (v : json)
| MergeRoot (o : omap)
| MergeAt (p : str) (o : omap)
| ReadValue (p : str)
| Dispatch (p : str) (b : option json)
| Route (path : str) (b : mbody).

Definition nolog (x : rstate * rout) : rstate * rout * calllog := (fst x, snd x, []).

Definition rstep (prefix : option str) (st : rstate) (o : rop) : rstate * rout * calllog :=
  match o with
  | RegValue p v => nolog (register_value st p v)
  | RegFun p fid => nolog (register_function st p fid)
  | SetRoot v => (mkR v (r_funs st), RUnit, [])
  | MergeRoot ob => nolog (merge_root st ob)
  | MergeAt p ob => nolog (merge_at st p ob)
  | ReadValue p => (st, read_value st p, [])
  | Dispatch p b => dispatch st p b
  | Route path b => route prefix st path b
  end.

(** ** observations *)
Inductive oout : Set :=
| OOk (j : json)
| OUnit
| OErr (code : N)
| ONoRoute.

Record ostep : Set := mkO { o_out : oout; o_root : json; o_log : calllog }.

Definition obs_out (r : rout) : oout :=
  match r with
  | ROk j => OOk j
  | RUnit => OUnit
  | RErr e => OErr (err_code e)
  | RNoRoute => ONoRoute
  end.

Record c14case : Set := mkCase { c_prefix : option str; c_ops : list rop }.

(** the model's full trace: result (with the error variant), root after the operation, calls made *)
Fixpoint rtrace (prefix : option str) (st : rstate) (ops : list rop) : list (rout * json * calllog) :=
  match ops with
  | [] => []
  | o :: ops' =>
      let '(st', r, lg) := rstep prefix st o in
      (r, r_root st', lg) :: rtrace prefix st' ops'
  end.

Definition model_full (c : c14case) : list (rout * json * calllog) := rtrace (c_prefix c) rstate0 (c_ops c).

Definition observe (x : rout * json * calllog) : ostep :=
  let '(r, root, lg) := x in mkO (obs_out r) root lg.

Definition model_C14 (c : c14case) : list ostep := map observe (model_full c).

(** ** specification: a plain JSON document and a set of callables *)

(** RFC 6901: a token is well formed when every '~' is followed by '0' or '1';
    it is decoded by replacing "~1" by "/" and then "~0" by "~" *)
Fixpoint esc_wf (t : str) : bool :=
  match t with
  | [] => true
  | c :: t' =>
      if c =? TILDE then
        match t' with
        | n :: t'' => ((n =? ZERO) || (n =? ONE)) && esc_wf t''
        | [] => false
        end
      else esc_wf t'
  end.

Definition sp_untoken (t : str) : option str :=
  if esc_wf t then Some (replace2 TILDE ZERO TILDE (replace2 TILDE ONE SLASH t)) else None.

(** RFC 6901 escaping of one token, one pass *)
Definition sp_entoken (t : str) : str :=
  flat_map (fun b => if b =? TILDE then [TILDE; ZERO] else if b =? SLASH then [TILDE; ONE] else [b]) t.

(** a pointer is "" or "/" (the whole document) or '/'-separated tokens *)
Definition sp_decode (p : str) : option (list str) :=
  match p with
  | [] => Some []
  | c :: rest =>
      if c =? SLASH then
        match rest with
        | [] => Some []
        | _ => collect_opt (map sp_untoken (split_on SLASH rest))
        end
      else None
  end.

(** registration paths may omit the leading '/' *)
Definition sp_decode_reg (p : str) : option (list str) :=
  match p with
  | [] => Some []
  | c :: _ => if c =? SLASH then sp_decode p else sp_decode (SLASH :: p)
  end.

Definition sp_encode (path : list str) : str :=
  match path with
  | [] => [SLASH]
  | _ => concat (map (fun t => SLASH :: sp_entoken t) path)
  end.

(** the value at a path: object members by key, array elements by index *)
Fixpoint sp_get (d : json) (path : list str) : option json :=
  match path with
  | [] => Some d
  | t :: path' =>
      match d with
      | JObj m => match oget m t with Some c => sp_get c path' | None => None end
      | JArr a =>
          match parse_usize t with
          | Some i => match nthN a i with Some c => sp_get c path' | None => None end
          | None => None
          end
      | _ => None
      end
  end.

(** store at a path whose parent exists: an object member is replaced or
    added, an array element is replaced (in range only) *)
Fixpoint sp_put (d : json) (path : list str) (v : json) : option json :=
  match path with
  | [] => Some v
  | t :: path' =>
      match d with
      | JObj m =>
          match path' with
          | [] => Some (JObj (oset m t v))
          | _ => match oget m t with
                 | Some c => match sp_put c path' v with
                             | Some c' => Some (JObj (oset m t c'))
                             | None => None
                             end
                 | None => None
                 end
          end
      | JArr a =>
          match parse_usize t with
          | Some i => match nthN a i with
                      | Some c => match sp_put c path' v with
                                  | Some c' => Some (JArr (setN a i c'))
                                  | None => None
                                  end
                      | None => None
                      end
          | None => None
          end
      | _ => None
      end
  end.

(** registration: every proper prefix of the path becomes an object (whatever
    was there that is not an object is replaced by an empty one); the last
    member is set when a value is given *)
Fixpoint sp_force (d : json) (path : list str) (v : option json) : json :=
  match path with
  | [] => match v with Some x => x | None => d end
  | t :: path' =>
      let m := obj_of d in
      match path' with
      | [] => match v with Some x => JObj (oset m t x) | None => JObj m end
      | _ => JObj (oset m t (sp_force (match oget m t with Some c => c | None => JNull end) path' v))
      end
  end.

(** callables keyed by decoded token path *)
Definition ctab := list (list str * N).

Fixpoint path_eqb (a b : list str) : bool :=
  match a, b with
  | [], [] => true
  | x :: a', y :: b' => str_eqb x y && path_eqb a' b'
  | _, _ => false
  end.

Fixpoint cget (c : ctab) (k : list str) : option N :=
  match c with
  | [] => None
  | (k', v) :: c' => if path_eqb k' k then Some v else cget c' k
  end.

Fixpoint cset (c : ctab) (k : list str) (v : N) : ctab :=
  match c with
  | [] => [(k, v)]
  | (k', v') :: c' => if path_eqb k' k then (k, v) :: c' else (k', v') :: cset c' k v
  end.

Record sstate : Set := mkS { s_doc : json; s_calls : ctab }.
Definition sstate0 : sstate := mkS (JObj []) [].

Definition sp_request (s : sstate) (p : str) (body : option json) : sstate * oout * calllog :=
  match sp_decode p with
  | None => (s, OErr METHOD_NOT_FOUND, [])
  | Some path =>
      match body, cget (s_calls s) path with
      | None, Some _ => (s, OOk (fn_meta (sp_encode path)), [])
      | None, None =>
          match sp_get (s_doc s) path with
          | Some v => (s, OOk v, [])
          | None => (s, OErr METHOD_NOT_FOUND, [])
          end
      | Some arg, Some fid => (s, obs_out (fun_out fid arg), [(fid, arg)])
      | Some v, None =>
          match path with
          | [] =>
              match v with
              | JObj o => (mkS (JObj (omerge (obj_of (s_doc s)) o)) (s_calls s), OOk (write_ok [SLASH]), [])
              | _ => (s, OErr INVALID_BODY, [])
              end
          | _ =>
              match sp_put (s_doc s) path v with
              | Some d' => (mkS d' (s_calls s), OOk (write_ok (sp_encode path)), [])
              | None => (s, OErr METHOD_NOT_FOUND, [])
              end
          end
      end
  end.

(** a mount serves exactly the paths "prefix" and "prefix/..." and hands on what follows the prefix *)
Definition sp_mount_rest (np path : str) : option str :=
  match np with
  | [] => Some path
  | _ => match strip_pre np path with
         | Some rest => if is_root_ptr rest || starts_with SLASH rest then Some rest else None
         | None => None
         end
  end.

Definition sstep (prefix : option str) (s : sstate) (o : rop) : sstate * oout * calllog :=
  match o with
  | SetRoot v => (mkS v (s_calls s), OUnit, [])
  | RegValue p v =>
      match sp_decode_reg p with
      | None => (s, OErr METHOD_NOT_FOUND, [])
      | Some path => (mkS (sp_force (s_doc s) path (Some v)) (s_calls s), OUnit, [])
      end
  | RegFun p fid =>
      match sp_decode_reg p with
      | None | Some [] => (s, OErr METHOD_NOT_FOUND, [])
      | Some path => (mkS (sp_force (s_doc s) path None) (cset (s_calls s) path fid), OUnit, [])
      end
  | MergeRoot ob => (mkS (JObj (omerge (obj_of (s_doc s)) ob)) (s_calls s), OUnit, [])
  | MergeAt p ob =>
      match sp_decode_reg p with
      | None => (s, OErr METHOD_NOT_FOUND, [])
      | Some [] => (mkS (JObj (omerge (obj_of (s_doc s)) ob)) (s_calls s), OUnit, [])
      | Some path =>
          match sp_get (s_doc s) path with
          | Some (JObj m) =>
              match sp_put (s_doc s) path (JObj (omerge m ob)) with
              | Some d' => (mkS d' (s_calls s), OUnit, [])
              | None => (s, OErr METHOD_NOT_FOUND, [])
              end
          | _ => (s, OErr METHOD_NOT_FOUND, [])
          end
      end
  | ReadValue p =>
      match sp_decode p with
      | None => (s, OErr METHOD_NOT_FOUND, [])
      | Some path => match sp_get (s_doc s) path with
                     | Some v => (s, OOk v, [])
                     | None => (s, OErr METHOD_NOT_FOUND, [])
                     end
      end
  | Dispatch p b => sp_request s p b
  | Route path b =>
      match prefix with
      | None => (s, ONoRoute, [])
      | Some pre =>
          match sp_mount_rest (normalize_prefix pre) path with
          | None => (s, ONoRoute, [])
          | Some rest =>
              match decode_body b with
              | Err _ => (s, OErr INVALID_BODY, [])
              | Ok body => sp_request s rest body
              end
          end
      end
  end.

Fixpoint strace (prefix : option str) (s : sstate) (ops : list rop) : list ostep :=
  match ops with
  | [] => []
  | o :: ops' =>
      let '(s', r, lg) := sstep prefix s o in
      mkO r (s_doc s') lg :: strace prefix s' ops'
  end.

Definition spec_C14 (c : c14case) : list ostep := strace (c_prefix c) sstate0 (c_ops c).

(** ** the public pointer functions of src/json_pointer.rs
    ([repe::parse_json_pointer], [repe::eval_json_pointer]): the leading '/' is
    optional, "/" is the one empty token, nothing is rejected *)
Definition jp_parse (p : str) : list str :=
  match p with
  | [] => []
  | c :: rest =>
      map (fun t => replace2 TILDE ZERO TILDE (replace2 TILDE ONE SLASH t))
          (split_on SLASH (if c =? SLASH then rest else p))
  end.

Definition jp_eval (d : json) (p : str) : option json := sp_get d (jp_parse p).

(** the oracle for those two functions, written from RFC 6901 (not from
    [jp_parse]): on a pointer that is "" or '/'-led with valid escapes the
    tokens are the unescaped '/'-separated pieces ("/" is the one empty token)
    and evaluation is the lookup of those tokens; other strings are not
    RFC pointers and are left unconstrained *)
Definition rfc_decode (p : str) : option (list str) :=
  match p with
  | [] => Some []
  | c :: rest => if c =? SLASH then collect_opt (map sp_untoken (split_on SLASH rest)) else None
  end.

Definition ok_jp (d : json) (p : str) (toks : list str) (ev : option json) : bool :=
  match rfc_decode p with
  | Some path => leqb str_eqb toks path && opt_json_eqb ev (sp_get d path)
  | None => true
  end.

(** ** decidable equality of observations and the oracle *)
Definition oout_eqb (a b : oout) : bool :=
  match a, b with
  | OOk x, OOk y => json_eqb x y
  | OUnit, OUnit => true
  | OErr x, OErr y => x =? y
  | ONoRoute, ONoRoute => true
  | _, _ => false
  end.

Definition call_eqb (a b : N * json) : bool := (fst a =? fst b) && json_eqb (snd a) (snd b).

Definition ostep_eqb (a b : ostep) : bool :=
  oout_eqb (o_out a) (o_out b) && json_eqb (o_root a) (o_root b) && leqb call_eqb (o_log a) (o_log b).

(** the property oracle: what was observed (answers by value or error class,
    the document after every operation, the calls made) is what a plain JSON
    document with a set of callables answers *)
Definition ok_C14 (c : c14case) (tr : list ostep) : bool := leqb ostep_eqb tr (spec_C14 c).

(** ** well-formed cases: what the harness generates *)
Definition body_wf (b : option json) : bool := match b with Some v => json_wf v | None => true end.
Definition mbody_wf (b : mbody) : bool :=
  match b with
  | MJson v => json_wf v
  | MUtf8 s => bytes_ok s
  | MRaw bs => bytes_ok bs
  | _ => true
  end.

Definition rop_wf (o : rop) : bool :=
  match o with
  | RegValue p v => bytes_ok p && json_wf v
  | RegFun p fid => bytes_ok p && (fid <? two64)
  | SetRoot v => json_wf v
  | MergeRoot ob => json_wf (JObj ob)
  | MergeAt p ob => bytes_ok p && json_wf (JObj ob)
  | ReadValue p => bytes_ok p
  | Dispatch p b => bytes_ok p && body_wf b
  | Route path b => bytes_ok path && mbody_wf b
  end.

Definition c14_wf (c : c14case) : bool :=
  match c_prefix c with Some pre => bytes_ok pre | None => true end && forallb rop_wf (c_ops c).

(** ** concurrent requests: a small interleaving model.
    A request with a body takes the state lock twice: a read section that looks
    the callable up, then (no callable) the write section.  Every other
    operation is one section.  A thread holds the decision of its current
    request between the two sections. *)
Record cthread : Set := mkT { ct_dec : option (option N); ct_todo : list rop }.

Definition event := (nat * rop * rout * calllog)%type.

(** one section of thread [t] *)
Definition csection (st : rstate) (t : cthread) : rstate * cthread * option (rop * rout * calllog) :=
  match ct_todo t with
  | [] => (st, t, None)
  | op :: rest =>
      match op, ct_dec t with
      | Dispatch p (Some payload), None =>
          match canonical_key p with
          | Err e => (st, mkT None rest, Some (op, RErr e, []))
          | Ok key => (st, mkT (Some (fget (r_funs st) key)) (op :: rest), None)
          end
      | Dispatch p (Some payload), Some d =>
          let '(st', r, lg) := dispatch_decided st p payload d in
          (st', mkT None rest, Some (op, r, lg))
      | _, _ =>
          let '(st', r, lg) := rstep None st op in
          (st', mkT None rest, Some (op, r, lg))
      end
  end.

Fixpoint set_nth {A} (l : list A) (i : nat) (x : A) : list A :=
  match l, i with
  | [], _ => []
  | _ :: l', O => x :: l'
  | y :: l', S i' => y :: set_nth l' i' x
  end.

(** run a schedule (thread numbers); events in completion order *)
Fixpoint crun (st : rstate) (ths : list cthread) (sched : list nat) : rstate * list cthread * list event :=
  match sched with
  | [] => (st, ths, [])
  | i :: sched' =>
      match nth_error ths i with
      | None => crun st ths sched'
      | Some t =>
          let '(st', t', ev) := csection st t in
          let '(st'', ths'', evs) := crun st' (set_nth ths i t') sched' in
          (st'', ths'', match ev with Some (op, r, lg) => (i, op, r, lg) :: evs | None => evs end)
      end
  end.

(** sequential execution of a list of operations *)
Fixpoint seq_run (st : rstate) (ops : list rop) : rstate * list (rout * calllog) :=
  match ops with
  | [] => (st, [])
  | o :: ops' =>
      let '(st', r, lg) := rstep None st o in
      let '(st'', outs) := seq_run st' ops' in
      (st'', (r, lg) :: outs)
  end.

(** requests, as opposed to registrations *)
Definition is_request (o : rop) : bool :=
  match o with Dispatch _ _ | ReadValue _ => true | _ => false end.
