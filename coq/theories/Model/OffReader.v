(** Model of the off-reader dispatch of one WebSocket connection
    (src/websocket_server.rs: [reader_task] 1464-1555, [spawn_off_reader]
    1571-1652) and of the execution mode of a routed handler (src/server.rs:
    [HandlerErased::execution] 116-122, [MiddlewarePipeline] 211-232,
    [OffReaderHandler] 237-251, [wrap_with_middlewares] 845-857).

    One connection is a state [(running, cap, outbox)]: the number of permits
    of the per-connection [Semaphore(cap)] that are held, the cap
    ([None] = [with_offreader_limit(0)], no semaphore) and the responses queued
    on the outbound channel so far.  The reader consumes [Arrive r]; a blocking
    thread leaving its handler is [Exit r how]. *)
From RepeV Require Export Base.Word.

(** ** execution mode of a routed handler *)
Inductive exec_mode : Set := Inline | OffReader.

Inductive handler : Set :=
| HPlain                                  (* any handler that keeps the trait default *)
| HBlocking (inner : handler)             (* OffReaderHandler(H) *)
| HPipeline (nmw : N) (inner : handler).  (* MiddlewarePipeline { handler, middlewares } *)

Fixpoint execution (h : handler) : exec_mode :=
  match h with
  | HPlain => Inline
  | HBlocking _ => OffReader
  | HPipeline _ inner => execution inner
  end.

(** [wrap_with_middlewares]: no pipeline when there is no middleware *)
Definition wrap_with_middlewares (nmw : N) (h : handler) : handler :=
  if nmw =? 0 then h else HPipeline nmw h.

(** the four routes of a case: [with_json], [with_json_blocking],
    [with_typed_blocking], [with_json_ctx_blocking] *)
Inductive route : Set := RInline | RJsonBlocking | RTypedBlocking | RCtxBlocking.

Definition raw_handler (r : route) : handler :=
  match r with RInline => HPlain | _ => HBlocking HPlain end.

(** what [Router::get] returns (the [dispatched] slot) when [nmw] middlewares
    are registered *)
Definition dispatched (nmw : N) (r : route) : handler := wrap_with_middlewares nmw (raw_handler r).

Definition all_routes : list route := [RInline; RJsonBlocking; RTypedBlocking; RCtxBlocking].

(** ** requests, events, state *)
Record req : Set := mkReq { r_id : N; r_notify : bool; r_route : route }.

Inductive how : Set := Return | Error (code : N) | Panic.

Inductive event : Set :=
| Arrive (r : req)
| Exit (r : req) (h : how).

Definition resp : Set := (N * N)%type.     (* (id, error code) *)

Definition EC_OK : N := 0.
Definition EC_RESOURCE_EXHAUSTED : N := 8.
Definition EC_INTERNAL_ERROR : N := 9.

Record st : Set := mkSt { running : N; cap : option N; outbox : list resp }.

Definition init (c : option N) : st := mkSt 0 c [].

(** [try_acquire_owned] fails: a semaphore exists and all its permits are held *)
Definition saturated (s : st) : bool :=
  match cap s with Some c => c <=? running s | None => false end.

Definition how_code (h : how) : N :=
  match h with Return => EC_OK | Error c => c | Panic => EC_INTERNAL_ERROR end.

(** what one event puts on the outbound channel *)
Definition emit (nmw : N) (s : st) (e : event) : list resp :=
  match e with
  | Arrive r =>
      match execution (dispatched nmw (r_route r)) with
      | Inline => if r_notify r then [] else [(r_id r, EC_OK)]
      | OffReader =>
          if saturated s then (if r_notify r then [] else [(r_id r, EC_RESOURCE_EXHAUSTED)])
          else []
      end
  | Exit r h => if r_notify r then [] else [(r_id r, how_code h)]
  end.

Definition next_running (nmw : N) (s : st) (e : event) : N :=
  match e with
  | Arrive r =>
      match execution (dispatched nmw (r_route r)) with
      | Inline => running s
      | OffReader => if saturated s then running s else running s + 1
      end
  | Exit _ _ => running s - 1
  end.

Definition step (nmw : N) (s : st) (e : event) : st :=
  mkSt (next_running nmw s e) (cap s) (outbox s ++ emit nmw s e).

Definition run (nmw : N) (s : st) (evs : list event) : st := fold_left (step nmw) evs s.

(** ** what the harness sees of each event *)
Inductive outcome : Set :=
| OAdmit            (* the handler started and parked *)
| OReject           (* ResourceExhausted reply with the request's id, at once *)
| ODrop             (* saturation reported, no reply, handler never ran *)
| OInlineOk         (* inline request answered at once *)
| OInlineRan        (* inline notify ran, no reply *)
| OReturn           (* released handler: success reply *)
| OError (code : N) (* released handler: its error reply *)
| OPanic            (* released handler: InternalError reply with the request's id *)
| OQuiet            (* released notify handler: left, no reply *)
| OOther (tag : N). (* anything else (timeout, wrong id, wrong code): never produced by the model *)

Definition outcome_of (nmw : N) (s : st) (e : event) : outcome :=
  match e with
  | Arrive r =>
      match execution (dispatched nmw (r_route r)) with
      | Inline => if r_notify r then OInlineRan else OInlineOk
      | OffReader => if saturated s then (if r_notify r then ODrop else OReject) else OAdmit
      end
  | Exit r h =>
      if r_notify r then OQuiet
      else match h with Return => OReturn | Error c => OError c | Panic => OPanic end
  end.

Fixpoint outs_from (nmw : N) (s : st) (evs : list event) : list outcome :=
  match evs with
  | [] => []
  | e :: evs' => outcome_of nmw s e :: outs_from nmw (step nmw s e) evs'
  end.

(** largest number of held permits over the history *)
Fixpoint maxrun_from (nmw : N) (s : st) (evs : list event) : N :=
  match evs with
  | [] => running s
  | e :: evs' => N.max (running s) (maxrun_from nmw (step nmw s e) evs')
  end.

(** reports through the error hooks: saturations, caught panics *)
Definition is_sat_arrival (nmw : N) (s : st) (e : event) : bool :=
  match e with
  | Arrive r => match execution (dispatched nmw (r_route r)) with
                | Inline => false | OffReader => saturated s end
  | Exit _ _ => false
  end.

Fixpoint sat_from (nmw : N) (s : st) (evs : list event) : N :=
  match evs with
  | [] => 0
  | e :: evs' => (if is_sat_arrival nmw s e then 1 else 0) + sat_from nmw (step nmw s e) evs'
  end.

Definition is_panic_exit (e : event) : bool :=
  match e with Exit _ Panic => true | _ => false end.

Fixpoint count {A} (p : A -> bool) (l : list A) : N :=
  match l with [] => 0 | x :: l' => (if p x then 1 else 0) + count p l' end.

(** ** case, observation, model *)
Record c16case : Set := mkCase { c_cap : option N; c_mw : N; c_evs : list event }.

Record c16obs : Set := mkObs {
  o_maxrun : N;                 (* maximum of the gauge kept by the parked handlers *)
  o_outs : list outcome;        (* per event *)
  o_resp : list resp;           (* every message the raw client received, in order *)
  o_sat : N;                    (* on_error(Saturation) reports *)
  o_pan : N;                    (* on_error(HandlerPanic) reports *)
  o_alive : bool;               (* a final inline exchange succeeded *)
  o_modes : list exec_mode      (* Router::get(route).execution() for [all_routes] *)
}.

Definition model_C16 (c : c16case) : c16obs :=
  let s0 := init (c_cap c) in
  mkObs (maxrun_from (c_mw c) s0 (c_evs c))
        (outs_from (c_mw c) s0 (c_evs c))
        (outbox (run (c_mw c) s0 (c_evs c)))
        (sat_from (c_mw c) s0 (c_evs c))
        (count is_panic_exit (c_evs c))
        true
        (map (fun r => execution (dispatched (c_mw c) r)) all_routes).

(** ** well-formed histories: distinct ids, and every [Exit r] follows an
    admitted, not yet exited [Arrive r] *)
Definition route_eqb (a b : route) : bool :=
  match a, b with
  | RInline, RInline | RJsonBlocking, RJsonBlocking
  | RTypedBlocking, RTypedBlocking | RCtxBlocking, RCtxBlocking => true
  | _, _ => false
  end.

Definition req_eqb (a b : req) : bool :=
  (r_id a =? r_id b) && Bool.eqb (r_notify a) (r_notify b) && route_eqb (r_route a) (r_route b).

Fixpoint mem_req (r : req) (l : list req) : bool :=
  match l with [] => false | x :: l' => req_eqb x r || mem_req r l' end.

Fixpoint del_req (r : req) (l : list req) : list req :=
  match l with [] => [] | x :: l' => if req_eqb x r then l' else x :: del_req r l' end.

Fixpoint mem_id (x : N) (l : list N) : bool :=
  match l with [] => false | y :: l' => (y =? x) || mem_id x l' end.

(** the blocking routes, as the property names them (no reference to
    [execution]) *)
Definition is_blocking_route (r : route) : bool :=
  match r with RInline => false | _ => true end.

Definition at_cap (c : option N) (n : N) : bool :=
  match c with Some k => k <=? n | None => false end.

(** [live]: admitted and not yet exited; [seen]: ids of all arrivals so far *)
Fixpoint wf_from (c : option N) (live : list req) (seen : list N) (evs : list event) : bool :=
  match evs with
  | [] => true
  | Arrive r :: evs' =>
      negb (mem_id (r_id r) seen) &&
      wf_from c
        (if is_blocking_route (r_route r) && negb (at_cap c (N.of_nat (length live)))
         then live ++ [r] else live)
        (r_id r :: seen) evs'
  | Exit r _ :: evs' =>
      mem_req r live && wf_from c (del_req r live) seen evs'
  end.

Definition cap_ok (c : option N) : bool :=
  match c with Some k => 1 <=? k | None => true end.

Definition c16_wf (c : c16case) : bool := cap_ok (c_cap c) && wf_from (c_cap c) [] [] (c_evs c).

(** ** the property oracle.  It is phrased on what was observed: the number
    of handlers running when an event happens is the number of admissions
    observed before it minus the number of exits before it. *)
Definition is_admit (o : outcome) : bool := match o with OAdmit => true | _ => false end.
Definition is_exit (e : event) : bool := match e with Exit _ _ => true | _ => false end.
Definition is_refusal (o : outcome) : bool :=
  match o with OReject | ODrop => true | _ => false end.

Definition outcome_eqb (a b : outcome) : bool :=
  match a, b with
  | OAdmit, OAdmit | OReject, OReject | ODrop, ODrop | OInlineOk, OInlineOk
  | OInlineRan, OInlineRan | OReturn, OReturn | OPanic, OPanic | OQuiet, OQuiet => true
  | OError x, OError y => x =? y
  | OOther x, OOther y => x =? y
  | _, _ => false
  end.

(** what the property demands of one event, [n] handlers running *)
Definition expected (c : option N) (n : N) (e : event) : outcome :=
  match e with
  | Arrive r =>
      if is_blocking_route (r_route r)
      then (if at_cap c n then (if r_notify r then ODrop else OReject) else OAdmit)
      else (if r_notify r then OInlineRan else OInlineOk)
  | Exit r h =>
      if r_notify r then OQuiet
      else match h with Return => OReturn | Error k => OError k | Panic => OPanic end
  end.

Fixpoint events_ok (c : option N) (pre_e : list event) (pre_o : list outcome)
         (evs : list event) (outs : list outcome) : bool :=
  match evs, outs with
  | [], [] => true
  | e :: evs', o :: outs' =>
      outcome_eqb o (expected c (count is_admit pre_o - count is_exit pre_e) e) &&
      events_ok c (pre_e ++ [e]) (pre_o ++ [o]) evs' outs'
  | _, _ => false
  end.

(** the message an observed outcome stands for *)
Definition implied (e : event) (o : outcome) : list resp :=
  let id := match e with Arrive r => r_id r | Exit r _ => r_id r end in
  match o with
  | OReject => [(id, EC_RESOURCE_EXHAUSTED)]
  | OInlineOk | OReturn => [(id, EC_OK)]
  | OError k => [(id, k)]
  | OPanic => [(id, EC_INTERNAL_ERROR)]
  | _ => []
  end.

Fixpoint implied_all (evs : list event) (outs : list outcome) : list resp :=
  match evs, outs with
  | e :: evs', o :: outs' => implied e o ++ implied_all evs' outs'
  | _, _ => []
  end.

Definition resp_eqb (a b : resp) : bool := (fst a =? fst b) && (snd a =? snd b).

Fixpoint list_eqb {A} (eqb : A -> A -> bool) (a b : list A) : bool :=
  match a, b with
  | [], [] => true
  | x :: a', y :: b' => eqb x y && list_eqb eqb a' b'
  | _, _ => false
  end.

Definition mode_eqb (a b : exec_mode) : bool :=
  match a, b with Inline, Inline | OffReader, OffReader => true | _, _ => false end.

Definition cap_respected (c : option N) (m : N) : bool :=
  match c with Some k => m <=? k | None => true end.

Definition ok_C16 (c : c16case) (o : c16obs) : bool :=
  cap_respected (c_cap c) (o_maxrun o) &&
  events_ok (c_cap c) [] [] (c_evs c) (o_outs o) &&
  list_eqb resp_eqb (o_resp o) (implied_all (c_evs c) (o_outs o)) &&
  (o_sat o =? count is_refusal (o_outs o)) &&
  (o_pan o =? count is_panic_exit (c_evs c)) &&
  o_alive o &&
  list_eqb mode_eqb (o_modes o) (map (fun r => if is_blocking_route r then OffReader else Inline) all_routes).

(** which clause fails first (for the driver's report): 0 = none *)
Definition ok_C16_clause (c : c16case) (o : c16obs) : N :=
  if negb (cap_respected (c_cap c) (o_maxrun o)) then 1
  else if negb (events_ok (c_cap c) [] [] (c_evs c) (o_outs o)) then 2
  else if negb (list_eqb resp_eqb (o_resp o) (implied_all (c_evs c) (o_outs o))) then 3
  else if negb (o_sat o =? count is_refusal (o_outs o)) then 4
  else if negb (o_pan o =? count is_panic_exit (c_evs c)) then 5
  else if negb (o_alive o) then 6
  else if negb (list_eqb mode_eqb (o_modes o)
                  (map (fun r => if is_blocking_route r then OffReader else Inline) all_routes)) then 7
  else 0.

Definition c16_obs_eqb (a b : c16obs) : bool :=
  (o_maxrun a =? o_maxrun b) && list_eqb outcome_eqb (o_outs a) (o_outs b) &&
  list_eqb resp_eqb (o_resp a) (o_resp b) && (o_sat a =? o_sat b) && (o_pan a =? o_pan b) &&
  Bool.eqb (o_alive a) (o_alive b) && list_eqb mode_eqb (o_modes a) (o_modes b).
