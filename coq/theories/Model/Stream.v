(** Model of src/stream.rs: TransferControl (credit accounting, cancel,
    resume) and its ReplayRing.  One mutex-protected state; every public
    method is one atomic step. *)
From RepeV Require Export Base.Word.

Record chunk : Set := mkChunk {
  ck_off : N;            (* logical offset *)
  ck_len : N;            (* logical length (data_len) *)
  ck_last : bool;
  ck_body : list byte    (* wire body; its length is what the ring budgets *)
}.

Definition wire (c : chunk) : N := N.of_nat (length (ck_body c)).

Record tc : Set := mkTc {
  t_window : N;
  t_sent : N;
  t_acked : N;
  t_file : N;                 (* u32 *)
  t_cancelled : option N;     (* cancel reason (an identifier for the string) *)
  t_ring : list chunk;        (* oldest first *)
  t_held : N;                 (* bytes_held *)
  t_cap : N;                  (* ring capacity in wire bytes *)
  t_peer : option N;          (* PeerId of the installed peer *)
  t_pending : option N        (* pending resume offset *)
}.

Definition init (window cap : N) : tc :=
  mkTc window 0 0 0 None [] 0 cap None None.

Inductive op : Set :=
| Sent (o : N)                                   (* record_sent *)
| Ack (f o : N)                                  (* record_ack *)
| Advance (f : N)                                (* advance_to_file *)
| Resume (peer f o : N)                          (* request_resume *)
| Cancel (r : N)                                 (* cancel *)
| Push (off len : N) (last : bool) (body : list byte)  (* push_replay *)
| SetPeer (p : N)                                (* set_peer *)
| TryCredit (len : N)                            (* wait_for_credit with an expired deadline *)
| TryReconnect                                   (* wait_for_reconnect(0) *)
| Replay (o : N).                                (* replay_chunks_from *)

Inductive out : Set :=
| ONone
| OGranted | OCreditTimeout | OCreditCancelled (r : N)
| OResumeOk (o : N) | ORejCancelled | ORejWrongFile (requested current : N) | ORejOutOfWindow
| OResumeReady (o : N) | OReconnCancelled (r : N) | OReconnTimeout
| OChunks (cs : list chunk).

Definition sat_add64 (a b : N) : N := N.min (a + b) (two64 - 1).

(** [ReplayRing::push]'s eviction loop: drop the oldest while over budget and
    more than one chunk is held. *)
Fixpoint evict (ring : list chunk) (held cap : N) : list chunk * N :=
  match ring with
  | c :: ((_ :: _) as rest) =>
      if cap <? held then evict rest (held - wire c) cap else (ring, held)
  | _ => (ring, held)
  end.

Definition ring_push (s : tc) (c : chunk) : tc :=
  let '(r, h) := evict (t_ring s ++ [c]) (sat_add64 (t_held s) (wire c)) (t_cap s) in
  mkTc (t_window s) (t_sent s) (t_acked s) (t_file s) (t_cancelled s) r h (t_cap s)
       (t_peer s) (t_pending s).

Definition ck_end (c : chunk) : N := ck_off c + ck_len c.

(** [ReplayRing::covers] *)
Definition covers (ring : list chunk) (o : N) : bool :=
  match ring with
  | [] => o =? 0
  | _ => existsb (fun c => ck_off c =? o) ring || (ck_end (last ring (mkChunk 0 0 false [])) =? o)
  end.

(** [ReplayRing::replay_from] *)
Definition replay_from (ring : list chunk) (o : N) : list chunk :=
  filter (fun c => o <=? ck_off c) ring.

(** [wait_for_credit]'s predicate (after the checked-add repair) *)
Definition credit_ok (s : tc) (len : N) : bool :=
  let in_flight := t_sent s - t_acked s in
  (in_flight =? 0) || ((in_flight + len <? two64) && (in_flight + len <=? t_window s)).

Definition step (s : tc) (o : op) : tc * out :=
  match o with
  | Sent n =>
      (mkTc (t_window s) (if t_sent s <? n then n else t_sent s) (t_acked s) (t_file s)
            (t_cancelled s) (t_ring s) (t_held s) (t_cap s) (t_peer s) (t_pending s), ONone)
  | Ack f n =>
      if f =? t_file s then
        let capped := N.min n (t_sent s) in
        (mkTc (t_window s) (t_sent s) (if t_acked s <? capped then capped else t_acked s) (t_file s)
              (t_cancelled s) (t_ring s) (t_held s) (t_cap s) (t_peer s) (t_pending s), ONone)
      else (s, ONone)
  | Advance f =>
      (mkTc (t_window s) 0 0 f (t_cancelled s) [] 0 (t_cap s) (t_peer s) None, ONone)
  | Resume p f n =>
      match t_cancelled s with
      | Some _ => (s, ORejCancelled)
      | None =>
          if negb (f =? t_file s) then (s, ORejWrongFile f (t_file s))
          else if negb (covers (t_ring s) n) then (s, ORejOutOfWindow)
          else
            (mkTc (t_window s) (t_sent s)
                  (if (t_acked s <? n) && (n <=? t_sent s) then n else t_acked s)
                  (t_file s) (t_cancelled s) (t_ring s) (t_held s) (t_cap s) (Some p) (Some n),
             OResumeOk n)
      end
  | Cancel r =>
      match t_cancelled s with
      | Some _ => (s, ONone)
      | None =>
          (mkTc (t_window s) (t_sent s) (t_acked s) (t_file s) (Some r) (t_ring s) (t_held s)
                (t_cap s) (t_peer s) (t_pending s), ONone)
      end
  | Push off len lst body => (ring_push s (mkChunk off len lst body), ONone)
  | SetPeer p =>
      (mkTc (t_window s) (t_sent s) (t_acked s) (t_file s) (t_cancelled s) (t_ring s) (t_held s)
            (t_cap s) (Some p) (t_pending s), ONone)
  | TryCredit len =>
      match t_cancelled s with
      | Some r => (s, OCreditCancelled r)
      | None => (s, if credit_ok s len then OGranted else OCreditTimeout)
      end
  | TryReconnect =>
      match t_cancelled s with
      | Some r => (s, OReconnCancelled r)
      | None =>
          match t_pending s with
          | Some n =>
              (mkTc (t_window s) (t_sent s) (t_acked s) (t_file s) (t_cancelled s) (t_ring s)
                    (t_held s) (t_cap s) (t_peer s) None, OResumeReady n)
          | None => (s, OReconnTimeout)
          end
      end
  | Replay n => (s, OChunks (replay_from (t_ring s) n))
  end.

(** run a history, collecting the output and the state after every step *)
Fixpoint run (s : tc) (ops : list op) : list (out * tc) :=
  match ops with
  | [] => []
  | o :: ops' => let '(s', r) := step s o in (r, s') :: run s' ops'
  end.

Definition exec (s : tc) (ops : list op) : tc := fold_left (fun s o => fst (step s o)) ops s.

Definition in_flight (s : tc) : N := t_sent s - t_acked s.
