(** Model of the failure paths of the three clients (src/client.rs,
    src/async_client.rs, src/websocket_client.rs): the pending map, the writer
    lock and socket, the response loop with its failure sequence, callers with
    timeouts and cancellation, and the notification subscriber.

    Failure sequence of the response loop ([fail_all_pending]):
    - all clients: (WebSocket) drop the notify sender; then make request writes
      fail WITHOUT the writer lock (blocking client: [shutdown(Both)] through
      the reader's own socket handle; async client: [write_broken] + wake a
      stalled write; WebSocket client: [failed_flag] + wake a stalled write);
    - blocking client: then shut the socket again under the writer lock, then
      drain the pending map and fail every waiter;
    - async and WebSocket clients: then drain the pending map and fail every
      waiter, and only last take the writer lock to close the write side.

    Threads are interleaved at the granularity of [step]: every step is one
    critical section of the code (one lock scope, or one system call).  A step
    that is not enabled in the current state leaves it unchanged, so every
    list of steps is a run and program order is enforced by the guards.

    Self-contained: nothing here depends on the multiplexing model of C04. *)
From RepeV Require Export Base.Word.

Inductive ckind : Set := KTcp | KAsync | KWs.

(** result classes of a call *)
Inductive res : Set := ROk | RTimeout | RConn | RCancelled.

(** the state of one caller; [id] is the request id it registered, [mb] what
    the reader has already put in its response channel before it started to
    receive *)
Inductive cst : Set :=
| CNone
| CReg (id : N) (mb : option res)     (* entry inserted, request not yet written *)
| CStall (id : N) (mb : option res)   (* inside write, holding the writer lock, peer not reading *)
| CWait (id : N)                      (* request written, waiting on the channel *)
| CFired (id : N)                     (* timeout decided, entry not yet removed *)
| CDone (id : N) (r : res).           (* the call returned *)

(** the response loop *)
Inductive rphase : Set :=
| RAlive
| RHold (o : option N)   (* a response frame was read and its entry taken out of the map: Some caller / unrecognized *)
| RErr                   (* read or parse error met *)
| RSubEnded              (* notify sender dropped (WebSocket) *)
| ROwnShut               (* request writes fail from now on (no lock was needed) *)
| RShutDone              (* blocking client: socket shut once more under the writer lock *)
| RDrained               (* async / WebSocket client: pending map drained, write side not yet closed *)
| RDead.                 (* pending map drained, write side closed, loop ended *)

Inductive sstate : Set := SNone | SSub | SEnded | SLate.

Record st : Set := mkSt {
  s_kind : ckind;
  s_shut : bool;                 (* writes fail from now on *)
  s_gstop : bool;                (* async client: a FrameWriteGuard fired: loop told to stop, everything drained *)
  s_rd : rphase;
  s_pending : list (N * N);      (* request id -> caller *)
  s_cs : list (N * cst);         (* caller -> state *)
  s_next : N;                    (* next_id *)
  s_lock : option N;             (* holder of the writer lock when it is held across steps *)
  s_sub : sstate;
  s_nrecv : N                    (* notifications the subscriber received *)
}.

Definition init (k : ckind) : st := mkSt k false false RAlive [] [] 1 None SNone 0.

(** ** association lists *)
Fixpoint cget (l : list (N * cst)) (c : N) : cst :=
  match l with
  | [] => CNone
  | (c', v) :: l' => if c' =? c then v else cget l' c
  end.

Fixpoint cset (l : list (N * cst)) (c : N) (v : cst) : list (N * cst) :=
  match l with
  | [] => [(c, v)]
  | (c', v') :: l' => if c' =? c then (c, v) :: l' else (c', v') :: cset l' c v
  end.

Fixpoint pfind (l : list (N * N)) (id : N) : option N :=
  match l with
  | [] => None
  | (i, c) :: l' => if i =? id then Some c else pfind l' id
  end.

Fixpoint pdel (l : list (N * N)) (id : N) : list (N * N) :=
  match l with
  | [] => []
  | (i, c) :: l' => if i =? id then pdel l' id else (i, c) :: pdel l' id
  end.

(** ** field updates *)
Definition set_shut (s : st) (b : bool) : st :=
  mkSt (s_kind s) b (s_gstop s) (s_rd s) (s_pending s) (s_cs s) (s_next s) (s_lock s) (s_sub s) (s_nrecv s).
Definition set_gstop (s : st) (b : bool) : st :=
  mkSt (s_kind s) (s_shut s) b (s_rd s) (s_pending s) (s_cs s) (s_next s) (s_lock s) (s_sub s) (s_nrecv s).
Definition set_rd (s : st) (r : rphase) : st :=
  mkSt (s_kind s) (s_shut s) (s_gstop s) r (s_pending s) (s_cs s) (s_next s) (s_lock s) (s_sub s) (s_nrecv s).
Definition set_pc (s : st) (p : list (N * N)) (cs : list (N * cst)) : st :=
  mkSt (s_kind s) (s_shut s) (s_gstop s) (s_rd s) p cs (s_next s) (s_lock s) (s_sub s) (s_nrecv s).
Definition set_next (s : st) (n : N) : st :=
  mkSt (s_kind s) (s_shut s) (s_gstop s) (s_rd s) (s_pending s) (s_cs s) n (s_lock s) (s_sub s) (s_nrecv s).
Definition set_lock (s : st) (l : option N) : st :=
  mkSt (s_kind s) (s_shut s) (s_gstop s) (s_rd s) (s_pending s) (s_cs s) (s_next s) l (s_sub s) (s_nrecv s).
Definition set_sub (s : st) (u : sstate) : st :=
  mkSt (s_kind s) (s_shut s) (s_gstop s) (s_rd s) (s_pending s) (s_cs s) (s_next s) (s_lock s) u (s_nrecv s).
Definition set_nrecv (s : st) (n : N) : st :=
  mkSt (s_kind s) (s_shut s) (s_gstop s) (s_rd s) (s_pending s) (s_cs s) (s_next s) (s_lock s) (s_sub s) n.

Definition stof (s : st) (c : N) : cst := cget (s_cs s) c.

(** ** sending a value into a caller's response channel *)
Definition deliver_st (v : cst) (r : res) : cst :=
  match v with
  | CWait id => CDone id r
  | CReg id None => CReg id (Some r)
  | CStall id None => CStall id (Some r)
  | _ => v                       (* receiver gone, or the value is never looked at *)
  end.

Definition cdeliver (cs : list (N * cst)) (c : N) (r : res) : list (N * cst) :=
  cset cs c (deliver_st (cget cs c) r).

(** [pending.drain()] then an error to every waiter *)
Definition drain_cs (p : list (N * N)) (cs : list (N * cst)) : list (N * cst) :=
  fold_left (fun acc e => cdeliver acc (snd e) RConn) p cs.

Definition drain_all (s : st) : st := set_pc s [] (drain_cs (s_pending s) (s_cs s)).

(** the request write of caller [c] failed: its entry is removed and the call
    returns the error *)
Definition own_fail (s : st) (c id : N) : st :=
  set_pc s (pdel (s_pending s) id) (cset (s_cs s) c (CDone id RConn)).

(** ... and what else the client does about it.  Blocking client:
    [write_request] shuts the socket.  Async client: if a frame write had begun
    ([guarded]) the [FrameWriteGuard] marks the connection broken, tells the
    response loop to stop and fails every pending call; a write refused up
    front because the connection is already marked broken has no guard.
    WebSocket client: nothing else. *)
Definition fail_write (s : st) (c id : N) (guarded : bool) : st :=
  let s1 := own_fail s c id in
  match s_kind s with
  | KTcp => set_shut s1 true
  | KAsync => if guarded then set_gstop (set_shut (drain_all s1) true) true else s1
  | KWs => s1
  end.

(** the request write of caller [c] completed *)
Definition written (s : st) (c id : N) (mb : option res) : st :=
  set_pc s (s_pending s) (cset (s_cs s) c (match mb with Some r => CDone id r | None => CWait id end)).

Inductive step : Set :=
(* callers *)
| Register (c : N)       (* next_request_id; pending.insert *)
| Write (c : N)          (* lock writer; write + flush; unlock *)
| WriteEnvFail (c : N)   (* the same write failing because the peer is gone *)
| WStall (c : N)         (* lock writer; the write blocks: peer not reading *)
| WStallEnd (c : N)      (* the blocked write ends: abandoned with an error if writes were failed meanwhile *)
| WStallEnvFail (c : N)  (* the blocked write ends with an error because the peer is gone *)
| TFire (c : N)          (* the per-call timeout expires *)
| TRemove (c : N)        (* remove_pending / PendingRequestGuard::drop; return the timeout error *)
| Cancel (c : N)         (* the call's future is dropped (async, WebSocket) *)
| Subscribe
(* response loop *)
| RTake (id : N)         (* a response with this id is read; pending.remove(id) *)
| RDeliver               (* sender.send(Ok(response)) / drop the unrecognized response *)
| RNotify                (* a notification is read and handed to the subscriber *)
| ReadErr                (* close, reset, malformed or truncated frame *)
| SubEnd                 (* take_notify_sender *)
| OwnShut                (* reader.get_ref().shutdown(Both) / write_broken, failed_flag := true; notify_waiters *)
| LockShut               (* lock writer; shutdown / close handshake; unlock *)
| Drain                  (* pending.drain(); send every waiter the error *)
| RStop.                 (* async client: told to stop by a FrameWriteGuard, the loop ends without draining *)

Definition lock_free (s : st) : bool := match s_lock s with None => true | Some _ => false end.

Definition do_step (s : st) (e : step) : st :=
  match e with
  | Register c =>
      match stof s c with
      | CNone => set_next (set_pc s (s_pending s ++ [(s_next s, c)]) (cset (s_cs s) c (CReg (s_next s) None))) (s_next s + 1)
      | _ => s
      end
  | Write c =>
      match stof s c with
      | CReg id mb => if lock_free s then (if s_shut s then fail_write s c id false else written s c id mb) else s
      | _ => s
      end
  | WriteEnvFail c =>
      match stof s c with
      | CReg id mb => if lock_free s then fail_write s c id (negb (s_shut s)) else s
      | _ => s
      end
  | WStall c =>
      match stof s c with
      | CReg id mb => if lock_free s && negb (s_shut s)
                      then set_lock (set_pc s (s_pending s) (cset (s_cs s) c (CStall id mb))) (Some c) else s
      | _ => s
      end
  | WStallEnd c =>
      match stof s c with
      | CStall id mb => let s1 := set_lock s None in if s_shut s then fail_write s1 c id true else written s1 c id mb
      | _ => s
      end
  | WStallEnvFail c =>
      match stof s c with
      | CStall id mb => fail_write (set_lock s None) c id true
      | _ => s
      end
  | TFire c => match stof s c with CWait id => set_pc s (s_pending s) (cset (s_cs s) c (CFired id)) | _ => s end
  | TRemove c =>
      match stof s c with
      | CFired id => set_pc s (pdel (s_pending s) id) (cset (s_cs s) c (CDone id RTimeout))
      | _ => s
      end
  | Cancel c =>
      match s_kind s with
      | KTcp => s
      | _ => match stof s c with
             | CWait id | CReg id _ => set_pc s (pdel (s_pending s) id) (cset (s_cs s) c (CDone id RCancelled))
             | _ => s
             end
      end
  | Subscribe =>
      match s_sub s with
      | SNone => match s_rd s with
                 | RAlive | RHold _ | RErr => set_sub s SSub
                 | _ => set_sub s SLate     (* wired to a dead socket: documented, never ends *)
                 end
      | _ => s
      end
  | RTake id =>
      match s_rd s with
      | RAlive => match pfind (s_pending s) id with
                  | Some c => set_rd (set_pc s (pdel (s_pending s) id) (s_cs s)) (RHold (Some c))
                  | None => set_rd s (RHold None)
                  end
      | _ => s
      end
  | RDeliver =>
      match s_rd s with
      | RHold (Some c) => set_rd (set_pc s (s_pending s) (cdeliver (s_cs s) c ROk)) RAlive
      | RHold None => set_rd s RAlive
      | _ => s
      end
  | RNotify =>
      match s_rd s with
      | RAlive => match s_sub s with SSub => set_nrecv s (s_nrecv s + 1) | _ => s end
      | _ => s
      end
  | ReadErr => match s_rd s with RAlive => set_rd s RErr | _ => s end
  | SubEnd =>
      match s_rd s with
      | RErr => set_rd (match s_kind s, s_sub s with KWs, SSub => set_sub s SEnded | _, _ => s end) RSubEnded
      | _ => s
      end
  | OwnShut => match s_rd s with RSubEnded => set_rd (set_shut s true) ROwnShut | _ => s end
  | LockShut =>
      match s_rd s, s_kind s with
      | ROwnShut, KTcp => if lock_free s then set_rd s RShutDone else s
      | RDrained, (KAsync | KWs) => if lock_free s then set_rd s RDead else s
      | _, _ => s
      end
  | Drain =>
      match s_rd s, s_kind s with
      | RShutDone, KTcp => set_rd (drain_all s) RDead
      | ROwnShut, (KAsync | KWs) => set_rd (drain_all s) RDrained
      | _, _ => s
      end
  | RStop =>
      match s_rd s, s_kind s with
      | RAlive, KAsync => if s_gstop s then set_rd s RDead else s
      | _, _ => s
      end
  end.

Definition run (s : st) (l : list step) : st := fold_left do_step l s.

(** the response loop will serve nobody any more *)
Definition dead (s : st) : bool := match s_rd s with RDrained | RDead => true | _ => s_gstop s end.

(** ** two wrong orders (negative examples only) *)

(** drain first, make writes fail afterwards *)
Definition do_step_swapped (s : st) (e : step) : st :=
  match e with
  | Drain => match s_rd s with RSubEnded => set_rd (drain_all s) RDrained | _ => s end
  | OwnShut => match s_rd s with RDrained => set_rd (set_shut s true) RDead | _ => s end
  | LockShut => s
  | _ => do_step s e
  end.
Definition run_swapped (s : st) (l : list step) : st := fold_left do_step_swapped l s.

(** writes are only made to fail under the writer lock (the clients before the
    repairs 73a613c / d171d63) *)
Definition do_step_locked (s : st) (e : step) : st :=
  match e with
  | OwnShut => match s_rd s with RSubEnded => set_rd s ROwnShut | _ => s end
  | LockShut => match s_rd s with ROwnShut => if lock_free s then set_rd (set_shut s true) RShutDone else s | _ => s end
  | Drain => match s_rd s with RShutDone => set_rd (drain_all s) RDead | _ => s end
  | _ => do_step s e
  end.
Definition run_locked (s : st) (l : list step) : st := fold_left do_step_locked l s.

(** decidable form of the no-hang statement, for the examples *)
Definition waits (v : cst) : bool := match v with CWait _ => true | _ => false end.
Definition someone_waits (s : st) : bool := existsb (fun e => waits (snd e)) (s_cs s).

(** ** scenarios: what the harness does, as sequences of steps *)
Inductive event : Set :=
| EStart (c : N) (tmo : bool)   (* S / T : start call c, request read by the server before a fault *)
| EStartUnread (c : N)          (* U : start call c, request left unread *)
| EExpire (c : N)               (* X : start with a short timeout, never answered: expiry *)
| EExpireA (c : N)              (* XA: timeout fired; response delivered; entry removed *)
| EExpireB (c : N)              (* XB: entry taken by the reader; timeout; delivery to nobody *)
| EExpireC (c : N)              (* XC: timeout and removal; then the reader looks the id up *)
| ERespond (c : N)              (* R : a response with the id of c *)
| EUnknown                      (* V : a response with an id no call had *)
| ECancel (c : N)               (* C *)
| ECancelB (c : N)              (* CB: entry taken; cancel; delivery to nobody *)
| ECancelC (c : N)              (* CC: cancel; then the reader looks the id up *)
| ENotify                       (* N *)
| EQuery                        (* Q : record the subscriber's state *)
| EStallStart (c : N)           (* W : a call whose write blocks on a peer that does not read *)
| EFault                        (* F : close / reset / malformed / truncated frame *)
| EFaultPark                    (* P : the same with the reader held at its probe point before the drain *)
| ERelease                      (* Z : let the reader go on *)
| EProbe (c : N).               (* G : is the id of c still in the pending map? *)

Inductive oclass : Set := OOk | OWrong | OTimeout | OConn | OCancelled | OPending | OHang | ONone.
Inductive osub : Set := UNone | UOpen | UEos.

Record case : Set := mkCase { k_kind : ckind; k_sub : bool; k_n : N; k_script : list event }.

Record obs : Set := mkObs {
  o_res : list oclass;     (* final class of callers 0 .. n-1 *)
  o_sub : osub;            (* the subscriber at the end *)
  o_subq : list osub;      (* the subscriber at every Q *)
  o_nn : N;                (* notifications received *)
  o_rd : bool;             (* the reader got to its probe point before the drain *)
  o_resid : list bool      (* per G: the id was still pending *)
}.

Record xst : Set := mkX { x_s : st; x_faulted : bool; x_subq : list osub; x_resid : list bool }.

Definition id_of (v : cst) : N :=
  match v with CNone => 0 | CReg id _ | CStall id _ | CWait id | CFired id | CDone id _ => id end.

Definition osub_of (u : sstate) : osub :=
  match u with SNone => UNone | SSub | SLate => UOpen | SEnded => UEos end.

(** a blocked write ends only by failing (woken by the shutdown): the peer never reads *)
Definition unstall (s : st) : st :=
  match s_lock s with
  | Some c => if s_shut s then do_step s (WStallEnd c) else s
  | None => s
  end.

(** up to the probe point: blocking client after the second shutdown, the
    others right after writes were made to fail *)
Definition fault_to_shutdown (s : st) : st := do_step (unstall (run s [ReadErr; SubEnd; OwnShut])) LockShut.
Definition finish (s : st) : st := run s [Drain; LockShut].

Definition on_s (x : xst) (f : st -> st) : xst := mkX (f (x_s x)) (x_faulted x) (x_subq x) (x_resid x).

Definition exec_event (x : xst) (e : event) : xst :=
  let s := x_s x in
  match e with
  | EStart c _ | EStartUnread c => on_s x (fun s => run s [Register c; Write c])
  | EExpire c => on_s x (fun s => run s [Register c; Write c; TFire c; TRemove c])
  | EExpireA c =>
      on_s x (fun s => let s1 := run s [Register c; Write c; TFire c] in
                       run s1 [RTake (id_of (stof s1 c)); RDeliver; TRemove c])
  | EExpireB c =>
      on_s x (fun s => let s1 := run s [Register c; Write c] in
                       run s1 [RTake (id_of (stof s1 c)); TFire c; TRemove c; RDeliver])
  | EExpireC c =>
      on_s x (fun s => let s1 := run s [Register c; Write c; TFire c; TRemove c] in
                       run s1 [RTake (id_of (stof s1 c)); RDeliver])
  | ERespond c => on_s x (fun s => run s [RTake (id_of (stof s c)); RDeliver])
  | EUnknown => on_s x (fun s => run s [RTake 0; RDeliver])
  | ECancel c => on_s x (fun s => do_step s (Cancel c))
  | ECancelB c => on_s x (fun s => run s [RTake (id_of (stof s c)); Cancel c; RDeliver])
  | ECancelC c => on_s x (fun s => run s [Cancel c; RTake (id_of (stof s c)); RDeliver])
  | ENotify => on_s x (fun s => do_step s RNotify)
  | EQuery => mkX s (x_faulted x) (x_subq x ++ [osub_of (s_sub s)]) (x_resid x)
  | EStallStart c => on_s x (fun s => run s [Register c; WStall c])
  | EFault => mkX (finish (fault_to_shutdown s)) true (x_subq x) (x_resid x)
  | EFaultPark => on_s x fault_to_shutdown
  | ERelease => mkX (finish s) true (x_subq x) (x_resid x)
  | EProbe c =>
      mkX s (x_faulted x) (x_subq x)
          (x_resid x ++ [match pfind (s_pending s) (id_of (stof s c)) with Some _ => true | None => false end])
  end.

Definition class_of (faulted : bool) (v : cst) : oclass :=
  match v with
  | CNone => ONone
  | CDone _ ROk => OOk
  | CDone _ RTimeout => OTimeout
  | CDone _ RConn => OConn
  | CDone _ RCancelled => OCancelled
  | _ => if faulted then OHang else OPending
  end.

Definition callers (n : N) : list N := map N.of_nat (seq 0 (N.to_nat n)).

Definition x0 (k : case) : xst :=
  mkX (if k_sub k then do_step (init (k_kind k)) Subscribe else init (k_kind k)) false [] [].

Definition obs_of (k : case) (x : xst) : obs :=
  let s := x_s x in
  mkObs (map (fun c => class_of (x_faulted x) (stof s c)) (callers (k_n k)))
        (osub_of (s_sub s)) (x_subq x) (s_nrecv s)
        (match s_rd s, s_kind s with
         | (RShutDone | RDrained | RDead), _ => true
         | ROwnShut, (KAsync | KWs) => true
         | _, _ => false
         end)
        (x_resid x).

Definition model_C06 (k : case) : obs := obs_of k (fold_left exec_event (k_script k) (x0 k)).

(** ** the property as a specification over scenarios (no pending map, no
    socket, no ids): what every call must end as *)
Inductive pst : Set :=
| PNone
| PFlight (known : bool)                       (* in flight; the server has read its request *)
| PFin (known : bool) (allowed : list oclass). (* returned; the classes the property allows *)

Inductive phase : Set := PhLive | PhWindow | PhDead.

Record spst : Set := mkSp {
  p_phase : phase;
  p_cs : list (N * pst);
  p_stalled : bool;      (* a stalled writer exists: the server reads nothing more *)
  p_unread : bool;       (* an unread request sits in the server's buffer: the server reads nothing more *)
  p_subq : list osub;
  p_nn : N;
  p_nprobe : nat
}.

Fixpoint pget (l : list (N * pst)) (c : N) : pst :=
  match l with [] => PNone | (c', v) :: l' => if c' =? c then v else pget l' c end.
Fixpoint pset (l : list (N * pst)) (c : N) (v : pst) : list (N * pst) :=
  match l with
  | [] => [(c, v)]
  | (c', v') :: l' => if c' =? c then (c, v) :: l' else (c', v') :: pset l' c v
  end.

Definition sp0 : spst := mkSp PhLive [] false false [] 0 0.

Definition sp_cs (p : spst) (cs : list (N * pst)) : spst :=
  mkSp (p_phase p) cs (p_stalled p) (p_unread p) (p_subq p) (p_nn p) (p_nprobe p).
Definition sp_phase (p : spst) (ph : phase) : spst :=
  mkSp ph (p_cs p) (p_stalled p) (p_unread p) (p_subq p) (p_nn p) (p_nprobe p).

(** every call in flight returns an error *)
Definition fail_flights (cs : list (N * pst)) : list (N * pst) :=
  map (fun e => match snd e with PFlight kn => (fst e, PFin kn [OConn]) | _ => e end) cs.

Definition is_tcp (k : ckind) : bool := match k with KTcp => true | _ => false end.
Definition is_async (k : ckind) : bool := match k with KAsync => true | _ => false end.
Definition is_ws (k : ckind) : bool := match k with KWs => true | _ => false end.

(** the server can still read a request *)
Definition srv_reads (p : spst) : bool := negb (p_stalled p) && negb (p_unread p).

(** a new call: in flight while the connection lives, an error afterwards *)
Definition sp_start (n : N) (p : spst) (c : N) (known : bool) (live_fin : option (list oclass)) : option spst :=
  if negb (c <? n) then None else
  match pget (p_cs p) c with
  | PNone =>
      match p_phase p with
      | PhLive =>
          if negb (srv_reads p) then None else
          Some (sp_cs p (pset (p_cs p) c (match live_fin with Some l => PFin known l | None => PFlight known end)))
      | PhWindow | PhDead => Some (sp_cs p (pset (p_cs p) c (PFin false [OConn])))
      end
  | _ => None
  end.

Definition live (p : spst) : bool := match p_phase p with PhLive => true | _ => false end.

Definition spec_step (k : case) (p : spst) (e : event) : option spst :=
  let kd := k_kind k in
  match e with
  | EStart c _ => sp_start (k_n k) p c true None
  | EStartUnread c =>
      match sp_start (k_n k) p c false None with
      | Some p' => Some (if live p then mkSp (p_phase p') (p_cs p') (p_stalled p') true (p_subq p') (p_nn p') (p_nprobe p') else p')
      | None => None
      end
  | EExpire c => sp_start (k_n k) p c true (Some [OTimeout])
  | EExpireA c => if is_tcp kd && live p then sp_start (k_n k) p c true (Some [OTimeout; OOk]) else None
  | EExpireB c | EExpireC c => if live p then sp_start (k_n k) p c true (Some [OTimeout; OOk]) else None
  | ERespond c =>
      if negb (live p) then None else
      match pget (p_cs p) c with
      | PFlight true => Some (sp_cs p (pset (p_cs p) c (PFin true [OOk])))
      | PFin true _ => Some p            (* late: discarded *)
      | _ => None
      end
  | EUnknown => if live p then Some p else None
  | ECancel c =>
      if is_tcp kd then None else
      match pget (p_cs p) c, p_phase p with
      | PFlight kn, PhLive => if p_stalled p then None else Some (sp_cs p (pset (p_cs p) c (PFin kn [OCancelled])))
      | PFlight kn, PhWindow =>
          if p_stalled p then None
          else Some (sp_cs p (pset (p_cs p) c (PFin kn [OCancelled; OConn])))
      | _, _ => None
      end
  | ECancelB c | ECancelC c =>
      if is_tcp kd || negb (live p) then None else
      match pget (p_cs p) c with
      | PFlight true => Some (sp_cs p (pset (p_cs p) c (PFin true [OCancelled])))
      | _ => None
      end
  | ENotify =>
      if live p && is_ws kd && k_sub k
      then Some (mkSp (p_phase p) (p_cs p) (p_stalled p) (p_unread p) (p_subq p) (p_nn p + 1) (p_nprobe p)) else None
  | EQuery =>
      Some (mkSp (p_phase p) (p_cs p) (p_stalled p) (p_unread p)
                 (p_subq p ++ [if k_sub k then (if live p then UOpen else UEos) else UNone]) (p_nn p) (p_nprobe p))
  | EStallStart c =>
      if negb (live p) then None else
      match sp_start (k_n k) p c false None with
      | Some p' => Some (mkSp (p_phase p') (p_cs p') true (p_unread p') (p_subq p') (p_nn p') (p_nprobe p'))
      | None => None
      end
  | EFault => if live p then Some (sp_phase (sp_cs p (fail_flights (p_cs p))) PhDead) else None
  | EFaultPark => if live p then Some (sp_phase p PhWindow) else None
  | ERelease => match p_phase p with
                | PhWindow => Some (sp_phase (sp_cs p (fail_flights (p_cs p))) PhDead)
                | _ => None
                end
  | EProbe c =>
      if is_async kd && live p && srv_reads p then
        match pget (p_cs p) c with
        | PFin true _ => Some (mkSp (p_phase p) (p_cs p) (p_stalled p) (p_unread p) (p_subq p) (p_nn p) (S (p_nprobe p)))
        | _ => None
        end
      else None
  end.

Fixpoint spec_run (k : case) (p : spst) (l : list event) : option spst :=
  match l with
  | [] => Some p
  | e :: l' => match spec_step k p e with Some p' => spec_run k p' l' | None => None end
  end.

Definition spec_final (k : case) : option spst :=
  if k_sub k && negb (is_ws (k_kind k)) then None else
  match spec_run k sp0 (k_script k) with
  | Some p => match p_phase p with PhWindow => None | _ => Some p end
  | None => None
  end.

(** the scenario is one the property speaks about *)
Definition c06_valid (k : case) : bool := match spec_final k with Some _ => true | None => false end.

(** ... and every such scenario is one the model is claimed to follow *)
Definition c06_wf (k : case) : bool := c06_valid k.

Definition oclass_eqb (a b : oclass) : bool :=
  match a, b with
  | OOk, OOk | OWrong, OWrong | OTimeout, OTimeout | OConn, OConn | OCancelled, OCancelled
  | OPending, OPending | OHang, OHang | ONone, ONone => true
  | _, _ => false
  end.
Definition osub_eqb (a b : osub) : bool :=
  match a, b with UNone, UNone | UOpen, UOpen | UEos, UEos => true | _, _ => false end.

Fixpoint list_eqb {A} (eqb : A -> A -> bool) (a b : list A) : bool :=
  match a, b with
  | [], [] => true
  | x :: a', y :: b' => eqb x y && list_eqb eqb a' b'
  | _, _ => false
  end.

Definition allowed_of (v : pst) : list oclass :=
  match v with PNone => [ONone] | PFlight _ => [OPending] | PFin _ l => l end.

Fixpoint res_ok (cs : list (N * pst)) (cl : list N) (r : list oclass) : bool :=
  match cl, r with
  | [], [] => true
  | c :: cl', x :: r' => existsb (oclass_eqb x) (allowed_of (pget cs c)) && res_ok cs cl' r'
  | _, _ => false
  end.

(** the oracle: every call ended in a class the property allows (never [hang],
    never [wrong]: they are in no allowed set); the subscriber saw every
    notification, was open while the connection lived and saw end-of-stream at
    every look after the fault; no probed id was still pending *)
Definition ok_C06 (k : case) (o : obs) : bool :=
  match spec_final k with
  | None => true
  | Some p =>
      res_ok (p_cs p) (callers (k_n k)) (o_res o) &&
      osub_eqb (o_sub o) (if k_sub k then (if live p then UOpen else UEos) else UNone) &&
      list_eqb osub_eqb (o_subq o) (p_subq p) &&
      (o_nn o =? p_nn p) &&
      list_eqb Bool.eqb (o_resid o) (repeat false (p_nprobe p))
  end.

Definition is_stall (e : event) : bool := match e with EStallStart _ => true | _ => false end.

(** what the correspondence check compares.  With a stalled writer on the
    async client and a fault that also closes the connection, the failing
    write's guard may end the response loop ([RStop]) before the loop itself
    notices the fault: whether the loop reached its probe point is then a race
    the harness cannot decide, and [o_rd] is not compared *)
Definition obs_match (k : case) (a b : obs) : bool :=
  list_eqb oclass_eqb (o_res a) (o_res b) && osub_eqb (o_sub a) (o_sub b) &&
  list_eqb osub_eqb (o_subq a) (o_subq b) && (o_nn a =? o_nn b) &&
  (Bool.eqb (o_rd a) (o_rd b) || (is_async (k_kind k) && existsb is_stall (k_script k))) &&
  list_eqb Bool.eqb (o_resid a) (o_resid b).

Definition obs_eqb (a b : obs) : bool :=
  list_eqb oclass_eqb (o_res a) (o_res b) && osub_eqb (o_sub a) (o_sub b) &&
  list_eqb osub_eqb (o_subq a) (o_subq b) && (o_nn a =? o_nn b) && Bool.eqb (o_rd a) (o_rd b) &&
  list_eqb Bool.eqb (o_resid a) (o_resid b).
