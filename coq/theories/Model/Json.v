(** JSON values as serde_json sees them in this build (no [preserve_order]:
    an object is a BTreeMap, i.e. a list of (key, value) sorted by the bytes of
    the key), byte strings, and the string functions of src/registry.rs that do
    not mention the registry: [split('/')], [contains('~')], [str::replace],
    [usize::from_str].  Strings are lists of bytes (UTF-8); every character the
    code inspects is ASCII, so bytes and chars agree on valid UTF-8. *)
From RepeV Require Export Base.Word.

Definition str := list byte.

Inductive json : Set :=
| JNull
| JBool (b : bool)
| JNum (n : N)                      (* an opaque number: the harness uses u64 integers *)
| JStr (s : str)
| JArr (l : list json)
| JObj (l : list (str * json)).

Definition omap := list (str * json).

(** ** byte strings *)
Fixpoint str_eqb (a b : str) : bool :=
  match a, b with
  | [], [] => true
  | x :: a', y :: b' => (x =? y) && str_eqb a' b'
  | _, _ => false
  end.

(** lexicographic order on bytes = [Ord for String] on valid UTF-8 *)
Fixpoint str_ltb (a b : str) : bool :=
  match a, b with
  | _, [] => false
  | [], _ :: _ => true
  | x :: a', y :: b' => (x <? y) || ((x =? y) && str_ltb a' b')
  end.

Definition SLASH : byte := 47.
Definition TILDE : byte := 126.
Definition ZERO : byte := 48.
Definition ONE : byte := 49.
Definition PLUS : byte := 43.

Definition contains (c : byte) (s : str) : bool := existsb (fun b => b =? c) s.

Definition starts_with (c : byte) (s : str) : bool :=
  match s with b :: _ => b =? c | [] => false end.

(** [s.split(c)]: always at least one piece *)
Fixpoint split_on (c : byte) (s : str) : list str :=
  match s with
  | [] => [[]]
  | b :: s' =>
      if b =? c then [] :: split_on c s'
      else match split_on c s' with
           | t :: ts => (b :: t) :: ts
           | [] => [[b]]
           end
  end.

(** [s.replace(c, r)] for a one-character pattern *)
Fixpoint replace1 (c : byte) (r : str) (s : str) : str :=
  match s with
  | [] => []
  | b :: s' => if b =? c then r ++ replace1 c r s' else b :: replace1 c r s'
  end.

(** [s.replace("ab", r)] for a two-character pattern and a one-character
    replacement (left to right, non-overlapping), as RFC 6901 section 4 and
    src/json_pointer.rs decode tokens *)
Fixpoint replace2 (a b r : byte) (s : str) : str :=
  match s with
  | [] => []
  | x :: s' =>
      match s' with
      | [] => [x]
      | y :: s'' => if (x =? a) && (y =? b) then r :: replace2 a b r s'' else x :: replace2 a b r s'
      end
  end.

(** [usize::from_str] on a 64-bit target: an optional single '+', then at
    least one ASCII digit, leading zeros allowed, value at most 2^64-1 *)
Definition digit_step (acc : option N) (d : byte) : option N :=
  match acc with
  | None => None
  | Some a => if (48 <=? d) && (d <=? 57) then Some (a * 10 + (d - 48)) else None
  end.

Definition digits_val (ds : str) : option N := fold_left digit_step ds (Some 0).

Definition parse_usize (s : str) : option N :=
  match s with
  | [] => None
  | c :: rest =>
      let ds := if c =? PLUS then rest else s in
      match ds with
      | [] => None
      | _ => match digits_val ds with
             | Some v => if v <? two64 then Some v else None
             | None => None
             end
      end
  end.

(** ** lists indexed by N (no conversion of a 64-bit index to nat) *)
Fixpoint nthN {A} (l : list A) (i : N) : option A :=
  match l with
  | [] => None
  | x :: l' => if i =? 0 then Some x else nthN l' (i - 1)
  end.

(** replace slot [i]; unchanged when out of range *)
Fixpoint setN {A} (l : list A) (i : N) (v : A) : list A :=
  match l with
  | [] => []
  | x :: l' => if i =? 0 then v :: l' else x :: setN l' (i - 1) v
  end.

(** ** objects: BTreeMap<String, Value> as a sorted association list *)
Fixpoint oget (m : omap) (k : str) : option json :=
  match m with
  | [] => None
  | (k', v) :: m' => if str_eqb k' k then Some v else oget m' k
  end.

(** [Map::insert]: replace the value of an existing key, else insert in order *)
Fixpoint oset (m : omap) (k : str) (v : json) : omap :=
  match m with
  | [] => [(k, v)]
  | (k', v') :: m' =>
      if str_eqb k' k then (k, v) :: m'
      else if str_ltb k k' then (k, v) :: m
      else (k', v') :: oset m' k v
  end.

(** [for (key, value) in object { map.insert(key, value); }] *)
Definition omerge (m : omap) (o : omap) : omap :=
  fold_left (fun acc kv => oset acc (fst kv) (snd kv)) o m.

(** ** equality and well-formedness of values (nested fixpoints) *)
Fixpoint json_eqb (a b : json) : bool :=
  match a, b with
  | JNull, JNull => true
  | JBool x, JBool y => Bool.eqb x y
  | JNum x, JNum y => x =? y
  | JStr x, JStr y => str_eqb x y
  | JArr x, JArr y =>
      (fix go (x y : list json) : bool :=
         match x, y with
         | [], [] => true
         | a :: x', b :: y' => json_eqb a b && go x' y'
         | _, _ => false
         end) x y
  | JObj x, JObj y =>
      (fix go (x y : omap) : bool :=
         match x, y with
         | [], [] => true
         | (k, a) :: x', (k', b) :: y' => str_eqb k k' && json_eqb a b && go x' y'
         | _, _ => false
         end) x y
  | _, _ => false
  end.

(** keys strictly increasing *)
Fixpoint keys_sorted (ks : list str) : bool :=
  match ks with
  | [] => true
  | k :: ks' => match ks' with [] => true | k' :: _ => str_ltb k k' && keys_sorted ks' end
  end.

(** what the harness can produce and serde_json can hold: bytes are bytes,
    numbers fit u64, object keys strictly increasing *)
Fixpoint json_wf (j : json) : bool :=
  match j with
  | JNull | JBool _ => true
  | JNum n => n <? two64
  | JStr s => bytes_ok s
  | JArr l => (fix go (l : list json) : bool := match l with [] => true | x :: l' => json_wf x && go l' end) l
  | JObj m =>
      keys_sorted (map fst m) &&
      (fix go (m : omap) : bool :=
         match m with [] => true | (k, x) :: m' => bytes_ok k && json_wf x && go m' end) m
  end.

Definition opt_json_eqb (a b : option json) : bool :=
  match a, b with
  | Some x, Some y => json_eqb x y
  | None, None => true
  | _, _ => false
  end.

Fixpoint leqb {A} (eqb : A -> A -> bool) (a b : list A) : bool :=
  match a, b with
  | [], [] => true
  | x :: a', y :: b' => eqb x y && leqb eqb a' b'
  | _, _ => false
  end.
