//! C16 correspondence: the per-connection cap on off-reader handlers of the
//! WebSocket server. A scripted raw tungstenite peer sends requests to parked
//! blocking routes and to an inline route, and releases the parked handlers one
//! by one (return / error / panic); after every step it waits for the step's
//! effect (handler parked, reply received, hook fired), so the script is a
//! sequential history of `Arrive` / `Exit` events.
use futures_util::{SinkExt, StreamExt};
use repe::tokio_tungstenite as tt;
use repe::{CallContext, ConnectionError, ErrorCode, Execution, Message, Middleware, Next, RepeError, Router, WebSocketServer};
use repe_verif_harness::*;
use serde_json::Value;
use std::collections::{HashMap, HashSet};
use std::sync::atomic::{AtomicUsize, Ordering};
use std::sync::{Arc, Mutex};
use std::time::Duration;
use tokio::sync::mpsc::{UnboundedReceiver, UnboundedSender, unbounded_channel};
use tokio::time::Instant;
use tt::tungstenite::Message as WsMsg;

type ClientWs = tt::WebSocketStream<tt::MaybeTlsStream<tokio::net::TcpStream>>;

const T_CONN: Duration = Duration::from_secs(10);
const T_STEP: Duration = Duration::from_secs(5);
const T_CASE: Duration = Duration::from_secs(50);
const GRACE: Duration = Duration::from_millis(20);
const RETRY_PAUSE: Duration = Duration::from_millis(5);
const MAX_RETRIES: usize = 200;
const ALIVE_ID: u64 = 0xffff_ffff_ffff_fff1;

const X_TIMEOUT: u64 = 1;
const X_SKIPPED: u64 = 2;
const X_REFUSED_BUT_RAN: u64 = 3;
const X_BAD_BODY: u64 = 4;
const X_EC_BASE: u64 = 0x1000_0000;

fn hx(v: u64) -> String { format!("{v:x}") }
fn ph(s: &str) -> Option<u64> { u64::from_str_radix(s, 16).ok() }
fn clean(s: impl AsRef<str>) -> String { s.as_ref().chars().map(|c| if c.is_whitespace() { '_' } else { c }).collect() }
fn le64(b: &[u8]) -> u64 { let mut x = [0u8; 8]; x.copy_from_slice(&b[..8]); u64::from_le_bytes(x) }
fn le32(b: &[u8]) -> u32 { let mut x = [0u8; 4]; x.copy_from_slice(&b[..4]); u32::from_le_bytes(x) }

/// a REPE frame assembled by hand (JSON-pointer query, JSON body)
fn frame(notify: u8, id: u64, q: &[u8], b: &[u8]) -> Vec<u8> {
    let mut f = Vec::with_capacity(48 + q.len() + b.len());
    f.extend_from_slice(&((48 + q.len() + b.len()) as u64).to_le_bytes());
    f.extend_from_slice(&0x1507u16.to_le_bytes());
    f.push(1);
    f.push(notify);
    f.extend_from_slice(&0u32.to_le_bytes());
    f.extend_from_slice(&id.to_le_bytes());
    f.extend_from_slice(&(q.len() as u64).to_le_bytes());
    f.extend_from_slice(&(b.len() as u64).to_le_bytes());
    f.extend_from_slice(&1u16.to_le_bytes());
    f.extend_from_slice(&2u16.to_le_bytes());
    f.extend_from_slice(&0u32.to_le_bytes());
    f.extend_from_slice(q);
    f.extend_from_slice(b);
    f
}

#[derive(Clone, Copy, PartialEq, Debug)]
enum Rel { Ret, Err(u32), Panic }

enum Ev { Started(u64), Exited(u64), InlineRan(u64), Sat, Pan, OtherErr }

struct Shared {
    gauge: AtomicUsize,
    maxg: AtomicUsize,
    mwc: AtomicUsize,
    gates: Mutex<HashMap<u64, std::sync::mpsc::Receiver<Rel>>>,
    tx: UnboundedSender<Ev>,
    /// `stallq` cases: the ctx route tops the outbound queue up with 32 KiB pushes until it stays full before it parks
    flood: std::sync::atomic::AtomicBool,
}

/// body of every parked handler: count in, wait for the harness' token, count out, act
fn park(sh: &Shared, tag: u64) -> Result<u64, (ErrorCode, String)> {
    let rx = sh.gates.lock().unwrap_or_else(|e| e.into_inner()).remove(&tag);
    let g = sh.gauge.fetch_add(1, Ordering::SeqCst) + 1;
    sh.maxg.fetch_max(g, Ordering::SeqCst);
    let _ = sh.tx.send(Ev::Started(tag));
    let rel = rx.and_then(|rx| rx.recv_timeout(Duration::from_secs(45)).ok());
    sh.gauge.fetch_sub(1, Ordering::SeqCst);
    let _ = sh.tx.send(Ev::Exited(tag));
    match rel {
        Some(Rel::Ret) => Ok(tag),
        Some(Rel::Err(c)) => Err((ErrorCode::try_from(c).unwrap_or(ErrorCode::ApplicationErrorBase), "released with an error".to_string())),
        // the panic payload is a string for even tags and a typed value for odd ones
        Some(Rel::Panic) => if tag % 2 == 0 { panic!("c16: released with a panic") } else { std::panic::panic_any(tag) },
        None => Err((ErrorCode::Timeout, "gate closed".to_string())),
    }
}

struct Pass(Arc<Shared>);
impl Middleware for Pass {
    fn handle(&self, req: &Message, next: Next<'_>) -> Result<Message, RepeError> {
        self.0.mwc.fetch_add(1, Ordering::SeqCst);
        next.run(req)
    }
}

fn tag_of(v: &Value) -> Result<u64, (ErrorCode, String)> { v.as_u64().ok_or((ErrorCode::InvalidBody, "tag".to_string())) }

/// routes: `/in` inline, `/pj` `/pt` `/pc` blocking (json, typed, json+ctx); the
/// middlewares are registered in the middle so that both wrapping paths
/// (rebuild of existing routes, insertion of later routes) are exercised
fn build_router(sh: &Arc<Shared>, nmw: u64) -> Router {
    let (a, b, c, d) = (sh.clone(), sh.clone(), sh.clone(), sh.clone());
    let mut r = Router::new()
        .with_json("/in", move |v| { let t = tag_of(&v)?; let _ = a.tx.send(Ev::InlineRan(t)); Ok(Value::from(t)) })
        .with_json_blocking("/pj", move |v| { let t = tag_of(&v)?; park(&b, t).map(Value::from) });
    for _ in 0..nmw { r = r.with_middleware(Pass(sh.clone())); }
    r.with_typed_blocking::<u64, u64, _>("/pt", move |t: u64| park(&c, t))
        .with_json_ctx_blocking("/pc", move |ctx: &CallContext, v| {
            let t = tag_of(&v)?;
            if d.flood.load(Ordering::SeqCst) {
                if let Some(peer) = ctx.peer() {
                    let (mut refused, mut sent) = (0, 0);
                    while sent < 64 {
                        if peer.send_notify("/f", repe::NotifyBody::Raw(vec![0x55; 32 * 1024], repe::BodyFormat::RawBinary)).is_ok() { sent += 1; refused = 0; continue; }
                        refused += 1;
                        if refused > 60 { break; }
                        std::thread::sleep(Duration::from_millis(2));
                    }
                }
            }
            park(&d, t).map(Value::from)
        })
}

fn path_of(route: &str) -> Option<&'static [u8]> {
    match route { "i" => Some(b"/in"), "j" => Some(b"/pj"), "t" => Some(b"/pt"), "c" => Some(b"/pc"), _ => None }
}

struct Msg { id: u64, ec: u32, notify: u8, body: Vec<u8> }

struct Peer {
    ws: ClientWs,
    rx: UnboundedReceiver<Ev>,
    log: Vec<Msg>,
    started: HashSet<u64>,
    exited: HashSet<u64>,
    inline_ran: HashSet<u64>,
    sat: usize,
    pan: usize,
    other: usize,
    dead: Option<String>,
}
impl Peer {
    fn absorb(&mut self, e: Ev) {
        match e {
            Ev::Started(t) => { self.started.insert(t); }
            Ev::Exited(t) => { self.exited.insert(t); }
            Ev::InlineRan(t) => { self.inline_ran.insert(t); }
            Ev::Sat => self.sat += 1,
            Ev::Pan => self.pan += 1,
            Ev::OtherErr => self.other += 1,
        }
    }
    fn drain(&mut self) { while let Ok(e) = self.rx.try_recv() { self.absorb(e); } }
    fn record(&mut self, b: Vec<u8>) {
        if b.len() < 48 { self.log.push(Msg { id: 0, ec: u32::MAX, notify: 0, body: b }); return; }
        let ql = le64(&b[24..32]) as usize;
        // the pushes of a `stallq` case are not part of the observation
        if b[11] == 1 && 48 + ql <= b.len() && &b[48..48 + ql] == b"/f" { return; }
        let body = if 48 + ql <= b.len() { b[48 + ql..].to_vec() } else { vec![] };
        self.log.push(Msg { id: le64(&b[16..24]), ec: le32(&b[44..48]), notify: b[11], body });
    }
    async fn send(&mut self, f: Vec<u8>) -> Result<(), String> {
        match tokio::time::timeout(T_CONN, self.ws.send(WsMsg::Binary(f))).await {
            Err(_) => Err("timeout:raw-send".into()),
            Ok(Err(e)) => Err(format!("raw-send:{e}")),
            Ok(Ok(())) => Ok(()),
        }
    }
    /// read messages and hook/handler events until `done` holds or `until` passes
    async fn pump(&mut self, until: Instant, done: impl Fn(&Peer) -> bool) -> bool {
        loop {
            self.drain();
            if done(self) { return true; }
            if self.dead.is_some() { return false; }
            let now = Instant::now();
            if now >= until { return false; }
            tokio::select! {
                m = self.ws.next() => match m {
                    None => self.dead = Some("closed".into()),
                    Some(Err(e)) => self.dead = Some(e.to_string()),
                    Some(Ok(WsMsg::Binary(b))) => self.record(b.into()),
                    Some(Ok(WsMsg::Close(_))) => self.dead = Some("close-frame".into()),
                    Some(Ok(_)) => {}
                },
                e = self.rx.recv() => { if let Some(e) = e { self.absorb(e); } }
                _ = tokio::time::sleep_until(until) => {}
            }
        }
    }
    fn find(&self, from: usize, id: u64) -> Option<usize> { (from..self.log.len()).find(|i| self.log[*i].id == id) }
}

enum Event { Arrive { id: u64, notify: bool, route: String }, Exit { id: u64, notify: bool, how: Rel } }

fn parse_events(s: &str) -> Option<Vec<Event>> {
    if s == "-" { return Some(vec![]); }
    s.split(';').map(|e| {
        let t: Vec<&str> = e.split(':').collect();
        match t.as_slice() {
            ["A", id, n, r] => Some(Event::Arrive { id: ph(id)?, notify: *n == "1", route: r.to_string() }),
            ["X", id, n, _r, h] => {
                let how = if *h == "r" { Rel::Ret } else if *h == "p" { Rel::Panic } else { Rel::Err(ph(h.strip_prefix('e')?)? as u32) };
                Some(Event::Exit { id: ph(id)?, notify: *n == "1", how })
            }
            _ => None,
        }
    }).collect()
}

struct Tasks(Vec<tokio::task::JoinHandle<()>>);
impl Drop for Tasks { fn drop(&mut self) { for t in &self.0 { t.abort(); } } }

fn body_is(m: &Msg, tag: u64) -> bool { m.notify == 0 && m.body == tag.to_string().into_bytes() }

/// the observer's own single-threaded runtime: a stalled server runtime (a
/// handler blocking a worker that holds the I/O driver) cannot stop its timers
fn client_runtime() -> &'static tokio::runtime::Runtime {
    static RT: std::sync::OnceLock<tokio::runtime::Runtime> = std::sync::OnceLock::new();
    RT.get_or_init(|| tokio::runtime::Builder::new_current_thread().enable_all().build().unwrap())
}

struct Setup { sh: Arc<Shared>, rx: UnboundedReceiver<Ev>, modes: String, addr: std::net::SocketAddr, tasks: Tasks }

/// router, hooks and a live server (on the shared multi-threaded runtime)
fn start_server(cap: Option<u64>, nmw: u64, oq: Option<usize>, stallq: bool) -> Result<Setup, String> {
    let (tx, rx) = unbounded_channel();
    let sh = Arc::new(Shared { gauge: AtomicUsize::new(0), maxg: AtomicUsize::new(0), mwc: AtomicUsize::new(0), gates: Mutex::new(HashMap::new()), tx, flood: std::sync::atomic::AtomicBool::new(stallq) });
    let router = build_router(&sh, nmw);
    let modes: String = ["/in", "/pj", "/pt", "/pc"].iter().map(|p| match router.get(p).map(|h| h.execution()) {
        Some(Execution::Inline) => 'i', Some(Execution::OffReader) => 'o', _ => '?' }).collect();
    let hook = sh.clone();
    let srv = WebSocketServer::new(router).with_offreader_limit(cap.unwrap_or(0) as usize).on_error(move |err| {
        let _ = hook.tx.send(match err { ConnectionError::Saturation { .. } => Ev::Sat, ConnectionError::HandlerPanic { .. } => Ev::Pan, _ => Ev::OtherErr });
    });
    // `oq`: a tiny outbound queue, so that replies are produced faster than the writer drains them
    let srv = match oq { Some(q) => srv.with_outbound_capacity(q), None => srv };
    let (addr, task) = net::runtime().block_on(async move {
        let l = if stallq {
            // accepted sockets inherit a 4 KiB send buffer: a peer that does not read stalls the writer at once
            use socket2::{Domain, Socket, Type};
            let s = Socket::new(Domain::IPV4, Type::STREAM, None).map_err(|e| format!("socket:{e}"))?;
            let _ = s.set_reuse_address(true);
            s.set_send_buffer_size(4096).map_err(|e| format!("sndbuf:{e}"))?;
            let a: std::net::SocketAddr = "127.0.0.1:0".parse().unwrap();
            s.bind(&a.into()).map_err(|e| format!("bind:{e}"))?;
            s.listen(16).map_err(|e| format!("listen:{e}"))?;
            s.set_nonblocking(true).map_err(|e| format!("nonblocking:{e}"))?;
            tokio::net::TcpListener::from_std(s.into()).map_err(|e| format!("from_std:{e}"))?
        } else {
            tokio::time::timeout(T_CONN, WebSocketServer::listen("127.0.0.1:0")).await.map_err(|_| "timeout:ws-bind".to_string())?.map_err(|e| format!("ws-bind:{e}"))?
        };
        let addr = l.local_addr().map_err(|e| format!("ws-addr:{e}"))?;
        Ok::<_, String>((addr, tokio::spawn(async move { let _ = srv.serve_listener(l, "/repe").await; })))
    })?;
    Ok(Setup { sh, rx, modes, addr, tasks: Tasks(vec![task]) })
}

async fn run_script(cap: Option<u64>, nmw: u64, events: &[Event], setup: Setup, pipe: u8, stallq: Option<u64>) -> Result<String, String> {
    let Setup { sh, rx, modes, addr, tasks } = setup;
    let (ws, _) = if stallq.is_some() {
        use socket2::{Domain, Socket, Type};
        let s = Socket::new(Domain::IPV4, Type::STREAM, None).map_err(|e| format!("socket:{e}"))?;
        s.set_recv_buffer_size(4096).map_err(|e| format!("rcvbuf:{e}"))?;
        s.connect(&addr.into()).map_err(|e| format!("raw-connect:{e}"))?;
        s.set_nonblocking(true).map_err(|e| format!("nonblocking:{e}"))?;
        let tcp = tokio::net::TcpStream::from_std(s.into()).map_err(|e| format!("from_std:{e}"))?;
        let _ = tcp.set_nodelay(true);
        tokio::time::timeout(T_CONN, tt::client_async(format!("ws://{addr}/repe"), tt::MaybeTlsStream::Plain(tcp))).await.map_err(|_| "timeout:raw-connect".to_string())?.map_err(|e| format!("raw-connect:{e}"))?
    } else {
        tokio::time::timeout(T_CONN, tt::connect_async_with_config(format!("ws://{addr}/repe"), None, true)).await.map_err(|_| "timeout:raw-connect".to_string())?.map_err(|e| format!("raw-connect:{e}"))?
    };
    // `stallq`: until the first refusal is due, the peer does not read (handler events only)
    let mut stalled = stallq.is_some();
    let mut p = Peer { ws, rx, log: vec![], started: HashSet::new(), exited: HashSet::new(), inline_ran: HashSet::new(), sat: 0, pan: 0, other: 0, dead: None };

    let mut rel_tx: HashMap<u64, std::sync::mpsc::Sender<Rel>> = HashMap::new();
    let mut outs: Vec<String> = Vec::new();
    let mut refused: Vec<(usize, u64)> = Vec::new();
    let mut live = 0u64;          // admissions observed minus exits performed
    let mut early = 0usize;       // refusals retried because the slot of a finished handler was not yet released
    let mut aborted = false;
    let mut slow_refusal_ms = 0u64;
    // `pipe`: requests sent ahead in one write (id -> log position at that moment)
    let mut presend: HashMap<u64, usize> = HashMap::new();
    let mut prereleased: HashSet<u64> = HashSet::new();
    let mut groups: Vec<Vec<u64>> = Vec::new();   // ids released together, in script order
    let mut grp: (usize, usize, usize) = (0, 0, 0);   // (log position, panic reports, panics judged so far) of the released group
    let other = |ec: u32| format!("x{}", hx(X_EC_BASE + ec as u64));

    for (evi, ev) in events.iter().enumerate() {
        if aborted { outs.push(format!("x{}", hx(X_SKIPPED))); continue; }
        match ev {
            Event::Arrive { id, notify, route } => {
                let (id, notify) = (*id, *notify);
                let path = path_of(route).ok_or("badcase:route")?;
                let f = frame(notify as u8, id, path, id.to_string().as_bytes());
                if route == "i" {
                    let from = p.log.len();
                    p.send(f).await?;
                    let ok = p.pump(Instant::now() + T_STEP, |p| if notify { p.inline_ran.contains(&id) } else { p.find(from, id).is_some() }).await;
                    outs.push(if !ok { aborted = true; format!("x{}", hx(X_TIMEOUT)) }
                        else if notify { "n".into() }
                        else { let m = &p.log[p.find(from, id).unwrap()]; if m.ec != 0 { other(m.ec) } else if body_is(m, id) { "o".into() } else { format!("x{}", hx(X_BAD_BODY)) } });
                    continue;
                }
                // the gate a handler parks on exists before its request can reach the server
                if !rel_tx.contains_key(&id) && !presend.contains_key(&id) {
                    let (gtx, grx) = std::sync::mpsc::channel();
                    sh.gates.lock().unwrap_or_else(|e| e.into_inner()).insert(id, grx);
                    rel_tx.insert(id, gtx);
                }
                // at the cap: this request and the requests that follow it back to back leave in
                // one write (none of them is read before all are out)
                if pipe > 0 && !notify && !presend.contains_key(&id) && (pipe >= 2 || cap.is_some_and(|c| live >= c)) {
                    let from = p.log.len();
                    let mut burst = vec![(id, f.clone())];
                    for e2 in &events[evi + 1..] {
                        match e2 {
                            Event::Arrive { id: id2, notify: false, route: r2 } if r2 != "i" => burst.push((*id2, frame(0, *id2, path_of(r2).ok_or("badcase:route")?, id2.to_string().as_bytes()))),
                            _ => break,
                        }
                    }
                    if burst.len() > 1 {
                        for (id2, f2) in burst {
                            presend.insert(id2, from);
                            if !rel_tx.contains_key(&id2) {
                                let (gtx, grx) = std::sync::mpsc::channel();
                                sh.gates.lock().unwrap_or_else(|e| e.into_inner()).insert(id2, grx);
                                rel_tx.insert(id2, gtx);
                            }
                            match tokio::time::timeout(T_CONN, p.ws.feed(WsMsg::Binary(f2))).await { Ok(Ok(())) => {} Ok(Err(e)) => return Err(format!("raw-feed:{e}")), Err(_) => return Err("timeout:raw-feed".into()) }
                        }
                        match tokio::time::timeout(T_CONN, p.ws.flush()).await { Ok(Ok(())) => {} Ok(Err(e)) => return Err(format!("raw-flush:{e}")), Err(_) => return Err("timeout:raw-flush".into()) }
                    }
                }
                let mut tries = 0;
                loop {
                    let (mut from, sat0) = (p.log.len(), p.sat);
                    let t_sent = Instant::now();
                    match presend.get(&id) { Some(f0) if tries == 0 => from = *f0, _ => p.send(f.clone()).await? }
                    let mut waited_behind_writer = false;
                    if stalled {
                        if cap.is_some_and(|c| live >= c) {
                            waited_behind_writer = true;
                            // a request at the cap while the queue is full and the writer is stuck: the peer keeps
                            // not reading for `stallq` ms, then reads everything
                            tokio::time::sleep(Duration::from_millis(stallq.unwrap_or(0))).await;
                            stalled = false;
                        } else {
                            // wait for the handler to have filled the queue and parked, without reading the socket
                            let until = Instant::now() + T_STEP;
                            while !p.started.contains(&id) && Instant::now() < until { p.drain(); tokio::time::sleep(Duration::from_millis(2)).await; }
                        }
                    }
                    let ok = if stalled { p.started.contains(&id) } else { p.pump(Instant::now() + T_STEP, |p| p.started.contains(&id) || if notify { p.sat > sat0 } else { p.find(from, id).is_some() }).await };
                    // a request refused at the cap is answered at once (the reader does not wait for a slot)
                    if ok && !notify && !waited_behind_writer && !p.started.contains(&id) { slow_refusal_ms = slow_refusal_ms.max(t_sent.elapsed().as_millis() as u64); }
                    p.drain();
                    if !ok { aborted = true; outs.push(format!("x{}", hx(X_TIMEOUT))); break; }
                    if p.started.contains(&id) { live += 1; outs.push("a".into()); break; }
                    let tok = if notify { "d".to_string() } else { let m = &p.log[p.find(from, id).unwrap()]; if m.ec == 8 && m.notify == 0 { "s".into() } else { other(m.ec) } };
                    // a refusal although fewer than cap handlers are parked: the
                    // blocking thread of a finished handler may not have dropped its
                    // permit yet (it does so after queueing the reply); retry
                    let below = cap.is_some_and(|c| live < c);
                    if (tok == "s" || tok == "d") && below && tries < MAX_RETRIES {
                        tries += 1; early += 1;
                        if !notify { let i = p.find(from, id).unwrap(); p.log.remove(i); }
                        tokio::time::sleep(RETRY_PAUSE).await;
                        continue;
                    }
                    if tok == "s" || tok == "d" { refused.push((outs.len(), id)); }
                    outs.push(tok);
                    break;
                }
            }
            Event::Exit { id, notify, how } => {
                let (id, notify, how) = (*id, *notify, *how);
                let (mut from, mut pan0) = (p.log.len(), p.pan);
                // `pipe`: this handler and the ones whose exits follow back to back leave at the same instant
                if pipe > 0 && !prereleased.contains(&id) {
                    grp = (from, pan0, 0);
                    groups.push(Vec::new());
                    for e2 in &events[evi..] {
                        match e2 {
                            Event::Exit { id: id2, how: how2, .. } => {
                                let sent = rel_tx.remove(id2).map(|t| t.send(*how2).is_ok()).unwrap_or(false);
                                if !sent { return Err("badcase:exit-without-parked-handler".into()); }
                                prereleased.insert(*id2);
                                groups.last_mut().unwrap().push(*id2);
                            }
                            _ => break,
                        }
                    }
                }
                if stalled {
                    // `stallq`: the handler leaves while the queue is full and the peer still does not read;
                    // its reply waits for room as long as it takes
                    let sent = rel_tx.remove(&id).map(|t| t.send(how).is_ok()).unwrap_or(false);
                    if !sent { return Err("badcase:exit-without-parked-handler".into()); }
                    tokio::time::sleep(Duration::from_millis(stallq.unwrap_or(0))).await;
                    stalled = false;
                } else if prereleased.remove(&id) {
                    // judged from the moment the group was released: replies and panic reports of
                    // the group may arrive in any order
                    from = grp.0;
                    pan0 = grp.1 + grp.2;
                    if how == Rel::Panic { grp.2 += 1; }
                } else {
                    let sent = rel_tx.remove(&id).map(|t| t.send(how).is_ok()).unwrap_or(false);
                    if !sent { return Err("badcase:exit-without-parked-handler".into()); }
                }
                let ok = p.pump(Instant::now() + T_STEP, |p| (if notify { p.exited.contains(&id) } else { p.find(from, id).is_some() }) && (how != Rel::Panic || p.pan > pan0)).await;
                p.drain();
                if p.exited.contains(&id) { live = live.saturating_sub(1); }
                outs.push(if !ok { aborted = true; format!("x{}", hx(X_TIMEOUT)) }
                    else if notify { "q".into() }
                    else {
                        let m = &p.log[p.find(from, id).unwrap()];
                        if m.ec == 0 { if body_is(m, id) { "v".into() } else { format!("x{}", hx(X_BAD_BODY)) } }
                        // InternalError is also a code a handler may return itself (e9): a panic outcome needs the
                        // scripted panic and its report (the number of reports is compared separately)
                        else if m.ec == 9 && how == Rel::Panic && p.pan > pan0 { "p".into() }
                        else { format!("e{}", hx(m.ec as u64)) }
                    });
            }
        }
    }

    // liveness: one more inline exchange on the same connection
    let mut alive = false;
    if p.dead.is_none() {
        let from = p.log.len();
        if p.send(frame(0, ALIVE_ID, b"/in", ALIVE_ID.to_string().as_bytes())).await.is_ok() {
            p.pump(Instant::now() + T_STEP, |p| p.find(from, ALIVE_ID).is_some()).await;
            if let Some(i) = p.find(from, ALIVE_ID) { let m = p.log.remove(i); alive = m.ec == 0 && body_is(&m, ALIVE_ID); }
        }
    }
    // anything that still trickles in (stray replies, late hook reports)
    p.pump(Instant::now() + GRACE, |_| false).await;
    // let every handler that is still parked go
    rel_tx.clear();
    for (i, id) in refused { if p.started.contains(&id) { outs[i] = format!("x{}", hx(X_REFUSED_BUT_RAN)); } }
    let ran = p.started.len() + p.inline_ran.len();
    if nmw > 0 && ran > 0 && sh.mwc.load(Ordering::SeqCst) == 0 { return Err("harness:middleware-never-ran".into()); }

    // handlers released at the same instant may reply in any order (the property promises none):
    // within each such group the replies are put into script order, in the positions the group's
    // replies occupy; every other frame keeps its place
    let mut seq: Vec<(u64, u32)> = p.log.iter().map(|m| (m.id, m.ec)).collect();
    for g in &groups {
        let pos: Vec<usize> = (0..seq.len()).filter(|i| g.contains(&seq[*i].0)).collect();
        let mut members: Vec<(u64, u32)> = pos.iter().map(|i| seq[*i]).collect();
        members.sort_by_key(|(id, _)| g.iter().position(|x| x == id).unwrap_or(usize::MAX));
        for (k, i) in pos.iter().enumerate() { seq[*i] = members[k]; }
    }
    let resp: Vec<String> = seq.iter().map(|(id, ec)| format!("{}:{}", hx(*id), hx(*ec as u64))).collect();
    let mut obs = format!("maxrun={} outs={} resp={} sat={} pan={} alive={} modes={} early={}",
        hx(sh.maxg.load(Ordering::SeqCst) as u64),
        if outs.is_empty() { "-".into() } else { outs.join(",") },
        if resp.is_empty() { "-".into() } else { resp.join(",") },
        hx((p.sat - early.min(p.sat)) as u64), hx(p.pan as u64), alive as u8, modes, hx(early as u64));
    if p.other > 0 { obs.push_str(&format!(" other={}", hx(p.other as u64))); }
    if slow_refusal_ms > 150 { obs.push_str(&format!(" slowrej={}", hx(slow_refusal_ms))); }
    if let Some(d) = &p.dead { obs.push_str(&format!(" dead={}", clean(d))); }
    drop(tasks);
    Ok(obs)
}

fn run_case(line: &str) -> String {
    let f = fields(line);
    let parsed = (|| -> Option<(Option<u64>, u64, Vec<Event>)> {
        let cap = match f.get("cap")?.as_str() { "-" => None, s => Some(ph(s)?) };
        Some((cap, ph(f.get("mw")?)?, parse_events(f.get("ev")?)?))
    })();
    let oq = f.get("oq").and_then(|s| ph(s)).map(|q| q as usize);
    let stallq = f.get("stallq").and_then(|s| ph(s));
    let pipe = f.get("pipe").and_then(|s| s.parse::<u8>().ok()).unwrap_or(0);
    let Some((cap, nmw, events)) = parsed else { return "crash=badcase:parse".into() };
    if cap == Some(0) || nmw > 8 { return "crash=badcase:cap-or-mw".into(); }
    let r = guard(move || {
        let setup = start_server(cap, nmw, oq, stallq.is_some())?;
        // the gates close when `sh` and the script's senders are gone, so every
        // parked handler leaves even when the script is cut short
        client_runtime().block_on(async {
            match tokio::time::timeout(T_CASE, run_script(cap, nmw, &events, setup, pipe, stallq)).await { Ok(r) => r, Err(_) => Err("timeout:case".into()) }
        })
    });
    match r { Ok(Ok(obs)) => obs, Ok(Err(e)) => format!("crash={}", clean(e)), Err(()) => "crash=panic".into() }
}

// ---------------------------------------------------------------- case generation

#[derive(Clone)]
struct Req { id: u64, notify: bool, route: char }

/// builds well-formed scripts: tracks which requests the cap admits
struct Script { cap: Option<u64>, ev: Vec<String>, live: Vec<Req>, next_id: u64 }
impl Script {
    fn new(cap: Option<u64>, first_id: u64) -> Self { Script { cap, ev: vec![], live: vec![], next_id: first_id } }
    fn fresh(&mut self, rng: &mut Rng) -> u64 {
        self.next_id += 1;
        // mostly small ids, sometimes the whole 64-bit range (the low bits keep them distinct)
        if rng.chance(1, 4) { (rng.next() & !0xffff) | (self.next_id & 0xffff) } else { self.next_id }
    }
    fn arrive(&mut self, id: u64, notify: bool, route: char) -> bool {
        self.ev.push(format!("A:{}:{}:{}", hx(id), notify as u8, route));
        if route != 'i' && self.cap.is_none_or(|c| (self.live.len() as u64) < c) { self.live.push(Req { id, notify, route }); true } else { false }
    }
    fn park(&mut self, rng: &mut Rng, notify: bool) -> bool {
        let id = self.fresh(rng);
        let route = *rng.pick(&['j', 't', 'c']);
        self.arrive(id, notify, route)
    }
    fn inline(&mut self, rng: &mut Rng, notify: bool) { let id = self.fresh(rng); self.arrive(id, notify, 'i'); }
    fn exit(&mut self, idx: usize, how: &str) {
        let r = self.live.remove(idx);
        self.ev.push(format!("X:{}:{}:{}:{}", hx(r.id), r.notify as u8, r.route, how));
    }
    fn line(&self, mw: u64) -> String { format!("cap={} mw={} ev={}", self.cap.map(hx).unwrap_or_else(|| "-".into()), hx(mw), if self.ev.is_empty() { "-".into() } else { self.ev.join(";") }) }
}

const HOWS: &[&str] = &["r", "p", "e1000", "e4", "e7", "e8", "e9"];
fn some_how(rng: &mut Rng) -> &'static str { match rng.below(10) { 0..=3 => "r", 4..=6 => "p", _ => *rng.pick(&HOWS[2..]) } }

fn permutations(n: usize) -> Vec<Vec<usize>> {
    if n == 0 { return vec![vec![]]; }
    let mut out = Vec::new();
    for p in permutations(n - 1) { for pos in 0..n { let mut q = p.clone(); q.insert(pos, n - 1); out.push(q); } }
    out
}

/// the directed shape of the property text: fill up to 4 x cap with inline
/// traffic interleaved, release in the given order with the given exits, probe
/// the freed slots with a fresh batch (+1 refused), release it, final inline call
fn directed(rng: &mut Rng, cap: Option<u64>, mw: u64, notifies: &[bool], order: &[usize], hows: &[&str]) -> String {
    let n = notifies.len();
    let mut s = Script::new(cap, 0x10);
    for ntf in notifies { s.park(rng, *ntf); }
    if cap.is_some() {
        for k in 0..3 * n { { let n = k % 3 == 1 || rng.chance(1, 4); s.park(rng, n); } if k % 2 == 0 { s.inline(rng, k % 4 == 2); } }
    }
    s.inline(rng, false);
    s.inline(rng, true);
    // release in `order` (indices into the admitted batch); after each exit the
    // freed slot admits exactly one more request when `refill`
    let refill = rng.chance(1, 3);
    let batch: Vec<u64> = s.live.iter().map(|r| r.id).collect();
    for (k, &o) in order.iter().enumerate() {
        let idx = s.live.iter().position(|r| r.id == batch[o]).unwrap();
        s.exit(idx, hows[k]);
        if refill && cap.is_some() { let n = rng.chance(1, 3); s.park(rng, n); s.park(rng, false); s.inline(rng, false); }
    }
    while !s.live.is_empty() { let i = rng.below(s.live.len() as u64) as usize; let h = some_how(rng); s.exit(i, h); }
    // the slots are free again: a whole new batch is admitted, one more is refused
    for k in 0..n { s.park(rng, k % 2 == 1); }
    if cap.is_some() { s.park(rng, false); s.park(rng, true); }
    s.inline(rng, false);
    while !s.live.is_empty() { s.exit(0, "r"); }
    s.inline(rng, false);
    s.line(mw)
}

fn random_walk(rng: &mut Rng, cap: Option<u64>, mw: u64, len: usize) -> String {
    let mut s = Script::new(cap, 0x100);
    let soft = cap.unwrap_or(6) as usize;
    for _ in 0..len {
        match rng.below(10) {
            0..=3 => { if s.live.len() < 4 * soft.max(1) && (cap.is_some() || s.live.len() < 24) { let n = rng.chance(1, 3); s.park(rng, n); } }
            4 | 5 => { let n = rng.chance(1, 4); s.inline(rng, n); }
            _ => if !s.live.is_empty() { let i = rng.below(s.live.len() as u64) as usize; let h = some_how(rng); s.exit(i, h); } else { s.park(rng, false); },
        }
    }
    while !s.live.is_empty() { let i = rng.below(s.live.len() as u64) as usize; let h = some_how(rng); s.exit(i, h); }
    s.inline(rng, false);
    s.line(mw)
}

fn gen_cases(seed: u64, thorough: bool) -> Vec<String> {
    let mut rng = Rng::new(seed);
    let mut out: Vec<String> = Vec::new();
    let three: [&str; 3] = ["r", "e1000", "p"];
    // exhaustive for caps up to 3: every release order x every exit kind x every notify pattern
    for c in 1..=3usize {
        let perms = permutations(c);
        let nh = 3usize.pow(c as u32);
        let mut all = Vec::new();
        for order in &perms { for hk in 0..nh { for nk in 0..(1usize << c) { all.push((order.clone(), hk, nk)); } } }
        for (k, (order, hk, nk)) in all.iter().enumerate() {
            if !thorough && !(k % 17 == (c * 5) % 17 || all.len() <= 6) { continue; }
            let hows: Vec<&str> = (0..c).map(|i| three[(hk / 3usize.pow(i as u32)) % 3]).collect();
            let notifies: Vec<bool> = (0..c).map(|i| nk >> i & 1 == 1).collect();
            let mw = (k % 3) as u64;
            out.push(directed(&mut rng, Some(c as u64), mw, &notifies, order, &hows));
        }
    }
    // larger caps and no cap: random orders
    let caps: Vec<Option<u64>> = if thorough { (4..=16).map(Some).chain([None]).collect() } else { vec![None] };
    let reps = if thorough { 12 } else { 6 };
    for cap in &caps {
        for k in 0..reps {
            let n = cap.unwrap_or(if k % 2 == 0 { 5 } else { 20 }) as usize;
            let mut order: Vec<usize> = (0..n).collect();
            for i in (1..n).rev() { order.swap(i, rng.below(i as u64 + 1) as usize); }
            let hows: Vec<&str> = (0..n).map(|_| some_how(&mut rng)).collect();
            let notifies: Vec<bool> = (0..n).map(|_| rng.chance(1, 3)).collect();
            out.push(directed(&mut rng, *cap, k % 3, &notifies, &order, &hows));
        }
    }
    // random walks over every cap
    let caps: Vec<Option<u64>> = if thorough { (1..=16).map(Some).chain([None]).collect() } else { vec![Some(1), Some(2), Some(3), None] };
    let nwalk = if thorough { 40 } else { 8 };
    for cap in &caps {
        for k in 0..nwalk { let len = rng.range(5, if thorough { 120 } else { 60 }) as usize; out.push(random_walk(&mut rng, *cap, k % 3, len)); }
    }
    // bursts: at the cap, 2..96 requests leave the client in one write while the server's outbound
    // queue holds 1..4 messages: each is refused with its own id, the connection lives on
    let nb = if thorough { 24 } else { 6 };
    for k in 0..nb {
        let c = 1 + (k % 3) as u64;
        let mut s = Script::new(Some(c), 0x400);
        for _ in 0..c { s.park(&mut rng, false); }
        let n = if k % 2 == 0 { rng.range(40, 96) } else { rng.range(2, 12) };
        for _ in 0..n { s.park(&mut rng, false); }
        s.inline(&mut rng, false);
        let i = rng.below(s.live.len() as u64) as usize; let h = some_how(&mut rng); s.exit(i, h);
        s.park(&mut rng, false);
        for _ in 0..rng.range(2, 20) { s.park(&mut rng, false); }
        s.inline(&mut rng, true);
        while !s.live.is_empty() { let h = some_how(&mut rng); s.exit(0, h); }
        s.inline(&mut rng, false);
        out.push(format!("{} oq={} pipe=1", s.line((k % 3) as u64), hx(1 + (k as u64 / 2) % 4)));
    }
    // bursts into a FREE pool: cap + 2..40 blocking requests leave the client in one write; exactly
    // the first `cap` are admitted.  Then all handlers leave at the same instant (half of them by
    // panic) while the outbound queue holds 1..2 messages: every reply still arrives
    let nb2 = if thorough { 24 } else { 6 };
    for k in 0..nb2 {
        let c = 1 + (k % 4) as u64 * 2;      // caps 1, 3, 5, 7
        let mut s = Script::new(Some(c), 0x800);
        let extra = if k % 2 == 0 { rng.range(2, 8) } else { rng.range(10, 40) };
        for _ in 0..(c + extra) { s.park(&mut rng, false); }
        s.inline(&mut rng, false);
        let n = s.live.len();
        for j in 0..n { let h = if j % 2 == 0 { "p" } else { some_how(&mut rng) }; s.exit(0, h); }
        s.inline(&mut rng, false);
        for _ in 0..c { s.park(&mut rng, false); }
        s.park(&mut rng, false);
        while !s.live.is_empty() { s.exit(0, "p"); }
        s.inline(&mut rng, false);
        out.push(format!("{} oq={} pipe=2", s.line((k % 3) as u64), hx(1 + (k as u64) % 2)));
    }
    // a stalled peer at the cap (`stallq=<ms>`): the handler holding the last slot (ctx route) keeps the
    // tiny outbound queue full with 32 KiB pushes, the peer does not read; a request arriving at the cap
    // then waits behind the writer for 150..600 ms - and is refused with its id, nothing is lost and the
    // connection lives on, once the peer reads again
    for k in 0..(if thorough { 8 } else { 3 }) {
        let c = 1 + (k % 2) as u64;
        let mut s = Script::new(Some(c), 0xc00);
        for _ in 0..c { let id = s.fresh(&mut rng); s.arrive(id, false, 'c'); }
        for _ in 0..rng.range(1, 3) { s.park(&mut rng, false); }
        s.inline(&mut rng, false);
        while !s.live.is_empty() { let h = some_how(&mut rng); s.exit(0, h); }
        s.inline(&mut rng, false);
        out.push(format!("{} oq={} stallq={}", s.line(0), hx(1 + (k as u64) % 3), hx([150u64, 300, 600][k % 3])));
    }
    // the same stall, but it is the handler that leaves while the peer does not read, for longer than
    // any drain timeout of the crate (5 s): its reply is still delivered once the peer reads
    for k in 0..(if thorough { 2 } else { 1 }) {
        let mut s = Script::new(Some(1), 0xd00);
        let id = s.fresh(&mut rng); s.arrive(id, false, 'c');
        s.exit(0, if k == 0 { "r" } else { "e1000" });
        s.inline(&mut rng, false);
        s.park(&mut rng, false);
        s.exit(0, "r");
        s.inline(&mut rng, false);
        out.push(format!("{} oq=1 stallq={}", s.line(0), hx(5600)));
    }
    out.into_iter().enumerate().map(|(i, c)| format!("i={i} {c}")).collect()
}

fn main() {
    let cases = if no_gen() { vec![] } else { gen_cases(seed(), is_thorough()) };
    isolated_main(cases, run_case, Duration::from_secs(60));
}
