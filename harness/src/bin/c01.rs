//! C01 correspondence: every emission route of a message, and every parser on
//! the emitted bytes, observed on the real crate.
use repe::{Header, Message, MessageView, RepeError, Router};
use repe::server::HandlerErased;
use repe_verif_harness::*;
use std::collections::HashMap;
use std::sync::{Arc, Mutex, OnceLock};
use std::time::Duration;

fn hx(v: u64) -> String { format!("{v:x}") }
fn ph(s: &str) -> u64 { u64::from_str_radix(s, 16).unwrap() }

fn err_kind(e: &RepeError) -> &'static str {
    match e {
        RepeError::InvalidHeaderLength(_) => "hlen",
        RepeError::InvalidSpec(_) => "spec",
        RepeError::LengthMismatch { .. } => "lenmis",
        RepeError::BufferTooSmall { .. } => "small",
        RepeError::Io(e) if e.kind() == std::io::ErrorKind::UnexpectedEof => "eof",
        RepeError::Io(e) if e.kind() == std::io::ErrorKind::OutOfMemory => "oom",
        _ => "other",
    }
}
fn hdr_s(h: &Header) -> String {
    format!("{:x},{:x},{:x},{:x},{:x},{:x},{:x},{:x},{:x},{:x},{:x}", h.length, h.spec, h.version, h.notify, h.reserved, h.id, h.query_length, h.body_length, h.query_format, h.body_format, h.ec)
}
fn msg_s(m: &Message) -> String { format!("ok:{}:{}:{}", hdr_s(&m.header), hex(&m.query), hex(&m.body)) }

const PATHS: &[&str] = &["/m", "/mirror", "/a/b/c", "/mirror/with/a/rather/long/path/of/exactly/sixty-four/bytes/xxxxxx"];

static TABLE: OnceLock<Mutex<HashMap<u64, Message>>> = OnceLock::new();
fn table() -> &'static Mutex<HashMap<u64, Message>> { TABLE.get_or_init(|| Mutex::new(HashMap::new())) }

/// returns the response prepared for the request id (a custom erased handler may
/// return any Message, including one with its own query)
struct Mirror;
impl HandlerErased for Mirror {
    fn handle(&self, req: &Message) -> Result<Message, RepeError> {
        Ok(table().lock().unwrap().get(&req.header.id).cloned().expect("prepared response"))
    }
}

struct Net { tcp: Mutex<net::RawTcp>, atcp: Mutex<net::RawTcp>, ws: Mutex<net::RawWs> }
static NET: OnceLock<Net> = OnceLock::new();
fn netw() -> &'static Net {
    NET.get_or_init(|| {
        let mut r = Router::new();
        for p in PATHS { r = r.with_erased_handler(p, Arc::new(Mirror)); }
        let s = net::start_servers(r);
        Net { tcp: Mutex::new(net::RawTcp::connect(s.tcp).unwrap()), atcp: Mutex::new(net::RawTcp::connect(s.atcp).unwrap()), ws: Mutex::new(net::RawWs::connect(s.ws).unwrap()) }
    })
}

fn gen_cases(seed: u64, n: usize, max_payload: usize) -> Vec<String> {
    let mut rng = Rng::new(seed);
    let mut out = Vec::new();
    for i in 0..n {
        let mut echo_path = rng.chance(1, 3);
        let q: Vec<u8> = if echo_path { rng.pick(PATHS).as_bytes().to_vec() } else {
            let l = match rng.below(6) { 0 => 0, 1 => rng.below(4), 2 => rng.below(64), 3 => rng.below(300), _ => rng.below(max_payload as u64 + 1) } as usize;
            rng.bytes(l)
        };
        let bl = match rng.below(6) { 0 => 0, 1 => rng.below(4), 2 => rng.below(64), 3 => rng.below(300), _ => rng.below(max_payload as u64 + 1) } as usize;
        // the 64 KiB boundary of the property's range, in both tiers: a query or a body of 2^16 - 1,
        // 2^16, 2^16 + 1 bytes (a length that was narrowed to 16 bits would wrap exactly here)
        let edge = [65535usize, 65536, 65537];
        // (a random query is not a route: the handler then answers through the `/mirror` request)
        if matches!(i, 3 | 4 | 5 | 9) { echo_path = false; }
        let (q, bl) = match i { 3 | 4 | 5 => (rng.bytes(edge[i - 3]), bl.min(64)), 6 | 7 | 8 => (q, edge[i - 6]), 9 => (rng.bytes(65536), 65536), _ => (q, bl) };
        let b = rng.bytes(bl);
        let total = 48 + q.len() + b.len();
        // header: mostly consistent lengths, sometimes off by one / garbage
        let (mut length, mut ql, mut blen) = (total as u64, q.len() as u64, b.len() as u64);
        match rng.below(40) { 0 => length = length.wrapping_add(1), 1 => ql = ql.wrapping_sub(1), 2 => blen += 1, 3 => length = rng.boundary(64), 4 => { ql = rng.boundary(64); } _ => {} }
        let spec = if rng.chance(1, 25) { rng.boundary(16) } else { 0x1507 };
        let cap = match rng.below(6) { 0 => b.len(), 1 => total.saturating_sub(1).max(b.len()), 2 => total, 3 => total + 1, 4 => 2 * total, _ => b.len() + rng.below(total as u64 + 8) as usize };
        let nch = rng.below(4);
        let chunks: Vec<String> = (0..nch).map(|_| hx(rng.below(b.len() as u64 + 2))).collect();
        let rest_len = match rng.below(4) { 0 => 0, 1 => 1, _ => rng.below(80) } as usize;
        let rest = rng.bytes(rest_len);
        out.push(format!(
            "i={i} fw={} len={} spec={} ver={} ntf={} rsv={} id={} ql={} bl={} qf={} bf={} ec={} q={} b={} cap={} chunks={} rest={} echo={}",
            hx(match rng.below(4) { 0 => rng.range(1, 47), 1 => 48, 2 => rng.range(49, 48 + q.len() as u64 + 1), _ => rng.range(1, 300) }), hx(length), hx(spec), hx(rng.boundary(8)), hx(rng.boundary(8)), hx(rng.boundary(32)), hx(rng.boundary(64)), hx(ql), hx(blen),
            hx(rng.boundary(16)), hx(rng.boundary(16)), hx(rng.boundary(32)), hex(&q), hex(&b), hx(cap as u64),
            if chunks.is_empty() { "-".into() } else { chunks.join(",") }, hex(&rest), if echo_path { 1 } else { 0 }));
    }
    out
}

struct CapturedAsync(Vec<u8>);
impl tokio::io::AsyncWrite for CapturedAsync {
    fn poll_write(mut self: std::pin::Pin<&mut Self>, _: &mut std::task::Context<'_>, buf: &[u8]) -> std::task::Poll<std::io::Result<usize>> {
        // accept at most 7 bytes per call so write_all has to loop
        let n = buf.len().min(7);
        self.0.extend_from_slice(&buf[..n]);
        std::task::Poll::Ready(Ok(n))
    }
    fn poll_flush(self: std::pin::Pin<&mut Self>, _: &mut std::task::Context<'_>) -> std::task::Poll<std::io::Result<()>> { std::task::Poll::Ready(Ok(())) }
    fn poll_shutdown(self: std::pin::Pin<&mut Self>, _: &mut std::task::Context<'_>) -> std::task::Poll<std::io::Result<()>> { std::task::Poll::Ready(Ok(())) }
}
/// a sink that accepts only part of what it is offered: the first write takes at most `first`
/// bytes, later ones an irregular 1..=97; vectored writes gather across the slices but stop short
struct ShortSink { got: Vec<u8>, next: usize }
impl ShortSink { fn new(first: usize) -> Self { ShortSink { got: Vec::new(), next: first.max(1) } } fn step(&mut self) { self.next = (self.next * 31 + 7) % 97 + 1; } }
impl std::io::Write for ShortSink {
    fn write(&mut self, buf: &[u8]) -> std::io::Result<usize> {
        let n = buf.len().min(self.next);
        self.got.extend_from_slice(&buf[..n]); self.step(); Ok(n)
    }
    fn write_vectored(&mut self, bufs: &[std::io::IoSlice<'_>]) -> std::io::Result<usize> {
        let mut room = self.next; let mut n = 0;
        for b in bufs { let k = b.len().min(room); self.got.extend_from_slice(&b[..k]); n += k; room -= k; if room == 0 { break; } }
        self.step(); Ok(n)
    }
    fn flush(&mut self) -> std::io::Result<()> { Ok(()) }
}

/// a reader that hands out the stream in small irregular pieces
struct Dribble<'a> { data: &'a [u8], pos: usize, step: usize }
impl std::io::Read for Dribble<'_> {
    fn read(&mut self, buf: &mut [u8]) -> std::io::Result<usize> {
        let n = buf.len().min(self.step).min(self.data.len() - self.pos);
        buf[..n].copy_from_slice(&self.data[self.pos..self.pos + n]);
        self.pos += n;
        self.step = self.step % 13 + 1;
        Ok(n)
    }
}

fn same_or(reference: &[u8], x: &[u8]) -> String { if reference == x { "=".into() } else { hex(x) } }
fn res_msg(reference: &Message, r: Result<Message, RepeError>) -> String {
    match r { Ok(m) => if &m == reference { "=".into() } else { msg_s(&m) }, Err(e) => format!("err:{}", err_kind(&e)) }
}

fn run_case(line: &str) -> String {
    let f = fields(line);
    let g = |k: &str| ph(&f[k]);
    let header = Header { length: g("len"), spec: g("spec") as u16, version: g("ver") as u8, notify: g("ntf") as u8, reserved: g("rsv") as u32, id: g("id"), query_length: g("ql"), body_length: g("bl"), query_format: g("qf") as u16, body_format: g("bf") as u16, ec: g("ec") as u32 };
    let q = unhex(&f["q"]); let b = unhex(&f["b"]); let rest = unhex(&f["rest"]);
    let cap = g("cap") as usize;
    let chunks: Vec<usize> = if f["chunks"] == "-" { vec![] } else { f["chunks"].split(',').map(|s| ph(s) as usize).collect() };
    let echo = f["echo"] == "1";
    let fw = f.get("fw").map(|s| ph(s) as usize).unwrap_or(5);
    let r = guard(move || -> String {
        // the builder route: the same query, body, id, notify flag and format codes through
        // MessageBuilder (an error code only when it is one the ErrorCode enum names); reported as
        // its 48 header bytes, whether the payload is query ++ body, and the error code used
        let bld = {
            let code = repe::ErrorCode::try_from(header.ec).ok();
            let mut bd = Message::builder().id(header.id).notify(header.notify != 0).query_bytes(q.clone()).query_format_code(header.query_format)
                .body_bytes(b.clone()).body_format_code(header.body_format);
            if let Some(k) = code { bd = bd.error_code(k); }
            let v = bd.build().to_vec();
            let payload_ok = v.len() >= 48 && v[48..] == [q.as_slice(), b.as_slice()].concat()[..];
            format!(" bld={}:{}:{}", hex(&v[..v.len().min(48)]), payload_ok as u8, hx(code.map(|_| header.ec as u64).unwrap_or(0)))
        };
        // the error-message constructors: an error text as long as the case's body (their 48 header
        // bytes must be the encoding of the model's build for that text; payload = [query ++] text)
        let bld = {
            let text = "e".repeat(b.len());
            let code = repe::ErrorCode::try_from(header.ec).unwrap_or(repe::ErrorCode::InternalError);
            let v = repe::message::create_error_message(code, &text).to_vec();
            let ok1 = v.len() >= 48 && &v[48..] == text.as_bytes();
            let req = Message::builder().id(header.id).query_bytes(q.clone()).build();
            let w = repe::message::create_error_response_like(&req, code, &text).to_vec();
            let ok2 = w.len() >= 48 && w[48..] == [q.as_slice(), text.as_bytes()].concat()[..];
            format!("{bld} cem={}:{}:{}:{}:{}", hex(&v[..v.len().min(48)]), ok1 as u8, hex(&w[..w.len().min(48)]), ok2 as u8, hx(code as u32 as u64))
        };
        let m = match Message::new(header, q.clone(), b.clone()) { Ok(m) => m, Err(e) => return format!("new=err:{}{bld}", err_kind(&e)) };
        let mut o = String::new();
        o.push_str(&format!("new={}", msg_s(&m)));
        o.push_str(&bld);
        let tv = m.to_vec();
        o.push_str(&format!(" r0={}", hex(&tv)));
        // write_to
        // write_to / write_message / streaming go to a sink that takes short, irregular writes
        let mut w = ShortSink::new(fw); m.write_to(&mut w).unwrap();
        o.push_str(&format!(" r1={}", same_or(&tv, &w.got)));
        // into_wire_bytes with a body Vec of the requested capacity
        let mut body = Vec::with_capacity(cap.max(b.len())); body.extend_from_slice(&b);
        let exact_cap = body.capacity();
        let m2 = Message { header: m.header, query: q.clone(), body };
        o.push_str(&format!(" r2={}", same_or(&tv, &m2.into_wire_bytes())));
        o.push_str(&format!(" capreal={}", hx(exact_cap as u64)));
        let mut w = ShortSink::new(fw); repe::write_message(&mut w, &m).unwrap();
        o.push_str(&format!(" r3={}", same_or(&tv, &w.got)));
        let mut w = CapturedAsync(Vec::new());
        net::runtime().block_on(repe::async_io::write_message_async(&mut w, &m)).unwrap();
        o.push_str(&format!(" r4={}", same_or(&tv, &w.0)));
        // streaming: header lengths deliberately wrong, body written in pieces
        let mut h2 = m.header; h2.length = 7; h2.query_length = 9; h2.body_length = 11;
        let mut w = ShortSink::new(fw + 3);
        repe::write_message_streaming(&mut w, h2, &q, b.len() as u64, |w: &mut ShortSink| -> Result<(), std::io::Error> {
            use std::io::Write;
            let mut rem: &[u8] = &b;
            for &c in &chunks { if rem.is_empty() { break; } if c == 0 { break; } let k = c.min(rem.len()); w.write_all(&rem[..k])?; rem = &rem[k..]; }
            if !rem.is_empty() { w.write_all(rem)?; }
            Ok(())
        }).unwrap();
        o.push_str(&format!(" r5={}", same_or(&tv, &w.got)));
        // the three servers: the handler returns a prepared response
        {
            let n = netw();
            let (resp, req_q): (Message, Vec<u8>) = if echo {
                let mut h = m.header; h.query_length = 0; h.length = 48 + b.len() as u64;
                (Message { header: h, query: vec![], body: b.clone() }, q.clone())
            } else { (m.clone(), b"/mirror".to_vec()) };
            let rid = m.header.id;
            table().lock().unwrap().insert(rid, resp);
            let req = Message::builder().id(rid).query_bytes(req_q).query_format(repe::QueryFormat::JsonPointer).build().to_vec();
            let t = n.tcp.lock().unwrap().exchange(&req).map(|x| same_or(&tv, &x)).unwrap_or_else(|e| format!("ioerr:{}", e.kind()));
            o.push_str(&format!(" r6={t}"));
            let t = n.atcp.lock().unwrap().exchange(&req).map(|x| same_or(&tv, &x)).unwrap_or_else(|e| format!("ioerr:{}", e.kind()));
            o.push_str(&format!(" r7={t}"));
            let t = n.ws.lock().unwrap().exchange(&req).map(|x| same_or(&tv, &x)).unwrap_or_else(|e| format!("ioerr:{}", e.replace(' ', "_")));
            o.push_str(&format!(" r8={t}"));
            table().lock().unwrap().remove(&rid);
        }
        // parsers
        o.push_str(&format!(" dec={}", match Header::decode(&tv) { Ok(h) => if h == m.header { "=".to_string() } else { format!("ok:{}", hdr_s(&h)) }, Err(e) => format!("err:{}", err_kind(&e)) }));
        let mut more = tv.clone(); more.extend_from_slice(&rest);
        o.push_str(&format!(" pm0={}", res_msg(&m, Message::from_slice(&more))));
        o.push_str(&format!(" pm1={}", res_msg(&m, MessageView::from_slice(&more).map(|v| v.to_message()))));
        o.push_str(&format!(" pe0={}", res_msg(&m, Message::from_slice_exact(&tv))));
        o.push_str(&format!(" pe1={}", res_msg(&m, MessageView::from_slice_exact(&tv).map(|v| v.to_message()))));
        o.push_str(&format!(" pt0={}", res_msg(&m, Message::from_slice_exact(&more))));
        o.push_str(&format!(" pt1={}", res_msg(&m, MessageView::from_slice_exact(&more).map(|v| v.to_message()))));
        // readers (blocking with a dribbling source; async on a slice)
        let rd = |res: Result<Message, RepeError>, left: &[u8]| -> String { match res { Ok(x) => format!("{}/{}", if x == m { "=".to_string() } else { msg_s(&x) }, same_or(&rest, left)), Err(e) => format!("err:{}", err_kind(&e)) } };
        let mut src = Dribble { data: &more, pos: 0, step: 3 };
        let r1 = repe::read_message(&mut src); let left = &more[src.pos..];
        let a = rd(r1, left);
        let mut cur: &[u8] = &more;
        let r2 = net::runtime().block_on(repe::async_io::read_message_async(&mut cur));
        let a2 = rd(r2, cur);
        o.push_str(&format!(" rd={}", if a == a2 { a } else { format!("DIFFER[{a}|{a2}]") }));
        let ri = |res: Result<(), RepeError>, buf: &[u8], left: &[u8]| -> String { match res { Ok(()) => format!("{}/{}", same_or(&tv, buf), same_or(&rest, left)), Err(e) => format!("err:{}", err_kind(&e)) } };
        let mut src = Dribble { data: &more, pos: 0, step: 5 };
        let mut buf = vec![1u8, 2, 3];
        let r1 = repe::read_message_into(&mut src, &mut buf); let a = ri(r1, &buf, &more[src.pos..]);
        let mut cur: &[u8] = &more; let mut buf2 = vec![9u8; 100];
        let r2 = net::runtime().block_on(repe::async_io::read_message_into_async(&mut cur, &mut buf2));
        let a2 = ri(r2, &buf2, cur);
        o.push_str(&format!(" ri={}", if a == a2 { a } else { format!("DIFFER[{a}|{a2}]") }));
        o
    });
    r.unwrap_or_else(|_| "crash=panic".into())
}

fn main() {
    let (n, maxp) = if is_thorough() { (20000, 65536) } else { (1500, 4096) };
    let cases = if no_gen() { vec![] } else { gen_cases(seed(), n, maxp) };
    isolated_main(cases, run_case, Duration::from_secs(30));
}
