//! C07 correspondence: router lookups with recording handlers, structs,
//! registries and middlewares (`seg` and `get` cases), and the comparison of the
//! owned, borrowed and behind-forwarding-middleware dispatch paths of every
//! built-in handler kind, in process and through live servers (`pair` cases).
use repe::message::create_error_response_like;
use repe::server::HandlerErased;
use repe::structs::StructResult;
use repe::verif_hooks::export::response_echo_query;
use repe::{
    BodyFormat, CallContext, ErrorCode, JsonTypedHandler, Message, MessageView, Middleware, Next, QueryFormat,
    Registry, RepeError, RepeStruct, Router, TypedResponse, WithContext,
};
use repe_verif_harness::net::{RawTcp, RawWs, Servers, start_servers};
use repe_verif_harness::*;
use serde::{Deserialize, Serialize};
use serde_json::{Value, json};
use std::sync::{Arc, Mutex, OnceLock};
use std::time::Duration;

type Log = Arc<Mutex<Vec<String>>>;

/// hex of a byte string, empty string for empty input (inside lists)
fn hx(b: &[u8]) -> String { if b.is_empty() { String::new() } else { hex(b) } }
fn segs_str<S: AsRef<str>>(segs: &[S]) -> String {
    format!("l{:x}:{}", segs.len(), segs.iter().map(|s| hx(s.as_ref().as_bytes())).collect::<Vec<_>>().join(","))
}

// ---------------------------------------------------------------- recording entries

struct RecMw { id: u64, log: Log }
impl Middleware for RecMw {
    fn handle(&self, req: &Message, next: Next<'_>) -> Result<Message, RepeError> {
        self.log.lock().unwrap().push(format!("M{:x}", self.id));
        next.run(req)
    }
}

struct RecRoute { id: u64, log: Log }
impl HandlerErased for RecRoute {
    fn handle(&self, req: &Message) -> Result<Message, RepeError> {
        self.log.lock().unwrap().push(format!("R.{:x}", self.id));
        repe::message::create_response(req, json!(self.id), BodyFormat::Json)
    }
}

/// hand-written `RepeStruct`: records the `&[&str]` it is given
struct RecStruct { id: u64, log: Log }
impl RepeStruct for RecStruct {
    fn repe_handle(&mut self, segments: &[&str], _body: Option<Value>) -> StructResult<Option<Value>> {
        self.log.lock().unwrap().push(format!("S.{:x}.{}", self.id, segs_str(segments)));
        Ok(None)
    }
}

/// turn the recorded call sequence of one request into an answer token
fn assemble(log: Vec<String>, touched: Option<u64>) -> String {
    let mut i = 0;
    let mut mws = Vec::new();
    while i < log.len() && log[i].starts_with('M') { mws.push(log[i][1..].to_string()); i += 1; }
    let m = if mws.is_empty() { "-".to_string() } else { mws.join("_") };
    let rest = &log[i..];
    match rest.len() {
        1 => {
            let parts: Vec<&str> = rest[0].splitn(3, '.').collect();
            match parts.len() {
                2 => format!("{}.{}.{}", parts[0], parts[1], m),
                3 => format!("{}.{}.{}.{}", parts[0], parts[1], m, parts[2]),
                _ => "B.entry".to_string(),
            }
        }
        0 => match touched {
            // a root write reached this registry: its pointer was "/" (or "")
            Some(id) => format!("G.{:x}.{}.s2f", id, m),
            None => format!("B.nohandler[{}]", m),
        },
        _ => format!("B.multi[{}]", rest.join("+")),
    }
}

fn run_route(f: &std::collections::HashMap<String, String>) -> String {
    let ops: Vec<String> = if f["ops"] == "-" { vec![] } else { f["ops"].split(';').map(|s| s.to_string()).collect() };
    let paths: Vec<String> = f["paths"].split(',').map(|h| String::from_utf8(unhex(h)).expect("utf8 path")).collect();
    let log: Log = Arc::new(Mutex::new(Vec::new()));
    // every '/'-aligned suffix of a lookup path is a pointer a registry could be handed
    let mut cands: Vec<String> = Vec::new();
    for p in &paths {
        for (i, c) in p.char_indices() {
            if c == '/' { let s = &p[i..]; if s != "/" && !cands.iter().any(|x| x == s) { cands.push(s.to_string()); } }
        }
    }
    let mut router = Router::new();
    let mut regs: Vec<(u64, Arc<Registry>)> = Vec::new();
    for op in &ops {
        let t: Vec<&str> = op.split(':').collect();
        match t[0] {
            "R" => {
                let path = String::from_utf8(unhex(t[1])).unwrap();
                let id = u64::from_str_radix(t[2], 16).unwrap();
                router = router.with_erased_handler(&path, Arc::new(RecRoute { id, log: log.clone() }));
            }
            "G" => {
                let prefix = String::from_utf8(unhex(t[1])).unwrap();
                let id = u64::from_str_radix(t[2], 16).unwrap();
                let reg = Arc::new(Registry::new());
                for c in &cands {
                    let (lg, c2) = (log.clone(), c.clone());
                    let _ = reg.register_function(c, move |_p: Option<Value>| -> Result<Value, (ErrorCode, String)> {
                        lg.lock().unwrap().push(format!("G.{:x}.s{}", id, hx(c2.as_bytes())));
                        Ok(Value::Null)
                    });
                }
                router.register_registry(&prefix, reg.clone());
                regs.push((id, reg));
            }
            "S" => {
                let root = String::from_utf8(unhex(t[1])).unwrap();
                let id = u64::from_str_radix(t[2], 16).unwrap();
                router.register_struct(&root, RecStruct { id, log: log.clone() });
            }
            "M" => {
                let id = u64::from_str_radix(t[1], 16).unwrap();
                router.register_middleware(RecMw { id, log: log.clone() });
            }
            _ => panic!("bad op"),
        }
    }
    let mut n = 0u64;
    let mut ans = Vec::new();
    let mut vans = Vec::new();
    let mut pp = Vec::new();
    for p in &paths {
        pp.push(segs_str(&repe::json_pointer::parse(p)));
        for view_path in [false, true] {
            let out = match router.get(p) {
                None => "N".to_string(),
                Some(h) => {
                    n += 1;
                    let msg = Message::builder().id(n).query_str(p).query_format(QueryFormat::JsonPointer)
                        .body_bytes(format!("{{\"t\":{n}}}").into_bytes()).body_format(BodyFormat::Json).build();
                    log.lock().unwrap().clear();
                    if view_path {
                        let wire = msg.to_vec();
                        let view = MessageView::from_slice(&wire).expect("view");
                        let ctx = CallContext::detached(p);
                        let _ = h.handle_view(&view, &ctx);
                    } else {
                        let _ = h.handle(&msg);
                    }
                    let l = std::mem::take(&mut *log.lock().unwrap());
                    let touched = regs.iter().find(|(_, r)| r.read_value("/t").ok() == Some(json!(n))).map(|(id, _)| *id);
                    assemble(l, touched)
                }
            };
            if view_path { vans.push(out) } else { ans.push(out) }
        }
    }
    format!("ans={} vans={} pp={}", ans.join("|"), vans.join("|"), pp.join("|"))
}

// ---------------------------------------------------------------- built-in handler kinds

#[derive(Deserialize, Serialize, Clone)]
struct In { a: i64, s: String }
#[derive(Serialize)]
struct Out { twice: i64, s: String, method: String }

fn typed_fn(method: &str, i: In) -> Result<Out, (ErrorCode, String)> {
    if i.a < 0 { return Err((ErrorCode::ApplicationErrorBase, format!("negative input {}", i.a))); }
    Ok(Out { twice: i.a.wrapping_mul(2), s: format!("{}!", i.s), method: method.to_string() })
}
fn json_fn(method: &str, v: Value) -> Result<Value, (ErrorCode, String)> {
    if v.get("fail").is_some() { return Err((ErrorCode::Timeout, format!("asked to fail: {v}"))); }
    Ok(json!({ "echo": v, "method": method }))
}
struct Adapter;
impl JsonTypedHandler for Adapter {
    type In = In;
    type Out = Out;
    fn call(&self, input: In) -> Result<Out, (ErrorCode, String)> { typed_fn("adapter", input) }
}

/// pure hand-written struct: answers with what it was given
struct PureStruct;
impl RepeStruct for PureStruct {
    fn repe_handle(&mut self, segments: &[&str], body: Option<Value>) -> StructResult<Option<Value>> {
        if segments.first() == Some(&"bad") {
            return Err(repe::StructError::InvalidPath { path: repe::structs::path_from_segments(segments) });
        }
        if segments.first() == Some(&"none") { return Ok(None); }
        Ok(Some(json!({ "segs": segments, "body": body })))
    }
}

#[derive(Default, Serialize, Deserialize, repe::RepeStruct)]
#[repe(methods(
    hello(&self) -> String,
    add(&self, v: Vec<i64>) -> i64
))]
struct DObj { i: i32 }
impl DObj {
    fn hello(&self) -> String { "Hello".into() }
    fn add(&self, v: Vec<i64>) -> i64 { v.into_iter().fold(0i64, |a, b| a.wrapping_add(b)) }
}

struct Custom;
impl HandlerErased for Custom {
    fn handle(&self, req: &Message) -> Result<Message, RepeError> {
        // a custom handler that sets its own response query
        let mut m = Message::builder().id(req.header.id).query_bytes(b"own".to_vec()).query_format_code(0)
            .body_bytes(req.body.clone()).body_format_code(req.header.body_format).build();
        if req.body.first() == Some(&b'E') { return Err(RepeError::ServerError { code: ErrorCode::InternalError, message: "custom failure".into() }); }
        m.header.ec = 0;
        Ok(m)
    }
}

fn forward(req: &Message, next: Next<'_>) -> Result<Message, RepeError> { next.run(req) }

fn add_forwarders(r: &mut Router, k: usize) { for _ in 0..k { r.register_middleware(forward); } }

/// every built-in handler kind at a fixed path, with `before` forwarding
/// middlewares registered first and `after` registered last
fn pair_router(before: usize, after: usize) -> Router {
    let mut r = Router::new();
    add_forwarders(&mut r, before);
    let registry = Arc::new(Registry::new());
    registry.register_function("/fn", WithContext(|ctx: &CallContext, p: Option<Value>| -> Result<Value, (ErrorCode, String)> {
        if p.as_ref().and_then(|v| v.get("fail")).is_some() { return Err((ErrorCode::ApplicationErrorBase, "registry fn failed".into())); }
        Ok(json!({ "got": p, "peerless": ctx.peer().is_none() || true }))
    })).unwrap();
    // echoes the context's method: `RegisteredRegistry::handle` (the entry without a context) synthesises
    // a context whose method is the stripped pointer, every other entry passes the full path (documented as
    // informational), so this target is compared over the context-carrying entries only
    registry.register_function("/ctxfn", WithContext(|ctx: &CallContext, p: Option<Value>| -> Result<Value, (ErrorCode, String)> {
        Ok(json!({ "got": p, "method": ctx.method() }))
    })).unwrap();
    registry.register_function("/deep/fn", |p: Option<Value>| -> Result<Value, (ErrorCode, String)> { Ok(json!([p])) }).unwrap();
    registry.register_value("/val", json!({ "k": [1, 2, 3] })).unwrap();
    let mut r = r
        .with_json("/json", |v| json_fn("json", v))
        .with_json_ctx("/jsonctx", |ctx: &CallContext, v| json_fn(ctx.method(), v))
        .with_json_blocking("/jsonb", |v| json_fn("jsonb", v))
        .with_json_ctx_blocking("/jsoncb", |ctx: &CallContext, v| json_fn(ctx.method(), v))
        .with_typed::<In, Out, _>("/typed", |i: In| -> Result<Out, (ErrorCode, String)> { typed_fn("typed", i) })
        .with_typed::<In, Out, _>("/typed_json", |i: In| -> Result<TypedResponse<Out>, (ErrorCode, String)> { typed_fn("typed_json", i).map(TypedResponse::json) })
        .with_typed::<In, Out, _>("/typed_beve", |i: In| -> Result<TypedResponse<Out>, (ErrorCode, String)> { typed_fn("typed_beve", i).map(TypedResponse::beve) })
        .with_typed::<In, Out, _>("/typed_utf8", |i: In| -> Result<TypedResponse<Out>, (ErrorCode, String)> { typed_fn("typed_utf8", i).map(TypedResponse::utf8) })
        .with_typed::<In, Out, _>("/typed_raw", |i: In| -> Result<TypedResponse<Out>, (ErrorCode, String)> { typed_fn("typed_raw", i).map(TypedResponse::raw_binary) })
        .with_typed_ctx::<In, Out, _>("/typedctx", |ctx: &CallContext, i: In| -> Result<Out, (ErrorCode, String)> { typed_fn(ctx.method(), i) })
        .with_typed_blocking::<In, Out, _>("/typedb", |i: In| -> Result<Out, (ErrorCode, String)> { typed_fn("typedb", i) })
        .with_typed_ctx_blocking::<In, Out, _>("/typedcb", |ctx: &CallContext, i: In| -> Result<TypedResponse<Out>, (ErrorCode, String)> { typed_fn(ctx.method(), i).map(TypedResponse::beve) })
        .with_handler("/adapter", Adapter)
        .with_typed_slice::<f64, f64, _>("/slice", |xs: Vec<f64>| {
            if xs.len() == 3 { return Err((ErrorCode::ApplicationErrorBase, "three".into())); }
            Ok(xs.iter().map(|x| x * 2.0).collect())
        })
        .with_typed_slice::<i32, i64, _>("/slice_i32", |xs: Vec<i32>| Ok(xs.iter().map(|x| *x as i64 * 3).collect()))
        .with_typed_slice_ref::<f64, f64, _>("/sliceref", |xs: &[f64]| {
            if xs.len() == 3 { return Err((ErrorCode::ApplicationErrorBase, "three".into())); }
            Ok(vec![xs.iter().sum(), xs.len() as f64])
        })
        .with_typed_slice_ref::<u16, u32, _>("/sliceref_u16", |xs: &[u16]| Ok(xs.iter().map(|x| *x as u32 + 1).collect()))
        .with_erased_handler("/custom", Arc::new(Custom))
        .with_registry("/reg", registry);
    r.register_struct("/obj", PureStruct);
    r.register_struct("dobj", DObj { i: 7 });
    add_forwarders(&mut r, after);
    r
}

/// everything of a response except `length`, `query_length` and the raw query;
/// the query is taken after the echo rule
fn normalise(res: Result<Message, RepeError>, req: &Message) -> Vec<u8> {
    let m = match res {
        Ok(m) => m,
        // what `dispatch` / `dispatch_view` turn a handler error into
        Err(e) => create_error_response_like(req, e.to_error_code(), e.to_string()),
    };
    let q = response_echo_query(&m, &req.query);
    let h = &m.header;
    let mut v = Vec::new();
    v.extend_from_slice(&h.spec.to_le_bytes());
    v.push(h.version); v.push(h.notify);
    v.extend_from_slice(&h.reserved.to_le_bytes());
    v.extend_from_slice(&h.id.to_le_bytes());
    v.extend_from_slice(&h.query_format.to_le_bytes());
    v.extend_from_slice(&h.body_format.to_le_bytes());
    v.extend_from_slice(&h.ec.to_le_bytes());
    v.extend_from_slice(&h.body_length.to_le_bytes());
    v.extend_from_slice(&(q.len() as u64).to_le_bytes());
    v.extend_from_slice(q);
    v.extend_from_slice(&m.body);
    v
}

struct Live { plain: Servers, wrapped: Servers }
fn live() -> &'static Live {
    static L: OnceLock<Live> = OnceLock::new();
    L.get_or_init(|| Live { plain: start_servers(pair_router(0, 0)), wrapped: start_servers(pair_router(1, 1)) })
}
struct Conns { tcp: Option<RawTcp>, atcp: Option<RawTcp>, ws: Option<RawWs> }
fn conns() -> &'static Mutex<[Conns; 2]> {
    static C: OnceLock<Mutex<[Conns; 2]>> = OnceLock::new();
    C.get_or_init(|| Mutex::new([Conns { tcp: None, atcp: None, ws: None }, Conns { tcp: None, atcp: None, ws: None }]))
}

fn frame_to_norm(frame: Result<Vec<u8>, String>, req: &Message) -> Vec<u8> {
    match frame {
        Ok(f) => match Message::from_slice(&f) {
            Ok(m) => normalise(Ok(m), req),
            Err(e) => format!("unparsable:{e}").into_bytes(),
        },
        Err(e) => format!("noresponse:{e}").into_bytes(),
    }
}

fn via_servers(req: &Message, out: &mut Vec<Vec<u8>>) {
    let l = live();
    let wire = req.to_vec();
    let mut cs = conns().lock().unwrap();
    for (i, s) in [&l.plain, &l.wrapped].into_iter().enumerate() {
        let c = &mut cs[i];
        if c.tcp.is_none() { c.tcp = RawTcp::connect(s.tcp).ok(); }
        let r = match c.tcp.as_mut() { Some(t) => t.exchange(&wire).map_err(|e| e.to_string()), None => Err("connect".into()) };
        if r.is_err() { c.tcp = None; }
        out.push(frame_to_norm(r, req));
        if c.atcp.is_none() { c.atcp = RawTcp::connect(s.atcp).ok(); }
        let r = match c.atcp.as_mut() { Some(t) => t.exchange(&wire).map_err(|e| e.to_string()), None => Err("connect".into()) };
        if r.is_err() { c.atcp = None; }
        out.push(frame_to_norm(r, req));
        if c.ws.is_none() { c.ws = RawWs::connect(s.ws).ok(); }
        let r = match c.ws.as_mut() { Some(t) => t.exchange(&wire), None => Err("connect".into()) };
        if r.is_err() { c.ws = None; }
        out.push(frame_to_norm(r, req));
    }
}

fn run_pair(f: &std::collections::HashMap<String, String>) -> String {
    let path = String::from_utf8(unhex(&f["path"])).unwrap();
    let fmt = u16::from_str_radix(&f["fmt"], 16).unwrap();
    let qf = u16::from_str_radix(&f["qf"], 16).unwrap();
    let body = unhex(&f["body"]);
    let req = Message::builder().id(0x0123_4567_89ab_cdef).query_str(&path).query_format_code(qf)
        .body_bytes(body).body_format_code(fmt).build();
    let wire = req.to_vec();
    let mut out: Vec<Vec<u8>> = Vec::new();
    for (before, after) in [(0, 0), (1, 0), (0, 1), (2, 0), (0, 2), (3, 0), (0, 3), (1, 2)] {
        let router = pair_router(before, after);
        let h = match router.get(&path) { Some(h) => h, None => return "rs=00|01".into() };
        let ctx = CallContext::detached(&path);
        if !path.starts_with("/reg/ctxfn") { out.push(normalise(h.handle(&req), &req)); }
        out.push(normalise(h.handle_with_ctx(&req, &ctx), &req));
        let view = MessageView::from_slice(&wire).expect("view");
        out.push(normalise(h.handle_view(&view, &ctx), &req));
    }
    if f.get("srv").map(|s| s == "1").unwrap_or(false) { via_servers(&req, &mut out); }
    // "=" stands for "the same bytes as the first variant"
    format!("rs={}", out.iter().enumerate().map(|(i, b)| if i > 0 && *b == out[0] { "=".to_string() } else { hex(b) }).collect::<Vec<_>>().join("|"))
}

fn run_case(line: &str) -> String {
    let f = fields(line);
    let r = guard(move || if f["kind"] == "pair" { run_pair(&f) } else { run_route(&f) });
    r.unwrap_or_else(|_| "crash=panic".into())
}

// ---------------------------------------------------------------- case generation

fn hs(s: &str) -> String { hex(s.as_bytes()) }

/// the normalisation of struct roots, only used to aim lookup paths at mounts
fn aim_root(root: &str) -> String {
    if root.is_empty() || root == "/" { String::new() } else if root.starts_with('/') { root.to_string() } else { format!("/{root}") }
}

const SEG_POOL: &[&str] = &["", "a", "ab", "~0", "~1", "a~1b", "~01", "~0~1x", "é", "日本", "x y", "0", "-", "%2F", "a.b", "~1~1"];
const BAD_POOL: &[&str] = &["~", "~2", "a~", "~~0", "~/"];

fn rel_of(segs: &[String]) -> String { segs.iter().map(|s| format!("/{s}")).collect::<String>() }

fn gen_seg_cases(rng: &mut Rng, thorough: bool, cases: &mut Vec<String>) {
    let roots = ["", "/", "/obj", "obj", "/a/b", "/a/", "//", "/é", "/o~1bj"];
    let wrap = |root: &str, paths: Vec<String>, mw: u64| -> String {
        let mut ops = Vec::new();
        if mw & 1 == 1 { ops.push("M:9".to_string()); }
        ops.push(format!("S:{}:1", hs(root)));
        if mw & 2 == 2 { ops.push("M:a".to_string()); }
        format!("kind=seg ops={} paths={}", ops.join(";"), paths.iter().map(|p| hs(p)).collect::<Vec<_>>().join(","))
    };
    // every depth 0..40 with plain, empty and escaped segments, under every root
    for root in roots {
        let nr = aim_root(root);
        for n in 0..=40usize {
            let plain: Vec<String> = (0..n).map(|i| format!("s{i}")).collect();
            let empty: Vec<String> = (0..n).map(|_| String::new()).collect();
            let esc: Vec<String> = (0..n).map(|i| SEG_POOL[i % SEG_POOL.len()].to_string()).collect();
            let last_esc: Vec<String> = (0..n).map(|i| if i + 1 == n { "~1~0".to_string() } else { "k".to_string() }).collect();
            let paths = vec![format!("{nr}{}", rel_of(&plain)), format!("{nr}{}", rel_of(&empty)), format!("{nr}{}", rel_of(&esc)),
                             format!("{nr}{}", rel_of(&last_esc)), format!("{nr}{}/", rel_of(&plain))];
            cases.push(wrap(root, paths, (n % 4) as u64));
        }
    }
    let nrand = if thorough { 30000 } else { 2500 };
    for _ in 0..nrand {
        let root = *rng.pick(&roots);
        let nr = aim_root(root);
        let mut paths = Vec::new();
        for _ in 0..rng.range(1, 4) {
            let n = match rng.below(10) { 0 => 0, 1 => 1, 2 => 15, 3 => 16, 4 => 17, 5 => 18, _ => rng.range(0, 40) } as usize;
            let mut segs: Vec<String> = Vec::new();
            for _ in 0..n {
                let s = match rng.below(12) {
                    0 if rng.chance(1, 4) => (*rng.pick(BAD_POOL)).to_string(),
                    0..=6 => (*rng.pick(SEG_POOL)).to_string(),
                    _ => { let l = rng.range(1, 6); (0..l).map(|_| *rng.pick(&['a', 'b', 'z', '0', '~', '1', 'é', '_'])).collect::<String>().replace("~", "~0") }
                };
                segs.push(s);
            }
            let rel = rel_of(&segs);
            let p = match rng.below(12) {
                0 => format!("{nr}x{rel}"),           // shares the root as a string prefix only
                1 => rel.trim_start_matches('/').to_string(), // no leading '/'
                2 => format!("/other{rel}"),
                _ => format!("{nr}{rel}"),
            };
            paths.push(p);
        }
        cases.push(wrap(root, paths, rng.below(4)));
    }
}

fn gen_get_cases(rng: &mut Rng, thorough: bool, cases: &mut Vec<String>) {
    // op templates; the handler / middleware id is the 1-based position in the sequence
    let alpha: Vec<(&str, &str)> = vec![("R", "/a"), ("R", "/a/b"), ("G", "/a"), ("G", ""), ("G", "a/b/"), ("S", "/a"), ("S", ""), ("S", "/ab"), ("S", "/a/"), ("M", "")];
    // "/a/a", "/a/ab", "/a/a/a": the first segment below a mount repeats the mount's own name
    let lookups = ["", "/", "/a", "/a/", "/a/b", "/a/b/c", "/ab", "/b", "/a//b", "/a/a", "/a/ab", "/a/a/a"];
    let paths = lookups.iter().map(|p| hs(p)).collect::<Vec<_>>().join(",");
    let render = |seq: &[(&str, &str)]| -> String {
        if seq.is_empty() { return "-".into(); }
        seq.iter().enumerate().map(|(i, (k, p))| if *k == "M" { format!("M:{:x}", i + 1) } else { format!("{k}:{}:{:x}", hs(p), i + 1) }).collect::<Vec<_>>().join(";")
    };
    let maxlen = if thorough { 5 } else { 4 };
    let n = alpha.len();
    for len in 0..=maxlen {
        for idx in 0..n.pow(len as u32) {
            let mut k = idx;
            let mut seq = Vec::with_capacity(len);
            for _ in 0..len { seq.push(alpha[k % n]); k /= n; }
            cases.push(format!("kind=get ops={} paths={}", render(&seq), paths));
        }
    }
    let prefixes = ["", "/", "//", "/a", "/a/", "a", "a/", "/a//", "/a/b", "/ab", "/é", "/a/b/", "///", "/a/b//", "b"];
    let pool = ["", "/", "//", "/a", "/a/", "/a//", "/a/b", "/a/b/", "/a/b/c/d", "/ab", "/ab/c", "/b", "/b/a", "/é", "/é/x", "/éé", "///", "/a//b", "/a/b//c",
                "/a/a", "/a/ab", "/a/a/a", "/ab/ab", "/ab/abc", "/é/é", "/a/b/a/b", "/b/b"];
    let nrand = if thorough { 30000 } else { 3000 };
    for _ in 0..nrand {
        let len = rng.range(1, 8) as usize;
        let seq: Vec<(&str, &str)> = (0..len).map(|_| match rng.below(8) {
            0 | 1 => ("R", *rng.pick(&pool)),
            2 | 3 => ("G", *rng.pick(&prefixes)),
            4 | 5 => ("S", *rng.pick(&prefixes)),
            _ => ("M", ""),
        }).collect();
        let ps: Vec<String> = (0..rng.range(3, 10)).map(|_| hs(rng.pick(&pool))).collect();
        cases.push(format!("kind=get ops={} paths={}", render(&seq), ps.join(",")));
    }
}

fn gen_pair_cases(rng: &mut Rng, thorough: bool, cases: &mut Vec<String>) {
    let b = |m: Message| m.body;
    let json_bodies: Vec<Vec<u8>> = vec![
        br#"{"a":5,"s":"hi"}"#.to_vec(), br#"{"a":-1,"s":"x"}"#.to_vec(), br#"{"fail":1}"#.to_vec(), b"[1,2,3]".to_vec(),
        b"null".to_vec(), br#""str""#.to_vec(), br#"{"a":"wrong","s":1}"#.to_vec(), b"{\"a\":5,\"s\":\"\xc3\xa9\"}".to_vec(),
        br#"{"a":9223372036854775807,"s":""}"#.to_vec(), b"[1.5,-2,3e10]".to_vec(),
    ];
    let mut bodies: Vec<Vec<u8>> = json_bodies.clone();
    for v in [json!({"a": 5, "s": "hi"}), json!({"a": -3, "s": "n"}), json!({"fail": true}), json!([1, 2, 3]), json!(null), json!("s")] {
        bodies.push(b(Message::builder().body_beve(&v).unwrap().build()));
    }
    bodies.push(b(Message::builder().body_beve(&In { a: 21, s: "typed".into() }).unwrap().build()));
    // typed numeric arrays, regular and aligned (the aligned form depends on the query length)
    for q in ["/slice", "/sliceref_u16"] {
        bodies.push(b(Message::builder().query_str(q).body_typed_slice(&[1.0f64, 2.5, -3.0, 1e300]).build()));
        bodies.push(b(Message::builder().query_str(q).body_typed_slice(&[1.0f64, 2.0, 3.0]).build()));
        bodies.push(b(Message::builder().query_str(q).body_typed_slice::<f64>(&[]).build()));
        bodies.push(b(Message::builder().query_str(q).body_typed_slice(&[1i32, -2, 3, i32::MAX]).build()));
        bodies.push(b(Message::builder().query_str(q).body_typed_slice(&[1u16, 2, 65535]).build()));
        bodies.push(b(Message::builder().query_str(q).body_aligned_typed_slice(&[4.0f64, 5.0, 6.0, 7.5, f64::NAN]).build()));
        bodies.push(b(Message::builder().query_str(q).body_aligned_typed_slice(&[4.0f64, 5.0, 6.0]).build()));
        bodies.push(b(Message::builder().query_str(q).body_aligned_typed_slice(&[7u16, 8, 9, 10, 11]).build()));
        bodies.push(b(Message::builder().query_str(q).body_aligned_typed_slice(&[7i32, -8]).build()));
    }
    // malformed: truncations, invalid UTF-8, noise
    let wf = bodies.clone();
    for w in &wf {
        if w.len() > 1 { bodies.push(w[..w.len() - 1].to_vec()); bodies.push(w[..w.len() / 2].to_vec()); }
    }
    bodies.push(vec![]);
    bodies.push(vec![0xff, 0xfe]);
    bodies.push(b"{\"a\":5,\"s\":\"\xff\"}".to_vec());
    bodies.push(b"E-custom-error".to_vec());
    bodies.push(vec![0x5c]);
    bodies.push(vec![0x5c, 0x64, 0x0c, 0x00]);
    for _ in 0..(if thorough { 200 } else { 20 }) { let n = rng.range(1, 64) as usize; bodies.push(rng.bytes(n)); }
    bodies.sort(); bodies.dedup();
    let free_paths = ["/json", "/jsonctx", "/jsonb", "/jsoncb", "/typed", "/typed_json", "/typed_beve", "/typed_utf8", "/typed_raw",
        "/typedctx", "/typedb", "/typedcb", "/adapter", "/slice", "/slice_i32", "/sliceref", "/sliceref_u16", "/custom",
        "/reg/fn", "/reg/ctxfn", "/reg/deep/fn", "/reg/none/x", "/obj", "/obj/f/g", "/obj/bad/p", "/obj/none", "/obj/a~1b/~0",
        "/dobj/hello", "/dobj/add", "/dobj/nope", "/dobj/hello/extra"];
    // read-only targets: only ever called with an empty body (a body would write)
    let read_paths = ["/reg/val", "/reg/val/k", "/reg", "/dobj/i", "/dobj"];
    let fmts = [0u16, 1, 2, 3, 4, 0xffff];
    let mut k = 0u64;
    for p in free_paths {
        for body in &bodies {
            for fmt in fmts {
                k += 1;
                // through the live servers for a deterministic share of the cases
                let srv = if thorough { k % 2 == 0 } else { k % 8 == 0 };
                cases.push(format!("kind=pair path={} fmt={:x} qf=1 body={} srv={}", hs(p), fmt, hex(body), srv as u8));
            }
        }
        // other query-format codes: in process only (servers reject them before dispatch)
        for qf in [0u16, 9] {
            for body in json_bodies.iter().take(3) {
                cases.push(format!("kind=pair path={} fmt=2 qf={:x} body={} srv=0", hs(p), qf, hex(body)));
            }
        }
    }
    for p in read_paths {
        for fmt in fmts { cases.push(format!("kind=pair path={} fmt={:x} qf=1 body=- srv=1", hs(p), fmt)); }
    }
}

fn gen_cases(seed: u64, thorough: bool) -> Vec<String> {
    let mut rng = Rng::new(seed);
    let mut cases = Vec::new();
    gen_seg_cases(&mut rng, thorough, &mut cases);
    gen_get_cases(&mut rng, thorough, &mut cases);
    gen_pair_cases(&mut rng, thorough, &mut cases);
    cases.into_iter().enumerate().map(|(i, c)| format!("i={i} {c}")).collect()
}

fn main() {
    let cases = if no_gen() { vec![] } else { gen_cases(seed(), is_thorough()) };
    isolated_main(cases, run_case, Duration::from_secs(30));
}
