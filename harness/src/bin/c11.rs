fn main() { repe_verif_harness::streamops::stream_main("C11"); }
