//! C02 correspondence: arbitrary byte strings through every parser and reader.
use repe::{Header, Message, MessageView, RepeError};
use repe_verif_harness::*;
use std::time::Duration;

fn err_kind(e: &RepeError) -> &'static str {
    match e {
        RepeError::InvalidHeaderLength(_) => "hlen",
        RepeError::InvalidSpec(_) => "spec",
        RepeError::LengthMismatch { .. } => "lenmis",
        RepeError::BufferTooSmall { .. } => "small",
        RepeError::Io(e) if e.kind() == std::io::ErrorKind::UnexpectedEof => "eof",
        RepeError::Io(e) if e.kind() == std::io::ErrorKind::OutOfMemory => "oom",
        _ => "other",
    }
}
fn hdr_s(h: &Header) -> String {
    format!("{:x},{:x},{:x},{:x},{:x},{:x},{:x},{:x},{:x},{:x},{:x}", h.length, h.spec, h.version, h.notify, h.reserved, h.id, h.query_length, h.body_length, h.query_format, h.body_format, h.ec)
}
fn msg_s(m: &Message) -> String { format!("ok:{}:{}:{}", hdr_s(&m.header), hex(&m.query), hex(&m.body)) }

const CLASSES: [u64; 14] = [0, 1, 5, 47, 48, 49, 1 << 31, 1 << 32, 1 << 62, 1 << 63, u64::MAX, u64::MAX - 1, u64::MAX - 47, u64::MAX - 48];

fn header_bytes(length: u64, ql: u64, bl: u64, spec: u16, rng: &mut Rng) -> Vec<u8> {
    Header { length, spec, version: rng.boundary(8) as u8, notify: rng.boundary(8) as u8, reserved: rng.boundary(32) as u32, id: rng.next(), query_length: ql, body_length: bl, query_format: rng.boundary(16) as u16, body_format: rng.boundary(16) as u16, ec: rng.boundary(32) as u32 }.encode().to_vec()
}

fn gen_cases(seed: u64, thorough: bool) -> Vec<String> {
    let mut rng = Rng::new(seed);
    let mut out: Vec<Vec<u8>> = Vec::new();
    // (1) exhaustive product of the three length fields over the boundary classes,
    //     each with buffer lengths {47, 48, 49, 60}
    for &l in &CLASSES { for &q in &CLASSES { for &b in &CLASSES {
        let h = header_bytes(l, q, b, 0x1507, &mut rng);
        for extra in [0usize, 1, 12] { let mut v = h.clone(); v.extend(rng.bytes(extra)); out.push(v); }
    }}}
    // sums that wrap to something consistent-looking
    for k in 0..64u64 {
        let q = u64::MAX - k; let b = rng.below(200);
        let wrapped = 48u64.wrapping_add(q).wrapping_add(b);
        let mut v = header_bytes(wrapped, q, b, 0x1507, &mut rng); v.extend(rng.bytes((wrapped as usize).min(300))); out.push(v);
        let mut v = header_bytes(wrapped, b, q, 0x1507, &mut rng); let k = rng.below(64) as usize; v.extend(rng.bytes(k)); out.push(v);
    }
    // (2) valid frames, every truncation point for small ones, mutations
    let nvalid = if thorough { 3000 } else { 300 };
    for _ in 0..nvalid {
        let ql = rng.below(40) as usize; let bl = match rng.below(4) { 0 => 0, 1 => rng.below(8), _ => rng.below(200) } as usize;
        let mut v = header_bytes((48 + ql + bl) as u64, ql as u64, bl as u64, 0x1507, &mut rng);
        v.extend(rng.bytes(ql + bl));
        out.push(v.clone());
        // exact, exact+-1, trailing
        let mut t = v.clone(); let k = 1 + rng.below(5) as usize; t.extend(rng.bytes(k)); out.push(t);
        if v.len() <= 256 && rng.chance(1, if thorough { 2 } else { 6 }) { for n in 0..v.len() { out.push(v[..n].to_vec()); } }
        else { for _ in 0..3 { let n = rng.below(v.len() as u64) as usize; out.push(v[..n].to_vec()); } }
        // mutations: bit flips, field overwrite with boundary values
        for _ in 0..4 {
            let mut m = v.clone();
            match rng.below(4) {
                0 => { let i = rng.below(m.len() as u64) as usize; m[i] ^= 1 << rng.below(8); }
                1 => { let off = *rng.pick(&[0usize, 24, 32]); let val = *rng.pick(&CLASSES); m[off..off + 8].copy_from_slice(&val.to_le_bytes()); }
                2 => { let off = *rng.pick(&[0usize, 24, 32]); let cur = u64::from_le_bytes(m[off..off + 8].try_into().unwrap()); let d = rng.range(1, 3); let val = if rng.chance(1, 2) { cur.wrapping_add(d) } else { cur.wrapping_sub(d) }; m[off..off + 8].copy_from_slice(&val.to_le_bytes()); }
                _ => { let i = 8 + rng.below(2) as usize; m[i] = rng.next() as u8; }
            }
            out.push(m);
        }
    }
    // (3) random byte strings up to 4 KiB
    let nrand = if thorough { 20000 } else { 1500 };
    for _ in 0..nrand {
        let n = match rng.below(5) { 0 => rng.below(48), 1 => 48, 2 => rng.range(49, 100), 3 => rng.below(600), _ => rng.below(4097) } as usize;
        let mut v = rng.bytes(n);
        if n >= 10 && rng.chance(3, 4) { v[8] = 0x07; v[9] = 0x15; }
        if n >= 40 && rng.chance(1, 2) { // small plausible lengths
            let q = rng.below(n as u64); let b = rng.below(n as u64);
            v[24..32].copy_from_slice(&q.to_le_bytes()); v[32..40].copy_from_slice(&b.to_le_bytes());
            let l = if rng.chance(3, 4) { 48 + q + b } else { rng.boundary(64) };
            v[0..8].copy_from_slice(&l.to_le_bytes());
        }
        out.push(v);
    }
    // stream sizes between 16 MiB and 2^62 are outside the property's quantifier
    let mut lines: Vec<String> = out.into_iter().enumerate().map(|(i, v)| format!("i={i} bytes={}", hex(&v))).collect();
    // network call sites: the same hostile headers arriving over real sockets at the three
    // servers and (as replies) at the three clients
    let mut k = lines.len();
    let hostile: Vec<(u64, u64, u64, u16)> = vec![
        (10, u64::MAX - 20, 100, 0x1507), (0, u64::MAX - 47, 0, 0x1507), (48 + (1u64 << 62), 1 << 62, 0, 0x1507),
        (48u64.wrapping_add(1 << 63), 1 << 63, 0, 0x1507), (u64::MAX, u64::MAX - 48, 1, 0x1507), (48, 0, 0, 0x1234),
        (60, 5, 5, 0x1507), (47, 0, 0, 0x1507), (u64::MAX, u64::MAX, u64::MAX, 0x1507), (48 + 7, 3, 4, 0x1507),
    ];
    let targets = ["tcp", "atcp", "ws", "client", "aclient", "wsclient"];
    let reps = if thorough { 4 } else { 1 };
    for _ in 0..reps {
        for (l, q, b, spec) in &hostile {
            for t in &targets {
                let mut v = header_bytes(*l, *q, *b, *spec, &mut rng);
                // sometimes a few payload bytes follow, sometimes only part of the header is sent
                match rng.below(3) { 0 => {}, 1 => v.extend(rng.bytes(5)), _ => { if rng.chance(1, 4) { v.truncate(20 + rng.below(28) as usize); } } }
                lines.push(format!("i={k} kind=net target={t} bytes={}", hex(&v))); k += 1;
            }
        }
    }
    // exactly one message per WebSocket binary message: a well-formed frame followed by surplus
    // bytes must be refused by the server (not dispatched) and by the client (no value returned);
    // the client's request ids start at 1
    for extra in [1usize, 5, 48] {
        let mut v = ping_frame(7); v.extend(rng.bytes(extra));
        lines.push(format!("i={k} kind=net target=ws trail=1 bytes={}", hex(&v))); k += 1;
        let mut v = repe::Message::builder().id(1).query_str("/ping").query_format(repe::QueryFormat::JsonPointer).body_json(&serde_json::json!(7)).unwrap().build().to_vec();
        v.extend(rng.bytes(extra));
        lines.push(format!("i={k} kind=net target=wsclient trail=1 bytes={}", hex(&v))); k += 1;
    }
    lines
}

struct Dribble<'a> { data: &'a [u8], pos: usize, step: usize }
impl std::io::Read for Dribble<'_> {
    fn read(&mut self, buf: &mut [u8]) -> std::io::Result<usize> {
        let n = buf.len().min(self.step).min(self.data.len() - self.pos);
        buf[..n].copy_from_slice(&self.data[self.pos..self.pos + n]);
        self.pos += n; self.step = self.step % 29 + 1; Ok(n)
    }
}

fn res_msg(r: Result<Message, RepeError>) -> String { match r { Ok(m) => msg_s(&m), Err(e) => format!("err:{}", err_kind(&e)) } }
fn g<T: std::panic::UnwindSafe + FnOnce() -> String>(f: T) -> String { guard(f).unwrap_or_else(|_| "panic".into()) }

struct NetEnv { servers: net::Servers }
static NETENV: std::sync::OnceLock<NetEnv> = std::sync::OnceLock::new();
fn netenv() -> &'static NetEnv {
    NETENV.get_or_init(|| NetEnv { servers: net::start_servers(repe::Router::new().with_json("/ping", |v: serde_json::Value| Ok(v))) })
}
fn ping_frame(id: u64) -> Vec<u8> {
    repe::Message::builder().id(id).query_str("/ping").query_format(repe::QueryFormat::JsonPointer).body_json(&serde_json::json!(7)).unwrap().build().to_vec()
}
/// hostile bytes over a real socket: the endpoint must survive (no panic/abort: the whole process
/// is this child), drop or fail that connection, and keep serving others
fn run_net(target: &str, bs: &[u8]) -> String {
    use std::io::Write;
    use std::time::Duration;
    let env = netenv();
    let alive_tcp = |addr| -> bool { net::RawTcp::connect(addr).and_then(|mut c| c.exchange(&ping_frame(9))).map(|r| r.len() > 48 && r[16] == 9).unwrap_or(false) };
    match target {
        "tcp" | "atcp" => {
            let addr = if target == "tcp" { env.servers.tcp } else { env.servers.atcp };
            let r = (|| -> std::io::Result<String> {
                let mut c = net::RawTcp::connect(addr)?;
                c.s.write_all(bs)?;
                c.s.shutdown(std::net::Shutdown::Write)?;
                c.s.set_read_timeout(Some(Duration::from_secs(3)))?;
                let mut sink = Vec::new();
                use std::io::Read;
                let n = c.s.read_to_end(&mut sink).unwrap_or(0);
                Ok(format!("closed:{}", if n == 0 { "silent" } else { "reply" }))
            })().unwrap_or_else(|e| format!("ioerr:{:?}", e.kind()));
            format!("net={} alive={}", r, alive_tcp(addr) as u8)
        }
        "ws" => {
            let r = match net::RawWs::connect(env.servers.ws) {
                // a reply is reported with its error code (0 = the request was dispatched and answered)
                Ok(mut c) => { let _ = c.send(bs); match c.recv(Duration::from_millis(1500)) { Ok(f) => format!("reply:{}:{}", f.len(), if f.len() >= 48 { u32::from_le_bytes(f[44..48].try_into().unwrap()).to_string() } else { "short".into() }), Err(e) => format!("closed:{}", e.split(' ').next().unwrap_or("x")) } }
                Err(e) => format!("connerr:{}", e.replace(' ', "_")),
            };
            let alive = net::RawWs::connect(env.servers.ws).and_then(|mut c| c.exchange(&ping_frame(9))).map(|r| r.len() > 48 && r[16] == 9).unwrap_or(false);
            format!("net={} alive={}", r, alive as u8)
        }
        "client" | "aclient" => {
            // a fake server that answers the first request with the hostile bytes and holds the socket open
            let l = std::net::TcpListener::bind("127.0.0.1:0").unwrap();
            let addr = l.local_addr().unwrap();
            let hostile = bs.to_vec();
            let srv = std::thread::spawn(move || { if let Ok((mut s, _)) = l.accept() { let _ = net::read_raw_frame(&mut s); let _ = s.write_all(&hostile); std::thread::sleep(Duration::from_millis(1500)); } });
            let res = if target == "client" {
                let c = repe::Client::connect(addr).unwrap();
                match c.call_json_with_timeout("/x", &serde_json::json!(1), Duration::from_secs(3)) { Ok(_) => "ok".to_string(), Err(e) => format!("err:{}", matches!(e, repe::RepeError::Io(ref io) if io.kind() == std::io::ErrorKind::TimedOut) as u8) }
            } else {
                net::runtime().block_on(async { let c = repe::AsyncClient::connect(addr).await.unwrap(); match c.call_json_with_timeout("/x", &serde_json::json!(1), Duration::from_secs(3)).await { Ok(_) => "ok".to_string(), Err(e) => format!("err:{}", matches!(e, repe::RepeError::Io(ref io) if io.kind() == std::io::ErrorKind::TimedOut) as u8) } })
            };
            let _ = srv.join();
            format!("net={} alive={}", res, alive_tcp(env.servers.tcp) as u8)
        }
        _ => {
            // wsclient: a raw tungstenite server replying with the hostile bytes as one binary message
            let res = net::runtime().block_on(async {
                use futures_util::{SinkExt, StreamExt};
                let l = tokio::net::TcpListener::bind("127.0.0.1:0").await.unwrap();
                let addr = l.local_addr().unwrap();
                let hostile = bs.to_vec();
                let srv = tokio::spawn(async move { if let Ok((s, _)) = l.accept().await { if let Ok(mut ws) = tokio_tungstenite::accept_async(s).await { let _ = ws.next().await; let _ = ws.send(tokio_tungstenite::tungstenite::Message::Binary(hostile)).await; tokio::time::sleep(Duration::from_millis(1500)).await; } } });
                let c = repe::WebSocketClient::connect(&format!("ws://{addr}/")).await.unwrap();
                let r = match c.call_json_with_timeout("/x", &serde_json::json!(1), Duration::from_secs(3)).await { Ok(_) => "ok".to_string(), Err(e) => format!("err:{}", matches!(e, repe::RepeError::Io(ref io) if io.kind() == std::io::ErrorKind::TimedOut) as u8) };
                srv.abort();
                r
            });
            format!("net={} alive={}", res, alive_tcp(env.servers.tcp) as u8)
        }
    }
}

fn run_case(line: &str) -> String {
    let f = fields(line);
    let bs = unhex(&f["bytes"]);
    if f.get("kind").map(|k| k == "net").unwrap_or(false) {
        let t = f["target"].clone();
        return guard(move || run_net(&t, &bs)).unwrap_or_else(|_| "crash=panic".into());
    }
    let mut o = String::new();
    let b = bs.clone(); o.push_str(&format!("dec={}", g(move || match Header::decode(&b) { Ok(h) => format!("ok:{}", hdr_s(&h)), Err(e) => format!("err:{}", err_kind(&e)) })));
    let b = bs.clone(); o.push_str(&format!(" fs={}", g(move || res_msg(Message::from_slice(&b)))));
    let b = bs.clone(); o.push_str(&format!(" fse={}", g(move || res_msg(Message::from_slice_exact(&b)))));
    let b = bs.clone(); o.push_str(&format!(" vw={}", g(move || res_msg(MessageView::from_slice(&b).map(|v| v.to_message())))));
    let b = bs.clone(); o.push_str(&format!(" vwe={}", g(move || res_msg(MessageView::from_slice_exact(&b).map(|v| v.to_message())))));
    // readers: skipped when the declared size is in the gap the property excludes
    let in_gap = |x: u64| x > (1 << 24) && x < (1 << 62);
    let skip = bs.len() >= 48 && { let l = u64::from_le_bytes(bs[0..8].try_into().unwrap()); let q = u64::from_le_bytes(bs[24..32].try_into().unwrap()); let b = u64::from_le_bytes(bs[32..40].try_into().unwrap()); in_gap(l) || in_gap(q) || in_gap(b) };
    if skip { o.push_str(" rd=skip rda=skip ri=skip ria=skip"); return o; }
    // the blocking and the async readers are reported separately: each is compared with the
    // model and judged by the oracle on its own
    let b = bs.clone();
    let rd = g(move || {
        let mut src = Dribble { data: &b, pos: 0, step: 7 };
        match repe::read_message(&mut src) { Ok(m) => format!("{}/{}", msg_s(&m), hex(&b[src.pos..])), Err(e) => format!("err:{}", err_kind(&e)) }
    });
    let b = bs.clone();
    let rda = g(move || {
        let mut cur: &[u8] = &b;
        match net::runtime().block_on(repe::async_io::read_message_async(&mut cur)) { Ok(m) => format!("{}/{}", msg_s(&m), hex(cur)), Err(e) => format!("err:{}", err_kind(&e)) }
    });
    o.push_str(&format!(" rd={rd} rda={rda}"));
    let b = bs.clone();
    let ri = g(move || {
        let mut src = Dribble { data: &b, pos: 0, step: 11 };
        let mut buf = vec![7u8; 5];
        match repe::read_message_into(&mut src, &mut buf) { Ok(()) => format!("{}/{}", hex(&buf), hex(&b[src.pos..])), Err(e) => format!("err:{}", err_kind(&e)) }
    });
    let b = bs.clone();
    let ria = g(move || {
        let mut cur: &[u8] = &b; let mut buf2 = Vec::new();
        match net::runtime().block_on(repe::async_io::read_message_into_async(&mut cur, &mut buf2)) { Ok(()) => format!("{}/{}", hex(&buf2), hex(cur)), Err(e) => format!("err:{}", err_kind(&e)) }
    });
    o.push_str(&format!(" ri={ri} ria={ria}"));
    o
}

fn main() {
    let cases = if no_gen() { vec![] } else { gen_cases(seed(), is_thorough()) };
    isolated_main(cases, run_case, Duration::from_secs(30));
}
