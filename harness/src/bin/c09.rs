//! C09 correspondence: a value stream pulled chunk by chunk reproduces the
//! producer's bytes and ends once.  Real servers (sync TCP + WebSocket) serve a
//! Router with one SVS producer per (kind, element, chunk size, depth,
//! compression); the per-case payload, write segmentation, failure point and
//! sleeps travel in the `resource` string of the open request.  A raw peer speaks
//! `/_svs/open|next|cancel` by hand; the crate's own pullers run over
//! `Client`, `AsyncClient` and `WebSocketClient`.
use repe::value_stream::{Compression, RouterValueStreamExt, StreamOpts};
use repe::{AsyncClient, BodyFormat, Client, Complex, Router, WebSocketClient};
use repe_verif_harness::net::{self, RawTcp, RawWs, Servers};
use repe_verif_harness::*;
use serde::{Deserialize, Serialize};
use std::collections::HashMap;
use std::io::{self, Read, Write};
use std::sync::{Arc, Mutex, OnceLock};
use std::time::Duration;

const T_WAIT: Duration = Duration::from_secs(15);

fn hx(v: u64) -> String { format!("{v:x}") }
fn ph(s: &str) -> Option<u64> { u64::from_str_radix(s, 16).ok() }
fn clean(s: impl AsRef<str>) -> String { s.as_ref().chars().map(|c| if c.is_whitespace() || c == '|' || c == '=' { '_' } else { c }).take(80).collect() }

// ---- wire bodies, same shapes as the crate's private OpenRequest / NextRequest / CancelRequest
#[derive(Serialize)] struct OpenReq { resource: String }
#[derive(Serialize)] struct NextReq { stream_id: u64 }
#[derive(Serialize)] struct CancelReq { stream_id: u64, reason: String }
#[derive(Deserialize)] struct OpenResp { version: u8, stream_id: u64, format: u16, compression: u8 }

/// a REPE request frame assembled by hand (JSON-pointer query, BEVE body)
fn frame(id: u64, path: &str, body: &[u8]) -> Vec<u8> {
    let q = path.as_bytes();
    let mut f = Vec::with_capacity(48 + q.len() + body.len());
    f.extend_from_slice(&((48 + q.len() + body.len()) as u64).to_le_bytes());
    f.extend_from_slice(&0x1507u16.to_le_bytes());
    f.push(1); f.push(0);
    f.extend_from_slice(&0u32.to_le_bytes());
    f.extend_from_slice(&id.to_le_bytes());
    f.extend_from_slice(&(q.len() as u64).to_le_bytes());
    f.extend_from_slice(&(body.len() as u64).to_le_bytes());
    f.extend_from_slice(&1u16.to_le_bytes());
    f.extend_from_slice(&1u16.to_le_bytes());
    f.extend_from_slice(&0u32.to_le_bytes());
    f.extend_from_slice(q);
    f.extend_from_slice(body);
    f
}
struct Resp { id: u64, qfmt: u16, bfmt: u16, ec: u32, query: Vec<u8>, body: Vec<u8> }
fn parse_resp(f: &[u8]) -> Result<Resp, String> {
    if f.len() < 48 { return Err("short-frame".into()); }
    let le64 = |o: usize| u64::from_le_bytes(f[o..o + 8].try_into().unwrap());
    let le16 = |o: usize| u16::from_le_bytes(f[o..o + 2].try_into().unwrap());
    let (ql, bl) = (le64(24) as usize, le64(32) as usize);
    if le64(0) as usize != f.len() || 48 + ql + bl != f.len() { return Err("frame-length".into()); }
    Ok(Resp { id: le64(16), qfmt: le16(40), bfmt: le16(42), ec: u32::from_le_bytes(f[44..48].try_into().unwrap()), query: f[48..48 + ql].to_vec(), body: f[48 + ql..].to_vec() })
}

enum Raw { Tcp(RawTcp), Ws(RawWs) }
impl Raw {
    fn exchange(&mut self, f: &[u8]) -> Result<Vec<u8>, String> {
        match self { Raw::Tcp(t) => t.exchange(f).map_err(|e| e.to_string()), Raw::Ws(w) => w.exchange(f) }
    }
}

// ---- the values of the BEVE producer kinds, rebuilt from (m, vs) on both sides
#[derive(Serialize, Deserialize, Clone, Debug, PartialEq)]
struct Val { id: u64, label: String, blob: Vec<u8>, samples: Vec<f64> }

fn mk_bytes(m: usize, vs: u64) -> Vec<u8> { Rng::new(vs ^ 0xb10b).bytes(m) }
fn mk_val(m: usize, vs: u64) -> Val {
    Val { id: vs, label: format!("svs-{vs}"), blob: mk_bytes(m, vs), samples: (0..3).map(|i| i as f64 * 0.5 - vs as f64).collect() }
}
fn mk_f64(m: usize, vs: u64) -> Vec<f64> { let mut r = Rng::new(vs ^ 0xf64); (0..m).map(|_| (r.next() % 2_000_001) as f64 / 8.0 - 1000.0).collect() }
fn mk_cplx(m: usize, vs: u64) -> Vec<Complex<f32>> { let mut r = Rng::new(vs ^ 0xc0); (0..m).map(|_| Complex { re: (r.next() % 4097) as f32 / 4.0, im: -((r.next() % 513) as f32) }).collect() }

fn enc_val(v: &Val) -> Vec<u8> { let mut o = Vec::new(); beve::to_writer_streaming(&mut o, v).unwrap(); o }
fn enc_u8(v: &[u8]) -> Vec<u8> { let mut o = Vec::new(); beve::to_writer_typed_slice(&mut o, v).unwrap(); o }
fn enc_f64(v: &[f64]) -> Vec<u8> { let mut o = Vec::new(); beve::to_writer_typed_slice(&mut o, v).unwrap(); o }
fn enc_cplx(v: &[Complex<f32>]) -> Vec<u8> { let mut o = Vec::new(); beve::to_writer_complex_slice(&mut o, v).unwrap(); o }

/// the logical bytes of a BEVE-kind producer
fn value_bytes(kind: u64, el: u64, m: usize, vs: u64) -> Vec<u8> {
    match (kind, el) {
        (0, _) => enc_val(&mk_val(m, vs)),
        (1, 0) => enc_u8(&mk_bytes(m, vs)),
        (1, _) => enc_f64(&mk_f64(m, vs)),
        _ => enc_cplx(&mk_cplx(m, vs)),
    }
}

// ---- byte producers (reader / writer kinds): everything comes from the resource string
#[derive(Clone)]
struct ByteSpec { data: Vec<u8>, sizes: Vec<usize>, fail: Option<usize>, slp: u64, panic: bool, eof: u8 }
/// "b:<datahex>:<sizes . separated|->:<fail|->:<slp>:<err|panic>"
fn parse_bytespec(res: &str) -> Option<ByteSpec> {
    let t: Vec<&str> = res.split(':').collect();
    if t.len() != 6 || t[0] != "b" { return None; }
    let sizes = if t[2] == "-" { vec![] } else { t[2].split('.').map(|s| ph(s).map(|v| v as usize)).collect::<Option<Vec<_>>>()? };
    let fail = if t[3] == "-" { None } else { Some(ph(t[3])? as usize) };
    Some(ByteSpec { data: unhex(t[1]), sizes, fail, slp: ph(t[4])?, panic: t[5] == "panic", eof: match t[5] { "eof" => 1, "pipe" => 2, "reset" => 3, "inval" => 4, _ => 0 } })
}
/// the same cut as the model's `segment`: each size takes what is left, the rest is one final piece
fn segments(spec: &ByteSpec) -> Vec<Vec<u8>> {
    let written = match spec.fail { Some(k) => &spec.data[..k.min(spec.data.len())], None => &spec.data[..] };
    let mut out = Vec::new(); let mut pos = 0usize;
    for s in &spec.sizes { let k = (*s).min(written.len() - pos); out.push(written[pos..pos + k].to_vec()); pos += k; }
    if pos < written.len() { out.push(written[pos..].to_vec()); }
    out
}
fn nap(r: &mut Rng, slp: u64) { if slp != 0 { let us = r.below(3000); if us > 300 { std::thread::sleep(Duration::from_micros(us)); } } }

/// the error a failing producer returns: any kind is a failure of the stream (`eof`: the kind a
/// `read_exact` on a truncated source reports)
fn injected(eof: u8, what: &str) -> io::Error { use io::ErrorKind as K; match eof { 1 => io::Error::new(K::UnexpectedEof, what.to_string()), 2 => io::Error::new(K::BrokenPipe, what.to_string()), 3 => io::Error::new(K::ConnectionReset, what.to_string()), 4 => io::Error::new(K::InvalidData, what.to_string()), _ => io::Error::other(what.to_string()) } }
struct SegReader { segs: std::collections::VecDeque<Vec<u8>>, off: usize, fail: bool, panic: bool, eof: u8, rng: Rng, slp: u64 }
impl Read for SegReader {
    fn read(&mut self, out: &mut [u8]) -> io::Result<usize> {
        if out.is_empty() { return Ok(0); }
        nap(&mut self.rng, self.slp);
        loop {
            match self.segs.front() {
                // application code on the producer thread may also panic instead of returning an error
                None if self.fail && self.panic => panic!("seeded producer panic (reader)"),
                None => return if self.fail { Err(injected(self.eof, "injected reader failure")) } else { Ok(0) },
                Some(s) if self.off >= s.len() => { self.segs.pop_front(); self.off = 0; }
                Some(s) => {
                    let k = (s.len() - self.off).min(out.len());
                    out[..k].copy_from_slice(&s[self.off..self.off + k]);
                    self.off += k;
                    return Ok(k);
                }
            }
        }
    }
}
type WriterFn = Box<dyn FnOnce(&mut dyn Write) -> io::Result<()> + Send>;

fn opts(n: u64, d: u64, z: bool) -> StreamOpts {
    StreamOpts { chunk_bytes: n as usize, compression: if z { Compression::Zstd } else { Compression::None }, zstd_level: 3, session_depth: d as usize }
}
fn parse_v(res: &str) -> Option<(usize, u64)> { let t: Vec<&str> = res.split(':').collect(); if t.len() == 3 && t[0] == "v" { Some((ph(t[1])? as usize, ph(t[2])?)) } else { None } }

fn build_router(kind: u64, el: u64, n: u64, d: u64, z: bool) -> Router {
    let o = opts(n, d, z);
    match (kind, el) {
        (0, _) => Router::new().with_value_stream(|r: &str| parse_v(r).map(|(m, vs)| mk_val(m, vs)), o),
        (1, 0) => Router::new().with_typed_value_stream(|r: &str| parse_v(r).map(|(m, vs)| mk_bytes(m, vs)), o),
        (1, _) => Router::new().with_typed_value_stream(|r: &str| parse_v(r).map(|(m, vs)| mk_f64(m, vs)), o),
        (2, _) => Router::new().with_complex_value_stream(|r: &str| parse_v(r).map(|(m, vs)| mk_cplx(m, vs)), o),
        (3, _) => Router::new().with_reader_stream(|r: &str| parse_bytespec(r).map(|s| SegReader { segs: segments(&s).into_iter().filter(|x| !x.is_empty()).collect(), off: 0, fail: s.fail.is_some(), panic: s.panic, eof: s.eof, rng: Rng::new(s.slp), slp: s.slp }), o),
        _ => Router::new().with_writer_stream(BodyFormat::RawBinary, |r: &str| parse_bytespec(r).map(|s| -> WriterFn {
            Box::new(move |w: &mut dyn Write| {
                let mut rng = Rng::new(s.slp ^ 0x77);
                // flush after every write: a flush must never cut a short chunk
                for seg in segments(&s) { nap(&mut rng, s.slp); w.write_all(&seg)?; w.flush()?; }
                if s.fail.is_some() && s.panic { panic!("seeded producer panic (writer)"); }
                if s.fail.is_some() { Err(injected(s.eof, "injected writer failure")) } else { Ok(()) }
            })
        }), o),
    }
}

type Key = (u64, u64, u64, u64, bool);

/// servers of a configuration; they cannot be stopped, so they are kept. Starting
/// one can fail transiently (no free port while other checks churn connections): retry.
fn servers(k: Key) -> Result<Arc<Servers>, String> {
    static M: OnceLock<Mutex<HashMap<Key, Arc<Servers>>>> = OnceLock::new();
    let mut g = M.get_or_init(|| Mutex::new(HashMap::new())).lock().unwrap_or_else(|e| e.into_inner());
    if let Some(s) = g.get(&k) { return Ok(s.clone()); }
    for attempt in 0..40 {
        if let Ok(s) = guard(move || net::start_servers(build_router(k.0, k.1, k.2, k.3, k.4))) {
            let s = Arc::new(s); g.insert(k, s.clone()); return Ok(s);
        }
        std::thread::sleep(Duration::from_millis(250 * (1 + attempt.min(8))));
    }
    Err("badcase:cannot-start-servers".into())
}

/// the connections of the configuration in use, reused by consecutive cases of
/// that configuration (cases are generated sorted by configuration) and dropped
/// on the first error or when the configuration changes
struct Live { key: Key, sv: Arc<Servers>, raw_tcp: Option<RawPeer>, raw_ws: Option<RawPeer>, client: Option<Arc<Client>>, aclient: Option<Arc<AsyncClient>> }
static LIVE: Mutex<Option<Live>> = Mutex::new(None);

struct Case { kind: u64, el: u64, pull: u64, n: u64, d: u64, z: bool, data: Vec<u8>, w: String, f: String, fk: String, cj: u64, slp: u64, vm: u64, vs: u64 }

fn resource(c: &Case) -> String {
    if c.kind <= 2 { format!("v:{}:{}", hx(c.vm), hx(c.vs)) } else { format!("b:{}:{}:{}:{}:{}", hex(&c.data), c.w, c.f, hx(c.slp), c.fk) }
}

fn rs(r: &Resp) -> Result<String, String> {
    if r.ec != 0 { return Ok(format!("e.{}", hx(r.ec as u64))); }
    if r.qfmt != 0 || r.bfmt != 0 { return Err(format!("chunk-formats:{}:{}", r.qfmt, r.bfmt)); }
    match r.query.as_slice() { [0] => Ok(format!("c0.{}", hex(&r.body))), [1] => Ok(format!("c1.{}", hex(&r.body))), q => Err(format!("last-query:{}", hex(q))) }
}

struct RawPeer { raw: Raw, id: u64 }
impl RawPeer {
    fn call(&mut self, path: &str, body: Vec<u8>) -> Result<Resp, String> {
        self.id += 1;
        let r = parse_resp(&self.raw.exchange(&frame(self.id, path, &body))?)?;
        if r.id != self.id { return Err(format!("response-id:{}:{}", r.id, self.id)); }
        Ok(r)
    }
    /// send a request without waiting for its response; returns the request id
    fn post(&mut self, path: &str, body: Vec<u8>) -> Result<u64, String> {
        self.id += 1;
        let f = frame(self.id, path, &body);
        match &mut self.raw { Raw::Tcp(t) => t.send(&f).map_err(|e| e.to_string())?, Raw::Ws(w) => w.send(&f)? }
        Ok(self.id)
    }
    /// the next response frame, whichever request it answers
    fn take(&mut self) -> Result<Resp, String> {
        let f = match &mut self.raw { Raw::Tcp(t) => t.recv().map_err(|e| e.to_string())?, Raw::Ws(w) => w.recv(T_WAIT)? };
        parse_resp(&f)
    }
    fn open(&mut self, c: &Case) -> Result<u64, String> {
        let r = self.call("/_svs/open", beve::to_vec(&OpenReq { resource: resource(c) }).map_err(|e| e.to_string())?)?;
        if r.ec != 0 { return Err(format!("open-ec:{}", r.ec)); }
        let o: OpenResp = beve::from_slice(&r.body).map_err(|e| format!("open-body:{e}"))?;
        let want_fmt = if c.kind <= 2 { 1 } else { 0 };
        if o.version != 1 || o.format != want_fmt || o.compression != c.z as u8 { return Err(format!("open-tags:{}:{}:{}", o.version, o.format, o.compression)); }
        Ok(o.stream_id)
    }
    fn next(&mut self, sid: u64) -> Result<String, String> {
        let r = self.call("/_svs/next", beve::to_vec(&NextReq { stream_id: sid }).map_err(|e| e.to_string())?)?;
        rs(&r)
    }
    fn cancel(&mut self, sid: u64) -> Result<(), String> {
        let r = self.call("/_svs/cancel", beve::to_vec(&CancelReq { stream_id: sid, reason: "harness".into() }).map_err(|e| e.to_string())?)?;
        if r.ec != 0 { return Err(format!("cancel-ec:{}", r.ec)); }
        Ok(())
    }
}

/// run `f` on its own thread, give up after T_WAIT
fn bounded<T: Send + 'static>(f: impl FnOnce() -> T + Send + 'static) -> Option<T> {
    let (tx, rx) = std::sync::mpsc::channel();
    std::thread::spawn(move || { let _ = tx.send(f()); });
    rx.recv_timeout(T_WAIT).ok()
}
fn hl(r: Option<Result<Vec<u8>, String>>) -> String {
    match r { None => "timeout".into(), Some(Ok(b)) => format!("ok:{}", hex(&b)), Some(Err(e)) => format!("err:{}", clean(e)) }
}

/// the crate's high-level pullers over the chosen client; returns (vec, typed)
fn high_level(c: &Case, lv: &mut Live) -> (String, String) {
    let res = resource(c);
    let (kind, el) = (c.kind, c.el);
    let out = match c.pull {
        0 => {
            let cl = match &lv.client {
                Some(cl) => cl.clone(),
                None => match Client::connect(lv.sv.tcp) { Ok(cl) => { let cl = Arc::new(cl); lv.client = Some(cl.clone()); cl } Err(e) => return (format!("err:connect:{}", clean(e.to_string())), "na".into()) },
            };
            let (r2, c2) = (res.clone(), cl.clone());
            let vec = hl(bounded(move || repe::pull_to_vec(&c2, &r2).map_err(|e| e.to_string())));
            let typed = if kind > 2 { "na".to_string() } else {
                hl(bounded(move || {
                    match (kind, el) {
                        (0, _) => repe::pull_value::<Val>(&cl, &res).map(|v| enc_val(&v)),
                        (1, 0) => repe::pull_typed_slice::<u8>(&cl, &res).map(|v| enc_u8(&v)),
                        (1, _) => repe::pull_typed_slice::<f64>(&cl, &res).map(|v| enc_f64(&v)),
                        _ => repe::pull_complex_slice::<f32>(&cl, &res).map(|v| enc_cplx(&v)),
                    }.map_err(|e| e.to_string())
                }))
            };
            (vec, typed)
        }
        p => {
            async fn vec_pull<C: repe::AsyncSvsClient>(cl: &C, res: &str) -> String {
                match tokio::time::timeout(T_WAIT, repe::pull_to_vec_async(cl, res)).await { Err(_) => hl(None), Ok(r) => hl(Some(r.map_err(|e| e.to_string()))) }
            }
            async fn typed_pull<C: repe::AsyncSvsClient>(cl: &C, res: &str, kind: u64, el: u64) -> String {
                if kind > 2 { return "na".to_string(); }
                let fut = async {
                    match (kind, el) {
                        (0, _) => repe::pull_value_async::<Val, _>(cl, res).await.map(|v| enc_val(&v)),
                        (1, 0) => repe::pull_typed_slice_async::<u8, _>(cl, res).await.map(|v| enc_u8(&v)),
                        (1, _) => repe::pull_typed_slice_async::<f64, _>(cl, res).await.map(|v| enc_f64(&v)),
                        _ => repe::pull_complex_slice_async::<f32, _>(cl, res).await.map(|v| enc_cplx(&v)),
                    }.map_err(|e| e.to_string())
                };
                match tokio::time::timeout(T_WAIT, fut).await { Err(_) => hl(None), Ok(r) => hl(Some(r)) }
            }
            let (tcp, wsa) = (lv.sv.tcp, lv.sv.ws);
            if p == 2 {
                // a fresh WebSocket client for each pull: on a reused connection every pull waits
                // ~40 ms (the cancel notify and the following open are two small writes)
                net::runtime().block_on(async {
                    let url = format!("ws://{wsa}/repe");
                    let vec = match tokio::time::timeout(T_WAIT, WebSocketClient::connect(&url)).await {
                        Ok(Ok(cl)) => vec_pull(&cl, &res).await,
                        Ok(Err(e)) => format!("err:connect:{}", clean(e.to_string())),
                        Err(_) => "timeout".into(),
                    };
                    let typed = if kind > 2 { "na".to_string() } else {
                        match tokio::time::timeout(T_WAIT, WebSocketClient::connect(&url)).await {
                            Ok(Ok(cl)) => typed_pull(&cl, &res, kind, el).await,
                            Ok(Err(e)) => format!("err:connect:{}", clean(e.to_string())),
                            Err(_) => "timeout".into(),
                        }
                    };
                    (vec, typed)
                })
            } else {
                let cl = match &lv.aclient {
                    Some(cl) => cl.clone(),
                    None => match net::runtime().block_on(async { tokio::time::timeout(T_WAIT, AsyncClient::connect(tcp)).await }) {
                        Ok(Ok(cl)) => { let cl = Arc::new(cl); lv.aclient = Some(cl.clone()); cl }
                        Ok(Err(e)) => return (format!("err:connect:{}", clean(e.to_string())), "na".into()),
                        Err(_) => return ("timeout".into(), "na".into()),
                    },
                };
                net::runtime().block_on(async { (vec_pull(&*cl, &res).await, typed_pull(&*cl, &res, kind, el).await) })
            }
        }
    };
    // a puller that timed out leaves its connection in an unknown state
    if out.0 == "timeout" || out.1 == "timeout" { lv.client = None; lv.aclient = None; }
    out
}

/// what a streaming zstd decoder yields from `stream` before it ends or fails
fn unzstd_prefix(stream: &[u8]) -> Vec<u8> {
    let mut out = Vec::new();
    let Ok(mut dec) = zstd::stream::read::Decoder::new(stream) else { return out };
    let mut buf = [0u8; 4096];
    loop { match dec.read(&mut buf) { Ok(0) | Err(_) => break, Ok(k) => out.extend_from_slice(&buf[..k]) } }
    out
}

fn raw_exchange(c: &Case, peer: &mut RawPeer) -> Result<(Vec<String>, String, Vec<String>, String, Vec<u8>, String), String> {
    let mut rng = Rng::new(c.slp ^ 0x5151);
    // first stream: next until last / error, then once more
    let sid = peer.open(c)?;
    let cap = 4 * c.data.len() + 300;
    let mut pulls = Vec::new(); let mut stream = Vec::new();
    loop {
        if pulls.len() > cap { return Err("no-end".into()); }
        nap(&mut rng, c.slp);
        let r = peer.next(sid)?;
        let done = !r.starts_with("c0.");
        if let Some(h) = r.strip_prefix("c0.").or_else(|| r.strip_prefix("c1.")) { stream.extend_from_slice(&unhex(h)); }
        pulls.push(r);
        if done { break; }
    }
    let after_end = peer.next(sid)?;
    // second stream: a few nexts, cancel, next
    let sid2 = peer.open(c)?;
    // the finished stream's id stays dead while another stream is open (ids are not reused)
    let after_end2 = peer.next(sid)?;
    let mut cp = Vec::new();
    for _ in 0..c.cj { let r = peer.next(sid2)?; let done = !r.starts_with("c0."); cp.push(r); if done { break; } }
    peer.cancel(sid2)?;
    let after_cancel = peer.next(sid2)?;
    Ok((pulls, after_end, cp, after_cancel, stream, after_end2))
}

fn run_inner(c: &Case) -> Result<String, String> {
    // the BEVE kinds: the case's data must be what this process serializes
    if c.kind <= 2 && value_bytes(c.kind, c.el, c.vm as usize, c.vs) != c.data { return Err("badcase:data-is-not-the-value".into()); }
    let key: Key = (c.kind, c.el, c.n, c.d, c.z);
    let t0 = std::time::Instant::now();
    let mut live = LIVE.lock().unwrap_or_else(|e| e.into_inner());
    if live.as_ref().map(|l| l.key) != Some(key) {
        *live = None;
        *live = Some(Live { key, sv: servers(key)?, raw_tcp: None, raw_ws: None, client: None, aclient: None });
    }
    let t1 = t0.elapsed();
    let lv = live.as_mut().unwrap();
    let slot = if c.pull == 2 { &mut lv.raw_ws } else { &mut lv.raw_tcp };
    if slot.is_none() {
        let raw = if c.pull == 2 { Raw::Ws(RawWs::connect(lv.sv.ws)?) } else { Raw::Tcp(RawTcp::connect(lv.sv.tcp).map_err(|e| e.to_string())?) };
        *slot = Some(RawPeer { raw, id: 100 });
    }
    let (pulls, after_end, cp, after_cancel, stream, after_end2) = match raw_exchange(c, slot.as_mut().unwrap()) {
        Ok(x) => x,
        Err(e) => { *slot = None; return Err(e); }
    };
    let t2 = t0.elapsed();
    let plain = if c.z { hex(&unzstd_prefix(&stream)) } else { "na".to_string() };
    let (vec, typed) = high_level(c, lv);
    // development aid: where the time of a case goes (ignored by the driver)
    let timing = if std::env::var("C09_TIMING").is_ok() { format!(" t={}/{}/{}", t1.as_micros(), t2.as_micros(), t0.elapsed().as_micros()) } else { String::new() };
    Ok(format!("pulls={} ae={} ae2={} cp={} ac={} plain={} vec={} typed={}{}", pulls.join("|"), after_end, after_end2, if cp.is_empty() { "-".into() } else { cp.join("|") }, after_cancel, plain, vec, typed, timing))
}

// ---- two connections pulling the same stream id: the `next` that is already queued behind the
// `next` that delivers the final chunk must get an error, not a second end marker
fn run_dup(data: Vec<u8>, n: u64) -> Result<String, String> {
    use repe::value_stream::{ROUTE_NEXT, ROUTE_OPEN};
    type Gate = Arc<(Mutex<bool>, std::sync::Condvar)>;
    let gate: Gate = Arc::new((Mutex::new(false), std::sync::Condvar::new()));
    let (pg, payload) = (gate.clone(), Arc::new(data));
    // the producer stages the whole payload (at most one chunk: nothing is emitted yet) and waits
    let router = Router::new().with_writer_stream(BodyFormat::RawBinary, move |resource: &str| {
        let (gate, payload) = (pg.clone(), payload.clone());
        (resource == "gated").then_some(move |w: &mut dyn Write| -> io::Result<()> {
            w.write_all(&payload)?;
            let (m, cv) = &*gate;
            let mut open = m.lock().unwrap();
            let t0 = std::time::Instant::now();
            while !*open && t0.elapsed() < T_WAIT { open = cv.wait_timeout(open, Duration::from_millis(50)).unwrap().0; }
            Ok(())
        })
    }, StreamOpts { chunk_bytes: n as usize, compression: Compression::None, zstd_level: 3, session_depth: 2 });
    let addr = net::start_tcp(router);
    let call = |c: &Client, route: &str, body: &[u8]| c.call_with_formats_and_timeout(route, repe::QueryFormat::JsonPointer as u16, Some(body), BodyFormat::Beve as u16, T_WAIT);
    let next = move |c: Client, id: u64| -> String {
        let body = beve::to_vec(&NextReq { stream_id: id }).unwrap();
        match c.call_with_formats_and_timeout(ROUTE_NEXT, repe::QueryFormat::JsonPointer as u16, Some(&body), BodyFormat::Beve as u16, T_WAIT) {
            Ok(r) if r.header.ec == 0 => format!("c{}:{}", hex(&r.body), (r.query.first().copied() == Some(1)) as u8),
            Ok(r) => format!("e{:x}", r.header.ec),
            Err(repe::RepeError::ServerError { .. }) => "e".into(),
            Err(e) => format!("x{}", clean(e.to_string())),
        }
    };
    let a = Client::connect(addr).map_err(|e| format!("connect:{e}"))?;
    let b = Client::connect(addr).map_err(|e| format!("connect:{e}"))?;
    let ob = beve::to_vec(&OpenReq { resource: "gated".into() }).unwrap();
    let open: OpenResp = beve::from_slice(&call(&a, ROUTE_OPEN, &ob).map_err(|e| format!("open:{e}"))?.body).map_err(|e| format!("open-decode:{e}"))?;
    let id = open.stream_id;
    let _ = (open.version, open.format, open.compression);
    let nx = next.clone();
    let ta = std::thread::spawn(move || nx(a, id));
    std::thread::sleep(Duration::from_millis(150));   // A is parked in the session, waiting for the first chunk
    let tb = std::thread::spawn(move || next(b, id));
    std::thread::sleep(Duration::from_millis(150));   // B is queued behind A
    { let (m, cv) = &*gate; *m.lock().unwrap() = true; cv.notify_all(); }
    let ra = ta.join().map_err(|_| "join-a".to_string())?;
    let rb = tb.join().map_err(|_| "join-b".to_string())?;
    Ok(format!("dupa={ra} dupb={rb}"))
}

// ---- harness-only case kinds: the same producers and pullers, driven differently (several
// consumers at once, a cancel while a `next` is parked, a puller whose decoder stops early)
type Gate = Arc<(Mutex<bool>, std::sync::Condvar)>;
fn gate_new() -> Gate { Arc::new((Mutex::new(false), std::sync::Condvar::new())) }
fn gate_wait(g: &Gate) {
    let (m, cv) = &**g;
    let mut open = m.lock().unwrap_or_else(|e| e.into_inner());
    let t0 = std::time::Instant::now();
    while !*open && t0.elapsed() < T_WAIT { open = cv.wait_timeout(open, Duration::from_millis(50)).unwrap_or_else(|e| e.into_inner()).0; }
}
/// opens the gate when dropped: no producer stays behind on an early return
struct GateOpener(Gate);
impl GateOpener { fn open(&self) { let (m, cv) = &*self.0; *m.lock().unwrap_or_else(|e| e.into_inner()) = true; cv.notify_all(); } }
impl Drop for GateOpener { fn drop(&mut self) { self.open(); } }

/// a connection attempt repeated a few times (other checks churn through the loopback ports)
fn retry<T, E: ToString>(mut f: impl FnMut() -> Result<T, E>) -> Result<T, String> {
    let mut last = String::new();
    for k in 0..6u64 { match f() { Ok(x) => return Ok(x), Err(e) => last = e.to_string() } std::thread::sleep(Duration::from_millis(100 * (k + 1))); }
    Err(format!("connect:{}", clean(last)))
}
fn ws_client(addr: std::net::SocketAddr) -> Result<WebSocketClient, String> {
    let url = format!("ws://{addr}/repe");
    retry(|| net::runtime().block_on(async { match tokio::time::timeout(T_WAIT, WebSocketClient::connect(&url)).await { Ok(r) => r.map_err(|e| e.to_string()), Err(_) => Err("timeout".to_string()) } }))
}
fn async_client(addr: std::net::SocketAddr) -> Result<AsyncClient, String> {
    retry(|| net::runtime().block_on(async { match tokio::time::timeout(T_WAIT, AsyncClient::connect(addr)).await { Ok(r) => r.map_err(|e| e.to_string()), Err(_) => Err("timeout".to_string()) } }))
}

// conc=K: K consumers, each on its own connection, pull K DIFFERENT resources of one server at the
// same moment (a barrier before every round); every pull is an ordinary pull of its own resource
fn run_conc(f: &HashMap<String, String>) -> Result<String, String> {
    let g = |k: &str| f.get(k).and_then(|s| ph(s));
    let (Some(k), Some(rounds), Some(pull), Some(n), Some(d), Some(z), Some(kind), Some(len)) = (g("conc"), g("rounds"), g("pull"), g("n"), g("d"), g("z"), g("kind"), g("len")) else { return Err("badcase:conc-parse".into()) };
    let data = unhex(f.get("data").ok_or("badcase:conc-parse")?);
    let (k, len) = (k as usize, len as usize);
    if k == 0 || k > 16 || rounds == 0 || rounds > 4096 || n == 0 || pull > 2 || !(3..=4).contains(&kind) || data.len() != k * len { return Err("badcase:conc-range".into()); }
    let sv = servers((kind, 0, n, d, z != 0))?;
    let barrier = Arc::new(std::sync::Barrier::new(k));
    let handles: Vec<_> = (0..k).map(|j| {
        let mine = data[j * len..(j + 1) * len].to_vec();
        let (barrier, sv) = (barrier.clone(), sv.clone());
        std::thread::spawn(move || -> (u64, Vec<String>) {
            let res = format!("b:{}:-:-:0:err", hex(&mine));
            let want = format!("ok:{}", hex(&mine));
            // blocking and async consumers keep their connection; a WebSocket consumer connects anew
            // before each round (see high_level: a reused one delays the open by ~40 ms)
            let cl = if pull == 0 { Some(retry(|| Client::connect(sv.tcp))) } else { None };
            let acl = if pull == 1 { Some(async_client(sv.tcp)) } else { None };
            let (mut bad, mut seen) = (0u64, Vec::<String>::new());
            for _ in 0..rounds {
                let wcl = if pull == 2 { Some(ws_client(sv.ws)) } else { None };
                barrier.wait();
                let r = match guard(std::panic::AssertUnwindSafe(|| match pull {
                    0 => match cl.as_ref().unwrap() { Ok(cl) => hl(Some(repe::pull_to_vec(cl, &res).map_err(|e| e.to_string()))), Err(e) => format!("err:{e}") },
                    1 => match acl.as_ref().unwrap() { Err(e) => format!("err:{e}"), Ok(cl) => net::runtime().block_on(async {
                        match tokio::time::timeout(T_WAIT, repe::pull_to_vec_async(cl, &res)).await { Err(_) => hl(None), Ok(r) => hl(Some(r.map_err(|e| e.to_string()))) } }) },
                    _ => match wcl.as_ref().unwrap() { Err(e) => format!("err:{e}"), Ok(cl) => net::runtime().block_on(async {
                        match tokio::time::timeout(T_WAIT, repe::pull_to_vec_async(cl, &res)).await { Err(_) => hl(None), Ok(r) => hl(Some(r.map_err(|e| e.to_string()))) } }) },
                })) { Ok(r) => r, Err(()) => "err:panic".to_string() };
                if r != want { bad += 1; }
                if !seen.contains(&r) && (seen.len() < 4 || r == want) { seen.push(r); }
            }
            (bad, seen)
        })
    }).collect();
    let mut out = Vec::new(); let mut bad = 0u64;
    for (j, h) in handles.into_iter().enumerate() {
        let (b, seen) = h.join().map_err(|_| "conc-join".to_string())?;
        bad += b;
        out.push(format!("r{j}={}", seen.join("|")));
    }
    Ok(format!("bad={} {}", hx(bad), out.join(" ")))
}

// park=1: a `cancel` (request form, acknowledged) arrives while an earlier `next` of the same stream
// is parked on a producer that waits at a gate after `g` bytes; then the gate opens.  TCP: the cancel
// comes from a second connection; WebSocket: from the same one (`next` runs off the reader)
fn run_park(c: &Case, g: usize) -> Result<String, String> {
    if g > c.data.len() || c.kind != 4 || c.z || c.f != "-" || c.w != "-" { return Err("badcase:park".into()); }
    let gate = gate_new();
    let opener = GateOpener(gate.clone());
    let (pg, payload) = (gate.clone(), Arc::new(c.data.clone()));
    let router = Router::new().with_writer_stream(BodyFormat::RawBinary, move |_resource: &str| {
        let (gate, payload) = (pg.clone(), payload.clone());
        Some(move |w: &mut dyn Write| -> io::Result<()> {
            w.write_all(&payload[..g])?; w.flush()?;
            gate_wait(&gate);
            w.write_all(&payload[g..])
        })
    }, opts(c.n, c.d, false));
    // the chunks the producer emits before the gate: all but the last are delivered at once, the
    // `next` after them has to wait for the lookahead
    let emitted = g / c.n as usize;
    let npre = emitted.saturating_sub(1);
    let mut pre = Vec::new();
    let (r1, later) = if c.pull == 2 {
        let addr = net::start_ws(repe::WebSocketServer::new(router));
        let mut p = RawPeer { raw: Raw::Ws(retry(|| RawWs::connect(addr))?), id: 100 };
        let sid = p.open(c)?;
        for _ in 0..npre { pre.push(p.next(sid)?); }
        let idn = p.post("/_svs/next", beve::to_vec(&NextReq { stream_id: sid }).map_err(|e| e.to_string())?)?;
        std::thread::sleep(Duration::from_millis(300));   // the `next` is parked in the session
        let idc = p.post("/_svs/cancel", beve::to_vec(&CancelReq { stream_id: sid, reason: "harness".into() }).map_err(|e| e.to_string())?)?;
        let mut r1 = None;
        loop {
            let r = p.take()?;
            if r.id == idc { if r.ec != 0 { return Err(format!("cancel-ec:{}", r.ec)); } break; }
            if r.id != idn || r1.is_some() { return Err(format!("response-id:{}", r.id)); }
            r1 = Some(rs(&r)?);
        }
        opener.open();
        let r1 = match r1 { Some(r) => r, None => { let r = p.take()?; if r.id != idn { return Err(format!("response-id:{}", r.id)); } rs(&r)? } };
        let mut later = Vec::new();
        for _ in 0..3 { later.push(p.next(sid)?); }
        (r1, later)
    } else {
        let addr = net::start_tcp(router);
        let mut a = RawPeer { raw: Raw::Tcp(retry(|| RawTcp::connect(addr))?), id: 100 };
        let mut b = RawPeer { raw: Raw::Tcp(retry(|| RawTcp::connect(addr))?), id: 500 };
        let sid = a.open(c)?;
        for _ in 0..npre { pre.push(a.next(sid)?); }
        let ta = std::thread::spawn(move || { let r = a.next(sid); (a, r) });
        std::thread::sleep(Duration::from_millis(300));   // A's `next` is parked in the session
        b.cancel(sid)?;
        opener.open();
        let (mut a, r1) = ta.join().map_err(|_| "join-a".to_string())?;
        let r1 = r1?;
        let mut later = Vec::new();
        for _ in 0..3 { later.push(a.next(sid)?); }
        later.push(b.next(sid)?);
        (r1, later)
    };
    Ok(format!("pre={} parked={} later={}", if pre.is_empty() { "-".into() } else { pre.join("|") }, r1, later.join("|")))
}

// rel=1: the stream of a HIGH-LEVEL puller (pull_to_vec over Client / AsyncClient / WebSocketClient) is
// released in the middle of the pull: the producer emits g bytes and waits at a gate; once it is
// parked (and `lag` ms later, so that the puller has drained what there is and its following `next`
// is parked or about to be sent) a SECOND connection sends request-form cancels for the stream
// (a fresh server: the stream has id 1; ids 1..3 are covered), waits for the acknowledgements, asks
// for a `next` of id 1 itself and only then opens the gate.  At least two chunks of the stream do
// not exist yet when the release is acknowledged, so the puller needs a `next` after the release.
fn run_rel(c: &Case, g: usize, lag: u64) -> Result<String, String> {
    let n = c.n as usize;
    if c.kind != 4 || c.z || c.f != "-" || c.w != "-" || lag > 2000 || g > c.data.len() || c.data.len() < g + 2 * n { return Err("badcase:rel".into()); }
    let gate = gate_new();
    let opener = GateOpener(gate.clone());
    let parked = gate_new();
    let (pg, pp, payload) = (gate.clone(), parked.clone(), Arc::new(c.data.clone()));
    let router = Router::new().with_writer_stream(BodyFormat::RawBinary, move |_resource: &str| {
        let (gate, parked, payload) = (pg.clone(), pp.clone(), payload.clone());
        Some(move |w: &mut dyn Write| -> io::Result<()> {
            w.write_all(&payload[..g])?; w.flush()?;
            GateOpener(parked).open();
            gate_wait(&gate);
            w.write_all(&payload[g..])
        })
    }, opts(c.n, c.d, false));
    let res = resource(c);
    let addr = if c.pull == 2 { net::start_ws(repe::WebSocketServer::new(router)) } else { net::start_tcp(router) };
    // the puller, on its own thread / task, reports through a channel
    let (tx, rx) = std::sync::mpsc::channel::<String>();
    match c.pull {
        0 => {
            let cl = retry(|| Client::connect(addr))?;
            std::thread::spawn(move || { let _ = tx.send(hl(Some(repe::pull_to_vec(&cl, &res).map_err(|e| e.to_string())))); });
        }
        1 => {
            let cl = async_client(addr)?;
            net::runtime().spawn(async move {
                let r = match tokio::time::timeout(T_WAIT, repe::pull_to_vec_async(&cl, &res)).await { Err(_) => hl(None), Ok(r) => hl(Some(r.map_err(|e| e.to_string()))) };
                let _ = tx.send(r);
            });
        }
        _ => {
            let cl = ws_client(addr)?;
            net::runtime().spawn(async move {
                let r = match tokio::time::timeout(T_WAIT, repe::pull_to_vec_async(&cl, &res)).await { Err(_) => hl(None), Ok(r) => hl(Some(r.map_err(|e| e.to_string()))) };
                let _ = tx.send(r);
            });
        }
    }
    // the producer is parked at the gate: the stream is open and g bytes are on their way
    { let (m, cv) = &*parked; let mut p = m.lock().unwrap_or_else(|e| e.into_inner()); let t0 = std::time::Instant::now();
      while !*p { if t0.elapsed() >= T_WAIT { return Err("rel:producer-never-parked".into()); } p = cv.wait_timeout(p, Duration::from_millis(50)).unwrap_or_else(|e| e.into_inner()).0; } }
    std::thread::sleep(Duration::from_millis(lag));
    let mut b = if c.pull == 2 { RawPeer { raw: Raw::Ws(retry(|| RawWs::connect(addr))?), id: 500 } } else { RawPeer { raw: Raw::Tcp(retry(|| RawTcp::connect(addr))?), id: 500 } };
    for sid in 1..=3u64 { b.cancel(sid)?; }
    let ac = b.next(1)?;
    opener.open();
    let vec = rx.recv_timeout(T_WAIT + Duration::from_secs(2)).unwrap_or_else(|_| "timeout".into());
    Ok(format!("vec={vec} ac={ac}"))
}

// early=<mode>: a puller whose decoder is done long before the stream ends (1: the wrong element
// type, rejected at the header; 2: a consumer that reads a 10-byte prefix; 3: a consumer that fails
// without reading).  The puller has returned, so the stream is released: raw `next` requests over the
// same connection (a fresh server: the stream has id 1) must be errors
fn probe_fmt(r: Result<repe::Message, repe::RepeError>) -> Result<String, String> {
    match r {
        Ok(m) if m.header.ec == 0 => Ok(format!("c{}.{}", (m.query.first().copied() == Some(1)) as u8, hex(&m.body))),
        Ok(m) => Ok(format!("e.{}", hx(m.header.ec as u64))),
        Err(repe::RepeError::ServerError { code, .. }) => Ok(format!("e.{}", hx(code as u32 as u64))),
        Err(e) => Err(format!("probe:{}", clean(e.to_string()))),
    }
}
fn outcome<T>(r: &Result<T, repe::RepeError>) -> String { match r { Ok(_) => "ok".into(), Err(e) => format!("err:{}", clean(e.to_string())) } }
fn bail() -> repe::RepeError { repe::RepeError::Io(io::Error::other("the consumer gives up")) }
const EARLY_PROBES: u64 = 3;

fn run_early(c: &Case, mode: u64) -> Result<String, String> {
    use repe::value_stream::ROUTE_NEXT;
    if c.kind <= 2 && value_bytes(c.kind, c.el, c.vm as usize, c.vs) != c.data { return Err("badcase:data-is-not-the-value".into()); }
    if !(1..=3).contains(&mode) || c.f != "-" { return Err("badcase:early".into()); }
    let router = build_router(c.kind, c.el, c.n, c.d, c.z);
    let res = resource(c);
    let (kind, el) = (c.kind, c.el);
    let want = c.data.len().min(10);
    let (qf, bf) = (repe::QueryFormat::JsonPointer as u16, BodyFormat::Beve as u16);
    let nb = |id: u64| beve::to_vec(&NextReq { stream_id: id }).unwrap();
    async fn early_async<C: repe::AsyncSvsClient>(cl: &C, res: &str, kind: u64, el: u64, mode: u64, want: usize) -> (String, String) {
        let fut = async {
            match mode {
                1 => (match (kind, el) {
                    (1, 1) => outcome(&repe::pull_typed_slice_async::<i32, _>(cl, res).await),
                    (1, _) => outcome(&repe::pull_typed_slice_async::<f64, _>(cl, res).await),
                    _ => outcome(&repe::pull_typed_slice_async::<i32, _>(cl, res).await),
                }, "-".to_string()),
                2 => { let r = repe::pull_consume_async(cl, res, move |mut r: Box<dyn Read>| { let mut h = vec![0u8; want]; r.read_exact(&mut h)?; Ok(h) }).await;
                       (outcome(&r), r.map(|h| hex(&h)).unwrap_or_else(|_| "-".into())) }
                _ => (outcome(&repe::pull_consume_async(cl, res, |_r: Box<dyn Read>| Err::<(), _>(bail())).await), "-".to_string()),
            }
        };
        match tokio::time::timeout(T_WAIT, fut).await { Ok(x) => x, Err(_) => ("timeout".into(), "-".into()) }
    }
    let (got, pre, probes) = match c.pull {
        0 => {
            let addr = net::start_tcp(router);
            let cl = retry(|| Client::connect(addr))?;
            let (got, pre) = match mode {
                1 => (match (kind, el) {
                    (1, 1) => outcome(&repe::pull_typed_slice::<i32>(&cl, &res)),
                    (1, _) => outcome(&repe::pull_typed_slice::<f64>(&cl, &res)),
                    _ => outcome(&repe::pull_typed_slice::<i32>(&cl, &res)),
                }, "-".to_string()),
                2 => { let r = repe::pull_consume(&cl, &res, |r: &mut dyn Read| { let mut h = vec![0u8; want]; r.read_exact(&mut h)?; Ok(h) });
                       (outcome(&r), r.map(|h| hex(&h)).unwrap_or_else(|_| "-".into())) }
                _ => (outcome(&repe::pull_consume(&cl, &res, |_r: &mut dyn Read| Err::<(), _>(bail()))), "-".to_string()),
            };
            let mut probes = Vec::new();
            for id in 1..=EARLY_PROBES { probes.push(probe_fmt(cl.call_with_formats_and_timeout(ROUTE_NEXT, qf, Some(&nb(id)), bf, T_WAIT))?); }
            (got, pre, probes)
        }
        1 => {
            let addr = net::start_tcp(router);
            let cl = async_client(addr)?;
            net::runtime().block_on(async {
                let (got, pre) = early_async(&cl, &res, kind, el, mode, want).await;
                let mut probes = Vec::new();
                for id in 1..=EARLY_PROBES { probes.push(probe_fmt(cl.call_with_formats_and_timeout(ROUTE_NEXT, qf, Some(&nb(id)), bf, T_WAIT).await)?); }
                Ok::<_, String>((got, pre, probes))
            })?
        }
        _ => {
            let addr = net::start_ws(repe::WebSocketServer::new(router));
            let cl = ws_client(addr)?;
            net::runtime().block_on(async {
                let (got, pre) = early_async(&cl, &res, kind, el, mode, want).await;
                let mut probes = Vec::new();
                for id in 1..=EARLY_PROBES { probes.push(probe_fmt(cl.call_with_formats_and_timeout(ROUTE_NEXT, qf, Some(&nb(id)), bf, T_WAIT).await)?); }
                Ok::<_, String>((got, pre, probes))
            })?
        }
    };
    if got == "timeout" { return Err("puller-timeout".into()); }
    Ok(format!("got={} prefix={} probes={}", got, pre, probes.join("|")))
}

fn run_case(line: &str) -> String {
    let f = fields(line);
    if f.get("dup").map(|d| d == "1").unwrap_or(false) {
        let (data, n) = (unhex(&f["data"]), ph(&f["n"]).unwrap_or(0));
        if n == 0 || data.len() as u64 > n { return "crash=badcase:dup".into(); }
        return match guard(move || run_dup(data, n)) { Ok(Ok(o)) => o, Ok(Err(e)) => format!("crash={}", clean(e)), Err(()) => "crash=panic".into() };
    }
    if f.contains_key("conc") {
        let f2 = f.clone();
        return match guard(move || run_conc(&f2)) { Ok(Ok(o)) => o, Ok(Err(e)) => format!("crash={}", clean(e)), Err(()) => "crash=panic".into() };
    }
    let parsed = (|| -> Option<Case> {
        let g = |k: &str| ph(f.get(k)?);
        Some(Case { kind: g("kind")?, el: g("el")?, pull: g("pull")?, n: g("n")?, d: g("d")?, z: g("z")? != 0, data: unhex(f.get("data")?), w: f.get("w")?.clone(), f: f.get("f")?.clone(), fk: f.get("fk").cloned().unwrap_or_else(|| "err".into()), cj: g("cj")?, slp: g("slp")?, vm: g("vm")?, vs: g("vs")? })
    })();
    let Some(c) = parsed else { return "crash=badcase:parse".into() };
    if c.n == 0 || c.kind > 4 || c.pull > 2 || !["err", "panic", "eof", "pipe", "reset", "inval"].contains(&c.fk.as_str()) { return "crash=badcase:range".into(); }
    let special: Option<Box<dyn FnOnce(&Case) -> Result<String, String> + std::panic::UnwindSafe>> =
        if f.get("park").map(|p| p == "1").unwrap_or(false) { let g = f.get("g").and_then(|s| ph(s)).unwrap_or(0) as usize; Some(Box::new(move |c: &Case| run_park(c, g))) }
        else if f.get("rel").map(|p| p == "1").unwrap_or(false) { let g = f.get("g").and_then(|s| ph(s)).unwrap_or(0) as usize; let lag = f.get("lag").and_then(|s| ph(s)).unwrap_or(0); Some(Box::new(move |c: &Case| run_rel(c, g, lag))) }
        else if let Some(mode) = f.get("early").and_then(|s| ph(s)) { Some(Box::new(move |c: &Case| run_early(c, mode))) }
        else { None };
    if let Some(run) = special {
        return match guard(move || run(&c)) { Ok(Ok(o)) => o, Ok(Err(e)) => format!("crash={}", clean(e)), Err(()) => "crash=panic".into() };
    }
    static HOOK: std::sync::Once = std::sync::Once::new();
    static LAST: Mutex<String> = Mutex::new(String::new());
    HOOK.call_once(|| std::panic::set_hook(Box::new(|i| { *LAST.lock().unwrap_or_else(|e| e.into_inner()) = i.to_string(); })));
    match guard(move || run_inner(&c)) { Ok(Ok(o)) => o, Ok(Err(e)) => format!("crash={}", clean(e)), Err(()) => format!("crash=panic:{}", clean(LAST.lock().unwrap_or_else(|e| e.into_inner()).as_str())) }
}

// ---- generation
struct Gen { out: Vec<(Key, String)>, k: u64, cross: bool }
impl Gen {
    #[allow(clippy::too_many_arguments)]
    fn push(&mut self, kind: u64, el: u64, n: u64, d: u64, z: bool, data: &[u8], w: &[u64], f: Option<(u64, bool)>, slp: u64, vm: u64, vs: u64) {
        self.k += 1;
        // the puller rotates; the thorough tier runs the small cases over all three
        let pulls: Vec<u64> = if self.cross && data.len() <= 600 { vec![0, 1, 2] } else { vec![self.k % 3] };
        let cj = [0u64, 1, 2, 3, 1, 5][(self.k / 3 % 6) as usize];
        let ws = if w.is_empty() { "-".to_string() } else { w.iter().map(|x| hx(*x)).collect::<Vec<_>>().join(".") };
        for pull in pulls {
            self.out.push(((kind, el, n, d, z), format!("kind={} el={} pull={} n={} d={} z={} data={} w={} f={} fk={} cj={} slp={} vm={} vs={}",
                kind, el, pull, hx(n), hx(d), z as u8, hex(data), ws, f.map(|(k, _)| hx(k)).unwrap_or_else(|| "-".into()), if matches!(f, Some((_, true))) { "panic" } else { ["err", "eof", "pipe", "reset", "inval"][(self.k % 5) as usize] }, hx(cj), hx(slp), hx(vm), hx(vs))));
        }
    }
}

/// the least element count whose serialization has at least `target` bytes
fn find_m(kind: u64, el: u64, target: u64) -> u64 {
    let (mut lo, mut hi) = (0u64, target + 1);
    while lo < hi { let mid = (lo + hi) / 2; if (value_bytes(kind, el, mid as usize, 1).len() as u64) < target { lo = mid + 1; } else { hi = mid; } }
    lo
}

/// payload lengths at every boundary residue of chunk size n, up to 3n+1
fn lengths(n: u64) -> Vec<u64> {
    if n <= 8 { (0..=3 * n + 1).collect() } else { vec![0, 1, n - 1, n, n + 1, 2 * n - 1, 2 * n, 2 * n + 1, 3 * n - 1, 3 * n, 3 * n + 1] }
}

fn gen_cases(seed: u64, thorough: bool) -> Vec<String> {
    let mut rng = Rng::new(seed);
    let mut g = Gen { out: Vec::new(), k: 0, cross: thorough };
    let maxd: u64 = if thorough { 8 } else { 3 };
    let sizes: Vec<u64> = if thorough { vec![1, 2, 3, 7, 8, 64, 4096, 65536] } else { vec![1, 2, 3, 7, 8, 64, 4096] };
    // 1. byte producers: every boundary length x every depth x both compressions
    for &n in &sizes {
        for l in lengths(n) {
            let data = rng.bytes(l as usize);
            for d in 0..=maxd {
                if n >= 65536 && d % 4 != 0 { continue; }
                for z in [false, true] {
                    // the large payloads alternate between the two kinds except at depth 0
                    let kinds: Vec<u64> = if n >= 4096 && d != 0 { vec![3 + (d + l + z as u64) % 2] } else { vec![3, 4] };
                    for kind in kinds { g.push(kind, 0, n, d, z, &data, &[], None, 0, 0, 0); }
                }
            }
        }
    }
    // 1b. the default chunk size (1 MiB), thorough tier only: a handful of boundary payloads
    if thorough {
        let n = 1u64 << 20;
        for (l, d, z, kind) in [(n - 1, 0u64, false, 4u64), (n, 4, false, 3), (n + 1, 0, false, 3), (n + 1, 4, false, 4), (2 * n, 1, false, 4), (n + 1, 4, true, 4)] {
            let data = rng.bytes(l as usize);
            g.push(kind, 0, n, d, z, &data, &[], None, 0, 0, 0);
        }
    }
    // 2. every split of a tiny payload into <= 3 writes
    for n in [1u64, 2, 3] {
        for l in 0..=(if thorough { 8u64 } else { 6 }) {
            let data = rng.bytes(l as usize);
            for a in 0..=l { for b in 0..=(l - a) {
                let d = rng.below(maxd + 1);
                for kind in [3u64, 4] { g.push(kind, 0, n, d, false, &data, &[a, b], None, 0, 0, 0); }
            } }
        }
    }
    // 3. random segmentations (zero-length and overlong writes included)
    let nrand = if thorough { 6000 } else { 400 };
    for _ in 0..nrand {
        let n = *rng.pick(&[1u64, 2, 3, 5, 7, 8, 16, 64, 100]);
        let l = rng.range(0, (n * 40).min(600));
        let data = rng.bytes(l as usize);
        let nw = rng.range(0, 12);
        let w: Vec<u64> = (0..nw).map(|_| match rng.below(5) { 0 => 0, 1 => n, 2 => rng.range(0, 3 * n + 2), _ => rng.range(0, l / 2 + 2) }).collect();
        let f = if rng.chance(1, 4) { Some((rng.range(0, l), rng.chance(1, 2))) } else { None };
        g.push(rng.range(3, 4), 0, n, rng.below(maxd + 1), rng.chance(1, 3), &data, &w, f, 0, 0, 0);
    }
    // 4. failure points at every chunk boundary +-1, as a returned error and as a panic of the body writer
    for n in [1u64, 2, 3, 8, 64] {
        for l in [n + 1, 2 * n, 3 * n + 1] {
            let data = rng.bytes(l as usize);
            let mut ks: Vec<u64> = vec![0, 1, l];
            for q in 1..=3u64 { for dlt in [-1i64, 0, 1] { let k = (q * n) as i64 + dlt; if k >= 0 && k as u64 <= l { ks.push(k as u64); } } }
            ks.sort(); ks.dedup();
            for k in ks { for z in [false, true] { for kind in [3u64, 4] {
                let d = if thorough { rng.below(maxd + 1) } else { g.k % (maxd + 1) };
                let w: Vec<u64> = if g.k % 4 == 0 { vec![rng.range(0, n + 1), rng.range(0, n + 1)] } else { vec![] };
                for panic in [false, true] {
                    g.push(kind, 0, n, d, z, &data, &w, Some((k, panic)), 0, 0, 0);
                    if thorough { for d2 in [0, maxd] { g.push(kind, 0, n, d2, z, &data, &w, Some((k, panic)), 0, 0, 0); } }
                }
            } } }
        }
    }
    // 4b. a large incompressible payload through the compressing producers, handed over as 3 bytes
    // and then the rest (the compressor sees pieces that do not line up with its own block size)
    for kind in [3u64, 4] { let data = rng.bytes(300_003); g.push(kind, 0, 4096, 2, true, &data, &[3], None, 0, 0, 0); }
    // 5. producer and consumer slowed by random sleeps
    for i in 0..(if thorough { 200 } else { 40 }) {
        let n = *rng.pick(&[1u64, 2, 3, 8]);
        let l = rng.range(0, 5 * n + 1);
        let data = rng.bytes(l as usize);
        let w: Vec<u64> = (0..rng.range(0, 6)).map(|_| rng.range(0, n + 1)).collect();
        let f = if i % 5 == 4 { Some((rng.range(0, l), i % 10 == 9)) } else { None };
        g.push(rng.range(3, 4), 0, n, rng.below(maxd + 1), rng.chance(1, 3), &data, &w, f, rng.range(1, 1 << 30), 0, 0);
    }
    // 6. the BEVE producers: element counts whose serialization lands on and around
    //    the chunk boundaries (the length is monotone in the element count)
    for (kind, el) in [(0u64, 0u64), (1, 0), (1, 1), (2, 0)] {
        for &n in sizes.iter().filter(|n| **n <= 4096) {
            let mut ms: Vec<u64> = (0..=(2 * n + 1).min(12)).collect();
            if n >= 7 { for t in lengths(n) { let m = find_m(kind, el, t); ms.push(m); if m > 0 { ms.push(m - 1); } } }
            ms.sort(); ms.dedup();
            for m in ms {
                let vs = rng.range(1, 1 << 20);
                let data = value_bytes(kind, el, m as usize, vs);
                if data.len() as u64 / n > 400 { continue; }
                for z in [false, true] {
                    if thorough { for d in 0..=maxd { if d <= 1 || d == maxd || rng.chance(1, 4) { g.push(kind, el, n, d, z, &data, &[], None, 0, m, vs); } } }
                    else { let d = g.k % (maxd + 1); g.push(kind, el, n, d, z, &data, &[], None, 0, m, vs); }
                }
            }
        }
    }
    // consecutive cases share their servers and connections: group by configuration, spread
    // the configurations so that every shard (index modulo the shard count) sees few of them
    g.out.sort_by_key(|(k, _)| *k);
    let mut lines: Vec<String> = g.out.into_iter().enumerate().map(|(i, (_, c))| format!("i={i} {c}")).collect();
    // the stream ends once also for a second connection whose `next` is queued behind the final one
    for (len, n) in [(10u64, 1024u64), (0, 16), (16, 16), (1, 1)] {
        let i = lines.len();
        lines.push(format!("i={i} dup=1 data={} n={}", hex(&rng.bytes(len as usize)), hx(n)));
    }
    // several consumers, one connection each, pull different resources of one server at the same
    // moment, round after round: (consumers, rounds, puller, n, depth, zstd, kind, payload length)
    let rf = if thorough { 5 } else { 1 };
    for (k, rounds, pull, n, d, z, kind, len) in [(4u64, 40u64, 0u64, 64u64, 2u64, false, 3u64, 200u64), (4, 40, 1, 64, 1, false, 4, 200), (4, 25, 2, 64, 2, false, 3, 150),
                                                  (6, 40, 0, 4096, 2, true, 4, 6000), (3, 40, 1, 8, 0, false, 3, 20), (8, 30, 0, 1, 3, false, 4, 3), (5, 25, 2, 8, 1, true, 4, 100)] {
        let i = lines.len();
        lines.push(format!("i={i} conc={} rounds={} pull={pull} n={} d={} z={} kind={kind} el=0 len={} data={} w=- f=- slp=0",
            hx(k), hx(rounds * rf), hx(n), hx(d), z as u8, hx(len), hex(&rng.bytes((k * len) as usize))));
    }
    // a cancel that arrives while an earlier `next` is parked on a producer waiting at a gate
    // after g bytes: (n, depth, chunks, g)
    for (n, d, chunks, g) in [(8u64, 1u64, 12u64, 8u64), (8, 1, 12, 0), (8, 2, 12, 4), (8, 1, 12, 16), (8, 0, 6, 16), (64, 0, 5, 64), (1, 2, 9, 3), (16, 3, 8, 40)] {
        for pull in [0u64, 2] {
            let i = lines.len();
            let npre = (g / n).saturating_sub(1);
            lines.push(format!("i={i} park=1 g={} kind=4 el=0 pull={pull} n={} d={} z=0 data={} w=- f=- fk=err cj={} slp=0 vm=0 vs=0",
                hx(g), hx(n), hx(d), hex(&rng.bytes((n * chunks) as usize)), hx(npre + 1)));
        }
    }
    // pullers whose decoder is done long before the stream ends: (mode, kind, el, n, depth, elements / bytes)
    for (mode, kind, el, n, d, m) in [(1u64, 1u64, 1u64, 64u64, 2u64, 3200u64), (1, 1, 0, 16, 1, 1000), (1, 0, 0, 16, 0, 800), (1, 2, 0, 32, 2, 200), (1, 3, 0, 16, 2, 800),
                                      (2, 3, 0, 16, 2, 1024), (2, 4, 0, 8, 1, 480), (2, 1, 1, 64, 3, 800), (2, 0, 0, 16, 1, 700), (3, 3, 0, 16, 0, 640), (3, 0, 0, 32, 2, 1500), (3, 4, 0, 8, 2, 333)] {
        let vs = rng.range(1, 1 << 20);
        let data = if kind <= 2 { value_bytes(kind, el, m as usize, vs) } else { rng.bytes(m as usize) };
        for pull in [0u64, 1, 2] {
            let i = lines.len();
            lines.push(format!("i={i} early={mode} kind={kind} el={el} pull={pull} n={} d={} z=0 data={} w=- f=- fk=err cj=0 slp=0 vm={} vs={}",
                hx(n), hx(d), hex(&data), hx(if kind <= 2 { m } else { 0 }), hx(if kind <= 2 { vs } else { 0 })));
        }
    }
    // a stream released from a second connection in the middle of a high-level pull (blocking / async /
    // WebSocket pull_to_vec), the producer waiting at a gate after g bytes: (n, depth, chunks, g, lag ms)
    for (n, d, chunks, g, lag) in [(8u64, 1u64, 12u64, 24u64, 200u64), (8, 0, 12, 8, 200), (64, 2, 8, 192, 0), (256, 1, 7, 768, 150), (1, 2, 9, 3, 200), (16, 3, 10, 40, 0), (4096, 1, 5, 8192, 200), (8, 2, 6, 0, 100)] {
        for pull in [0u64, 1, 2] {
            let i = lines.len();
            lines.push(format!("i={i} rel=1 g={} lag={} kind=4 el=0 pull={pull} n={} d={} z=0 data={} w=- f=- fk=err cj=0 slp=0 vm=0 vs=0",
                hx(g), hx(lag), hx(n), hx(d), hex(&rng.bytes((n * chunks + n / 2) as usize))));
        }
    }
    lines
}

fn main() {
    let cases = if no_gen() { vec![] } else { gen_cases(seed(), is_thorough()) };
    isolated_main(cases, run_case, Duration::from_secs(60));
}
